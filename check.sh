#!/bin/sh
# ./check.sh <Cxx> quick|thorough [--replay <path>]
cd "$(dirname "$0")" || exit 2
exec python3 check.py "$@"
