#!/usr/bin/env python3
"""
./check.sh <Cxx> quick|thorough [--replay <path>]

Decides one property:
  1. regenerate NexoVerif/Extracted.lean from /repo's current source (extract/extract.py);
  2. `lake build` the property's theorem module + the model driver; audit the proofs
     (no sorry/admit/axiom/native_decide/..., `#print axioms` of every property theorem);
  3. rebuild the Rust harness against /repo's working tree (hooks on: --cfg nexosim_verif);
  4. run the correspondence check(s) (real code vs. executable Lean model, same request lines);
  5. verdict, evidence/<id>.json, replays/.
Exit 0: property held on everything explored.  Exit 1 + `VIOLATION property=<id> replay=<path>`.
Exit 2: infrastructure error (never a VIOLATION line).
"""
import fcntl
import hashlib
import json
import os
import re
import shutil
import subprocess
import sys
import time

ROOT = os.path.dirname(os.path.abspath(__file__))
LEAN = os.path.join(ROOT, "lean")
HARNESS = os.path.join(ROOT, "harness")
CACHE = os.path.join(ROOT, ".cache")
REPO = os.environ.get("VERIF_REPO", "/repo")
DRIVER = os.path.join(LEAN, ".lake", "build", "bin", "nexo_driver")
HARNESS_BIN = os.path.join(CACHE, "target", "release", "nexo_harness")

sys.path.insert(0, ROOT)
from props_config import PROPS, TRUSTED_BASE_COMMON  # noqa: E402

ALLOWED_AXIOMS = {"propext", "Classical.choice", "Quot.sound"}
# The one declared exception (DESIGN 10.9): the bit-vector lemmas of M-STEAL are discharged by `bv_decide` in ONE
# file; the native axioms it introduces are accepted for exactly the two C04 theorems that rest on them.
BV_MODULE = "NexoVerif.Lemmas.StealBV"
BV_THEOREMS = {"NexoVerif.Steal.find_bit_returns_the_set_bit_of_the_requested_rank",
               "NexoVerif.Steal.first_steal_candidate_is_a_candidate",
               "NexoVerif.Steal.first_candidate_becomes_the_lsb_of_the_rotated_set"}
BV_AXIOM = re.compile(r"^NexoVerif\.Steal\.(findBit_spec|popCount_eq|popCount_ne_zero|popCount_le|rotate_spec)\._native\.bv_decide\.ax_\d+_\d+$")
FORBIDDEN = re.compile(r"\b(sorry|admit|native_decide|bv_decide|implemented_by|unsafe)\b|^\s*axiom\s|maxHeartbeats\s+0")


def sh(cmd, cwd=None, env=None, timeout=None):
    e = dict(os.environ)
    e.update({"CARGO_NET_OFFLINE": "true"})
    if env:
        e.update(env)
    p = subprocess.run(cmd, cwd=cwd, env=e, stdout=subprocess.PIPE, stderr=subprocess.STDOUT, text=True, timeout=timeout)
    return p.returncode, p.stdout


class Lock:
    def __init__(self, name):
        os.makedirs(CACHE, exist_ok=True)
        self.f = open(os.path.join(CACHE, name + ".lock"), "w")

    def __enter__(self):
        fcntl.flock(self.f, fcntl.LOCK_EX)

    def __exit__(self, *a):
        fcntl.flock(self.f, fcntl.LOCK_UN)


def strip_comments(src):
    # remove /- ... -/ (nested) and -- comments
    out, depth, i = [], 0, 0
    while i < len(src):
        if src.startswith("/-", i):
            depth += 1
            i += 2
        elif depth and src.startswith("-/", i):
            depth -= 1
            i += 2
        elif depth:
            if src[i] == "\n":
                out.append("\n")
            i += 1
        elif src.startswith("--", i):
            while i < len(src) and src[i] != "\n":
                i += 1
        else:
            out.append(src[i])
            i += 1
    return "".join(out)


def theorem_names(path):
    """Fully qualified names of the theorems declared in a Props file."""
    src = strip_comments(open(path).read())
    ns, names = [], []
    for line in src.splitlines():
        m = re.match(r"\s*namespace\s+(\S+)", line)
        if m:
            ns.append(m.group(1))
            continue
        m = re.match(r"\s*end\s+(\S+)", line)
        if m and ns and ns[-1] == m.group(1):
            ns.pop()
            continue
        m = re.match(r"\s*(?:@\[[^\]]*\]\s*)?(private\s+)?theorem\s+(\S+)", line)
        if m and not m.group(1):
            names.append(".".join(ns + [m.group(2)]))
    return names


def lean_files_of(modules):
    """Transitive closure of project-local imports of the given modules → file paths."""
    seen, todo = [], list(modules)
    while todo:
        m = todo.pop()
        if m in seen:
            continue
        p = os.path.join(LEAN, m.replace(".", "/") + ".lean")
        if not os.path.exists(p):
            continue
        seen.append(m)
        for line in open(p):
            mm = re.match(r"\s*import\s+(\S+)", line)
            if mm and (mm.group(1).startswith("NexoVerif") or mm.group(1).startswith("Driver")):
                todo.append(mm.group(1))
    return [(m, os.path.join(LEAN, m.replace(".", "/") + ".lean")) for m in seen]


def build_proofs(pid, cfg, tier):
    """Returns dict(obligations, discharged, failed=[names], log, axioms={name: [..]}, infra_error)."""
    res = {"obligations": 0, "discharged": 0, "failed": [], "log": "", "axioms": {}, "infra_error": None,
           "forbidden": []}
    props_mod = cfg["props_module"]
    props_file = os.path.join(LEAN, props_mod.replace(".", "/") + ".lean")
    names = theorem_names(props_file)
    res["obligations"] = len(names)
    res["theorems"] = names
    # textual audit over the property's module closure
    for m, p in lean_files_of([props_mod]):
        src = strip_comments(open(p).read())
        for ln, line in enumerate(src.splitlines(), 1):
            if m == BV_MODULE:
                line = re.sub(r"\bbv_decide\b", "", line)
            if FORBIDDEN.search(line):
                res["forbidden"].append(f"{m}:{ln}: {line.strip()}")
    with Lock("lake"):
        rc0, out0 = sh(["lake", "build", "nexo_driver"], cwd=LEAN, timeout=3000)
        if rc0 != 0:
            res["infra_error"] = "the model driver does not build:\n" + out0[-3000:]
            return res
        rc, out = sh(["lake", "build", props_mod], cwd=LEAN, timeout=3000)
    res["log"] = out[-6000:]
    if rc != 0:
        # which theorems are hit?  map error lines of the Props file to the enclosing theorem;
        # an error in an imported lemma file breaks every theorem of the property.
        errs = re.findall(r"error: (\S+?\.lean):(\d+):\d+", out)
        if not errs:
            res["infra_error"] = "lake build failed without a Lean error location:\n" + out[-2000:]
            return res
        src_lines = open(props_file).read().splitlines()
        failed = set()
        for f, ln in errs:
            if os.path.abspath(os.path.join(LEAN, f)) == os.path.abspath(props_file):
                ln = int(ln)
                for k in range(min(ln, len(src_lines)) - 1, -1, -1):
                    m = re.match(r"\s*theorem\s+(\S+)", src_lines[k])
                    if m:
                        failed.update(n for n in names if n.endswith("." + m.group(1)))
                        break
            else:
                failed.update(names)
                res.setdefault("broken_lemma_files", []).append(f"{f}:{ln}")
        res["failed"] = sorted(failed) or names
        res["discharged"] = len(names) - len(res["failed"])
        return res
    # axiom audit
    os.makedirs(os.path.join(CACHE, "audit"), exist_ok=True)
    audit = os.path.join(CACHE, "audit", f"{pid}_audit.lean")
    with open(audit, "w") as f:
        f.write(f"import {props_mod}\n")
        for n in names:
            f.write(f"#print axioms {n}\n")
    rc, out = sh(["lake", "env", "lean", audit], cwd=LEAN, timeout=1200)
    if rc != 0:
        res["infra_error"] = "axiom audit failed:\n" + out[-2000:]
        return res
    flat = out.replace("\n", " ")
    bad = []
    for n in names:
        m = re.search(r"'" + re.escape(n) + r"' (does not depend on any axioms|depends on axioms: \[([^\]]*)\])", flat)
        if not m:
            bad.append(n)
            continue
        ax = [a.strip() for a in (m.group(2) or "").split(",") if a.strip()]
        res["axioms"][n] = ax
        extra = set(ax) - ALLOWED_AXIOMS
        if n in BV_THEOREMS:
            extra = {a for a in extra if not BV_AXIOM.match(a)}
        if extra:
            bad.append(n)
    if res["forbidden"]:
        bad = names
    res["failed"] = bad
    res["discharged"] = len(names) - len(bad)
    if tier == "thorough":
        mods = [m for m, _ in lean_files_of([props_mod])]
        rc, out = sh(["lake", "env", "leanchecker"] + mods, cwd=LEAN, timeout=3000)
        res["leanchecker_rc"] = rc
        if rc != 0:
            res["failed"] = names
            res["discharged"] = 0
            res["log"] += "\nleanchecker: " + out[-2000:]
    return res


def build_harness():
    with Lock("cargo"):
        lock_src = os.path.join(REPO, "Cargo.lock")
        lock_dst = os.path.join(HARNESS, "Cargo.lock")
        if not os.path.exists(lock_dst):
            shutil.copy(lock_src, lock_dst)
        rc, out = sh(["cargo", "build", "--release", "--offline"], cwd=HARNESS, timeout=3000)
        if rc != 0 and "Cargo.lock" in out:
            shutil.copy(lock_src, lock_dst)
            rc, out = sh(["cargo", "build", "--release", "--offline"], cwd=HARNESS, timeout=3000)
    return rc, out


def run_extract():
    ex = os.path.join(ROOT, "extract", "extract.py")
    if not os.path.exists(ex):
        return 0, ""
    with Lock("lake"):
        return sh([sys.executable, ex, REPO, os.path.join(LEAN, "NexoVerif", "Extracted.lean")])


def load_known():
    p = os.path.join(ROOT, "known_findings.json")
    if not os.path.exists(p):
        return []
    return json.load(open(p)).get("findings", [])


def write_replay(pid, tag, content):
    d = os.path.join(ROOT, "replays")
    os.makedirs(d, exist_ok=True)
    h = hashlib.sha1(content.encode()).hexdigest()[:10]
    p = os.path.join(d, f"{pid}_{tag}_{h}.case")
    with open(p, "w") as f:
        f.write(content)
    return p


def main():
    if len(sys.argv) < 3:
        print(__doc__)
        return 2
    pid, tier = sys.argv[1], sys.argv[2]
    replay = None
    if "--replay" in sys.argv:
        replay = sys.argv[sys.argv.index("--replay") + 1]
    if tier not in ("quick", "thorough"):
        tier = os.environ.get("VERIF_TIER", "quick")
    if pid not in PROPS:
        print(f"ERROR unknown property {pid}")
        return 2
    cfg = PROPS[pid]
    seed = int(os.environ.get("VERIF_SEED", "1"))
    t0 = time.time()
    evidence_path = os.path.join(ROOT, "evidence", f"{pid}.json")
    os.makedirs(os.path.dirname(evidence_path), exist_ok=True)

    rc, out = run_extract()
    extraction_failed = rc != 0
    extract_log = out

    proofs = build_proofs(pid, cfg, tier)
    if proofs["infra_error"]:
        print("ERROR " + proofs["infra_error"])
        return 2

    rc, out = build_harness()
    if rc != 0:
        # Does the crate still compile on its own?  If it does, it is the instrumentation (cfg nexosim_verif hooks, which
        # reach into private fields) that no longer fits the code: the correspondence cannot be run, so the property is no
        # longer shown to hold — a violation without a failing input, the build log being the replay.
        env = {"CARGO_TARGET_DIR": os.path.join(CACHE, "target_plain"), "RUSTFLAGS": ""}
        rc2, out2 = sh(["cargo", "check", "-p", "nexosim", "--offline"], cwd="/repo", timeout=1800, env=env)
        if rc2 != 0:
            print("ERROR the repository does not compile (with or without the verification hooks)\n" + out2[-3000:])
            return 2
        body = (f"# property {pid}: the correspondence cannot be built\n"
                f"# /repo compiles on its own, but not with the verification hooks (--cfg nexosim_verif) the engines of this\n"
                f"# property need: the code the hooks reach into has changed, so model and implementation can no longer be run\n"
                f"# side by side and the theorems of {cfg['props_module']} are no longer known to describe the code\n"
                "# build log (tail)\n" + "\n".join("# " + l for l in out.splitlines()[-60:]) + "\n")
        path = write_replay(pid, "build", body)
        evidence = {"property_id": pid, "tier": tier, "seed": seed, "level": "proof",
                    "coverage": {"obligations": proofs["obligations"], "discharged": proofs["discharged"],
                                 "checker_cmd": f"cd /verif/lean && lake build {cfg['props_module']}",
                                 "trusted_base": TRUSTED_BASE_COMMON + cfg.get("trusted_base", []),
                                 "evaluations": 0, "explanation": "the harness does not build against the current tree with the hooks on; nothing was compared"},
                    "assumptions": cfg.get("assumptions", []), "wall_s": round(time.time() - t0, 2), "violations": 1}
        with open(evidence_path, "w") as f:
            json.dump(evidence, f, indent=1)
        print(f"[{pid}/{tier}] theorems {proofs['discharged']}/{proofs['obligations']} checked; correspondence: the harness does not build with the hooks on")
        print(f"VIOLATION property={pid} replay={os.path.relpath(path, ROOT)} no-failing-input-found")
        return 1
    if not os.path.exists(DRIVER):
        print("ERROR model driver missing: " + DRIVER)
        return 2

    # correspondence
    reports = []
    for eng in cfg["engines"]:
        rp = os.path.join(CACHE, f"report_{pid}_{eng['name']}.json")
        if os.path.exists(rp):
            os.remove(rp)
        cmd = [HARNESS_BIN, eng["name"], "--seed", str(seed), "--tier", tier, "--focus", pid,
               "--driver", DRIVER, "--report", rp, "--corpus", os.path.join(ROOT, "corpus", eng["name"])]
        if replay:
            cmd += ["--replay", replay]
        if eng.get("cases", {}).get(tier):
            cmd += ["--cases", str(eng["cases"][tier])]
        rc, out = sh(cmd, cwd=ROOT, timeout=eng.get("timeout", {}).get(tier, 3000))
        if not os.path.exists(rp):
            print(f"ERROR harness engine {eng['name']} produced no report (rc={rc})\n" + out[-3000:])
            return 2
        r = json.load(open(rp))
        if r.get("driver_error"):
            print(f"ERROR model driver failed: {r['driver_error']}")
            return 2
        # cases the harness could not run at all (child processes killed or not started on an overloaded machine) are not
        # answers of the implementation: they are left out of the comparison and reported; if most cases were lost the run
        # says nothing, which is an infrastructure error, not a verdict
        flaky = r.get("histogram", {}).get("infra.crash-not-reproduced", 0)
        if flaky:
            print(f"NOTE engine {eng['name']}: {flaky} case(s) on which the child process died or stalled completed normally when run again on their own (twice); the completed runs were compared")
        not_run = r.get("histogram", {}).get("infra.not-run", 0)
        if not_run:
            print(f"NOTE engine {eng['name']}: {not_run} of {r.get('evaluations', '?')} cases could not be run (machine load); they are not part of the comparison")
            if r.get("evaluations") and not_run * 2 > r["evaluations"]:
                print(f"ERROR engine {eng['name']}: most cases could not be run")
                return 2
        reports.append(r)

    known = [k for k in load_known() if isinstance(k, dict) and k.get("status") == "known" and k.get("property") == pid]
    violations = []   # (kind, replay_path, concrete: bool, text)
    known_lines = []

    def is_known(lines):
        for k in known:
            pat = k.get("match", {}).get("lines_contain", [])
            if pat and all(any(p in l for l in lines) for p in pat):
                return k
        return None

    # (a) predicate fails on an implementation trace → concrete violation
    for r in reports:
        for h in r["monitor_hits"]:
            if h["property"] != pid:
                continue
            k = is_known(h["lines"])
            if k:
                known_lines.append(f"KNOWN-FINDING: property={pid} {k.get('what', '')}")
                continue
            body = f"# property {pid}: predicate fails on the implementation: {h['what']}\n# engine {r['engine']} origin {h['origin']}\n"
            body += "\n".join(f"{a} => {b}" for a, b in zip(h["lines"], h["impl"])) + "\n"
            violations.append(("monitor", (pid, r["engine"], body), True, h["what"]))
        # (b) model and implementation disagree
        for d in r["disagreements"]:
            concrete = pid in d["blamed"]
            k = is_known(d["lines"])
            if k and concrete:
                known_lines.append(f"KNOWN-FINDING: property={pid} {k.get('what', '')}")
                continue
            fd = d["first_diff"]
            req = d["lines"][fd] if fd < len(d["lines"]) else "?"
            ir = d["impl"][fd] if fd < len(d["impl"]) else "<missing>"
            mr = d["model"][fd] if fd < len(d["model"]) else "<missing>"
            body = f"# property {pid}: correspondence broken (engine {r['engine']}, origin {d['origin']})\n"
            body += f"# first differing request #{fd}: `{req}`  implementation: `{ir}`  model: `{mr}`\n"
            if concrete:
                body += f"# the statement of {pid} fixes this response, so this input is a failing input\n"
            else:
                body += ("# the property predicate holds on the implementation's own trace for every case explored;\n"
                         f"# correspondence `{r['engine']}` (model {cfg['model']}) no longer checks, so the theorems of "
                         f"{cfg['props_module']} are no longer known to describe the code\n")
            body += "\n".join(f"{a} => {b}" for a, b in zip(d["lines"], d["impl"])) + "\n"
            violations.append(("disagreement", (pid, r["engine"], body), concrete,
                               f"request `{req}`: impl `{ir}` vs model `{mr}`"))

    # (c) proof obligations
    any_concrete = any(v[2] for v in violations)
    if proofs["failed"] or extraction_failed:
        body = f"# property {pid}: proof obligations no longer check\n"
        for n in proofs["failed"]:
            body += f"theorem {n}\n"
        for f in proofs.get("broken_lemma_files", []):
            body += f"lemma file error at {f}\n"
        for f in proofs["forbidden"]:
            body += f"forbidden construct: {f}\n"
        if extraction_failed:
            body += "extraction failed:\n" + extract_log[-1500:] + "\n"
        body += "\n# build log (tail)\n" + "\n".join("# " + l for l in proofs["log"].splitlines()[-40:]) + "\n"
        if not any_concrete:
            violations.append(("proof", (pid, "proof", body), False,
                               "theorems no longer check: " + ", ".join(proofs["failed"][:6])))

    # evidence
    ev_cov = {
        "obligations": proofs["obligations"],
        "discharged": proofs["discharged"],
        "checker_cmd": f"cd /verif/lean && lake build {cfg['props_module']} && lake env lean <#print axioms of every theorem>"
                       + (" && lake env leanchecker <modules>" if tier == "thorough" else ""),
        "trusted_base": TRUSTED_BASE_COMMON + cfg.get("trusted_base", []),
        "theorems": proofs.get("theorems", []),
        "axioms_used": sorted({a for v in proofs["axioms"].values() for a in v}),
        "evaluations": sum(r["evaluations"] for r in reports),
        "distinct_nontrivial": sum(r["distinct_nontrivial"] for r in reports),
        "rule": " | ".join(f"[{r['engine']}] " + e.get("rule", "") for r, e in zip(reports, cfg["engines"])),
        "samples": [s for r in reports for s in r["samples"]][:6],
        "traces_validated_against_impl": sum(r["evaluations"] for r in reports),
        "disagreements_checked": sum(r["request_lines"] for r in reports),
        "disagreements_found": sum(len(r["disagreements"]) for r in reports),
        "predicate_failures_on_impl": sum(len([h for h in r["monitor_hits"] if h["property"] == pid]) for r in reports),
        "input_distribution": {r["engine"]: r["histogram"] for r in reports},
        "enumerated_cases": sum(r["enumerated_cases"] for r in reports),
        "corpus_cases": sum(r["corpus_cases"] for r in reports),
        "explanation": cfg.get("explanation", ""),
    }
    if tier == "thorough":
        ev_cov["leanchecker_rc"] = proofs.get("leanchecker_rc")
    evidence = {
        "property_id": pid,
        "tier": tier,
        "seed": seed,
        "level": "proof",
        "coverage": ev_cov,
        "assumptions": cfg.get("assumptions", []),
        "wall_s": round(time.time() - t0, 2),
        "violations": len(violations),
    }
    with open(evidence_path, "w") as f:
        json.dump(evidence, f, indent=1)

    for l in sorted(set(known_lines)):
        print(l)
    print(f"[{pid}/{tier}] theorems {proofs['discharged']}/{proofs['obligations']} checked; "
          f"correspondence: {ev_cov['evaluations']} cases ({ev_cov['distinct_nontrivial']} distinct non-trivial), "
          f"{ev_cov['disagreements_checked']} request/response pairs compared, "
          f"{ev_cov['disagreements_found']} disagreements; {evidence['wall_s']} s")
    if violations:
        # concrete ones first
        violations.sort(key=lambda v: (not v[2]))
        kind, rp, concrete, text = violations[0]
        path = write_replay(*rp)
        for v in violations[1:3]:
            write_replay(*v[1])
        print(f"  {text}")
        rel = os.path.relpath(path, ROOT)
        if concrete:
            print(f"VIOLATION property={pid} replay={rel}")
        else:
            print(f"VIOLATION property={pid} replay={rel} no-failing-input-found")
        return 1
    return 0


if __name__ == "__main__":
    sys.exit(main())
