#!/usr/bin/env python3
"""Regenerates MANIFEST.json from props_config.py (run after editing the configuration)."""
import json, subprocess
from props_config import PROPS
props = [json.loads(l) for l in open('/verif/properties.jsonl')]
hooks_commits = subprocess.run(["git", "-C", "/repo", "log", "--format=%h %s", "--grep=^verif hooks"], capture_output=True, text=True).stdout.strip().splitlines()
engines = {}
for pid, c in PROPS.items():
    for e in c["engines"]:
        engines.setdefault(e["name"], []).append(pid)
m = {
    "version": 1,
    "setup_cmd": "./setup.sh",
    "hooks": {
        "guard": "nexosim_verif",
        "enable": "RUSTFLAGS=--cfg nexosim_verif (set in /verif/harness/.cargo/config.toml; the harness depends on /repo/nexosim by path)",
        "baseline_off_cmd": "cd /repo && cargo test --workspace --no-fail-fast --offline",
        "source_commits": [l.split()[0] for l in hooks_commits],
        "add_only": True,
    },
    "engines": [{"name": n, "path": f"harness/src/engines/{n}.rs", "serves_properties": sorted(ps),
                 "kind_free_text": "differential execution: real code in-process vs executable Lean model through the nexo_driver line protocol"} for n, ps in sorted(engines.items())],
    "checks": [],
    "not_applicable": [{"property_id": p["id"], "reason": "check under construction in this session (model and proof planned in DESIGN.md section 5); not claimed yet"} for p in props if p["id"] not in PROPS],
    "notes": "see DESIGN.md; ./check.sh <id> quick|thorough; known_findings.json lists repaired defects (fixed: entries)",
}
def technique_of(c):
    # the deciding method: machine-checked Lean 4 theorems over the model(s) named in the entry; the tie to the source is
    # the differential correspondence check, plus source facts extracted on every run where the theorem file uses them
    path = '/verif/lean/' + c["props_module"].replace('.', '/') + '.lean'
    uses_extraction = 'Extracted.' in open(path).read()
    t = "Lean 4 proof (kernel-checked theorems, no sorry / own axioms) over hand-written executable model(s): " + c["model"]
    t += "; tie to the source checked on every run by differential execution of model and implementation (engines: " + "+".join(e["name"] for e in c["engines"]) + ")"
    if uses_extraction:
        t += " and by source facts regenerated from /repo by extract/extract.py and used in `decide` theorems (fails closed)"
    return t

for pid in sorted(PROPS):
    c = PROPS[pid]
    m["checks"].append({
        "property_id": pid,
        "quick_cmd": f"./check.sh {pid} quick",
        "thorough_cmd": f"./check.sh {pid} thorough",
        "evidence_file": f"evidence/{pid}.json",
        "replay_cmd_template": f"./check.sh {pid} quick --replay {{path}}",
        "engine": "+".join(e["name"] for e in c["engines"]),
        "level_claimed": {"category": "proof", "text": c["level_text"], "design_ref": f"DESIGN.md section 5, {pid}"},
        "level_note": c["level_note"],
        "technique": c.get("technique", technique_of(c)),
    })
json.dump(m, open('/verif/MANIFEST.json', 'w'), indent=1)
print("MANIFEST.json:", len(m["checks"]), "checks,", len(m["not_applicable"]), "not applicable")
