//! nexo_harness — correspondence check between the Lean models (/verif/lean) and the real code in /repo.
//!
//!   nexo_harness <engine> [--seed N] [--tier quick|thorough] [--cases N] [--focus Cxx]
//!                [--driver PATH] [--corpus DIR] [--replay FILE] [--report FILE]

mod engines;
mod json;
mod rng;
mod runner;

use runner::{Engine, Opts, Tier};

/// Counting allocator: while the `task` engine has `TRACK_SPAWN` set (around a spawn call) the allocation whose size is
/// that of the padded task is remembered by address; its deallocation is recognised by that address.  (Recognising by
/// size alone mistook a 6144-byte `Vec` of the harness for a task.)
struct CountingAlloc;
unsafe impl std::alloc::GlobalAlloc for CountingAlloc {
    unsafe fn alloc(&self, l: std::alloc::Layout) -> *mut u8 {
        let p = std::alloc::System.alloc(l);
        if engines::task::TRACK_SPAWN.load(std::sync::atomic::Ordering::SeqCst)
            && l.size() >= engines::task::TASK_PAD
            && l.size() < engines::task::TASK_PAD + 256
        {
            engines::task::TASK_ALLOCS.fetch_add(1, std::sync::atomic::Ordering::SeqCst);
            engines::task::TASK_PTR.store(p as usize, std::sync::atomic::Ordering::SeqCst);
        }
        p
    }
    unsafe fn dealloc(&self, p: *mut u8, l: std::alloc::Layout) {
        if p as usize == engines::task::TASK_PTR.load(std::sync::atomic::Ordering::SeqCst)
            && l.size() >= engines::task::TASK_PAD
            && l.size() < engines::task::TASK_PAD + 256
        {
            engines::task::TASK_FREES.fetch_add(1, std::sync::atomic::Ordering::SeqCst);
        }
        std::alloc::System.dealloc(p, l)
    }
}
#[global_allocator]
static GLOBAL: CountingAlloc = CountingAlloc;

fn engine_by_name(n: &str) -> Option<Box<dyn Engine>> {
    match n {
        "sinks" => Some(Box::new(engines::sinks::Sinks)),
        "pq" => Some(Box::new(engines::pq::Pq)),
        "sched" => Some(Box::new(engines::sched::Sched)),
        "task" => Some(Box::new(engines::task::TaskEngine)),
        "queue" => Some(Box::new(engines::queue::QueueEngine)),
        "net" => Some(Box::new(engines::net::Net)),
        "bcast" => Some(Box::new(engines::bcast::Bcast)),
        "inj" => Some(Box::new(engines::inj::Inj)),
        "tset" => Some(Box::new(engines::tset::TSet)),
        "slot" => Some(Box::new(engines::slot::SlotEngine)),
        "synccell" => Some(Box::new(engines::synccell::SyncCellEngine)),
        _ => None,
    }
}

fn main() {
    let args: Vec<String> = std::env::args().collect();
    if args.len() < 2 {
        eprintln!("usage: nexo_harness <engine> [options]");
        std::process::exit(2);
    }
    let engine = match engine_by_name(&args[1]) {
        Some(e) => e,
        None => {
            eprintln!("unknown engine {}", args[1]);
            std::process::exit(2);
        }
    };
    let mut o = Opts {
        seed: std::env::var("VERIF_SEED").ok().and_then(|s| s.parse().ok()).unwrap_or(1),
        tier: Tier::Quick,
        cases: None,
        driver: "/verif/lean/.lake/build/bin/nexo_driver".into(),
        focus: String::new(),
        corpus_dir: None,
        replay: None,
    };
    if args.len() == 6 && args[2] == "--child" {
        if std::env::var("VERIF_PANIC_VERBOSE").is_err() {
            std::panic::set_hook(Box::new(|_| {}));
        }
        runner::child_main(engine.as_ref(), &args[3], args[4].parse().unwrap_or(0), &args[5]);
        return;
    }
    let mut report_path: Option<String> = None;
    let mut i = 2;
    while i < args.len() {
        let a = args[i].as_str();
        let v = args.get(i + 1).cloned().unwrap_or_default();
        match a {
            "--seed" => o.seed = v.parse().expect("seed"),
            "--tier" => o.tier = if v == "thorough" { Tier::Thorough } else { Tier::Quick },
            "--cases" => o.cases = Some(v.parse().expect("cases")),
            "--driver" => o.driver = v,
            "--focus" => o.focus = v,
            "--corpus" => o.corpus_dir = Some(v),
            "--replay" => o.replay = Some(v),
            "--report" => report_path = Some(v),
            _ => {
                eprintln!("unknown option {a}");
                std::process::exit(2);
            }
        }
        i += 2;
    }
    // Model code panics are part of some scenarios; keep the default hook quiet.
    if std::env::var("VERIF_PANIC_VERBOSE").is_err() {
        std::panic::set_hook(Box::new(|_| {}));
    }
    let report = runner::run(engine.as_ref(), &o);
    let js = report.to_json().to_string();
    match report_path {
        Some(p) => std::fs::write(p, js).expect("write report"),
        None => println!("{js}"),
    }
    if report.driver_error.is_some() {
        std::process::exit(2);
    }
    if !report.disagreements.is_empty() || !report.monitor_hits.is_empty() {
        std::process::exit(1);
    }
}
