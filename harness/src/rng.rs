//! splitmix64: every random choice of a run derives from one seed, so a case replays exactly.

#[derive(Clone, Debug)]
pub struct Rng(pub u64);

impl Rng {
    pub fn new(seed: u64) -> Self {
        Rng(seed ^ 0x9E37_79B9_7F4A_7C15)
    }
    pub fn next(&mut self) -> u64 {
        self.0 = self.0.wrapping_add(0x9E37_79B9_7F4A_7C15);
        let mut z = self.0;
        z = (z ^ (z >> 30)).wrapping_mul(0xBF58_476D_1CE4_E5B9);
        z = (z ^ (z >> 27)).wrapping_mul(0x94D0_49BB_1331_11EB);
        z ^ (z >> 31)
    }
    /// Uniform in 0..n (n > 0).
    pub fn below(&mut self, n: u64) -> u64 {
        self.next() % n
    }
    pub fn range(&mut self, lo: u64, hi_incl: u64) -> u64 {
        lo + self.below(hi_incl - lo + 1)
    }
    pub fn chance(&mut self, num: u64, den: u64) -> bool {
        self.below(den) < num
    }
    pub fn pick<'a, T>(&mut self, xs: &'a [T]) -> &'a T {
        &xs[self.below(xs.len() as u64) as usize]
    }
    /// Weighted choice: returns the index.
    pub fn weighted(&mut self, ws: &[u64]) -> usize {
        let tot: u64 = ws.iter().sum();
        let mut r = self.below(tot);
        for (i, w) in ws.iter().enumerate() {
            if r < *w {
                return i;
            }
            r -= *w;
        }
        ws.len() - 1
    }
    pub fn fork(&mut self) -> Rng {
        Rng(self.next())
    }
}
