//! Engine `sched`: `Simulation` / `Scheduler` / `Context::schedule*` / `EventSource` actions / scripted
//! `Clock`, against M-SCHED.
//!
//! Grammar (one request per line, one response per line):
//!   case sched <nmodels> tol <none|ns> t0 <ns> exec <st|mtN>
//!   clock <n:lag> ...                 scripted OutOfSync(lag) at the n-th synchronize call ("clock -": none)
//!   src <sid> <m,m,...>               EventSource <sid> connected to these models' input
//!   h <aid> s <rel|abs> <dl> <once|keyed|per|kper> <period> <newaid> <keyid>   handler script of <aid>
//!   h <aid> c <keyid>
//!   ext <n> m <m> <rel|abs> <dl> <kind> <period> <aid> <keyid>   Scheduler handle used during the n-th synchronize
//!   init
//!   sch m <m> <rel|abs> <dl> <kind> <period> <aid> <keyid>       Scheduler::schedule_*event
//!   ssrc <sid> <rel|abs> <dl> <kind> <period> <aid> <keyid>      Scheduler::schedule(deadline, source action)
//!   cancel <keyid> | step | until <rel|abs> <t> | proc <m> <aid> | queue

use std::collections::{HashMap, HashSet};
use std::sync::atomic::{AtomicBool, Ordering};
use std::sync::{mpsc, Arc, Mutex};
use std::time::Duration;

use nexosim::model::{Context, Model};
use nexosim::ports::EventSource;
use nexosim::simulation::{ActionKey, Address, ExecutionError, Mailbox, Scheduler, SchedulingError, SimInit, Simulation};
use nexosim::time::{Clock, Deadline, MonotonicTime, SyncStatus};

use crate::rng::Rng;
use crate::runner::{Case, Engine, Outcome, Tier};

pub struct Sched;

#[derive(Clone, Copy)]
enum Dl {
    Abs(u64),
    Rel(u64),
}
impl Deadline for Dl {
    fn into_time(self, now: MonotonicTime) -> MonotonicTime {
        match self {
            Dl::Abs(t) => base() + du(t),
            Dl::Rel(d) => now + du(d),
        }
    }
}
/// A deadline whose conversion — executed by the scheduler right after it has read the current time — signals the
/// driver thread and parks until released (or 60 ms): makes "a Scheduler request from another thread concurrent
/// with a step" reproducible.
struct Park {
    state: Mutex<(bool, bool)>, // (entered, released)
    cv: std::sync::Condvar,
}
struct ParkDl(Dl, Arc<Park>);
impl Deadline for ParkDl {
    fn into_time(self, now: MonotonicTime) -> MonotonicTime {
        let mut g = self.1.state.lock().unwrap();
        g.0 = true;
        self.1.cv.notify_all();
        let deadline = std::time::Instant::now() + Duration::from_millis(60);
        while !g.1 {
            let left = deadline.saturating_duration_since(std::time::Instant::now());
            if left.is_zero() {
                break;
            }
            g = self.1.cv.wait_timeout(g, left).unwrap().0;
        }
        drop(g);
        self.0.into_time(now)
    }
}
/// Origin of the harness's time axis: `MonotonicTime::EPOCH`, or a million seconds before it (`base neg`) so that the
/// whole case runs at negative TAI times (cases are run one after the other in a process).
static BASE_SECS: std::sync::atomic::AtomicI64 = std::sync::atomic::AtomicI64::new(0);
fn base() -> MonotonicTime {
    MonotonicTime::new(BASE_SECS.load(std::sync::atomic::Ordering::SeqCst), 0).unwrap()
}
/// Length of one unit of the harness's time axis in nanoseconds: 1, or (`unit big`) a quarter of a second plus 7 ns, so
/// that consecutive times of a case differ in their seconds *and* in their sub-second parts.
static UNIT_NS: std::sync::atomic::AtomicU64 = std::sync::atomic::AtomicU64::new(1);
fn du(x: u64) -> Duration {
    Duration::from_nanos(x * UNIT_NS.load(std::sync::atomic::Ordering::SeqCst))
}
/// a duration in units; a duration that is not a whole number of units (only a defect produces one) is made visible
fn un(d: Duration) -> u64 {
    let u = UNIT_NS.load(std::sync::atomic::Ordering::SeqCst) as u128;
    let n = d.as_nanos();
    if n % u == 0 {
        (n / u) as u64
    } else {
        (n / u) as u64 + 500_000_000_000 + (n % u) as u64
    }
}
fn ns(t: MonotonicTime) -> u64 {
    un(t.duration_since(base()))
}

#[derive(Clone)]
enum HLine {
    Sched { dl: Dl, kind: String, period: u64, aid: u64, key: u64 },
    Cancel(u64),
}

#[derive(Clone, Debug)]
enum Rec {
    Sync(u64),
    Fire { aid: u64, model: usize, seen: u64 },
    /// a handler of `model` scheduled action `aid` on itself for the absolute time `t` (accepted)
    HSched { model: usize, aid: u64, t: u64, period: u64 },
    /// a key object registered under name `key` for action `aid`
    KeyAdded { key: u64, aid: u64 },
    /// every key object registered so far under name `key` was cancelled (`model`: by a handler of that model)
    Cancelled { key: u64, model: Option<usize> },
    /// a Scheduler request issued from inside `Clock::synchronize(sync)`: `abs` = its absolute deadline, if it has one
    Ext { aid: u64, ok: bool, abs: Option<u64>, sync: u64 },
    /// the init of `model` (it has an init script) saw the simulation time `seen`
    InitSeen { model: usize, seen: u64 },
}

#[derive(Default)]
struct Shared {
    log: Mutex<Vec<Rec>>,
    keys: Mutex<HashMap<u64, Vec<ActionKey>>>,
    scripts: Mutex<HashMap<u64, Vec<HLine>>>,
    busy: Mutex<Vec<bool>>,
    overlap: AtomicBool,
}

impl Shared {
    fn cancel(&self, k: u64) {
        if let Some(v) = self.keys.lock().unwrap().get(&k) {
            for (i, key) in v.iter().enumerate() {
                if (k + i as u64) % 2 == 0 {
                    key.clone().cancel();
                } else {
                    drop(key.clone().into_auto());
                }
            }
        }
    }
    fn add_key(&self, k: u64, key: ActionKey, aid: u64) {
        self.keys.lock().unwrap().entry(k).or_default().push(key);
        self.log.lock().unwrap().push(Rec::KeyAdded { key: k, aid });
    }
}

struct M {
    idx: usize,
    sh: Arc<Shared>,
}
impl M {
    fn inp(&mut self, aid: u64, cx: &mut Context<Self>) {
        {
            let mut b = self.sh.busy.lock().unwrap();
            if b[self.idx] {
                self.sh.overlap.store(true, Ordering::SeqCst);
            }
            b[self.idx] = true;
        }
        let seen = ns(cx.time());
        if std::env::var("VERIF_DEBUG").is_ok() { eprintln!("inp aid={aid} model={} seen={seen}", self.idx); }
        self.sh.log.lock().unwrap().push(Rec::Fire { aid, model: self.idx, seen });
        self.run_script(aid, cx);
        self.sh.busy.lock().unwrap()[self.idx] = false;
    }
    /// the script registered under `aid`: schedule on the model's own context, cancel keys
    fn run_script(&mut self, aid: u64, cx: &mut Context<Self>) {
        let lines = self.sh.scripts.lock().unwrap().get(&aid).cloned().unwrap_or_default();
        for l in lines {
            match l {
                HLine::Cancel(k) => {
                    self.sh.cancel(k);
                    self.sh.log.lock().unwrap().push(Rec::Cancelled { key: k, model: Some(self.idx) });
                }
                HLine::Sched { dl, kind, period, aid, key } => {
                    let p = du(period);
                    let t = ns(dl.into_time(cx.time()));
                    let accepted = match kind.as_str() {
                        "once" => cx.schedule_event(dl, M::inp, aid).is_ok(),
                        "keyed" => match cx.schedule_keyed_event(dl, M::inp, aid) {
                            Ok(k) => {
                                self.sh.add_key(key, k, aid);
                                true
                            }
                            Err(_) => false,
                        },
                        "per" => cx.schedule_periodic_event(dl, p, M::inp, aid).is_ok(),
                        _ => match cx.schedule_keyed_periodic_event(dl, p, M::inp, aid) {
                            Ok(k) => {
                                self.sh.add_key(key, k, aid);
                                true
                            }
                            Err(_) => false,
                        },
                    };
                    if accepted {
                        let per = if kind == "per" || kind == "kper" { period } else { 0 };
                        self.sh.log.lock().unwrap().push(Rec::HSched { model: self.idx, aid, t, period: per });
                    }
                }
            }
        }
    }
}
/// action id under which the init script of model `m` is registered
const INIT_AID: u64 = 9_000_000;
impl Model for M {
    async fn init(mut self, cx: &mut Context<Self>) -> nexosim::model::InitializedModel<Self> {
        let aid = INIT_AID + self.idx as u64;
        if self.sh.scripts.lock().unwrap().contains_key(&aid) {
            self.sh.log.lock().unwrap().push(Rec::InitSeen { model: self.idx, seen: ns(cx.time()) });
            self.run_script(aid, cx);
        }
        self.into()
    }
}

struct ExtReq {
    m: usize,
    dl: Dl,
    kind: String,
    period: u64,
    aid: u64,
    key: u64,
}

struct ScriptClock {
    sh: Arc<Shared>,
    n: usize,
    lags: HashMap<usize, u64>,
    exts: HashMap<usize, Vec<ExtReq>>,
    handle: Arc<Mutex<Option<(Scheduler, Vec<Address<M>>)>>>,
}
impl Clock for ScriptClock {
    fn synchronize(&mut self, deadline: MonotonicTime) -> SyncStatus {
        let n = self.n;
        self.n += 1;
        self.sh.log.lock().unwrap().push(Rec::Sync(ns(deadline)));
        if let Some(reqs) = self.exts.get(&n) {
            if let Some((sched, addrs)) = &*self.handle.lock().unwrap() {
                for r in reqs {
                    let res = do_sched(sched, &addrs[r.m], r.dl, &r.kind, r.period, r.aid, r.key, &self.sh);
                    let abs = match r.dl {
                        Dl::Abs(t) => Some(t),
                        Dl::Rel(_) => None,
                    };
                    self.sh.log.lock().unwrap().push(Rec::Ext { aid: r.aid, ok: res == "ok", abs, sync: ns(deadline) });
                }
            }
        }
        match self.lags.get(&n) {
            Some(l) => SyncStatus::OutOfSync(du(*l)),
            None => SyncStatus::Synchronized,
        }
    }
}

fn sched_err(e: SchedulingError) -> &'static str {
    match e {
        SchedulingError::InvalidScheduledTime => "invalid-time",
        SchedulingError::NullRepetitionPeriod => "null-period",
    }
}

fn do_sched<D: Deadline>(
    s: &Scheduler,
    addr: &Address<M>,
    dl: D,
    kind: &str,
    period: u64,
    aid: u64,
    key: u64,
    sh: &Shared,
) -> &'static str {
    let p = du(period);
    match kind {
        "once" => s.schedule_event(dl, M::inp, aid, addr).map(|_| "ok").unwrap_or_else(sched_err),
        "keyed" => match s.schedule_keyed_event(dl, M::inp, aid, addr) {
            Ok(k) => {
                sh.add_key(key, k, aid);
                "ok"
            }
            Err(e) => sched_err(e),
        },
        "per" => s.schedule_periodic_event(dl, p, M::inp, aid, addr).map(|_| "ok").unwrap_or_else(sched_err),
        _ => match s.schedule_keyed_periodic_event(dl, p, M::inp, aid, addr) {
            Ok(k) => {
                sh.add_key(key, k, aid);
                "ok"
            }
            Err(e) => sched_err(e),
        },
    }
}

fn exec_err(e: &ExecutionError) -> String {
    match e {
        ExecutionError::Terminated => "terminated".into(),
        ExecutionError::InvalidDeadline(_) => "invalid-deadline".into(),
        ExecutionError::OutOfSync(l) => format!("out-of-sync {}", un(*l)),
        ExecutionError::Timeout => "timeout".into(),
        ExecutionError::Deadlock(_) => "deadlock".into(),
        ExecutionError::MessageLoss(n) => format!("message-loss {n}"),
        ExecutionError::NoRecipient { .. } => "no-recipient".into(),
        ExecutionError::Panic { .. } => "panic".into(),
        ExecutionError::BadQuery => "bad-query".into(),
    }
}

fn parse_dl(kind: &str, v: &str) -> Dl {
    let v: u64 = v.parse().unwrap();
    if kind == "abs" {
        Dl::Abs(v)
    } else {
        Dl::Rel(v)
    }
}

struct Bench {
    sim: Simulation,
    sched: Scheduler,
    addrs: Vec<Address<M>>,
    srcs: HashMap<u64, EventSource<u64>>,
}

/// Driver-side bookkeeping for the monitors (predicates evaluated on the implementation's own trace).
#[derive(Default)]
struct Mon {
    hits: Vec<(String, String)>,
    last_now: u64,
    /// driver-scheduled periodic series accepted: aid -> (t0, period, key, targets)
    series: HashMap<u64, (u64, u64, Option<u64>, usize)>,
    /// key -> time (sim time when the driver cancelled it)
    cancelled_at: HashMap<u64, u64>,
    /// driver one-shot/keyed non-periodic accepted: aid -> (deadline, key)
    oneshots: HashMap<u64, (u64, Option<u64>)>,
    /// order of acceptance of driver events: aid -> rank
    rank: HashMap<u64, usize>,
    fires: Vec<(u64, usize, u64)>, // (aid, model, seen) in real order
    key_of_aid: HashMap<u64, u64>,
    /// key objects in registration order per key name: (aid, cancelled by (command index, model))
    objs: HashMap<u64, Vec<(u64, Option<(usize, Option<usize>)>)>>,
    cmd: usize,
    /// C07: scheduling order.  (aid, deadline) -> (origin, sequence number of the scheduling moment, period, ambiguous)
    sched_seq: HashMap<(u64, u64), (usize, u64, u64, bool)>,
    seq: u64,
    sync_seq: u64,
    /// (origin, model, time) -> highest scheduling sequence number processed so far, and the action that had it
    group_last: HashMap<(usize, usize, u64), (u64, u64)>,
    /// C11: the first fatal error a run call returned
    fatal: Option<String>,
    /// periodic actions built from an EventSource and accepted by the scheduler: aid -> (first deadline, period)
    src_periodic: HashMap<u64, (u64, u64)>,
}
impl Mon {
    /// an action was accepted for the absolute time `t` (origin 0 = driver / event source, m + 1 = model m)
    fn note_sched(&mut self, aid: u64, t: u64, origin: usize, period: u64) {
        self.seq += 1;
        let sq = self.seq;
        match self.sched_seq.get_mut(&(aid, t)) {
            Some(e) => e.3 = true, // the same action scheduled twice for the same time: lineage is ambiguous
            None => {
                self.sched_seq.insert((aid, t), (origin, sq, period, false));
            }
        }
    }
    fn hit(&mut self, p: &str, w: String) {
        if self.hits.len() < 4 {
            self.hits.push((p.to_string(), w));
        }
    }
}

fn render(recs: &[Rec], drv: &HashSet<u64>) -> String {
    let mut out: Vec<String> = Vec::new();
    let mut cur: Vec<(usize, usize, String)> = Vec::new();
    let flush = |cur: &mut Vec<(usize, usize, String)>, out: &mut Vec<String>| {
        cur.sort_by_key(|x| (x.0, x.1)); // stable
        out.extend(cur.drain(..).map(|x| x.2));
    };
    for r in recs {
        match r {
            Rec::Sync(t) => {
                flush(&mut cur, &mut out);
                out.push(format!("S{t}"));
            }
            Rec::Ext { aid, ok, .. } => {
                flush(&mut cur, &mut out);
                out.push(format!("X{aid}:{}", if *ok { "ok" } else { "rej" }));
            }
            Rec::Fire { aid, model, seen } => {
                let origin = if drv.contains(aid) { 0 } else { model + 1 };
                cur.push((*model, origin, format!("F{aid}@{model}:{seen}")));
            }
            Rec::KeyAdded { .. } | Rec::Cancelled { .. } | Rec::HSched { .. } | Rec::InitSeen { .. } => {}
        }
    }
    flush(&mut cur, &mut out);
    out.join(" ")
}

fn run_case(lines: Vec<String>, hints: Arc<Mutex<Vec<String>>>, resp: Arc<Mutex<Vec<String>>>, tags: Arc<Mutex<Vec<String>>>, mon_out: Arc<Mutex<Vec<(String, String)>>>, nontrivial: Arc<AtomicBool>) {
    let sh = Arc::new(Shared::default());
    let mut nmodels = 0usize;
    let mut tol: Option<u64> = None;
    let mut t0 = 0u64;
    let mut threads = 1usize;
    let mut cap = 16usize;
    let mut lags: HashMap<usize, u64> = HashMap::new();
    let mut exts: HashMap<usize, Vec<ExtReq>> = HashMap::new();
    let mut src_decl: Vec<(u64, Vec<usize>)> = Vec::new();
    let mut bench: Option<Bench> = None;
    let mut drv: HashSet<u64> = HashSet::new();
    let mut mon = Mon::default();
    let mut n_fires = 0usize;
    let mut same_time_groups = false;
    let mut fatal_at: Option<u64> = None;
    let handle: Arc<Mutex<Option<(Scheduler, Vec<Address<M>>)>>> = Arc::new(Mutex::new(None));

    let push = |s: String| resp.lock().unwrap().push(s);

    for l in &lines {
        let mut w: Vec<&str> = l.split_whitespace().collect();
        let log_start = sh.log.lock().unwrap().len();
        let mut hint = String::new();
        // `race m <m> <dk> <dl> <kind> <p> <aid> <key> then <step|until ..>`: the request is issued from another thread
        // and is inside the scheduler (deadline conversion entered) when the stepping call starts
        let mut race: Option<(std::thread::JoinHandle<&'static str>, Arc<Park>, &'static str, u64, u64)> = None;
        let wc = w.clone();
        if let (["race", "m", m, dk, dl, kind, p, a, k, "then", rest @ ..], Some(b)) = (wc.as_slice(), bench.as_mut()) {
            let aid: u64 = a.parse().unwrap();
            let key: u64 = k.parse().unwrap();
            let period: u64 = p.parse().unwrap();
            let m: usize = m.parse().unwrap();
            drv.insert(aid);
            let d = parse_dl(dk, dl);
            let now = ns(b.sim.time());
            let t = ns(d.into_time(b.sim.time()));
            let periodic = *kind == "per" || *kind == "kper";
            let expect = if periodic && period == 0 { "null-period" } else if t <= now { "invalid-time" } else { "ok" };
            if expect == "ok" {
                mon.note_sched(aid, t, 0, if periodic { period } else { 0 });
                let keyed = *kind == "keyed" || *kind == "kper";
                let n = mon.rank.len();
                mon.rank.insert(aid, n);
                if keyed {
                    mon.key_of_aid.insert(aid, key);
                }
                if periodic {
                    mon.series.insert(aid, (t, period, keyed.then_some(key), m));
                } else {
                    mon.oneshots.insert(aid, (t, keyed.then_some(key)));
                }
            }
            let park = Arc::new(Park { state: Mutex::new((false, false)), cv: std::sync::Condvar::new() });
            let (sc, ad, pk, sh2, kind2) = (b.sched.clone(), b.addrs[m].clone(), park.clone(), sh.clone(), kind.to_string());
            let h = std::thread::spawn(move || do_sched(&sc, &ad, ParkDl(d, pk), &kind2, period, aid, key, &sh2));
            {
                let mut g = park.state.lock().unwrap();
                let until = std::time::Instant::now() + Duration::from_secs(2);
                while !g.0 && !h.is_finished() && std::time::Instant::now() < until {
                    g = park.cv.wait_timeout(g, Duration::from_millis(50)).unwrap().0;
                }
            }
            if !park.state.lock().unwrap().0 && !h.is_finished() {
                // the request thread has neither reached the deadline conversion inside the scheduler nor returned (a request
                // that is refused before its deadline is looked at returns at once) within 2 s — overloaded machine: the
                // scripted order is not established, the case is abandoned like a stalled one (and run again by `run_impl`)
                std::thread::sleep(Duration::from_secs(3600));
            }
            race = Some((h, park, expect, aid, t));
            tags.lock().unwrap().push("race".into());
            let rest: Vec<&str> = rest.to_vec();
            w = rest;
        }
        let r: String = match w.as_slice() {
            ["case", "sched", n, "tol", tl, "t0", t, "exec", ex, "cap", cp] => {
                BASE_SECS.store(0, std::sync::atomic::Ordering::SeqCst);
                UNIT_NS.store(1, std::sync::atomic::Ordering::SeqCst);
                cap = cp.parse().unwrap();
                tags.lock().unwrap().push(format!("mailbox-cap.{cp}"));
                nmodels = n.parse().unwrap();
                tol = tl.parse().ok();
                t0 = t.parse().unwrap();
                threads = if *ex == "st" { 1 } else { ex[2..].parse().unwrap() };
                tags.lock().unwrap().push(format!("exec.{ex}"));
                if tol.is_some() {
                    tags.lock().unwrap().push("tolerance".into());
                }
                "ok".into()
            }
            ["unit", which] => {
                if *which == "big" {
                    UNIT_NS.store(250_000_007, std::sync::atomic::Ordering::SeqCst);
                    tags.lock().unwrap().push("times-cross-second-boundaries".into());
                }
                "ok".into()
            }
            ["base", which] => {
                if *which == "neg" {
                    BASE_SECS.store(-1_000_000, std::sync::atomic::Ordering::SeqCst);
                    tags.lock().unwrap().push("start-before-epoch".into());
                }
                "ok".into()
            }
            ["clock", rest @ ..] => {
                for x in rest {
                    if let Some((a, b)) = x.split_once(':') {
                        lags.insert(a.parse().unwrap(), b.parse().unwrap());
                    }
                }
                if !lags.is_empty() {
                    tags.lock().unwrap().push("clock-lag".into());
                }
                "ok".into()
            }
            ["src", sid, ms] => {
                src_decl.push((sid.parse().unwrap(), ms.split(',').filter(|s| !s.is_empty()).map(|s| s.parse().unwrap()).collect()));
                "ok".into()
            }
            ["h", aid, "s", dk, dl, kind, p, a, k] => {
                sh.scripts.lock().unwrap().entry(aid.parse().unwrap()).or_default().push(HLine::Sched {
                    dl: parse_dl(dk, dl),
                    kind: kind.to_string(),
                    period: p.parse().unwrap(),
                    aid: a.parse().unwrap(),
                    key: k.parse().unwrap(),
                });
                "ok".into()
            }
            ["h", aid, "c", k] => {
                sh.scripts.lock().unwrap().entry(aid.parse().unwrap()).or_default().push(HLine::Cancel(k.parse().unwrap()));
                "ok".into()
            }
            ["ext", n, "m", m, dk, dl, kind, p, a, k] => {
                let aid: u64 = a.parse().unwrap();
                drv.insert(aid);
                exts.entry(n.parse().unwrap()).or_default().push(ExtReq {
                    m: m.parse().unwrap(),
                    dl: parse_dl(dk, dl),
                    kind: kind.to_string(),
                    period: p.parse().unwrap(),
                    aid,
                    key: k.parse().unwrap(),
                });
                tags.lock().unwrap().push("foreign-scheduler-during-sync".into());
                "ok".into()
            }
            ["init"] => {
                // Mailboxes are numbered by increasing channel id, which is what the scheduler queue compares.
                // NB: dropping the last `Address` of a mailbox closes it for good, so each address is created once and kept.
                let mut boxes: Vec<(usize, Mailbox<M>, Address<M>)> = (0..nmodels)
                    .map(|_| {
                        let mb: Mailbox<M> = Mailbox::with_capacity(cap);
                        let addr = mb.address();
                        let dbg = format!("{:?}", addr);
                        let id: usize = dbg.split('"').nth(1).and_then(|s| s.parse().ok()).unwrap_or(0);
                        (id, mb, addr)
                    })
                    .collect();
                boxes.sort_by_key(|x| x.0);
                *sh.busy.lock().unwrap() = vec![false; nmodels];
                let addrs: Vec<Address<M>> = boxes.iter().map(|b| b.2.clone()).collect();
                let mut srcs = HashMap::new();
                for (sid, ms) in &src_decl {
                    let mut s = EventSource::new();
                    for m in ms {
                        s.connect(M::inp, &addrs[*m]);
                    }
                    srcs.insert(*sid, s);
                }
                let mut si = SimInit::with_num_threads(threads);
                for (i, (_, mb, _)) in boxes.into_iter().enumerate() {
                    si = si.add_model(M { idx: i, sh: sh.clone() }, mb, format!("m{i}"));
                }
                let clock = ScriptClock { sh: sh.clone(), n: 0, lags: lags.clone(), exts: std::mem::take(&mut exts), handle: handle.clone() };
                // the two builder calls in either order (the tolerance belongs to the simulation, not to a clock): the order is
                // fixed by the case (parity of the start time and of the number of models), so a replay reproduces it
                if (t0 + nmodels as u64) % 2 == 0 {
                    si = si.set_clock(clock);
                    if let Some(t) = tol {
                        si = si.set_clock_tolerance(du(t));
                    }
                } else {
                    if let Some(t) = tol {
                        si = si.set_clock_tolerance(du(t));
                    }
                    si = si.set_clock(clock);
                }
                match si.init(base() + du(t0)) {
                    Ok((sim, sched)) => {
                        *handle.lock().unwrap() = Some((sched.clone(), addrs.clone()));
                        let now = ns(sim.time());
                        mon.last_now = now;
                        bench = Some(Bench { sim, sched, addrs, srcs });
                        let recs = sh.log.lock().unwrap()[log_start..].to_vec();
                        // C01 / C10: the models' init runs at the start time; a periodic action scheduled there with a relative
                        // first deadline d runs at t0 + d + k * period
                        let mut seen_by: HashMap<usize, u64> = HashMap::new();
                        let ids: Vec<usize> = bench.as_ref().unwrap().addrs.iter().map(|a| format!("{:?}", a).split('"').nth(1).and_then(|s| s.parse().ok()).unwrap_or(0)).collect();
                        let dump: Vec<(u64, usize)> = bench
                            .as_ref()
                            .unwrap()
                            .sim
                            .verif_queue_dump()
                            .into_iter()
                            .map(|(t, o, _, _)| (ns(t), if o == 0 { 0 } else { ids.iter().position(|x| *x == o).map(|p| p + 1).unwrap_or(999) }))
                            .collect();
                        for (t, _) in &dump {
                            if *t <= now {
                                mon.hit("C01", format!("after `{l}`: a pending action has deadline {t} <= current time {now}"));
                            }
                        }
                        for r in &recs {
                            if let (Rec::HSched { model, aid, t, period }, true) = (r, true) {
                                if let Some(Rec::InitSeen { seen, .. }) = recs.iter().find(|x| matches!(x, Rec::InitSeen { model: m2, .. } if m2 == model)) {
                                    let expected = t0 + (t - (*seen).min(*t));
                                    if !dump.iter().any(|(dt, o)| *dt == expected && *o == model + 1) {
                                        let what = if *period > 0 { format!("periodic action {aid} (period {period})") } else { format!("action {aid}") };
                                        mon.hit(if *period > 0 { "C10" } else { "C01" }, format!("`{l}`: the init of model {model} scheduled {what} for {} ns after the start time {t0}, but no action of that model is queued for time {expected} (queue: {:?})", expected - t0, dump));
                                    }
                                }
                            }
                        }
                        for r in &recs {
                            match r {
                                Rec::InitSeen { model, seen } => {
                                    seen_by.insert(*model, *seen);
                                    if *seen != t0 {
                                        mon.hit("C01", format!("`{l}`: the init of model {model} saw the simulation time {seen}, the simulation starts at {t0}"));
                                    }
                                }
                                Rec::HSched { model, aid, t, period } if *period > 0 => {
                                    if let Some(seen) = seen_by.get(model) {
                                        // the harness computed `t` from the time the init saw; what the property requires is
                                        // relative to the start time
                                        let expected = t0 + (t - seen.min(t));
                                        let keyed = recs.iter().any(|x| matches!(x, Rec::KeyAdded { aid: a2, .. } if a2 == aid));
                                        if !mon.series.contains_key(aid) && !keyed {
                                            mon.series.insert(*aid, (expected, *period, None, *model));
                                        }
                                    }
                                }
                                _ => {}
                            }
                        }
                        format!("ok now={now} | {}", render(&recs, &drv))
                    }
                    Err(e) => format!("{} now=? |", exec_err(&e)),
                }
            }
            ["sch", "m", m, dk, dl, kind, p, a, k] if bench.is_some() => {
                let b = bench.as_mut().unwrap();
                let aid: u64 = a.parse().unwrap();
                let key: u64 = k.parse().unwrap();
                let period: u64 = p.parse().unwrap();
                let m: usize = m.parse().unwrap();
                drv.insert(aid);
                let d = parse_dl(dk, dl);
                let now = ns(b.sim.time());
                let r = do_sched(&b.sched, &b.addrs[m], d, kind, period, aid, key, &sh);
                // monitor C08: accepted iff strictly in the future and period non-zero
                let t = ns(d.into_time(b.sim.time()));
                let periodic = *kind == "per" || *kind == "kper";
                let expect = if periodic && period == 0 { "null-period" } else if t <= now { "invalid-time" } else { "ok" };
                if r != expect {
                    mon.hit("C08", format!("`{l}` at time {now} returned `{r}`, the statement requires `{expect}`"));
                }
                if r == "ok" {
                    mon.note_sched(aid, t, 0, if periodic { period } else { 0 });
                    let keyed = *kind == "keyed" || *kind == "kper";
                    let n = mon.rank.len();
                    mon.rank.insert(aid, n);
                    if keyed {
                        mon.key_of_aid.insert(aid, key);
                    }
                    if periodic {
                        mon.series.insert(aid, (t, period, keyed.then_some(key), m));
                    } else {
                        mon.oneshots.insert(aid, (t, keyed.then_some(key)));
                    }
                }
                r.to_string()
            }
            ["ssrc", sid, dk, dl, kind, p, a, k] if bench.is_some() => {
                let b = bench.as_mut().unwrap();
                let aid: u64 = a.parse().unwrap();
                let key: u64 = k.parse().unwrap();
                let period = du(p.parse().unwrap());
                drv.insert(aid);
                let d = parse_dl(dk, dl);
                let src = b.srcs.get_mut(&sid.parse().unwrap());
                match src {
                    None => "bad-op".into(),
                    Some(src) => {
                        let action = match *kind {
                            "once" => src.event(aid),
                            "keyed" => {
                                let (a, ky) = src.keyed_event(aid);
                                sh.add_key(key, ky, aid);
                                a
                            }
                            "per" => src.periodic_event(period, aid),
                            _ => {
                                let (a, ky) = src.keyed_periodic_event(period, aid);
                                sh.add_key(key, ky, aid);
                                a
                            }
                        };
                        tags.lock().unwrap().push("event-source-action".into());
                        let now = ns(b.sim.time());
                        let t = ns(d.into_time(b.sim.time()));
                        let r = b.sched.schedule(d, action).map(|_| "ok").unwrap_or_else(sched_err);
                        let periodic = *kind == "per" || *kind == "kper";
                        let expect = if t <= now { "invalid-time" } else if periodic && period.is_zero() { "null-period" } else { "ok" };
                        // either error is acceptable when both conditions fail
                        let both_bad = t <= now && periodic && period.is_zero();
                        if r != expect && !(both_bad && r != "ok") {
                            mon.hit("C08", format!("`{l}` at time {now} returned `{r}`, the statement requires `{expect}`"));
                        }
                        if r == "ok" {
                            mon.note_sched(aid, t, 0, if periodic { un(period) } else { 0 });
                            if *kind == "keyed" || *kind == "kper" {
                                mon.key_of_aid.insert(aid, key);
                            }
                            if periodic {
                                mon.src_periodic.insert(aid, (t, un(period)));
                            }
                        }
                        r.to_string()
                    }
                }
            }
            ["cancel", k] if bench.is_some() => {
                let k: u64 = k.parse().unwrap();
                sh.cancel(k);
                sh.log.lock().unwrap().push(Rec::Cancelled { key: k, model: None });
                let now = ns(bench.as_ref().unwrap().sim.time());
                mon.cancelled_at.entry(k).or_insert(now);
                tags.lock().unwrap().push("driver-cancel".into());
                "-".into()
            }
            ["step"] | ["until", ..] | ["proc", ..] if bench.is_some() => {
                let b = bench.as_mut().unwrap();
                let before = ns(b.sim.time());
                let res = match w.as_slice() {
                    ["step"] => b.sim.step(),
                    ["until", dk, t] => {
                        let d = parse_dl(dk, t);
                        match d {
                            Dl::Abs(t) => b.sim.step_until(base() + du(t)),
                            Dl::Rel(t) => b.sim.step_until(du(t)),
                        }
                    }
                    ["proc", m, a] => {
                        let aid: u64 = a.parse().unwrap();
                        drv.insert(aid);
                        let m: usize = m.parse().unwrap();
                        let addr = b.addrs[m].clone();
                        b.sim.process_event(M::inp, aid, &addr)
                    }
                    _ => unreachable!(),
                };
                let now = ns(b.sim.time());
                let recs = sh.log.lock().unwrap()[log_start..].to_vec();
                hint = recs
                    .iter()
                    .filter_map(|r| match r {
                        Rec::Fire { aid, model, seen } => Some(format!("F{aid}@{model}:{seen}")),
                        _ => None,
                    })
                    .collect::<Vec<_>>()
                    .join(" ");
                // ---- monitors on the implementation's own trace
                if now < before {
                    mon.hit("C01", format!("`{l}`: simulation time went from {before} back to {now}"));
                }
                if w[0] == "proc" && now != before {
                    mon.hit("C01", format!("`{l}` changed the simulation time from {before} to {now}"));
                }
                if let (["until", dk, t], Ok(())) = (w.as_slice(), &res) {
                    let target = if *dk == "abs" { t.parse::<u64>().unwrap() } else { before + t.parse::<u64>().unwrap() };
                    if now != target {
                        mon.hit("C01", format!("`{l}` returned Ok with time {now}, expected {target}"));
                    }
                }
                let mut cur_sync: Option<u64> = None;
                let mut last_sync: Option<u64> = None;
                let mut fired_at: HashSet<u64> = HashSet::new();
                for r in &recs {
                    match r {
                        Rec::Sync(t) => {
                            if let Some(p) = last_sync {
                                if *t < p {
                                    mon.hit("C18", format!("`{l}`: synchronize({t}) after synchronize({p})"));
                                }
                                if *t == p {
                                    mon.hit("C18", format!("`{l}`: synchronize({t}) called twice"));
                                }
                            }
                            if *t < before {
                                mon.hit("C18", format!("`{l}`: synchronize({t}) below the current time {before}"));
                            }
                            cur_sync = Some(*t);
                            last_sync = Some(*t);
                        }
                        Rec::Fire { aid, model, seen } => {
                            n_fires += 1;
                            mon.fires.push((*aid, *model, *seen));
                            if w[0] != "proc" {
                                match cur_sync {
                                    None => mon.hit("C18", format!("`{l}`: action {aid} ran at time {seen} before any synchronize call of this step")),
                                    Some(t) if t != *seen => {
                                        mon.hit("C01", format!("`{l}`: action {aid} saw time {seen} but the clock was last synchronized on {t}"))
                                    }
                                    _ => {}
                                }
                                if !fired_at.insert(*seen) && false {}
                            } else if *seen != before {
                                mon.hit("C01", format!("`{l}`: handler saw time {seen}, simulation time is {before}"));
                            }
                            if *seen < before || *seen > now.max(before) {
                                mon.hit("C01", format!("`{l}`: action {aid} saw time {seen} outside [{before}, {now}]"));
                            }
                            // C10: an occurrence of a periodic series runs only within the simulated horizon
                            if *seen > now.max(before) && res.is_ok() {
                                if let Some((t0p, p, _, _)) = mon.series.get(aid) {
                                    mon.hit("C10", format!("`{l}`: the occurrence at {seen} of periodic action {aid} (t0={t0p}, period={p}) ran although the call stopped at time {now}"));
                                }
                            }
                            // C01/C08: a one-shot driver event fires exactly at its deadline
                            if let Some((d, _)) = mon.oneshots.get(aid) {
                                if d != seen {
                                    mon.hit("C01", format!("`{l}`: action {aid} with deadline {d} ran at time {seen}"));
                                }
                            }
                            // C09: cancelled by the driver in an earlier command → never fires afterwards
                            if let Some(k) = mon.key_of_aid.get(aid).copied() {
                                if mon.cancelled_at.contains_key(&k) {
                                    mon.hit("C09", format!("`{l}`: action {aid} (key {k}) ran at time {seen} although its key was cancelled before this call"));
                                    let per = mon.series.get(aid).map(|x| (x.0, x.1)).or_else(|| mon.src_periodic.get(aid).copied());
                                    if let Some((t0p, p)) = per {
                                        mon.hit("C10", format!("`{l}`: the occurrence at {seen} of periodic action {aid} (t0={t0p}, period={p}, key {k}) ran although the action had been cancelled before this call: a periodic action runs until it is cancelled"));
                                    }
                                }
                            }
                        }
                        Rec::Ext { aid, ok, abs, sync } => {
                            // C08: while the clock is being synchronized on `sync` the simulation time is already `sync`:
                            // a request for a deadline that is not after it must be refused
                            if let (true, Some(t)) = (*ok, *abs) {
                                if t <= *sync && w[0] != "proc" {
                                    mon.hit("C08", format!("`{l}`: a Scheduler request (action {aid}) for the absolute time {t}, issued while the step to time {sync} was in progress (inside Clock::synchronize({sync})), was accepted although {t} is not after the time of the step"));
                                }
                            }
                        }
                        Rec::KeyAdded { .. } | Rec::Cancelled { .. } | Rec::HSched { .. } | Rec::InitSeen { .. } => {}
                    }
                }
                // C01: a step that moves the time runs the action(s) due at the new time
                let empty_src = src_decl.iter().any(|(_, ms)| ms.is_empty());
                if w[0] == "step" && res.is_ok() && now != before && !empty_src && !recs.iter().any(|r| matches!(r, Rec::Fire { seen, .. } if *seen == now)) {
                    mon.hit("C01", format!("`{l}` moved the time from {before} to {now} although no live action was due at {now} (nothing ran at that time): step() advances to the earliest pending non-cancelled deadline"));
                }
                // C18: the step fails with OutOfSync only for a lag above the configured tolerance, and reports that lag
                if let Err(ExecutionError::OutOfSync(got)) = &res {
                    let n0 = sh.log.lock().unwrap()[..log_start].iter().filter(|r| matches!(r, Rec::Sync(_))).count();
                    let k = recs.iter().filter(|r| matches!(r, Rec::Sync(_))).count();
                    let reported = if k > 0 { lags.get(&(n0 + k - 1)).copied() } else { None };
                    let got = un(*got);
                    match (tol, reported) {
                        (Some(t), Some(lag)) if lag > t && lag == got => {}
                        (Some(t), Some(lag)) if lag <= t => mon.hit(
                            "C18",
                            format!("`{l}` failed with OutOfSync({got}) although the reported lag {lag} does not exceed the tolerance {t}"),
                        ),
                        (None, _) => mon.hit("C18", format!("`{l}` failed with OutOfSync({got}) although no tolerance is configured")),
                        (_, None) => mon.hit("C18", format!("`{l}` failed with OutOfSync({got}) although the clock reported no lag")),
                        (_, Some(lag)) => mon.hit("C18", format!("`{l}` failed with OutOfSync({got}), the clock reported a lag of {lag}")),
                    }
                }
                // C11: after a fatal error every further run call returns Terminated, runs no model code and keeps the time
                if let Some(what) = &mon.fatal.clone() {
                    if !matches!(res, Err(ExecutionError::Terminated)) {
                        let got = match &res {
                            Ok(()) => "ok".to_string(),
                            Err(e) => exec_err(e),
                        };
                        mon.hit("C11", format!("`{l}` returned `{got}` after the fatal error `{what}`: it must return Terminated"));
                    }
                    if recs.iter().any(|r| matches!(r, Rec::Fire { .. })) {
                        mon.hit("C11", format!("`{l}` ran model code after the fatal error `{what}`"));
                    }
                    if now != before {
                        mon.hit("C11", format!("`{l}` moved the time from {before} to {now} after the fatal error `{what}`"));
                    }
                }
                if let Err(e) = &res {
                    if !matches!(e, ExecutionError::Terminated | ExecutionError::InvalidDeadline(_) | ExecutionError::BadQuery) && mon.fatal.is_none() {
                        mon.fatal = Some(exec_err(e));
                    }
                }
                if res.is_ok() && w[0] != "proc" {
                    // every returned Ok step that moved the time synchronized exactly once on the final time
                    if now != before && last_sync != Some(now) {
                        mon.hit("C18", format!("`{l}` moved the time to {now} without a final synchronize({now})"));
                    }
                }
                // C07: driver one-shots with equal deadline and same model fire in acceptance order
                {
                    let mut last_rank: HashMap<(usize, u64), (usize, u64)> = HashMap::new();
                    for r in &recs {
                        if let Rec::Fire { aid, model, seen } = r {
                            if let (Some(rk), true) = (mon.rank.get(aid).copied(), mon.oneshots.contains_key(aid)) {
                                if let Some((prev, paid)) = last_rank.get(&(*model, *seen)) {
                                    same_time_groups = true;
                                    if *prev > rk {
                                        mon.hit("C07", format!("`{l}`: at time {seen} model {model} processed action {paid} (scheduled later) before action {aid}"));
                                    }
                                }
                                last_rank.insert((*model, *seen), (rk, *aid));
                            }
                        }
                    }
                }
                mon.last_now = now;
                let rs = match &res {
                    Ok(()) => "ok".to_string(),
                    Err(e) => {
                        if !matches!(e, ExecutionError::InvalidDeadline(_)) && fatal_at.is_none() {
                            fatal_at = Some(now);
                        }
                        exec_err(e)
                    }
                };
                format!("{rs} now={now} | {}", render(&recs, &drv))
            }
            ["queue"] if bench.is_some() => {
                let b = bench.as_ref().unwrap();
                let now = ns(b.sim.time());
                let ids: Vec<usize> = b
                    .addrs
                    .iter()
                    .map(|a| format!("{:?}", a).split('"').nth(1).and_then(|s| s.parse().ok()).unwrap_or(0))
                    .collect();
                let mut q: Vec<(u64, usize, u64, bool)> = b
                    .sim
                    .verif_queue_dump()
                    .into_iter()
                    .map(|(t, o, e, c)| {
                        let origin = if o == 0 { 0 } else { ids.iter().position(|x| *x == o).map(|p| p + 1).unwrap_or(999) };
                        (ns(t), origin, e, c)
                    })
                    .collect();
                q.sort();
                for (t, _, _, _) in &q {
                    if *t <= now {
                        mon.hit("C01", format!("after `{}`: a pending action has deadline {t} <= current time {now}", "previous command"));
                    }
                }
                format!("q {}", q.iter().map(|(t, o, _, c)| format!("{t}:{o}{}", if *c { "c" } else { "" })).collect::<Vec<_>>().join(" "))
            }
            _ => "bad-op".into(),
        };
        let r = match race {
            Some((h, park, expect, aid, t)) => {
                {
                    let mut g = park.state.lock().unwrap();
                    g.1 = true;
                    park.cv.notify_all();
                }
                let r1 = h.join().unwrap_or("panic");
                if let Some(b) = bench.as_ref() {
                    let now = ns(b.sim.time());
                    let cancelled = mon.objs.values().any(|v| v.iter().any(|o| o.0 == aid && o.1.is_some()));
                    if r1 == "ok" && r.starts_with("ok") && !cancelled && t <= now && !mon.fires.iter().any(|f| f.0 == aid) {
                        mon.hit("C08", format!("`{l}`: the request returned Ok when the simulation time was already {now}, with deadline {t} <= {now}, and its action has not run: accepted although not strictly in the future (the deadline was validated outside the queue lock)"));
                    }
                }
                if r1 != expect {
                    mon.hit("C08", format!("`{l}`: the request issued from another thread returned `{r1}`, the statement requires `{expect}` (it was inside the scheduler before the stepping call started)"));
                }
                format!("{r1} ; {r}")
            }
            None => r,
        };
        // ---- C09 on the implementation's own trace, at the level of key objects: an action all of whose key objects
        // were cancelled before this command (by the driver or by any handler), or earlier in this command by a handler
        // of the very model that processes it, must not run
        mon.cmd += 1;
        let recs_all = sh.log.lock().unwrap()[log_start..].to_vec();
        for rec in &recs_all {
            match rec {
                Rec::KeyAdded { key, aid } => mon.objs.entry(*key).or_default().push((*aid, None)),
                Rec::Cancelled { key, model } => {
                    let c = mon.cmd;
                    for o in mon.objs.entry(*key).or_default().iter_mut() {
                        if o.1.is_none() {
                            o.1 = Some((c, *model));
                        }
                    }
                }
                Rec::Sync(_) => {
                    mon.seq += 1;
                    mon.sync_seq = mon.seq;
                }
                Rec::HSched { model, aid, t, period } => mon.note_sched(*aid, *t, *model + 1, *period),
                Rec::Fire { aid, model, seen } if w[0] != "proc" && mon.sched_seq.contains_key(&(*aid, *seen)) => {
                    let (origin, sq, period, amb) = mon.sched_seq[&(*aid, *seen)];
                    // the next occurrence of a periodic action counts as scheduled when this one was pulled, i.e. at the
                    // beginning of this time step, before any handler of the step ran
                    if period > 0 {
                        let sync_seq = mon.sync_seq;
                        match mon.sched_seq.get_mut(&(*aid, *seen + period)) {
                            Some(e) => e.3 = true,
                            None => {
                                mon.sched_seq.insert((*aid, *seen + period), (origin, sync_seq, period, amb));
                            }
                        }
                    }
                    if !amb {
                        let g = (origin, *model, *seen);
                        match mon.group_last.get(&g).copied() {
                            Some((lsq, laid)) if sq < lsq => {
                                mon.hit("C07", format!("`{l}`: at time {seen} model {model} processed action {laid} before action {aid}, although both come from the same origin and action {aid} was scheduled first"));
                                mon.hit("C02", format!("`{l}`: at time {seen} model {model} processed event {laid} before event {aid}, although one origin ({}) issued {aid} before {laid} for that model and time: delivery order is not consistent with the order in which they were sent", if origin == 0 { "the scheduler handle of the bench".to_string() } else { format!("model {}", origin - 1) }));
                            }
                            Some((lsq, _)) if sq <= lsq => {}
                            _ => {
                                mon.group_last.insert(g, (sq, *aid));
                            }
                        }
                    }
                    // fall through to the C09 part below by re-matching
                    let mine: Vec<(u64, Option<(usize, Option<usize>)>)> =
                        mon.objs.iter().flat_map(|(k, v)| v.iter().filter(|o| o.0 == *aid).map(move |o| (*k, o.1))).collect();
                    if !mine.is_empty() && mine.iter().all(|(_, c)| matches!(c, Some((cmd, by)) if *cmd < mon.cmd || *by == Some(*model))) {
                        let (k, c) = mine[0];
                        let who = match c {
                            Some((cmd, _)) if cmd < mon.cmd => "before this call".to_string(),
                            _ => format!("earlier in this call by a handler of model {model} itself"),
                        };
                        mon.hit("C09", format!("`{l}`: action {aid} (key {k}) ran on model {model} at time {seen} although every key object issued for it had been cancelled {who}"));
                    }
                }
                Rec::Fire { aid, model, seen } => {
                    let mine: Vec<(u64, Option<(usize, Option<usize>)>)> =
                        mon.objs.iter().flat_map(|(k, v)| v.iter().filter(|o| o.0 == *aid).map(move |o| (*k, o.1))).collect();
                    if !mine.is_empty() && mine.iter().all(|(_, c)| matches!(c, Some((cmd, by)) if *cmd < mon.cmd || *by == Some(*model))) {
                        let (k, c) = mine[0];
                        let who = match c {
                            Some((cmd, _)) if cmd < mon.cmd => "before this call".to_string(),
                            _ => format!("earlier in this call by a handler of model {model} itself"),
                        };
                        mon.hit("C09", format!("`{l}`: action {aid} (key {k}) ran on model {model} at time {seen} although every key object issued for it had been cancelled {who}"));
                    }
                }
                _ => {}
            }
        }
        hints.lock().unwrap().push(hint);
        push(r);
    }
    // C10: driver periodic series fire exactly at t0 + k*p up to the horizon / cancellation
    let horizon = mon.last_now;
    // C03: an accepted one-shot event of the driver whose deadline has been reached and whose key (if any) was never
    // cancelled has been delivered to its model exactly once
    if fatal_at.is_none() && !mon.hits.iter().any(|h| h.0 == "C03") {
        let mut lost: Vec<(u64, u64, usize)> = Vec::new();
        for (aid, (d, key)) in mon.oneshots.iter() {
            if *d > horizon {
                continue;
            }
            let cancelled = key.map(|k| mon.cancelled_at.contains_key(&k)).unwrap_or(false)
                || mon.objs.values().any(|v| v.iter().any(|o| o.0 == *aid && o.1.is_some()));
            if cancelled {
                continue;
            }
            let n = mon.fires.iter().filter(|f| f.0 == *aid).count();
            if n != 1 {
                lost.push((*aid, *d, n));
            }
        }
        lost.sort();
        if let Some((aid, d, n)) = lost.first() {
            mon.hit("C03", format!("event {aid}, accepted with deadline {d} and never cancelled, was delivered {n} time(s) although the simulation has reached time {horizon}: a scheduled event is delivered exactly once"));
            if *n == 0 {
                // every stepping call up to the horizon returned Ok: a computation triggered for a time that has been
                // reached is still unfinished (or was dropped half-way) when the call returns (C04)
                mon.hit("C04", format!("the stepping calls returned Ok up to time {horizon} although event {aid}, due at {d}, has not been delivered: a returned step is not complete"));
            }
        }
    }
    for (aid, (t0p, p, key, _m)) in mon.series.clone() {
        let got: Vec<u64> = mon.fires.iter().filter(|f| f.0 == aid).map(|f| f.2).collect();
        let limit = match key.and_then(|k| mon.cancelled_at.get(&k).copied()) {
            Some(ct) => ct.min(horizon),
            None => horizon,
        };
        let mut exp = Vec::new();
        let mut t = t0p;
        while t <= limit && fatal_at.map(|f| t < f).unwrap_or(true) {
            exp.push(t);
            t += p;
        }
        if fatal_at.is_some() {
            // after a fatal error the series is only required to be a gap-free, duplicate-free prefix of the progression
            let mut t2 = t0p;
            let mut full = Vec::new();
            while full.len() < got.len() {
                full.push(t2);
                t2 += p;
            }
            if got != full || got.len() < exp.len() {
                mon.hit("C10", format!("periodic action {aid} (t0={t0p}, period={p}) ran at {got:?}, not a complete prefix of t0+k*p (at least {exp:?})"));
            }
        } else if got != exp && key.is_none() {
            mon.hit("C10", format!("periodic action {aid} (t0={t0p}, period={p}) ran at {got:?}, expected {exp:?} up to time {horizon}"));
        } else if key.is_some() {
            // with a key: no drift / skip / double up to the cancellation point; nothing after it
            let ok_prefix = got.iter().zip(exp.iter()).all(|(a, b)| a == b);
            if !ok_prefix || got.len() < exp.len().saturating_sub(1) || got.len() > exp.len() {
                mon.hit("C10", format!("keyed periodic action {aid} (t0={t0p}, period={p}) ran at {got:?}, expected a prefix-complete run of {exp:?}"));
            }
        }
    }
    if sh.overlap.load(Ordering::SeqCst) {
        mon.hit("C05", "two handlers of one model overlapped".into());
    }
    if same_time_groups {
        tags.lock().unwrap().push("same-time-same-model-events".into());
    }
    if !mon.series.is_empty() {
        tags.lock().unwrap().push("periodic-series".into());
    }
    nontrivial.store(n_fires >= 2, Ordering::SeqCst);
    *mon_out.lock().unwrap() = mon.hits;
    drop(bench);
}

static HANGS: std::sync::atomic::AtomicUsize = std::sync::atomic::AtomicUsize::new(0);

impl Engine for Sched {
    fn name(&self) -> &'static str {
        "sched"
    }
    fn serves(&self) -> &'static [&'static str] {
        &["C01", "C07", "C08", "C09", "C10", "C18"]
    }
    fn nontrivial_rule(&self) -> &'static str {
        "a case is a bench of 1-4 probe models (+ EventSources, scripted clock, handler scripts that schedule/cancel) \
         and 5-60 driver commands; non-trivial = at least two handler executions; distinct by hash of requests+responses"
    }
    fn default_cases(&self, tier: Tier) -> usize {
        match tier {
            Tier::Quick => 1200,
            Tier::Thorough => 15000,
        }
    }

    fn gen(&self, rng: &mut Rng, _idx: usize, tier: Tier, focus: &str) -> Case {
        gen_case(rng, tier, focus)
    }

    fn blame(&self, req: &str, impl_r: &str, model_r: &str) -> Vec<&'static str> {
        // Concrete violations are reported by the monitors; a bare disagreement is a broken correspondence — with two
        // exceptions, where the statement itself fixes the answer:
        let mut v = Vec::new();
        let now = |s: &str| s.split_whitespace().find(|w| w.starts_with("now=")).map(|w| w.to_string());
        let head = |s: &str| s.split_whitespace().next().unwrap_or("").to_string();
        // (1) the simulation time after a call that both sides accept: it is the start time after `init`, the deadline
        //     reached after a step (C01; the time that every reader sees, C15)
        if (req == "init" || req == "step" || req.starts_with("until")) && head(impl_r) == "ok" && head(model_r) == "ok" {
            if let (Some(a), Some(b)) = (now(impl_r), now(model_r)) {
                if a != b {
                    v.push("C01");
                    v.push("C15");
                }
            }
        }
        // (2) OutOfSync on one side only: a lag above the configured tolerance fails the step, a lag below does not (C18)
        if (head(impl_r) == "out-of-sync") != (head(model_r) == "out-of-sync") {
            v.push("C18");
        }
        v
    }

    fn run_impl(&self, lines: &[String]) -> Outcome {
        // A stepping call that does not return decides a property, so it has to be a fact about the code and not about the
        // machine: a case that ran into the 10 s watchdog is run once more with a 60 s watchdog; only if it stalls again is it
        // reported (the first observation is recorded as `infra.hang-not-reproduced` otherwise).
        let first = self.run_once(lines, 10);
        if first.hung && first.resp.iter().any(|r| r == "HANG") {
            let second = self.run_once(lines, 60);
            if second.hung {
                return second;
            }
            HANGS.fetch_sub(1, Ordering::SeqCst);
            let mut second = second;
            second.tags.push("infra.hang-not-reproduced".into());
            return second;
        }
        first
    }
}

impl Sched {
    fn run_once(&self, lines: &[String], watchdog_s: u64) -> Outcome {
        let mut out = Outcome::default();
        if HANGS.load(Ordering::SeqCst) >= 2 {
            out.resp = lines.iter().map(|_| "skipped-after-hangs".to_string()).collect();
            out.hung = true;
            return out;
        }
        let resp = Arc::new(Mutex::new(Vec::new()));
        let hints = Arc::new(Mutex::new(Vec::new()));
        let tags = Arc::new(Mutex::new(Vec::new()));
        let mon = Arc::new(Mutex::new(Vec::new()));
        let nontrivial = Arc::new(AtomicBool::new(false));
        let (tx, rx) = mpsc::channel();
        let (l2, h2, r2, t2, m2, n2) = (lines.to_vec(), hints.clone(), resp.clone(), tags.clone(), mon.clone(), nontrivial.clone());
        let th = std::thread::Builder::new()
            .name("sched-case".into())
            .spawn(move || {
                let r = std::panic::catch_unwind(std::panic::AssertUnwindSafe(|| run_case(l2, h2, r2, t2, m2, n2)));
                let _ = tx.send(r.is_ok());
            })
            .unwrap();
        match rx.recv_timeout(Duration::from_secs(watchdog_s)) {
            Ok(ok) => {
                let _ = th.join();
                out.resp = resp.lock().unwrap().clone();
                if !ok {
                    out.resp.push("harness-panic".into());
                }
            }
            Err(_) => {
                HANGS.fetch_add(1, Ordering::SeqCst);
                out.resp = resp.lock().unwrap().clone();
                let at = out.resp.len();
                let req = lines.get(at).cloned().unwrap_or_default();
                out.resp.push("HANG".into());
                out.hung = true;
                out.monitor.push(("C08".into(), format!("stepping call `{req}` did not return within {watchdog_s} s")));
            }
        }
        while out.resp.len() < lines.len() {
            out.resp.push("-missing-".into());
        }
        out.hints = hints.lock().unwrap().clone();
        out.tags = tags.lock().unwrap().clone();
        out.monitor.extend(mon.lock().unwrap().iter().cloned());
        out.nontrivial = nontrivial.load(Ordering::SeqCst);
        out
    }
}

/// Structured generator: mostly-valid schedules around existing deadlines, plus a malformed stream
/// (past/now deadlines, zero periods, stale keys).
fn gen_case(rng: &mut Rng, tier: Tier, focus: &str) -> Case {
    let nmodels = rng.range(1, 4) as usize;
    let t0 = *rng.pick(&[0u64, 0, 100, 1_000_000_007]);
    let tol = if rng.chance(1, 3) { Some(*rng.pick(&[0u64, 5, 50])) } else { None };
    let exec = match rng.below(4) {
        0 | 1 => "st".to_string(),
        2 => "mt2".to_string(),
        _ => format!("mt{}", rng.pick(&[3u64, 4, 8])),
    };
    let mut lines = vec![format!(
        "case sched {nmodels} tol {} t0 {t0} exec {exec} cap {}",
        tol.map(|t| t.to_string()).unwrap_or("none".into()),
        rng.pick(&[1u64, 1, 2, 3, 16, 16, 512])
    )];
    // one case in three (one in two under C18 / C01 / C15) runs entirely before the epoch (negative TAI seconds)
    if rng.chance(1, if focus == "C18" || focus == "C01" || focus == "C15" { 2 } else { 3 }) {
        lines.push("base neg".into());
    }
    // one case in three measures time in units of a quarter of a second plus 7 ns (the seconds and the sub-second part of
    // the simulation time both change from one deadline to the next)
    if rng.chance(1, 3) {
        lines.push("unit big".into());
    }
    // scripted lags: rare, and mostly below the tolerance
    let mut clock = vec![];
    let nlags = if rng.chance(1, 3) { rng.range(1, 3) } else { 0 };
    for _ in 0..nlags {
        let n = rng.range(1, 12);
        let lag = *rng.pick(&[1u64, 3, 5, 6, 40, 50, 51, 1000]);
        if !clock.iter().any(|c: &String| c.starts_with(&format!("{n}:"))) {
            clock.push(format!("{n}:{lag}"));
        }
    }
    lines.push(if clock.is_empty() { "clock -".into() } else { format!("clock {}", clock.join(" ")) });
    let nsrc = rng.below(3);
    for s in 0..nsrc {
        let k = rng.range(1, nmodels as u64);
        let mut ms: Vec<u64> = (0..nmodels as u64).collect();
        for i in 0..ms.len() {
            let j = rng.below(ms.len() as u64) as usize;
            ms.swap(i, j);
        }
        ms.truncate(k as usize);
        lines.push(format!("src {s} {}", ms.iter().map(|m| m.to_string()).collect::<Vec<_>>().join(",")));
    }
    // aids: every scheduling site gets fresh aids; key ids are fresh per site.
    let mut next_aid = 1u64;
    let mut next_key = 1u64;
    let periods = [1u64, 2, 3, 4, 5, 6, 10, 12];
    let kinds = ["once", "once", "keyed", "per", "kper"];
    let n_cmds = match tier {
        Tier::Quick => rng.range(5, 40),
        Tier::Thorough => rng.range(5, 60),
    };
    // Pre-plan the driver commands so that handler scripts can be attached to their aids before `init`.
    let mut cmds: Vec<String> = Vec::new();
    let mut hlines: Vec<String> = Vec::new();
    let mut ext_lines: Vec<String> = Vec::new();
    let mut live_keys: Vec<u64> = Vec::new();
    let mut all_keys: Vec<u64> = Vec::new();
    let mut est_now = t0; // rough estimate of the current time, used to aim deadlines
    let mut horizon_marks: Vec<u64> = vec![t0 + 5, t0 + 10, t0 + 12];
    let wsched = if focus == "C08" { 10 } else { 6 };
    let wcancel = if focus == "C09" { 4 } else { 2 };
    for _ in 0..n_cmds {
        match rng.weighted(&[wsched, 4, 3, wcancel, 1, 2, 1]) {
            0 => {
                // driver schedule on a model input
                let m = rng.below(nmodels as u64);
                let kind = if focus == "C10" && rng.chance(1, 2) { "per" } else { *rng.pick(&kinds) };
                let (dk, dl) = gen_deadline(rng, est_now, &horizon_marks);
                let p = if rng.chance(1, 15) { 0 } else { *rng.pick(&periods) };
                let aid = next_aid;
                next_aid += 1;
                let key = next_key;
                next_key += 1;
                if kind == "keyed" || kind == "kper" {
                    live_keys.push(key);
                    all_keys.push(key);
                }
                let t = if dk == "abs" { dl } else { est_now + dl };
                horizon_marks.push(t);
                if rng.chance(1, if focus == "C08" && tier == Tier::Quick { 25 } else if focus == "C08" { 120 } else { 400 }) {
                    // the same request, issued from another thread while the simulation thread starts a step
                    cmds.push(format!("race m {m} {dk} {dl} {kind} {p} {aid} {key} then step"));
                    est_now = horizon_marks.iter().copied().filter(|t| *t > est_now).min().unwrap_or(est_now);
                } else {
                    cmds.push(format!("sch m {m} {dk} {dl} {kind} {p} {aid} {key}"));
                }
                // handler script for this aid
                gen_script(rng, aid, &mut next_aid, &mut next_key, &mut hlines, &periods, 0, kind != "per" && kind != "kper");
            }
            1 => {
                cmds.push("step".into());
                est_now = horizon_marks.iter().copied().filter(|t| *t > est_now).min().unwrap_or(est_now);
            }
            2 => {
                if rng.chance(1, 12) {
                    // malformed: target in the past
                    cmds.push(format!("until abs {}", est_now.saturating_sub(rng.range(1, 5))));
                } else if rng.chance(1, 2) {
                    let d = *rng.pick(&[0u64, 1, 2, 3, 5, 7, 10, 20]);
                    cmds.push(format!("until rel {d}"));
                    est_now += d;
                } else {
                    let tgt = *rng.pick(&horizon_marks) + rng.below(3);
                    let tgt = tgt.max(est_now);
                    cmds.push(format!("until abs {tgt}"));
                    est_now = tgt;
                }
            }
            3 => {
                // cancel: mostly a live key, sometimes a stale/unknown one
                if !all_keys.is_empty() && rng.chance(9, 10) {
                    let k = *rng.pick(&all_keys);
                    cmds.push(format!("cancel {k}"));
                } else {
                    cmds.push(format!("cancel {}", 900 + rng.below(5)));
                }
            }
            4 => {
                let m = rng.below(nmodels as u64);
                let aid = next_aid;
                next_aid += 1;
                cmds.push(format!("proc {m} {aid}"));
                gen_script(rng, aid, &mut next_aid, &mut next_key, &mut hlines, &periods, 0, true);
            }
            5 => {
                if nsrc > 0 {
                    let s = rng.below(nsrc);
                    let kind = *rng.pick(&kinds);
                    let (dk, dl) = gen_deadline(rng, est_now, &horizon_marks);
                    let p = if rng.chance(1, 10) { 0 } else { *rng.pick(&periods) };
                    let aid = next_aid;
                    next_aid += 1;
                    let key = next_key;
                    next_key += 1;
                    if kind == "keyed" || kind == "kper" {
                        all_keys.push(key);
                    }
                    cmds.push(format!("ssrc {s} {dk} {dl} {kind} {p} {aid} {key}"));
                    let t = if dk == "abs" { dl } else { est_now + dl };
                    horizon_marks.push(t);
                } else {
                    cmds.push("step".into());
                }
            }
            _ => {
                // a Scheduler handle used while the queue is unlocked, during the n-th synchronize call
                let n = rng.range(1, 10);
                let m = rng.below(nmodels as u64);
                let (dk, dl) = if rng.chance(1, 2) { ("rel", rng.range(0, 4)) } else { ("abs", *rng.pick(&horizon_marks) + rng.below(2)) };
                let aid = next_aid;
                next_aid += 1;
                let key = next_key;
                next_key += 1;
                let kind = *rng.pick(&["once", "once", "keyed", "per"]);
                ext_lines.push(format!("ext {n} m {m} {dk} {dl} {kind} {} {aid} {key}", rng.pick(&periods)));
            }
        }
        if rng.chance(1, 2) {
            cmds.push("queue".into());
        }
    }
    cmds.push("queue".into());
    // run out the tail so that pending events get a chance to fire
    for _ in 0..rng.range(0, 3) {
        cmds.push("step".into());
    }
    cmds.push("queue".into());
    // an init script for one model: what `Model::init` schedules on its own context (relative deadlines from the start time)
    if rng.chance(1, if focus == "C10" || focus == "C01" || focus == "C18" { 3 } else { 6 }) {
        let m = rng.below(nmodels as u64);
        let init_aid = INIT_AID + m;
        for _ in 0..rng.range(1, 3) {
            let kind = *rng.pick(&["once", "per", "per", "keyed", "kper"]);
            let dl = *rng.pick(&[0u64, 1, 2, 3, 5, 10]);
            let p = if rng.chance(1, 12) { 0 } else { *rng.pick(&periods) };
            let a2 = next_aid;
            next_aid += 1;
            let k = next_key;
            next_key += 1;
            hlines.push(format!("h {init_aid} s rel {dl} {kind} {p} {a2} {k}"));
            if rng.chance(1, 3) {
                gen_script(rng, a2, &mut next_aid, &mut next_key, &mut hlines, &periods, 1, false);
            }
        }
    }
    lines.extend(hlines);
    lines.extend(ext_lines);
    lines.push("init".into());
    lines.extend(cmds);
    let _ = live_keys;
    Case { lines }
}

fn gen_deadline(rng: &mut Rng, est_now: u64, marks: &[u64]) -> (&'static str, u64) {
    match rng.weighted(&[5, 4, 3, 1, 1]) {
        0 => ("rel", *rng.pick(&[1u64, 1, 2, 3, 5, 5, 7, 10, 12])),
        1 => ("abs", *rng.pick(marks)), // coincide with an existing deadline (may be in the past by now)
        2 => ("abs", est_now + rng.range(1, 12)),
        3 => ("rel", 0),                                    // malformed: now
        _ => ("abs", est_now.saturating_sub(rng.below(3))), // malformed: now or past
    }
}

/// Handler script of `aid`: schedule follow-ups on the model's own context, cancel own keys.
fn gen_script(rng: &mut Rng, aid: u64, next_aid: &mut u64, next_key: &mut u64, hlines: &mut Vec<String>, periods: &[u64], depth: u32, allow_cancel: bool) {
    if depth > 2 || !rng.chance(2, 5) {
        return;
    }
    let n = rng.range(1, 3);
    let mut own_keys: Vec<u64> = Vec::new();
    for _ in 0..n {
        if allow_cancel && !own_keys.is_empty() && rng.chance(1, 3) {
            hlines.push(format!("h {aid} c {}", rng.pick(&own_keys)));
            continue;
        }
        let kind = *rng.pick(&["once", "once", "keyed", "keyed", "per", "kper"]);
        let (dk, dl) = if rng.chance(4, 5) { ("rel", *rng.pick(&[1u64, 2, 3, 5, 5, 10])) } else { ("rel", 0) };
        let p = if rng.chance(1, 12) { 0 } else { *rng.pick(periods) };
        let a2 = *next_aid;
        *next_aid += 1;
        let k = *next_key;
        *next_key += 1;
        if kind == "keyed" || kind == "kper" {
            own_keys.push(k);
        }
        hlines.push(format!("h {aid} s {dk} {dl} {kind} {p} {a2} {k}"));
        // the follow-up's own script (may cancel the keys created here: same model, same origin)
        if allow_cancel && !own_keys.is_empty() && rng.chance(1, 3) {
            hlines.push(format!("h {a2} c {}", rng.pick(&own_keys)));
        }
        if kind != "per" && kind != "kper" {
            gen_script(rng, a2, next_aid, next_key, hlines, periods, depth + 1, allow_cancel);
        }
    }
}
