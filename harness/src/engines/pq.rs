//! Engine `pq`: the scheduler's `PriorityQueue` and the `IndexedPriorityQueue` (through the verif
//! hooks), against M-PQ.  Raw insert keys `(slab_idx, epoch)` are part of the compared responses.

use nexosim::verif_hooks::{VIndexedPriorityQueue, VPriorityQueue};

use crate::rng::Rng;
use crate::runner::{Case, Engine, Outcome, Tier};

pub struct Pq;

fn show_kv(v: Option<(u64, u64)>) -> String {
    match v {
        None => "none".into(),
        Some((k, v)) => format!("some {k} {v}"),
    }
}

/// Abstract specification used as a monitor on the implementation's own trace (independent of the
/// Lean model's slot/epoch bookkeeping): the multiset of queued entries with their insertion rank.
#[derive(Default)]
struct Spec {
    seq: u64,
    present: Vec<(u64, u64, u64)>,                                   // (key, insertion rank, value)
    issued: std::collections::HashMap<(u64, u64), (u64, u64, u64)>, // raw key -> entry
}
impl Spec {
    fn min(&self) -> Option<(u64, u64, u64)> {
        self.present.iter().copied().min()
    }
    fn remove(&mut self, e: (u64, u64, u64)) {
        if let Some(p) = self.present.iter().position(|x| *x == e) {
            self.present.remove(p);
        }
    }
}

enum St {
    None,
    Pq(VPriorityQueue),
    Ipq(VIndexedPriorityQueue),
}

impl Engine for Pq {
    fn name(&self) -> &'static str {
        "pq"
    }
    fn serves(&self) -> &'static [&'static str] {
        &["C20"]
    }
    fn nontrivial_rule(&self) -> &'static str {
        "a case is one queue (PriorityQueue or IndexedPriorityQueue) and an operation sequence over insert/pull/peek \
         (+ peek_key/len/extract(raw key) for the indexed queue) followed by a full drain; non-trivial = at least two \
         entries with equal keys were queued together or an extract hit/missed a reused slot; distinct by hash"
    }
    fn default_cases(&self, tier: Tier) -> usize {
        match tier {
            Tier::Quick => 1500,
            Tier::Thorough => 20000,
        }
    }

    fn enumerate(&self, tier: Tier, _focus: &str) -> Vec<Case> {
        // All sequences up to a bound over keys {0,1,2}; for the indexed queue `ext i e` ranges over
        // all raw keys with slot < 3 and epoch < len (covers every issued key — stale, live, reused
        // slot — and forged ones).
        let maxlen = match tier {
            Tier::Quick => 5usize,
            Tier::Thorough => 7usize,
        };
        let mut out = Vec::new();
        // entries whose epochs are 2^31, 2^32 (± 1) and 2^63 apart (the counter is moved forward through the verif hook):
        // FIFO among equal keys in the plain queue; a stale key against the new occupant of its slot in the keyed queue
        for gap in [(1u64 << 31) - 1, 1 << 31, (1 << 31) + 1, (1 << 32) - 1, 1 << 32, (1 << 32) + 1, 1 << 63] {
            for first in [0u64, 1, 7] {
                let mut l = vec!["case pq".to_string()];
                for i in 0..first {
                    l.push(format!("ins 9 {}", 50 + i));
                }
                l.push("ins 5 1".into());
                l.push(format!("setepoch {}", first + gap));
                l.push("ins 5 2".into());
                l.push("ins 5 3".into());
                for _ in 0..(first + 4) {
                    l.push("pull".into());
                }
                out.push(Case { lines: l });
                let mut l = vec!["case ipq".to_string()];
                for i in 0..first {
                    l.push(format!("ins 9 {}", 50 + i));
                }
                l.push("ins 5 1".into());
                l.push("raw".into());
                l.push(format!("ext {first} {first}"));
                l.push(format!("setepoch {}", first + gap));
                l.push("ins 7 2".into());
                l.push("raw".into());
                l.push(format!("ext {first} {first}")); // the stale key: same slot, the old epoch
                l.push("peek".into());
                l.push(format!("ext {first} {}", first + gap));
                for _ in 0..(first + 2) {
                    l.push("pull".into());
                }
                out.push(Case { lines: l });
            }
        }
        for indexed in [false, true] {
            let mut alphabet: Vec<String> = vec!["ins 0".into(), "ins 1".into(), "ins 2".into(), "pull".into()];
            if indexed {
                let lim = if tier == Tier::Quick { 3 } else { 3 };
                for i in 0..lim {
                    for e in 0..(maxlen as u64 - 1).min(4) {
                        alphabet.push(format!("ext {i} {e}"));
                    }
                }
            }
            let maxl = if indexed { maxlen.min(if tier == Tier::Quick { 4 } else { 5 }) } else { maxlen };
            for len in 1..=maxl {
                let total = alphabet.len().pow(len as u32);
                for code in 0..total {
                    let mut c = code;
                    let mut lines = vec![if indexed { "case ipq".to_string() } else { "case pq".to_string() }];
                    let mut n_ins = 0;
                    for pos in 0..len {
                        let a = &alphabet[c % alphabet.len()];
                        c /= alphabet.len();
                        if a.starts_with("ins") {
                            n_ins += 1;
                            lines.push(format!("{a} {}", 10 + pos));
                        } else {
                            lines.push(a.clone());
                        }
                        if indexed {
                            lines.push("raw".into());
                        }
                    }
                    if n_ins == 0 {
                        continue;
                    }
                    lines.push("peek".into());
                    if indexed {
                        lines.push("len".into());
                    }
                    for _ in 0..=n_ins {
                        lines.push("pull".into());
                        if indexed {
                            lines.push("raw".into());
                        }
                    }
                    out.push(Case { lines });
                }
            }
        }
        out
    }

    fn gen(&self, rng: &mut Rng, _idx: usize, tier: Tier, _focus: &str) -> Case {
        let indexed = rng.chance(3, 5);
        let mut lines = vec![if indexed { "case ipq".to_string() } else { "case pq".to_string() }];
        let maxlen = match tier {
            Tier::Quick => 80,
            Tier::Thorough => 600,
        };
        let long = match tier { Tier::Quick => 3000, Tier::Thorough => 20000 };
        let len = if rng.chance(1, 25) { rng.range(500, long) } else { rng.range(2, maxlen) };
        // few distinct keys → many ties
        let nkeys = *rng.pick(&[1u64, 2, 3, 3, 5, 10, 1000]);
        let wi = rng.range(3, 10);
        let wp = rng.range(1, 8);
        let we = if indexed { rng.range(1, 8) } else { 0 };
        // We do not know the real keys while generating; run a local real queue to learn them so
        // that extracts mostly target issued keys (live, stale, reused slots), plus forged ones.
        let mut shadow = VIndexedPriorityQueue::new();
        let mut issued: Vec<(usize, u64)> = Vec::new();
        let mut val = 1u64;
        // the layout of the heap array and of the slab is compared after every operation of a short case and
        // after one operation in 16 of a long one
        let raw_every = len <= 120;
        let mut epoch_est = 0u64;
        for _ in 0..len {
            if indexed && lines.len() > 1 && (raw_every || rng.chance(1, 16)) {
                lines.push("raw".into());
            }
            if rng.chance(1, 40) && epoch_est < (1 << 62) {
                // a jump of the epoch counter (as after billions of insertions)
                epoch_est += *rng.pick(&[(1u64 << 31) - 1, 1 << 31, (1 << 32) - 2, 1 << 32, (1 << 32) + 1, 1 << 40]);
                lines.push(format!("setepoch {epoch_est}"));
                if indexed {
                    shadow.set_next_epoch(epoch_est);
                }
            }
            match rng.weighted(&[wi, wp, 1, we, if indexed { 1 } else { 0 }]) {
                0 => {
                    let k = rng.below(nkeys);
                    lines.push(format!("ins {k} {val}"));
                    if indexed {
                        issued.push(shadow.insert(k, val));
                    }
                    val += 1;
                }
                1 => {
                    lines.push("pull".into());
                    if indexed {
                        shadow.pull();
                    }
                }
                2 => lines.push(if indexed && rng.chance(1, 2) { "peekkey".into() } else { "peek".into() }),
                3 => {
                    let (i, e) = if !issued.is_empty() && rng.chance(9, 10) {
                        // recent keys preferentially (slot reuse patterns)
                        let n = issued.len();
                        let j = if rng.chance(1, 2) { n - 1 - (rng.below(n.min(4) as u64) as usize) } else { rng.below(n as u64) as usize };
                        let (i, e) = issued[j];
                        if rng.chance(1, 10) {
                            // perturb: same slot, other epoch (stale-key look-alike)
                            (i, e + rng.range(1, 3))
                        } else {
                            (i, e)
                        }
                    } else {
                        (rng.below(6) as usize, rng.below(8))
                    };
                    lines.push(format!("ext {i} {e}"));
                    shadow.extract(i, e);
                }
                _ => lines.push("len".into()),
            }
        }
        let n = if indexed { shadow.len() + 1 } else { val as usize };
        for _ in 0..n.min(20000) {
            lines.push("pull".into());
            if indexed && (n <= 60 || rng.chance(1, 16)) {
                lines.push("raw".into());
            }
        }
        Case { lines }
    }

    fn run_impl(&self, lines: &[String]) -> Outcome {
        let mut st = St::None;
        let mut out = Outcome::default();
        let mut ties = false;
        let mut keys_in: std::collections::HashMap<u64, u64> = Default::default();
        let mut ext_hit = 0;
        let mut ext_miss = 0;
        let mut spec = Spec::default();
        let mut mon: Vec<(String, String)> = Vec::new();
        for l in lines {
            let w: Vec<&str> = l.split_whitespace().collect();
            let r = std::panic::catch_unwind(std::panic::AssertUnwindSafe(|| match (w.as_slice(), &mut st) {
                (["case", "pq"], _) => {
                    st = St::Pq(VPriorityQueue::new());
                    "ok".to_string()
                }
                (["case", "ipq"], _) => {
                    st = St::Ipq(VIndexedPriorityQueue::new());
                    "ok".to_string()
                }
                (["ins", k, v], St::Pq(q)) => {
                    let k: u64 = k.parse().unwrap();
                    q.insert(k, v.parse().unwrap());
                    let c = keys_in.entry(k).or_insert(0);
                    *c += 1;
                    if *c > 1 {
                        ties = true;
                    }
                    "-".into()
                }
                (["ins", k, v], St::Ipq(q)) => {
                    let k: u64 = k.parse().unwrap();
                    let (i, e) = q.insert(k, v.parse().unwrap());
                    let c = keys_in.entry(k).or_insert(0);
                    *c += 1;
                    if *c > 1 {
                        ties = true;
                    }
                    format!("key {i} {e}")
                }
                (["setepoch", e], St::Pq(q)) => {
                    q.set_next_epoch(e.parse().unwrap());
                    "-".into()
                }
                (["setepoch", e], St::Ipq(q)) => {
                    q.set_next_epoch(e.parse().unwrap());
                    "-".into()
                }
                (["pull"], St::Pq(q)) => {
                    let r = q.pull();
                    if let Some((k, _)) = r {
                        *keys_in.get_mut(&k).unwrap() -= 1;
                    }
                    show_kv(r)
                }
                (["pull"], St::Ipq(q)) => {
                    let r = q.pull();
                    if let Some((k, _)) = r {
                        *keys_in.get_mut(&k).unwrap() -= 1;
                    }
                    show_kv(r)
                }
                (["peek"], St::Pq(q)) => show_kv(q.peek()),
                (["peek"], St::Ipq(q)) => show_kv(q.peek()),
                (["peekkey"], St::Ipq(q)) => match q.peek_key() {
                    None => "none".into(),
                    Some(k) => format!("some {k}"),
                },
                (["len"], St::Ipq(q)) => format!("len {}", q.len()),
                (["raw"], St::Ipq(q)) => q.raw(),
                (["ext", i, e], St::Ipq(q)) => {
                    let r = q.extract(i.parse().unwrap(), e.parse().unwrap());
                    if let Some((k, _)) = r {
                        *keys_in.get_mut(&k).unwrap() -= 1;
                        ext_hit += 1;
                    } else {
                        ext_miss += 1;
                    }
                    show_kv(r)
                }
                _ => "bad-op".into(),
            }));
            let r = r.unwrap_or_else(|_| "panic".into());
            // ---- monitor: the statement of C20 evaluated on the implementation's own responses
            if mon.is_empty() {
                let rw: Vec<&str> = r.split_whitespace().collect();
                match w.as_slice() {
                    ["case", ..] => spec = Spec::default(),
                    ["ins", k, v] => {
                        let e = (k.parse().unwrap(), spec.seq, v.parse().unwrap());
                        spec.seq += 1;
                        spec.present.push(e);
                        if let ["key", i, ep] = rw.as_slice() {
                            let key = (i.parse().unwrap(), ep.parse().unwrap());
                            if let Some(old) = spec.issued.insert(key, e) {
                                let _ = old;
                                mon.push(("C20".into(), format!("insert key {key:?} was issued twice (request `{l}`)")));
                            }
                        }
                    }
                    ["pull"] | ["peek"] | ["peekkey"] => {
                        let exp = spec.min();
                        let got_ok = match (exp, rw.as_slice()) {
                            (None, ["none"]) => true,
                            (Some((k, _, v)), ["some", gk, gv]) => gk.parse() == Ok(k) && gv.parse() == Ok(v),
                            (Some((k, _, _)), ["some", gk]) => gk.parse() == Ok(k),
                            _ => false,
                        };
                        if !got_ok {
                            mon.push(("C20".into(), format!("`{l}` returned `{r}` but the smallest key / first inserted entry is {exp:?}")));
                        } else if w[0] == "pull" {
                            if let Some(e) = exp {
                                spec.remove(e);
                            }
                        }
                    }
                    ["ext", i, ep] => {
                        let key: (u64, u64) = (i.parse().unwrap(), ep.parse().unwrap());
                        let own = spec.issued.get(&key).copied().filter(|e| spec.present.contains(e));
                        let got_ok = match (own, rw.as_slice()) {
                            (None, ["none"]) => true,
                            (Some((k, _, v)), ["some", gk, gv]) => gk.parse() == Ok(k) && gv.parse() == Ok(v),
                            _ => false,
                        };
                        if !got_ok {
                            mon.push(("C20".into(), format!("`{l}` returned `{r}` but this key designates {own:?} (entry it was issued for, if still queued)")));
                        } else if let Some(e) = own {
                            spec.remove(e);
                        }
                    }
                    ["len"] => {
                        if r != format!("len {}", spec.present.len()) {
                            mon.push(("C20".into(), format!("`len` returned `{r}` with {} entries queued", spec.present.len())));
                        }
                    }
                    _ => {}
                }
            }
            out.resp.push(r);
        }
        match st {
            St::Pq(_) => out.tags.push("pq".into()),
            St::Ipq(_) => out.tags.push("ipq".into()),
            St::None => {}
        }
        if ties {
            out.tags.push("equal-keys-queued-together".into());
        }
        if ext_hit > 0 {
            out.tags.push("extract-hit".into());
        }
        if ext_miss > 0 {
            out.tags.push("extract-miss(stale/forged)".into());
        }
        out.monitor = mon;
        out.nontrivial = ties || (ext_hit > 0 && ext_miss > 0);
        out
    }

    fn blame(&self, req: &str, _impl_r: &str, _model_r: &str) -> Vec<&'static str> {
        // pull/peek/extract results are fixed by the statement of C20 (stable minimum; a key designates
        // its own entry or nothing).  The raw value of an insert key is an implementation detail.
        if req.starts_with("pull") || req.starts_with("peek") || req.starts_with("ext") || req.starts_with("len") {
            vec!["C20"]
        } else {
            vec![]
        }
    }
}
