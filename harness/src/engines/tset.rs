//! Engine `tset`: the task set of a broadcast (`util/task_set.rs`, through the verif hook) against M-TSET run
//! sequentially (every `wake_by_ref` / `take_scheduled` / iterator walk executed to its end before the next operation).
//! Responses: the indices yielded by a take, in iteration order, and the number of notifications the parent received.

use nexosim::verif_hooks::VTaskSet;

use crate::rng::Rng;
use crate::runner::{Case, Engine, Outcome, Tier};

pub struct TSet;

impl Engine for TSet {
    fn name(&self) -> &'static str {
        "tset"
    }
    fn serves(&self) -> &'static [&'static str] {
        &["C14"]
    }
    fn nontrivial_rule(&self) -> &'static str {
        "a case is one task set of 1-6 sub-tasks and a sequence over wake(i) / take(countdown) (the scheduled indices are \
         drained in iteration order) / discard_scheduled / has_scheduled; non-trivial = a take yielded at least two indices or a countdown \
         reached zero; distinct by hash"
    }
    fn default_cases(&self, tier: Tier) -> usize {
        match tier {
            Tier::Quick => 1500,
            Tier::Thorough => 30000,
        }
    }
    fn enumerate(&self, tier: Tier, _focus: &str) -> Vec<Case> {
        // every sequence up to a bound over { wake 0, wake 1, wake 2, take 0, take 1, take 2 } on three tasks
        let maxlen = match tier {
            Tier::Quick => 5usize,
            Tier::Thorough => 7usize,
        };
        let alphabet = ["wake 0", "wake 1", "wake 2", "take 0", "take 1", "take 2", "discard"];
        let mut out = Vec::new();
        fn rec(alphabet: &[&str], cur: &mut Vec<usize>, maxlen: usize, out: &mut Vec<Case>) {
            if !cur.is_empty() {
                let mut lines = vec!["case tset 3".to_string()];
                for a in cur.iter() {
                    lines.push(alphabet[*a].to_string());
                }
                lines.push("take 0".into());
                lines.push("take 0".into());
                out.push(Case { lines });
            }
            if cur.len() == maxlen {
                return;
            }
            for a in 0..alphabet.len() {
                cur.push(a);
                rec(alphabet, cur, maxlen, out);
                cur.pop();
            }
        }
        rec(&alphabet, &mut Vec::new(), maxlen, &mut out);
        out
    }
    fn gen(&self, rng: &mut Rng, _idx: usize, tier: Tier, _focus: &str) -> Case {
        let n = rng.range(1, 6);
        let len = rng.range(3, if tier == Tier::Quick { 40 } else { 150 });
        let mut lines = vec![format!("case tset {n}")];
        for _ in 0..len {
            match rng.weighted(&[6, 3, 1, 1]) {
                0 => lines.push(format!("wake {}", rng.below(n))),
                1 => lines.push(format!("take {}", rng.below(4))),
                2 => lines.push("discard".into()),
                _ => lines.push("has".into()),
            }
        }
        lines.push("take 0".into());
        lines.push("take 0".into());
        Case { lines }
    }
    fn run_impl(&self, lines: &[String]) -> Outcome {
        let mut out = Outcome::default();
        let mut ts: Option<VTaskSet> = None;
        // monitor (C14's task-set clause on the implementation's own trace): every task woken since it was last yielded is
        // yielded by the next take, once; nothing else is yielded; the parent is notified when an armed countdown of c > 0
        // has seen c pushes of sleeping tasks
        let mut woken: Vec<usize> = Vec::new();
        for l in lines {
            let w: Vec<&str> = l.split_whitespace().collect();
            let r = match (w.as_slice(), &mut ts) {
                (["case", "tset", n], _) => {
                    ts = Some(VTaskSet::new(n.parse().unwrap()));
                    woken.clear();
                    "ok".to_string()
                }
                (["wake", i], Some(t)) => {
                    let i: usize = i.parse().unwrap();
                    t.wake(i);
                    if !woken.contains(&i) {
                        woken.push(i);
                    }
                    format!("- n={}", t.notifications())
                }
                (["take", c], Some(t)) => {
                    let got = t.take(c.parse().unwrap());
                    let list = got.clone().unwrap_or_default();
                    let mut a = list.clone();
                    a.sort();
                    let mut b = woken.clone();
                    b.sort();
                    if a != b {
                        out.monitor.push(("C14".into(), format!("`{l}` yielded {list:?} but the sub-tasks woken since they were last yielded are {woken:?}: a wake-up was lost, duplicated or invented")));
                    }
                    if list.len() >= 2 {
                        out.nontrivial = true;
                    }
                    woken.clear();
                    match got {
                        None => format!("none n={}", t.notifications()),
                        Some(v) => format!("some {} n={}", v.iter().map(|x| x.to_string()).collect::<Vec<_>>().join(","), t.notifications()),
                    }
                }
                (["discard"], Some(t)) => {
                    t.discard();
                    woken.clear();
                    format!("- has={}", t.has_scheduled())
                }
                (["has"], Some(t)) => format!("{}", t.has_scheduled()),
                _ => "bad-op".into(),
            };
            out.resp.push(r);
        }
        out
    }
}
