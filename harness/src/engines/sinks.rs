//! Engine `sinks`: `EventBuffer`, `EventSlot` through the public API, and a simulated model writing
//! to a sink through an `Output` (plain / map / filter_map connection).  Model: M-SINK.

use nexosim::model::Model;
use nexosim::ports::{EventBuffer, EventSink, EventSinkStream, EventSinkWriter, EventSlot, Output};
use nexosim::simulation::{Mailbox, SimInit};
use nexosim::time::MonotonicTime;

use crate::rng::Rng;
use crate::runner::{Case, Engine, Outcome, Tier};

pub struct Sinks;

#[derive(Default)]
struct Src {
    out: Output<u64>,
}
impl Src {
    async fn burst(&mut self, (a, n): (u64, u64)) {
        for i in 0..n {
            self.out.send(a + i).await;
        }
    }
}
impl Model for Src {}

fn show_opt(v: Option<u64>) -> String {
    match v {
        None => "none".into(),
        Some(x) => format!("some {x}"),
    }
}
fn show_list(v: &[u64]) -> String {
    v.iter().map(|x| x.to_string()).collect::<Vec<_>>().join(",")
}

enum St {
    None,
    Buf(EventBuffer<u64>, <EventBuffer<u64> as EventSink<u64>>::Writer),
    Slot(EventSlot<u64>, <EventSlot<u64> as EventSink<u64>>::Writer),
    Sim(EventBuffer<u64>, nexosim::simulation::Simulation, nexosim::simulation::Address<Src>),
}

impl Engine for Sinks {
    fn name(&self) -> &'static str {
        "sinks"
    }
    fn serves(&self) -> &'static [&'static str] {
        &["C17"]
    }
    fn nontrivial_rule(&self) -> &'static str {
        "a case is one sink (buffer cap 1..5 / slot / buffer fed by a simulated model through an Output) with an \
         operation sequence over write/next/open/close(/burst) ended by a drain; non-trivial = at least one write was \
         accepted and at least one event was read back or evicted; distinct = hash of (requests, responses)"
    }
    fn default_cases(&self, tier: Tier) -> usize {
        match tier {
            Tier::Quick => 1500,
            Tier::Thorough => 20000,
        }
    }

    fn enumerate(&self, tier: Tier, _focus: &str) -> Vec<Case> {
        // All sequences over {write, next, open, close} up to a length bound, capacities 1..=maxcap,
        // buffer and slot, open and closed start.
        let (maxlen, maxcap) = match tier {
            Tier::Quick => (5usize, 3u64),
            Tier::Thorough => (8usize, 4u64),
        };
        let mut out = Vec::new();
        // several threads writing at the same moment into a buffer that holds everything: every event must be there
        out.push(Case { lines: vec![format!("stress 1000000 4 {}", if tier == Tier::Quick { 20000 } else { 100000 })] });
        out.push(Case { lines: vec![format!("stress 1000000 2 {}", if tier == Tier::Quick { 20000 } else { 100000 })] });
        // zero-sized events: every capacity up to 4 (and 16, 17), up to 3 * capacity + 2 writes, a few reads in between
        for cap in [1usize, 2, 3, 4, 16, 17] {
            for n in [0, 1, cap, cap + 1, 2 * cap + 1, 3 * cap + 2] {
                for reads in [0, 1, cap] {
                    out.push(Case { lines: vec![format!("zst {cap} {n} {reads}")] });
                }
            }
        }
        let alphabet = ["write", "next", "open", "close"];
        for len in 0..=maxlen {
            let total = 4usize.pow(len as u32);
            for code in 0..total {
                let mut ops = Vec::with_capacity(len);
                let mut c = code;
                let mut w = 1;
                for _ in 0..len {
                    let a = alphabet[c % 4];
                    c /= 4;
                    if a == "write" {
                        ops.push(format!("write {w}"));
                        w += 1;
                    } else {
                        ops.push(a.to_string());
                    }
                }
                // Closed-start variants only for the shorter half (they are a sub-space after `close`).
                for cap in 1..=maxcap {
                    let mut lines = vec![format!("case buf {cap} 1")];
                    lines.extend(ops.iter().cloned());
                    lines.push("drain".into());
                    out.push(Case { lines });
                    // buffers created closed (`with_capacity_closed`), for the shorter sequences
                    if len <= maxlen - 1 {
                        let mut lines = vec![format!("case buf {cap} 0")];
                        lines.extend(ops.iter().cloned());
                        lines.push("drain".into());
                        out.push(Case { lines });
                    }
                }
                let mut lines = vec!["case slot 1".to_string()];
                lines.extend(ops.iter().cloned());
                lines.push("drain".into());
                out.push(Case { lines });
            }
        }
        out
    }

    fn gen(&self, rng: &mut Rng, _idx: usize, tier: Tier, _focus: &str) -> Case {
        if rng.chance(1, if tier == Tier::Quick { 60 } else { 200 }) {
            // small buffers (only the most recent arrivals survive) and buffers that hold everything (nothing may be missing)
            let cap = *rng.pick(&[1u64, 2, 3, 4, 7, 1_000_000]);
            return Case { lines: vec![format!("stress {cap} {} {}", rng.range(2, 6), rng.range(2000, 20000))] };
        }
        let kind = rng.weighted(&[5, 2, 2]);
        let maxlen = match tier {
            Tier::Quick => 60,
            Tier::Thorough => 400,
        };
        let len = if rng.chance(1, 20) { rng.range(500, 5000) } else { rng.range(1, maxlen) };
        let mut lines = Vec::new();
        let open = if rng.chance(1, 6) { 0 } else { 1 };
        // Capacities: mostly small so that overflow happens; sometimes the default 16.
        let cap = *rng.pick(&[1u64, 1, 2, 2, 3, 3, 4, 5, 7, 16]);
        match kind {
            0 => lines.push(format!("case buf {cap} {open}")),
            1 => lines.push(format!("case slot {open}")),
            _ => lines.push(format!("case simbuf {cap} {open} {}", rng.below(3))),
        }
        // Operation mix drawn per case, so that some cases are write-heavy (overflow) and some read-heavy.
        let ww = rng.range(2, 10);
        let wn = rng.range(1, 8);
        let wo = rng.range(0, 2);
        let wc = rng.range(0, 2);
        let mut next_val = 1u64;
        let n_ops = if kind == 2 { len.min(40) } else { len };
        for _ in 0..n_ops {
            match rng.weighted(&[ww, wn, wo, wc]) {
                0 => {
                    if kind == 2 {
                        let n = rng.range(0, 2 * cap + 2);
                        lines.push(format!("burst {next_val} {n}"));
                        next_val += n;
                    } else {
                        lines.push(format!("write {next_val}"));
                        next_val += 1;
                    }
                }
                1 => lines.push("next".into()),
                2 => lines.push("open".into()),
                _ => lines.push("close".into()),
            }
        }
        lines.push("drain".into());
        Case { lines }
    }

    fn run_impl(&self, lines: &[String]) -> Outcome {
        let mut st = St::None;
        let mut out = Outcome::default();
        let mut accepted = 0u64;
        let mut yielded = 0u64;
        let mut is_open = true;
        let mut mode = 0u64;
        for l in lines {
            let w: Vec<&str> = l.split_whitespace().collect();
            let r = match (w.as_slice(), &mut st) {
                (["case", "buf", cap, o], _) => {
                    let cap: usize = cap.parse().unwrap();
                    is_open = *o != "0";
                    let b = if is_open {
                        EventBuffer::with_capacity(cap)
                    } else {
                        EventBuffer::with_capacity_closed(cap)
                    };
                    let wr = b.writer();
                    st = St::Buf(b, wr);
                    out.tags.push(format!("buf.cap{}", cap.min(6)));
                    "ok".to_string()
                }
                (["stress", cap, writers, n], _) => {
                    // several threads write through clones of one writer into a small buffer: whatever the interleaving, each
                    // write is one critical section, so the buffer holds the most recent `cap` arrivals — at most `cap`
                    // events, and of every writer a (possibly empty) suffix of what it wrote, in its order
                    let (cap, writers, n): (usize, u64, u64) = (cap.parse().unwrap(), writers.parse().unwrap(), n.parse().unwrap());
                    let mut b: EventBuffer<u64> = EventBuffer::with_capacity(cap);
                    let wr = b.writer();
                    let hs: Vec<_> = (0..writers)
                        .map(|wi| {
                            let wr = wr.clone();
                            std::thread::spawn(move || {
                                for k in 0..n {
                                    wr.write(wi * 1_000_000 + k);
                                }
                            })
                        })
                        .collect();
                    for h in hs {
                        h.join().unwrap();
                    }
                    let got: Vec<u64> = b.by_ref().collect();
                    let expect_len = cap.min((writers * n) as usize);
                    let mut ok = got.len() == expect_len;
                    for wi in 0..writers {
                        let mine: Vec<u64> = got.iter().filter(|v| **v / 1_000_000 == wi).map(|v| v % 1_000_000).collect();
                        let suffix: Vec<u64> = (n - mine.len() as u64..n).collect();
                        if mine != suffix {
                            ok = false;
                        }
                    }
                    if !ok {
                        out.monitor.push(("C17".into(), format!("{writers} threads wrote {n} events each into an EventBuffer of capacity {cap}; it then held {} events ({:?}{}): it must hold exactly the {expect_len} most recent ones (of every writer a suffix of its writes)", got.len(), &got[..got.len().min(12)], if got.len() > 12 { " …" } else { "" })));
                    }
                    out.nontrivial = true;
                    out.tags.push("stress".into());
                    format!("stress len={}", got.len().min(cap + 1))
                }
                (["zst", cap, n, reads], _) => {
                    // a buffer of zero-sized events (`Output<()>` is common): n writes, `reads` reads in between at the middle,
                    // then a count of what is left
                    let (cap, n, reads): (usize, usize, usize) = (cap.parse().unwrap(), n.parse().unwrap(), reads.parse().unwrap());
                    let mut b: EventBuffer<()> = EventBuffer::with_capacity(cap);
                    let wr = b.writer();
                    for _ in 0..n / 2 {
                        wr.write(());
                    }
                    let mut got = 0usize;
                    for _ in 0..reads {
                        if b.next().is_some() {
                            got += 1;
                        }
                    }
                    for _ in n / 2..n {
                        wr.write(());
                    }
                    let left = b.by_ref().take(cap + n + 1).count();
                    let first = (n / 2).min(cap);
                    let exp_got = reads.min(first);
                    let exp_left = (first - exp_got + (n - n / 2)).min(cap);
                    if got != exp_got || left != exp_left {
                        out.monitor.push(("C17".into(), format!("an EventBuffer<()> of capacity {cap}: {} writes, {reads} reads (yielded {got}), {} more writes; it then held {left} events, it must hold {exp_left} (at most the most recent `capacity` events)", n / 2, n - n / 2)));
                    }
                    out.nontrivial = true;
                    out.tags.push("zst".into());
                    format!("zst got={got} left={left}")
                }
                (["case", "slot", o], _) => {
                    is_open = *o != "0";
                    let s = if is_open { EventSlot::new() } else { EventSlot::new_closed() };
                    let wr = s.writer();
                    st = St::Slot(s, wr);
                    out.tags.push("slot".into());
                    "ok".to_string()
                }
                (["case", "simbuf", cap, o, m], _) => {
                    let cap: usize = cap.parse().unwrap();
                    is_open = *o != "0";
                    mode = m.parse().unwrap();
                    let b = if is_open {
                        EventBuffer::with_capacity(cap)
                    } else {
                        EventBuffer::with_capacity_closed(cap)
                    };
                    let mut src = Src::default();
                    match mode {
                        0 => src.out.connect_sink(&b),
                        1 => src.out.map_connect_sink(|x: &u64| *x + 1000, &b),
                        _ => src.out.filter_map_connect_sink(
                            |x: &u64| if *x % 2 == 0 { Some(*x) } else { None },
                            &b,
                        ),
                    }
                    let mb = Mailbox::new();
                    let addr = mb.address();
                    let (sim, _sched) = SimInit::with_num_threads(1)
                        .add_model(src, mb, "src")
                        .init(MonotonicTime::EPOCH)
                        .unwrap();
                    st = St::Sim(b, sim, addr);
                    out.tags.push(format!("simbuf.mode{mode}"));
                    "ok".to_string()
                }
                (["write", x], St::Buf(_, wr)) => {
                    wr.write(x.parse().unwrap());
                    if is_open {
                        accepted += 1;
                    }
                    "-".into()
                }
                (["write", x], St::Slot(_, wr)) => {
                    wr.write(x.parse().unwrap());
                    if is_open {
                        accepted += 1;
                    }
                    "-".into()
                }
                (["burst", a, n], St::Sim(_, sim, addr)) => {
                    let (a, n): (u64, u64) = (a.parse().unwrap(), n.parse().unwrap());
                    match sim.process_event(Src::burst, (a, n), &*addr) {
                        Ok(()) => {
                            if is_open {
                                accepted += n;
                            }
                            "-".into()
                        }
                        Err(e) => format!("error {e}"),
                    }
                }
                (["next"], St::Buf(b, _)) | (["next"], St::Sim(b, _, _)) => {
                    let v = b.next();
                    if v.is_some() {
                        yielded += 1;
                    }
                    show_opt(v)
                }
                (["next"], St::Slot(s, _)) => {
                    let v = s.next();
                    if v.is_some() {
                        yielded += 1;
                    }
                    show_opt(v)
                }
                (["open"], St::Buf(b, _)) | (["open"], St::Sim(b, _, _)) => {
                    b.open();
                    is_open = true;
                    "-".into()
                }
                (["close"], St::Buf(b, _)) | (["close"], St::Sim(b, _, _)) => {
                    b.close();
                    is_open = false;
                    "-".into()
                }
                (["open"], St::Slot(s, _)) => {
                    s.open();
                    is_open = true;
                    "-".into()
                }
                (["close"], St::Slot(s, _)) => {
                    s.close();
                    is_open = false;
                    "-".into()
                }
                (["drain"], St::Buf(b, _)) | (["drain"], St::Sim(b, _, _)) => {
                    let v: Vec<u64> = b.by_ref().collect();
                    yielded += v.len() as u64;
                    format!("drained {}", show_list(&v))
                }
                (["drain"], St::Slot(s, _)) => {
                    let v: Vec<u64> = s.by_ref().take(1).collect();
                    yielded += v.len() as u64;
                    format!("drained {}", show_list(&v))
                }
                _ => "bad-op".into(),
            };
            out.resp.push(r);
        }
        let _ = mode;
        if accepted > yielded {
            out.tags.push("lost-to-eviction-or-overwrite".into());
        }
        out.nontrivial = accepted > 0 && (yielded > 0 || accepted > yielded);
        out
    }

    fn blame(&self, req: &str, _impl_r: &str, _model_r: &str) -> Vec<&'static str> {
        // The observable behaviour of a sink (what `next`/`drain` return) is fully fixed by the
        // statement of C17, so any disagreement on a read is a concrete failing input.
        if req.starts_with("next") || req.starts_with("drain") {
            vec!["C17"]
        } else {
            vec![]
        }
    }
}
