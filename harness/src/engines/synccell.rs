//! Engine `synccell`: `SyncCell<TearableAtomicTime>` through the verif hooks, against M-SEQLOCK.
//!   case cell <secs> <nanos> | write <secs> <nanos> | read | shape | search <writes> <depth> | stress <writes> <readers>
//! `shape`/`search` are answered by the model from the orderings extracted from the source; the implementation
//! side answers what the property demands ("shape-ok", "none" = no torn read exists), so that a model-found
//! torn-read history shows up as a disagreement carrying the history.

use std::sync::atomic::{AtomicBool, AtomicI64, AtomicU64, Ordering};
use std::sync::Arc;

use nexosim::verif_hooks::VSyncCell;

use crate::rng::Rng;
use crate::runner::{Case, Engine, Outcome, Tier};

pub struct SyncCellEngine;

fn stress(writes: i64, readers: usize) -> Result<(u64, u64), String> {
    let cell = VSyncCell::new(0, 3);
    let published = Arc::new(AtomicI64::new(0));
    let stop = Arc::new(AtomicBool::new(false));
    let reads = Arc::new(AtomicU64::new(0));
    let mut hs = Vec::new();
    for _ in 0..readers {
        let r = cell.reader();
        let (published, stop, reads) = (published.clone(), stop.clone(), reads.clone());
        hs.push(std::thread::spawn(move || -> Result<(u64, u64), String> {
            let mut last = 0i64;
            let (mut ok, mut retry) = (0u64, 0u64);
            while !stop.load(Ordering::Relaxed) {
                let p = published.load(Ordering::Acquire);
                match r.try_read() {
                    Some((s, n)) => {
                        ok += 1;
                        if ok % 256 == 0 {
                            reads.fetch_add(256, Ordering::Relaxed);
                        }
                        if n as i64 != (s * 7 + 3) % 1_000_000_000 {
                            return Err(format!("torn read: secs={s} nanos={n}"));
                        }
                        if s < last {
                            return Err(format!("reader went backwards: {s} after {last}"));
                        }
                        if s < p {
                            return Err(format!("read {s} although write {p} had been published to this reader"));
                        }
                        last = s;
                    }
                    None => retry += 1,
                }
            }
            Ok((ok, retry))
        }));
    }
    // keep writing until every reader had a fair number of successful reads racing with writes
    let mut k = 0i64;
    while k < writes || (reads.load(Ordering::Relaxed) < 20_000 * readers as u64 && k < 200 * writes) {
        k += 1;
        cell.write(k, ((k * 7 + 3) % 1_000_000_000) as u32);
        if k % 64 == 0 {
            published.store(k, Ordering::Release);
        }
    }
    stop.store(true, Ordering::Relaxed);
    let mut tot = (0, 0);
    for h in hs {
        let (a, b) = h.join().map_err(|_| "reader panicked".to_string())??;
        tot.0 += a;
        tot.1 += b;
    }
    Ok(tot)
}

impl Engine for SyncCellEngine {
    fn name(&self) -> &'static str {
        "synccell"
    }
    fn serves(&self) -> &'static [&'static str] {
        &["C15"]
    }
    fn nontrivial_rule(&self) -> &'static str {
        "sequential write/read histories on the real cell vs the SC run of the view machine; one shape+search case \
         (model-side search for a torn-read history under the extracted orderings); threaded stress cases with \
         correlated halves; non-trivial = at least one write followed by a read; distinct by hash"
    }
    fn default_cases(&self, tier: Tier) -> usize {
        match tier {
            Tier::Quick => 300,
            Tier::Thorough => 3000,
        }
    }
    fn enumerate(&self, tier: Tier, _focus: &str) -> Vec<Case> {
        let depth = if tier == Tier::Quick { 22 } else { 34 };
        // the shape of the two programs and the model-side search for a torn-read history are separate cases: a search that
        // finds a history is a failing history even when the shape is no longer the one the theorems are about
        let mut v = vec![
            Case { lines: vec!["case cell 0 0".into(), "shape".into()] },
            Case { lines: vec!["case cell 0 0".into(), format!("search 2 {depth}")] },
            Case { lines: vec!["case cell 0 0".into(), "search 1 16".into()] },
            // K complete writes during one read, for every K up to a bound: the counter must not be back to its value
            Case { lines: vec!["case cell 0 0".into(), "wrap 100000".into()] },
        ];
        let (w, n) = if tier == Tier::Quick { (200_000, 3) } else { (3_000_000, 6) };
        for r in 1..=n {
            v.push(Case { lines: vec!["case cell 0 3".into(), format!("stress {w} {r}")] });
        }
        v
    }
    fn gen(&self, rng: &mut Rng, _idx: usize, _tier: Tier, _focus: &str) -> Case {
        let mut lines = vec![format!("case cell {} {}", rng.below(5), rng.below(1000))];
        for _ in 0..rng.range(1, 40) {
            if rng.chance(1, 2) {
                let s = *rng.pick(&[0u64, 1, 2, 1_000_000, 4_000_000_000]) + rng.below(3);
                let n = *rng.pick(&[0u64, 1, 999_999_999, 500]);
                lines.push(format!("write {s} {n}"));
            } else {
                lines.push("read".into());
            }
        }
        lines.push("read".into());
        Case { lines }
    }
    fn run_impl(&self, lines: &[String]) -> Outcome {
        let mut out = Outcome::default();
        let mut cell: Option<VSyncCell> = None;
        let mut wrote = false;
        for l in lines {
            let w: Vec<&str> = l.split_whitespace().collect();
            let r = match (w.as_slice(), &cell) {
                (["case", "cell", a, b], _) => {
                    cell = Some(VSyncCell::new(a.parse().unwrap(), b.parse().unwrap()));
                    "ok".to_string()
                }
                (["write", a, b], Some(c)) => {
                    c.write(a.parse().unwrap(), b.parse().unwrap());
                    wrote = true;
                    "-".into()
                }
                (["read"], Some(c)) => {
                    out.nontrivial |= wrote;
                    match c.reader().try_read() {
                        Some((s, n)) => {
                            let direct = c.read();
                            if direct != (s, n) {
                                out.monitor.push(("C15".into(), format!("reader returned {:?} but the cell holds {:?}", (s, n), direct)));
                            }
                            format!("ok {s} {n}")
                        }
                        None => "retry".into(),
                    }
                }
                (["shape"], _) => "shape-ok".into(),
                (["search", _, _], _) => {
                    out.tags.push("model-search-for-torn-read".into());
                    "none".into()
                }
                (["wrap", _], _) => {
                    out.tags.push("model-search-for-counter-wrap".into());
                    "none".into()
                }
                (["stress", wr, rd], _) => {
                    out.nontrivial = true;
                    out.tags.push(format!("stress.readers{rd}"));
                    match stress(wr.parse().unwrap(), rd.parse().unwrap()) {
                        Ok((ok, retry)) => {
                            out.tags.push(format!("stress.reads~{}k", (ok / 1000).min(100_000)));
                            let _ = retry;
                            "ok".into()
                        }
                        Err(e) => {
                            out.monitor.push(("C15".into(), format!("threaded run ({l}): {e}")));
                            format!("violation {e}")
                        }
                    }
                }
                _ => "bad-op".into(),
            };
            out.resp.push(r);
        }
        if out.tags.is_empty() {
            out.tags.push("sequential".into());
        }
        out
    }
    fn blame(&self, req: &str, _i: &str, _m: &str) -> Vec<&'static str> {
        // read results are fixed by the property; a torn-read history found by the model under the source's
        // orderings is a concrete failing history.
        if req.starts_with("read") || req.starts_with("search") || req.starts_with("wrap") {
            vec!["C15"]
        } else {
            vec![]
        }
    }
}
