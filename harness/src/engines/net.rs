//! Engine `net`: whole benches — models, sub-models, output/requestor ports with plain/map/filter connections,
//! sinks, orphan mailboxes — on the single- and multi-threaded executors, against M-NET.
//!
//!   case net exec <st|mtN>
//!   model <i> cap <c> sim <0|1> parent <p|-> name <n>       (pre-order: a parent precedes its children)
//!   conn <i> <port> <ev|q> <box j|sink k> add <a> fmod <m> fres <r>
//!   react <i> <ev|q> <port> cmod <m> cres <r>               (script line k sends payload*10+k+1 through <port>)
//!   initop <i> <ev|q> <port> cmod <m> cres <r>
//!   init | ev <j> <payload> | qr <j> <payload>
//! Response: `<result> | I <inits> | H <model:payload ...> | R <model:payload=[replies] ...> | K <sink:payload ...>`,
//! every list sorted (schedule-independent).

use std::collections::{BTreeMap, HashMap, HashSet};
use std::sync::atomic::{AtomicBool, AtomicUsize, Ordering};
use std::sync::{Arc, Mutex};

use nexosim::model::{BuildContext, Context, InitializedModel, Model, ProtoModel};
use nexosim::ports::{EventBuffer, Output, Requestor};
use nexosim::simulation::{Address, ExecutionError, Mailbox, SimInit, Simulation};
use nexosim::time::MonotonicTime;

use crate::rng::Rng;
use crate::runner::{Case, Engine, Outcome, Tier};

pub struct Net;

/// Message payload with instance counting: the counter (instances created by new / clone / map minus instances
/// dropped) belongs to the case that created the message, so that a computation abandoned by an earlier case (step
/// time-out) cannot disturb the balance of the current one.
pub type Live = Arc<std::sync::atomic::AtomicIsize>;
#[derive(Debug)]
pub struct P(pub u128, Live);
impl P {
    fn new(v: u128, live: &Live) -> P {
        live.fetch_add(1, Ordering::SeqCst);
        P(v, live.clone())
    }
    /// a message derived from this one by a connection's map
    fn derive(&self, v: u128) -> P {
        P::new(v, &self.1)
    }
}
impl Clone for P {
    fn clone(&self) -> P {
        P::new(self.0, &self.1)
    }
}
impl Drop for P {
    fn drop(&mut self) {
        self.1.fetch_sub(1, Ordering::SeqCst);
    }
}

#[derive(Clone, Debug)]
enum Rec {
    Init(usize),
    Handle(usize, u128),
    Done(usize, u128),
    Reply(usize, u128, Vec<u128>),
    /// (sender model, handled payload, script line, child payload before map)
    Sent(usize, u128, usize, u128, bool),
}

#[derive(Default)]
struct Shared {
    log: Mutex<Vec<Rec>>,
    busy: Mutex<Vec<bool>>,
    overlap: AtomicBool,
    names: Mutex<Vec<String>>,
    ctx_names: Mutex<Vec<(usize, String)>>,
    /// number of times the model with a given index was dropped
    node_drops: Mutex<Vec<usize>>,
    /// live message instances of this case
    live: Live,
    /// microseconds every handler spends working (makes work stealing happen)
    work_us: std::sync::atomic::AtomicU64,
    /// the handler that overruns the time-out on purpose has started sleeping
    slept: AtomicBool,
    /// the overrunning handler is inside its sleep right now
    sleeping: AtomicBool,
}

#[derive(Clone, Debug)]
struct POp {
    query: bool,
    port: usize,
    cmod: u128,
    cres: u128,
}

#[derive(Clone, Debug)]
struct ConnSpec {
    query: bool,
    to_sink: bool,
    dst: usize,
    add: u128,
    fmod: u128,
    fres: u128,
}

#[derive(Clone, Debug, Default)]
struct ModelSpec {
    cap: usize,
    sim: bool,
    parent: Option<usize>,
    name: String,
    ports: BTreeMap<usize, Vec<ConnSpec>>,
    react: Vec<POp>,
    initops: Vec<POp>,
    dead: bool,
    panic_on: Option<u128>,
    sleep_on: Option<u128>,
}

struct Node {
    id: usize,
    sh: Arc<Shared>,
    outs: HashMap<usize, Output<P>>,
    reqs: HashMap<usize, Requestor<P, u128>>,
    react: Vec<POp>,
    initops: Vec<POp>,
    panic_on: Option<u128>,
    sleep_on: Option<u128>,
}

impl Drop for Node {
    fn drop(&mut self) {
        let mut d = self.sh.node_drops.lock().unwrap();
        if d.len() <= self.id {
            d.resize(self.id + 1, 0);
        }
        d[self.id] += 1;
    }
}

impl Node {
    async fn run_script(&mut self, init: bool, payload: u128) {
        let script = if init { self.initops.clone() } else { self.react.clone() };
        for (k, op) in script.iter().enumerate() {
            if !(op.cmod == 0 || payload % op.cmod == op.cres) {
                continue;
            }
            let child = payload * 100 + self.id as u128 * 10 + k as u128 + 1;
            self.sh.log.lock().unwrap().push(Rec::Sent(self.id, payload, k, child, op.query));
            if op.query {
                if let Some(r) = self.reqs.get_mut(&op.port) {
                    let replies: Vec<u128> = r.send(P::new(child, &self.sh.live)).await.collect();
                    if !replies.is_empty() {
                        self.sh.log.lock().unwrap().push(Rec::Reply(self.id, payload, replies));
                    }
                }
            } else if let Some(o) = self.outs.get_mut(&op.port) {
                o.send(P::new(child, &self.sh.live)).await;
            }
        }
    }
    fn enter(&self) {
        let mut b = self.sh.busy.lock().unwrap();
        if b[self.id] {
            self.sh.overlap.store(true, Ordering::SeqCst);
        }
        b[self.id] = true;
    }
    fn leave(&self) {
        self.sh.busy.lock().unwrap()[self.id] = false;
    }
    /// models with an odd index panic at the end of the handler (after their sends), the others on entry
    fn late_fault(&self, p: u128) {
        if self.panic_on == Some(p) && self.id % 2 == 1 {
            self.leave();
            panic!("boom {p}");
        }
    }
    fn fault(&self, p: u128) {
        let w = self.sh.work_us.load(Ordering::Relaxed);
        if w > 0 {
            std::thread::sleep(std::time::Duration::from_micros(w));
        }
        if self.panic_on == Some(p) && self.id % 2 == 0 {
            self.leave();
            panic!("boom {p}");
        }
        if self.sleep_on == Some(p) {
            self.sh.slept.store(true, Ordering::SeqCst);
            self.sh.sleeping.store(true, Ordering::SeqCst);
            std::thread::sleep(std::time::Duration::from_millis(400));
            self.sh.sleeping.store(false, Ordering::SeqCst);
        }
    }
    async fn input(&mut self, msg: P, cx: &mut Context<Self>) {
        let p = msg.0;
        self.enter();
        self.sh.log.lock().unwrap().push(Rec::Handle(self.id, p));
        self.fault(p);
        self.sh.ctx_names.lock().unwrap().push((self.id, cx.name().to_string()));
        self.run_script(false, p).await;
        self.late_fault(p);
        self.sh.log.lock().unwrap().push(Rec::Done(self.id, p));
        self.leave();
        drop(msg); // the message lives as long as its handler
    }
    async fn replier(&mut self, msg: P) -> u128 {
        let p = msg.0;
        self.enter();
        self.sh.log.lock().unwrap().push(Rec::Handle(self.id, p));
        self.fault(p);
        self.run_script(false, p).await;
        self.late_fault(p);
        self.sh.log.lock().unwrap().push(Rec::Done(self.id, p));
        self.leave();
        drop(msg);
        p * 3 + self.id as u128 + 1
    }
}

impl Model for Node {
    async fn init(mut self, cx: &mut Context<Self>) -> InitializedModel<Self> {
        self.enter();
        self.sh.log.lock().unwrap().push(Rec::Init(self.id));
        self.sh.ctx_names.lock().unwrap().push((self.id, cx.name().to_string()));
        // a value no generated message can carry (children end in a digit 1..9, roots are below 9000)
        let p = 9000 + 10 * self.id as u128;
        self.run_script(true, p).await;
        self.sh.log.lock().unwrap().push(Rec::Done(self.id, p));
        self.leave();
        self.into()
    }
}

/// Wake-on-drop scenario (`wod ...`): models own objects whose destructors wake other, pending models.
type WakerSlot = Arc<Mutex<Option<std::task::Waker>>>;
struct Gate(WakerSlot);
impl std::future::Future for Gate {
    type Output = ();
    fn poll(self: std::pin::Pin<&mut Self>, cx: &mut std::task::Context<'_>) -> std::task::Poll<()> {
        *self.0.lock().unwrap() = Some(cx.waker().clone());
        std::task::Poll::Pending
    }
}
struct WakeOnDrop(WakerSlot);
impl Drop for WakeOnDrop {
    fn drop(&mut self) {
        let w = self.0.lock().unwrap().take();
        if let Some(w) = w {
            w.wake();
        }
    }
}
struct Wod {
    id: usize,
    drops: Arc<Mutex<Vec<usize>>>,
    slot: WakerSlot,
    _owned: Vec<WakeOnDrop>,
    out: Output<u64>,
    boom: bool,
}
impl Drop for Wod {
    fn drop(&mut self) {
        self.drops.lock().unwrap()[self.id] += 1;
    }
}
impl Wod {
    async fn wait(&mut self, _x: u64) {
        Gate(self.slot.clone()).await;
    }
    async fn ping(&mut self, _x: u64) {}
    async fn trigger(&mut self, x: u64) {
        self.out.send(x).await;
        if self.boom {
            panic!("boom");
        }
    }
}
impl Model for Wod {}

/// `wod <threads> <n> waiters <csv|-> edges <a>b,..|-> panic <k|-> to <csv|->`
fn wod(threads: usize, n: usize, waiters: &[usize], edges: &[(usize, usize)], panicker: Option<usize>, to: &[usize]) -> (String, bool) {
    let drops = Arc::new(Mutex::new(vec![0usize; n]));
    let slots: Vec<WakerSlot> = (0..n).map(|_| Arc::new(Mutex::new(None))).collect();
    let boxes: Vec<Mailbox<Wod>> = (0..n).map(|_| Mailbox::new()).collect();
    let addrs: Vec<Address<Wod>> = boxes.iter().map(|b| b.address()).collect();
    let mut si = SimInit::with_num_threads(threads);
    for (i, mb) in boxes.into_iter().enumerate() {
        let mut out = Output::default();
        if panicker == Some(i) || (panicker.is_none() && i == 0) {
            for r in to {
                out.connect(Wod::ping, &addrs[*r]);
            }
        }
        let owned = edges.iter().filter(|(a, _)| *a == i).map(|(_, b)| WakeOnDrop(slots[*b].clone())).collect();
        si = si.add_model(
            Wod { id: i, drops: drops.clone(), slot: slots[i].clone(), _owned: owned, out, boom: panicker == Some(i) },
            mb,
            format!("w{i}"),
        );
    }
    let (tx, rx) = std::sync::mpsc::channel();
    let (waiters, to_len) = (waiters.to_vec(), to.len());
    let h = std::thread::spawn(move || {
        let r = std::panic::catch_unwind(std::panic::AssertUnwindSafe(move || {
            let (mut sim, sched) = si.init(MonotonicTime::EPOCH).unwrap();
            for w in &waiters {
                let _ = sim.process_event(Wod::wait, 0, &addrs[*w]);
            }
            let res = match panicker {
                Some(k) => sim.process_event(Wod::trigger, 1, &addrs[k]).map_err(|e| exec_err(&e)),
                None if to_len > 0 => sim.process_event(Wod::trigger, 1, &addrs[0]).map_err(|e| exec_err(&e)),
                None => Ok(()),
            };
            drop(addrs);
            drop(sched);
            drop(sim);
            res
        }));
        let _ = tx.send(r);
    });
    match rx.recv_timeout(std::time::Duration::from_secs(20)) {
        Ok(r) => {
            let _ = h.join();
            drop(slots);
            let once = drops.lock().unwrap().iter().filter(|x| **x == 1).count();
            match r {
                Ok(res) => (format!("wod {} returned once={once}/{n}", res.map(|_| "ok".to_string()).unwrap_or_else(|e| e.split(' ').next().unwrap_or("").to_string())), false),
                Err(_) => (format!("wod - panicked once={once}/{n}"), false),
            }
        }
        Err(_) => ("wod - hung".to_string(), true),
    }
}

/// Wide flat bench (`wide <threads> <n>`): `n` models, each counting its init and its events.
struct Cnt {
    inits: Arc<AtomicUsize>,
    hits: Arc<AtomicUsize>,
}
impl Cnt {
    async fn hit(&mut self, _x: u64) {
        self.hits.fetch_add(1, Ordering::SeqCst);
    }
}
impl Model for Cnt {
    async fn init(self, _cx: &mut Context<Self>) -> InitializedModel<Self> {
        self.inits.fetch_add(1, Ordering::SeqCst);
        self.into()
    }
}
fn wide(threads: usize, n: usize) -> String {
    let inits = Arc::new(AtomicUsize::new(0));
    let hits = Arc::new(AtomicUsize::new(0));
    let mut si = SimInit::with_num_threads(threads);
    let mut addrs = Vec::new();
    for i in 0..n {
        let mb = Mailbox::new();
        addrs.push(mb.address());
        si = si.add_model(Cnt { inits: inits.clone(), hits: hits.clone() }, mb, format!("c{i}"));
    }
    match si.init(MonotonicTime::EPOCH) {
        Ok((mut sim, sched)) => {
            let i1 = inits.load(Ordering::SeqCst);
            for a in &addrs {
                let _ = sched.schedule_event(std::time::Duration::from_secs(1), Cnt::hit, 1, a);
            }
            let r = sim.step();
            let h1 = hits.load(Ordering::SeqCst);
            // a second round through process_event (one injected task each)
            for a in addrs.iter().take(3) {
                let _ = sim.process_event(Cnt::hit, 2, a);
            }
            let h2 = hits.load(Ordering::SeqCst) - h1;
            format!("wide {} inits={i1}/{n} hits={h1}/{n} then={h2}/{}", if r.is_ok() { "ok" } else { "err" }, n.min(3))
        }
        Err(e) => format!("wide init-{}", exec_err(&e)),
    }
}

/// Models of the nested-simulation scenario (`nested <k> <j>`).
struct Idle {
    id: usize,
    drops: Arc<Mutex<Vec<usize>>>,
}
impl Drop for Idle {
    fn drop(&mut self) {
        self.drops.lock().unwrap()[self.id] += 1;
    }
}
impl Idle {
    async fn poke(&mut self, _x: u64) {}
}
impl Model for Idle {}
struct Host {
    inner_drops: Arc<Mutex<Vec<usize>>>,
}
impl Host {
    /// builds a single-threaded simulation with `j` idle models, runs one event through it and drops it — all from
    /// inside a handler of the enclosing simulation
    async fn run_inner(&mut self, j: usize) {
        *self.inner_drops.lock().unwrap() = vec![0; j];
        let mut si = SimInit::with_num_threads(1);
        let mut first = None;
        for i in 0..j {
            let mb = Mailbox::new();
            if first.is_none() {
                first = Some(mb.address());
            }
            si = si.add_model(Idle { id: i, drops: self.inner_drops.clone() }, mb, format!("inner{i}"));
        }
        if let Ok((mut sim, _s)) = si.init(MonotonicTime::EPOCH) {
            if let Some(a) = first {
                let _ = sim.process_event(Idle::poke, 1, &a);
            }
            drop(sim);
        }
    }
}
impl Model for Host {}

/// Nested-run scenario (`nestrun <outer threads> <kind> <n>`): a handler of an outer simulation builds a single-threaded
/// simulation, runs one event through it that ends as `kind` says (clean / lose n messages to a mailbox outside /
/// deadlock on a query to itself / send a message then panic), deals with the error, and returns.  The outer simulation
/// has processed every message it sent, so its run must return Ok.
#[derive(Default)]
struct NInner {
    out: nexosim::ports::Output<()>,
    req: nexosim::ports::Requestor<(), ()>,
}
impl NInner {
    async fn send_n(&mut self, n: usize) {
        for _ in 0..n {
            self.out.send(()).await;
        }
    }
    async fn query(&mut self) {
        let _ = self.req.send(()).await;
    }
    async fn send_then_panic(&mut self) {
        self.out.send(()).await;
        panic!("nested panic");
    }
    async fn noop(&mut self) {}
    async fn reply(&mut self) {}
    async fn panic_now(&mut self) {
        panic!("model panic");
    }
}
impl Model for NInner {}
struct NOuter {
    res: Arc<Mutex<String>>,
}
impl NOuter {
    async fn run_nested(&mut self, arg: (u8, usize)) {
        let (kind, n) = arg;
        let mut a = NInner::default();
        let a_box = Mailbox::new();
        let a_addr = a_box.address();
        let b_box: Mailbox<NInner> = Mailbox::new();
        let orphan: Mailbox<NInner> = Mailbox::new();
        match kind {
            1 => a.out.connect(NInner::noop, &orphan),
            _ => a.out.connect(NInner::noop, &b_box),
        };
        a.req.connect(NInner::reply, &a_addr);
        let r = match SimInit::with_num_threads(1).add_model(a, a_box, "a").add_model(NInner::default(), b_box, "b").init(MonotonicTime::EPOCH) {
            Ok((mut sim, _s)) => {
                let r = match kind {
                    0 | 1 => sim.process_event(NInner::send_n, n, &a_addr),
                    2 => sim.process_event(NInner::query, (), &a_addr),
                    _ => sim.process_event(NInner::send_then_panic, (), &a_addr),
                };
                match r {
                    Ok(()) => "ok".to_string(),
                    Err(e) => exec_err(&e),
                }
            }
            Err(e) => format!("init-{}", exec_err(&e)),
        };
        *self.res.lock().unwrap() = r;
    }
}
impl Model for NOuter {}

/// Late-drop scenario (`deadlate <threads> <victim first> <query>`): a model sends twice through a port connected to a
/// recipient outside the simulation (mailbox of capacity 1, owned by another model) and to that other model; the second
/// send is suspended on the full mailbox; the owner, handling the first message, drops the mailbox.  The suspended send
/// fails: the call must report NoRecipient naming the sender, and the next call Terminated.
struct LVictim;
impl LVictim {
    async fn input(&mut self) {}
    async fn replier(&mut self) -> u32 {
        0
    }
}
impl Model for LVictim {}
struct LDropper {
    victim: Option<Mailbox<LVictim>>,
}
impl LDropper {
    async fn input(&mut self) {
        self.victim.take();
    }
    async fn replier(&mut self) -> u32 {
        self.victim.take();
        1
    }
}
impl Model for LDropper {}
#[derive(Default)]
struct LSender {
    out: nexosim::ports::Output<()>,
    req: nexosim::ports::Requestor<(), u32>,
}
impl LSender {
    async fn send_twice(&mut self) {
        self.out.send(()).await;
        self.out.send(()).await;
    }
    async fn send_then_request(&mut self) {
        self.out.send(()).await;
        let _ = self.req.send(()).await.count();
    }
}
impl Model for LSender {}

fn deadlate(threads: usize, victim_first: bool, query: bool) -> String {
    let victim = Mailbox::with_capacity(1);
    let dropper_box = Mailbox::new();
    let sender_box = Mailbox::new();
    let sender_addr = sender_box.address();
    let mut sender = LSender::default();
    if query {
        sender.out.connect(LVictim::input, &victim);
        sender.req.connect(LVictim::replier, &victim);
        sender.req.connect(LDropper::replier, &dropper_box);
    } else if victim_first {
        sender.out.connect(LVictim::input, &victim);
        sender.out.connect(LDropper::input, &dropper_box);
    } else {
        sender.out.connect(LDropper::input, &dropper_box);
        sender.out.connect(LVictim::input, &victim);
    }
    let dropper = LDropper { victim: Some(victim) };
    let (tx, rx) = std::sync::mpsc::channel();
    std::thread::spawn(move || {
        let r = match SimInit::with_num_threads(threads).add_model(sender, sender_box, "sender").add_model(dropper, dropper_box, "dropper").init(MonotonicTime::EPOCH) {
            Ok((mut sim, _s)) => {
                let r1 = if query { sim.process_event(LSender::send_then_request, (), &sender_addr) } else { sim.process_event(LSender::send_twice, (), &sender_addr) };
                let r2 = sim.process_event(LSender::send_twice, (), &sender_addr);
                let sh = |r: Result<(), ExecutionError>| match r {
                    Ok(()) => "ok".to_string(),
                    Err(e) => exec_err(&e),
                };
                format!("{} then {}", sh(r1), sh(r2))
            }
            Err(e) => format!("init-{}", exec_err(&e)),
        };
        let _ = tx.send(r);
    });
    match rx.recv_timeout(std::time::Duration::from_secs(20)) {
        Ok(r) => format!("deadlate {r}"),
        Err(_) => "deadlate hung".into(),
    }
}

/// Two simulations driven from one thread (`twosims <nb> <na> <victim>`): simulation B (single-threaded, `nb` models) has
/// an event of an `EventSource` connected to a dropped mailbox in its scheduler queue; simulation A (single-threaded, `na` models)
/// is then initialised on the same thread and model `victim` of A panics; then B is stepped.  B's failure is raised by
/// its scheduler, not by a model: `NoRecipient { model: None }` — whatever happened to A on this thread.
fn twosims(nb: usize, na: usize, victim: usize) -> String {
    let h = std::thread::spawn(move || {
        let gone: Mailbox<NInner> = Mailbox::new();
        let mut src: nexosim::ports::EventSource<()> = nexosim::ports::EventSource::new();
        src.connect(NInner::noop, &gone);
        let event = src.event(());
        drop(gone);
        let mut si = SimInit::with_num_threads(1);
        for i in 0..nb {
            si = si.add_model(NInner::default(), Mailbox::new(), format!("b{i}"));
        }
        let (mut simb, schedb) = match si.init(MonotonicTime::EPOCH) {
            Ok(x) => x,
            Err(e) => return format!("twosims initb-{}", exec_err(&e)),
        };
        if schedb.schedule(std::time::Duration::from_secs(1), event).is_err() {
            return "twosims schedule-rejected".into();
        }
        let mut sa = SimInit::with_num_threads(1);
        let mut addrs = Vec::new();
        for i in 0..na {
            let mb = Mailbox::new();
            addrs.push(mb.address());
            sa = sa.add_model(NInner::default(), mb, format!("a{i}"));
        }
        let ra = match sa.init(MonotonicTime::EPOCH) {
            Ok((mut sima, _s)) => match sima.process_event(NInner::panic_now, (), &addrs[victim]) {
                Ok(()) => "ok".to_string(),
                Err(e) => exec_err(&e),
            },
            Err(e) => format!("init-{}", exec_err(&e)),
        };
        let rb = match std::panic::catch_unwind(std::panic::AssertUnwindSafe(|| simb.step())) {
            Ok(Ok(())) => "ok".to_string(),
            Ok(Err(e)) => exec_err(&e),
            Err(_) => "step-panicked".to_string(),
        };
        format!("twosims a={ra} b={rb}")
    });
    match h.join() {
        Ok(r) => r,
        Err(_) => "twosims crashed".into(),
    }
}

fn nestrun(threads: usize, kind: u8, n: usize) -> String {
    let res = Arc::new(Mutex::new(String::from("-")));
    let mb = Mailbox::new();
    let addr = mb.address();
    let mut inner = String::from("-");
    let outer = match SimInit::with_num_threads(threads).add_model(NOuter { res: res.clone() }, mb, "outer").init(MonotonicTime::EPOCH) {
        Ok((mut sim, _s)) => {
            let r1 = sim.process_event(NOuter::run_nested, (kind, n), &addr);
            inner = res.lock().unwrap().clone();
            // a second, ordinary event: the outer simulation must still be usable
            let r2 = sim.process_event(NOuter::run_nested, (0, 1), &addr);
            match (r1, r2) {
                (Ok(()), Ok(())) => "ok".to_string(),
                (Err(e), _) => exec_err(&e),
                (_, Err(e)) => format!("then-{}", exec_err(&e)),
            }
        }
        Err(e) => format!("init-{}", exec_err(&e)),
    };
    format!("nestrun inner={inner} outer={outer}")
}

fn nested(k: usize, j: usize) -> String {
    let outer_drops = Arc::new(Mutex::new(vec![0usize; k]));
    let inner_drops = Arc::new(Mutex::new(Vec::new()));
    let mut si = SimInit::with_num_threads(1);
    for i in 0..k {
        si = si.add_model(Idle { id: i, drops: outer_drops.clone() }, Mailbox::new(), format!("outer{i}"));
    }
    let hmb = Mailbox::new();
    let haddr = hmb.address();
    si = si.add_model(Host { inner_drops: inner_drops.clone() }, hmb, "host");
    let res = match si.init(MonotonicTime::EPOCH) {
        Ok((mut sim, _s)) => {
            let r = sim.process_event(Host::run_inner, j, &haddr);
            drop(sim);
            r.is_ok()
        }
        Err(_) => false,
    };
    drop(haddr);
    let o = outer_drops.lock().unwrap().iter().filter(|x| **x == 1).count();
    let i = inner_drops.lock().unwrap().iter().filter(|x| **x == 1).count();
    format!("nested {} outer={o}/{k} inner={i}/{j}", if res { "ok" } else { "err" })
}

struct NodeProto {
    node: Node,
    children: Vec<(NodeProto, Mailbox<Node>, String)>,
}
impl ProtoModel for NodeProto {
    type Model = Node;
    fn build(self, cx: &mut BuildContext<Self>) -> Node {
        for (child, mb, name) in self.children {
            cx.add_submodel(child, mb, name);
        }
        self.node
    }
}

struct Bench {
    chan_ids: Vec<usize>,
    sim: Simulation,
    addrs: Vec<Address<Node>>,
    sinks: HashMap<usize, EventBuffer<P>>,
    srcs: HashMap<usize, nexosim::ports::EventSource<P>>,
    sched: nexosim::simulation::Scheduler,
    _orphans: Vec<Mailbox<Node>>,
}

fn exec_err(e: &ExecutionError) -> String {
    match e {
        ExecutionError::Terminated => "terminated".into(),
        ExecutionError::Deadlock(l) => {
            format!("deadlock {}", l.iter().map(|d| format!("{}:{}", d.model, d.mailbox_size)).collect::<Vec<_>>().join(","))
        }
        ExecutionError::MessageLoss(n) => format!("message-loss {n}"),
        ExecutionError::NoRecipient { model } => format!("no-recipient {}", model.clone().unwrap_or("-".into())),
        ExecutionError::Panic { model, .. } => format!("panic {model}"),
        ExecutionError::Timeout => "timeout".into(),
        ExecutionError::OutOfSync(_) => "out-of-sync".into(),
        ExecutionError::BadQuery => "bad-query".into(),
        ExecutionError::InvalidDeadline(_) => "invalid-deadline".into(),
    }
}

fn qname(specs: &[ModelSpec], i: usize) -> String {
    match specs[i].parent {
        Some(p) => format!("{}.{}", qname(specs, p), specs[i].name),
        None => specs[i].name.clone(),
    }
}

fn build(specs: &[ModelSpec], srcs_spec: &BTreeMap<usize, Vec<ConnSpec>>, timeout_ms: u64, threads: usize, sh: &Arc<Shared>) -> Result<Bench, (String, HashMap<usize, EventBuffer<P>>)> {
    let n = specs.len();
    let mut boxes: Vec<Option<Mailbox<Node>>> = specs.iter().map(|s| Some(Mailbox::with_capacity(s.cap.max(1)))).collect();
    let addrs: Vec<Address<Node>> = boxes.iter().map(|b| b.as_ref().unwrap().address()).collect();
    let chan_ids: Vec<usize> =
        addrs.iter().map(|a| format!("{:?}", a).split('"').nth(1).and_then(|s| s.parse().ok()).unwrap_or(0)).collect();
    CHAN_IDS.lock().unwrap().clone_from(&chan_ids);
    nexosim::verif_hooks::channel_ops_start();
    let mut sinks: HashMap<usize, EventBuffer<P>> = HashMap::new();
    for s in specs {
        for conns in s.ports.values() {
            for c in conns {
                if c.to_sink {
                    sinks.entry(c.dst).or_insert_with(|| EventBuffer::with_capacity(1 << 16));
                }
            }
        }
    }
    *sh.busy.lock().unwrap() = vec![false; n];
    *sh.names.lock().unwrap() = (0..n).map(|i| qname(specs, i)).collect();
    let mut nodes: Vec<Option<Node>> = Vec::new();
    for (i, s) in specs.iter().enumerate() {
        let mut outs = HashMap::new();
        let mut reqs = HashMap::new();
        for (port, conns) in &s.ports {
            let is_q = conns.iter().any(|c| c.query);
            if is_q {
                let mut r: Requestor<P, u128> = Requestor::new();
                for c in conns {
                    let (add, fm, fr) = (c.add, c.fmod, c.fres);
                    if fm == 0 && add == 0 {
                        r.connect(Node::replier, &addrs[c.dst]);
                    } else if fm == 0 {
                        r.map_connect(move |x: &P| x.derive(x.0 + add), |y: u128| y, Node::replier, &addrs[c.dst]);
                    } else {
                        r.filter_map_connect(
                            move |x: &P| if x.0 % fm == fr { Some(x.derive(x.0 + add)) } else { None },
                            |y: u128| y,
                            Node::replier,
                            &addrs[c.dst],
                        );
                    }
                }
                reqs.insert(*port, r);
            } else {
                let mut o: Output<P> = Output::new();
                for c in conns {
                    let (add, fm, fr) = (c.add, c.fmod, c.fres);
                    if c.to_sink {
                        let sink = sinks.get(&c.dst).unwrap();
                        if fm == 0 && add == 0 {
                            o.connect_sink(sink);
                        } else if fm == 0 {
                            o.map_connect_sink(move |x: &P| x.derive(x.0 + add), sink);
                        } else {
                            o.filter_map_connect_sink(move |x: &P| if x.0 % fm == fr { Some(x.derive(x.0 + add)) } else { None }, sink);
                        }
                    } else if fm == 0 && add == 0 {
                        o.connect(Node::input, &addrs[c.dst]);
                    } else if fm == 0 {
                        o.map_connect(move |x: &P| x.derive(x.0 + add), Node::input, &addrs[c.dst]);
                    } else {
                        o.filter_map_connect(
                            move |x: &P| if x.0 % fm == fr { Some(x.derive(x.0 + add)) } else { None },
                            Node::input,
                            &addrs[c.dst],
                        );
                    }
                }
                outs.insert(*port, o);
            }
        }
        nodes.push(Some(Node { id: i, sh: sh.clone(), outs, reqs, react: s.react.clone(), initops: s.initops.clone(), panic_on: s.panic_on, sleep_on: s.sleep_on }));
    }
    // assemble the hierarchy bottom-up (children have larger indices than their parent)
    let mut protos: Vec<Option<NodeProto>> = nodes.into_iter().map(|n| n.map(|node| NodeProto { node, children: Vec::new() })).collect();
    let mut orphans = Vec::new();
    for i in (0..n).rev() {
        if !specs[i].sim {
            let mb = boxes[i].take().unwrap();
            if specs[i].dead {
                drop(mb); // a mailbox that is no longer alive when messages are sent to it
            } else {
                orphans.push(mb);
            }
            protos[i] = None;
            continue;
        }
        if let Some(p) = specs[i].parent {
            let child = protos[i].take().unwrap();
            let mb = boxes[i].take().unwrap();
            if let Some(pp) = protos[p].as_mut() {
                pp.children.insert(0, (child, mb, specs[i].name.clone()));
            } else {
                return Err(("parent is not part of the simulation".into(), sinks));
            }
        }
    }
    let mut srcs: HashMap<usize, nexosim::ports::EventSource<P>> = HashMap::new();
    for (sid, conns) in srcs_spec {
        let mut src = nexosim::ports::EventSource::new();
        for c in conns {
            let (add, fm, fr) = (c.add, c.fmod, c.fres);
            if fm == 0 && add == 0 {
                src.connect(Node::input, &addrs[c.dst]);
            } else if fm == 0 {
                src.map_connect(move |x: &P| x.derive(x.0 + add), Node::input, &addrs[c.dst]);
            } else {
                src.filter_map_connect(move |x: &P| if x.0 % fm == fr { Some(x.derive(x.0 + add)) } else { None }, Node::input, &addrs[c.dst]);
            }
        }
        srcs.insert(*sid, src);
    }
    let mut si = SimInit::with_num_threads(threads);
    if timeout_ms > 0 {
        si = si.set_timeout(std::time::Duration::from_millis(timeout_ms));
    }
    for i in 0..n {
        if specs[i].sim && specs[i].parent.is_none() {
            si = si.add_model(protos[i].take().unwrap(), boxes[i].take().unwrap(), specs[i].name.clone());
        }
    }
    match si.init(MonotonicTime::EPOCH) {
        Ok((sim, sched)) => Ok(Bench { chan_ids, sim, addrs, sinks, srcs, sched, _orphans: orphans }),
        Err(e) => Err((exec_err(&e), sinks)),
    }
}

static CHAN_IDS: Mutex<Vec<usize>> = Mutex::new(Vec::new());

/// number of threads of this process
fn thread_count() -> usize {
    std::fs::read_dir("/proc/self/task").map(|d| d.count()).unwrap_or(0)
}

/// What `run()` must report according to the ground truth (pushes − pops per mailbox, from the verif hook):
/// Deadlock listing exactly the simulation models with queued messages (registration order) and their counts,
/// else MessageLoss(n) with n the messages in mailboxes that are not part of the simulation, else ok.
fn expected_report(specs: &[ModelSpec]) -> String {
    let ids = CHAN_IDS.lock().unwrap().clone();
    let ops = nexosim::verif_hooks::channel_ops();
    let len = |i: usize| -> u64 {
        ids.get(i).and_then(|id| ops.get(id)).map(|(pu, po)| pu.saturating_sub(*po)).unwrap_or(0)
    };
    let dl: Vec<String> = (0..specs.len()).filter(|i| specs[*i].sim && len(*i) > 0).map(|i| format!("{}:{}", qname(specs, i), len(i))).collect();
    let lost: u64 = (0..specs.len()).filter(|i| !specs[*i].sim).map(len).sum();
    if !dl.is_empty() {
        format!("deadlock {}", dl.join(","))
    } else if lost > 0 {
        format!("message-loss {lost}")
    } else {
        "ok".into()
    }
}

fn sorted_join(mut v: Vec<String>) -> String {
    v.sort();
    v.join(" ")
}

fn render(res: &str, recs: &[Rec], sinks: &mut HashMap<usize, EventBuffer<P>>, extra_r: Option<String>) -> String {
    let mut is = vec![];
    let mut hs = vec![];
    let mut rs = vec![];
    for r in recs {
        match r {
            Rec::Init(m) => is.push(m.to_string()),
            Rec::Handle(m, p) => hs.push(format!("{m}:{p}")),
            Rec::Reply(m, p, v) => rs.push(format!("{m}:{p}=[{}]", v.iter().map(|x| x.to_string()).collect::<Vec<_>>().join(","))),
            _ => {}
        }
    }
    if let Some(x) = extra_r {
        rs.push(x);
    }
    let mut ks = vec![];
    let mut ids: Vec<usize> = sinks.keys().copied().collect();
    ids.sort();
    for k in ids {
        let s = sinks.get_mut(&k).unwrap();
        for v in s.by_ref() {
            ks.push(format!("{k}:{}", v.0));
        }
    }
    format!("{res} | I {} | H {} | R {} | K {}", sorted_join(is), sorted_join(hs), sorted_join(rs), sorted_join(ks))
}

/// Causal-order monitor (C02) on the real processing order.  Lineage: `Sent(model, handled, line, child)` records
/// tell which handler invocation sent which child payload with which script line; a message at model B with payload
/// `c'` stems from the `Sent` whose child maps to it.  x happens-before y (both processed by B) when x was sent by an
/// earlier script line of a handler invocation on y's ancestor chain (directly, or through a chain of *queries*, which
/// are synchronous), or x is itself an ancestor of y.
fn causal_violation(specs: &[ModelSpec], recs: &[Rec]) -> Option<String> {
    // processing order per model
    let mut order: HashMap<usize, Vec<u128>> = HashMap::new();
    // (recipient, payload) -> (sender, handled payload, line, is query)
    let mut parent: HashMap<(usize, u128), (usize, u128, usize, bool)> = HashMap::new();
    for r in recs {
        match r {
            Rec::Handle(m, p) => order.entry(*m).or_default().push(*p),
            Rec::Sent(m, hp, k, child, q) => {
                let script = if *hp == 9000 + 10 * *m as u128 { &specs[*m].initops } else { &specs[*m].react };
                if let Some(op) = script.get(*k) {
                    if let Some(conns) = specs[*m].ports.get(&op.port) {
                        for c in conns {
                            if !c.to_sink && (c.fmod == 0 || child % c.fmod == c.fres) {
                                parent.insert((c.dst, child + c.add), (*m, *hp, *k, *q));
                            }
                        }
                    }
                }
            }
            _ => {}
        }
    }
    // ancestor chain of a message: list of (invocation model, invocation payload, line, query)
    let chain = |b: usize, y: u128| -> Vec<(usize, u128, usize, bool)> {
        let mut out = Vec::new();
        let mut cur = (b, y);
        let mut guard = 0;
        while let Some(p) = parent.get(&cur) {
            out.push(*p);
            cur = (p.0, p.1);
            guard += 1;
            if guard > 64 {
                break;
            }
        }
        out
    };
    // what each handler invocation sent, line by line
    let mut sent_by: HashMap<(usize, u128), Vec<(usize, u128)>> = HashMap::new();
    for r in recs {
        if let Rec::Sent(m, hp, k, child, _) = r {
            sent_by.entry((*m, *hp)).or_default().push((*k, *child));
        }
    }
    for (b, seq) in &order {
        let mut count: HashMap<u128, usize> = HashMap::new();
        for p in seq {
            *count.entry(*p).or_insert(0) += 1;
        }
        for (iy, y) in seq.iter().enumerate() {
            if count[y] > 1 {
                continue; // the same payload reached this model through two connections: lineage is ambiguous
            }
            let cy = chain(*b, *y);
            // a message that an invocation on y's ancestor chain sent to this model with an *earlier* script line (that
            // send had completed when the later line started) must have been processed before y — in particular it must
            // have been processed at all
            for a in &cy {
                let script = if a.1 == 9000 + 10 * a.0 as u128 { &specs[a.0].initops } else { &specs[a.0].react };
                for (k, child) in sent_by.get(&(a.0, a.1)).map(|v| v.as_slice()).unwrap_or(&[]) {
                    if *k >= a.2 {
                        continue;
                    }
                    let conns = match script.get(*k).and_then(|op| specs[a.0].ports.get(&op.port)) {
                        Some(c) => c,
                        None => continue,
                    };
                    for c in conns {
                        if c.to_sink || c.dst != *b || !(c.fmod == 0 || child % c.fmod == c.fres) {
                            continue;
                        }
                        let x = child + c.add;
                        if x == *y || count.get(&x).copied().unwrap_or(0) > 1 {
                            continue;
                        }
                        if !seq[..iy].contains(&x) && !seq.contains(&x) {
                            return Some(format!(
                                "model {b} processed message {y} although message {x}, whose sending to model {b} completed before {y} was sent (line {k} of the invocation {}:{} that later led to {y}), was never processed",
                                a.0, a.1
                            ));
                        }
                    }
                }
            }
            for x in seq.iter().skip(iy + 1) {
                // x was processed AFTER y; violation if x happens-before y
                if x == y || count[x] > 1 {
                    continue;
                }
                let cx = chain(*b, *x);
                if cx.is_empty() {
                    continue;
                }
                // x's chain up to the first non-query step: x is "synchronously" sent below invocation cx[j]
                let mut hb = false;
                for (j, step) in cx.iter().enumerate() {
                    // all steps below j (closer to x) except the first must be queries for synchrony
                    let sync = cx[..j].iter().skip(1).all(|s| s.3) && (j == 0 || cx[j].3 || true);
                    if !sync {
                        break;
                    }
                    // the steps between x's sender and cx[j] must be queries (the send of x itself may be an event)
                    let between_queries = cx[1..=j].iter().all(|s| s.3) || j == 0;
                    if !between_queries {
                        continue;
                    }
                    for a in &cy {
                        if a.0 == step.0 && a.1 == step.1 && step.2 < a.2 {
                            hb = true;
                        }
                    }
                }
                if hb {
                    return Some(format!(
                        "model {b} processed message {y} before message {x}, but {x} was sent (and its send completed) before {y} was sent"
                    ));
                }
            }
        }
    }
    None
}

impl Engine for Net {
    fn name(&self) -> &'static str {
        "net"
    }
    fn serves(&self) -> &'static [&'static str] {
        &["C02", "C03", "C04", "C06", "C11", "C12", "C16", "C19"]
    }
    fn isolated(&self) -> bool {
        true
    }
    fn crash_blame(&self) -> Vec<&'static str> {
        vec!["C04", "C19"]
    }
    fn pinned(&self, line: &str) -> bool {
        // the bench description is kept whole by the minimiser; only driver commands are dropped
        !(line.starts_with("ev ") || line.starts_with("qr ") || line.starts_with("later "))
    }
    fn nontrivial_rule(&self) -> &'static str {
        "a case is a bench of 2-7 models (hierarchies of depth 0-3, mailbox capacities 1-4, orphan mailboxes, sinks), \
         connections plain/map/filter_map for events and queries, handler and init scripts, run on the single-threaded or a \
         2-8 thread executor, with 1-6 driver commands; non-trivial = at least three handler invocations; distinct by hash"
    }
    fn default_cases(&self, tier: Tier) -> usize {
        match tier {
            Tier::Quick => 500,
            Tier::Thorough => 6000,
        }
    }

    fn gen(&self, rng: &mut Rng, idx: usize, tier: Tier, focus: &str) -> Case {
        gen_case(rng, idx, tier, focus)
    }

    fn run_impl(&self, lines: &[String]) -> Outcome {
        let mut out = Outcome::default();
        let sh = Arc::new(Shared::default());
        let mut specs: Vec<ModelSpec> = Vec::new();
        let mut threads = 1usize;
        let mut bench: Option<Bench> = None;
        let mut n_handled = 0usize;
        let mut all_recs: Vec<Rec> = Vec::new();
        let mut any_err = false;
        let mut init_failed = false;
        let mut timeout_ms = 0u64;
        let mut srcs_spec: BTreeMap<usize, Vec<ConnSpec>> = BTreeMap::new();
        let mut fatal_seen = false;
        let mut dropped = false;
        let mut timeout_seen = false;
        let mut voided = false;
        let mut void_mon = 0usize;
        for pt in 0..8 {
            nexosim::verif_hooks::set_protocol_delay(pt, 0);
        }
        let base_threads = thread_count();
        for l in lines {
            let w: Vec<&str> = l.split_whitespace().collect();
            let log_start = sh.log.lock().unwrap().len();
            let r: String = match w.as_slice() {
                ["case", "net", "exec", ex] => {
                    threads = if *ex == "st" { 1 } else { ex[2..].parse().unwrap() };
                    out.tags.push(format!("exec.{ex}"));
                    "ok".into()
                }
                ["model", i, "cap", c, "sim", sm, "parent", p, "name", n] => {
                    let i: usize = i.parse().unwrap();
                    if i != specs.len() {
                        "bad-op".into()
                    } else {
                        specs.push(ModelSpec {
                            cap: c.parse().unwrap(),
                            sim: *sm != "0",
                            parent: p.parse().ok(),
                            name: n.to_string(),
                            ..Default::default()
                        });
                        "ok".into()
                    }
                }
                ["conn", i, port, kind, dk, dv, "add", a, "fmod", fm, "fres", fr] => {
                    let i: usize = i.parse().unwrap();
                    if i >= specs.len() {
                        "bad-op".into()
                    } else {
                        specs[i].ports.entry(port.parse().unwrap()).or_default().push(ConnSpec {
                            query: *kind == "q",
                            to_sink: *dk == "sink",
                            dst: dv.parse().unwrap(),
                            add: a.parse().unwrap(),
                            fmod: fm.parse().unwrap(),
                            fres: fr.parse().unwrap(),
                        });
                        "ok".into()
                    }
                }
                ["react", i, kind, port, "cmod", cm, "cres", cr] | ["initop", i, kind, port, "cmod", cm, "cres", cr] => {
                    let i: usize = i.parse().unwrap();
                    if i >= specs.len() {
                        "bad-op".into()
                    } else {
                        let op = POp { query: *kind == "q", port: port.parse().unwrap(), cmod: cm.parse().unwrap(), cres: cr.parse().unwrap() };
                        if w[0] == "react" {
                            specs[i].react.push(op);
                        } else {
                            specs[i].initops.push(op);
                        }
                        "ok".into()
                    }
                }
                ["dead", j] => {
                    let j: usize = j.parse().unwrap();
                    if j < specs.len() {
                        specs[j].dead = true;
                        specs[j].sim = false;
                        out.tags.push("dropped-mailbox".into());
                        "ok".into()
                    } else {
                        "bad-op".into()
                    }
                }
                ["timeout", ms] => {
                    timeout_ms = ms.parse().unwrap();
                    "ok".into()
                }
                ["fault", i, kind, p] => {
                    let i: usize = i.parse().unwrap();
                    if i < specs.len() {
                        if *kind == "panic" {
                            specs[i].panic_on = Some(p.parse().unwrap());
                        } else {
                            specs[i].sleep_on = Some(p.parse().unwrap());
                        }
                        out.tags.push(format!("fault.{kind}"));
                        "ok".into()
                    } else {
                        "bad-op".into()
                    }
                }
                ["src", sid, dk, dv, "add", a, "fmod", fm, "fres", fr] => {
                    srcs_spec.entry(sid.parse().unwrap()).or_default().push(ConnSpec {
                        query: false,
                        to_sink: *dk == "sink",
                        dst: dv.parse().unwrap(),
                        add: a.parse().unwrap(),
                        fmod: fm.parse().unwrap(),
                        fres: fr.parse().unwrap(),
                    });
                    "ok".into()
                }
                ["sev", sid, p] if bench.is_some() => {
                    let b = bench.as_mut().unwrap();
                    let sid: usize = sid.parse().unwrap();
                    let res = match b.srcs.get_mut(&sid) {
                        Some(src) => {
                            let action = src.event(P::new(p.parse::<u128>().unwrap(), &sh.live));
                            b.sim.process(action)
                        }
                        None => {
                            // a source without any connection: the action does nothing (but is still refused after a fatal error)
                            let mut empty = nexosim::ports::EventSource::<P>::new();
                            b.sim.process(empty.event(P::new(p.parse::<u128>().unwrap(), &sh.live)))
                        }
                    };
                    let recs = sh.log.lock().unwrap()[log_start..].to_vec();
                    any_err |= res.is_err();
                    let rs = res.as_ref().map(|_| "ok".to_string()).unwrap_or_else(|e| exec_err(e));
                    render(&rs, &recs, &mut b.sinks, None)
                }
                ["init"] => match build(&specs, &srcs_spec, timeout_ms, threads, &sh) {
                    Ok(b) => {
                        bench = Some(b);
                        let recs = sh.log.lock().unwrap()[log_start..].to_vec();
                        let b = bench.as_mut().unwrap();
                        render("ok", &recs, &mut b.sinks, None)
                    }
                    Err((e, mut sinks)) => {
                        any_err = true;
                        init_failed = true;
                        let recs = sh.log.lock().unwrap()[log_start..].to_vec();
                        render(&e, &recs, &mut sinks, None)
                    }
                },
                ["ev", j, p] if bench.is_some() => {
                    let b = bench.as_mut().unwrap();
                    let j: usize = j.parse().unwrap();
                    let addr = b.addrs[j].clone();
                    let res = b.sim.process_event(Node::input, P::new(p.parse::<u128>().unwrap(), &sh.live), &addr);
                    let recs = sh.log.lock().unwrap()[log_start..].to_vec();
                    any_err |= res.is_err();
                    let rs = res.as_ref().map(|_| "ok".to_string()).unwrap_or_else(|e| exec_err(e));
                    render(&rs, &recs, &mut b.sinks, None)
                }
                ["qr", j, p] if bench.is_some() => {
                    let b = bench.as_mut().unwrap();
                    let j: usize = j.parse().unwrap();
                    let addr = b.addrs[j].clone();
                    let res = b.sim.process_query(Node::replier, P::new(p.parse::<u128>().unwrap(), &sh.live), &addr);
                    let recs = sh.log.lock().unwrap()[log_start..].to_vec();
                    any_err |= res.is_err();
                    let (rs, extra) = match &res {
                        Ok(v) => ("ok".to_string(), Some(format!("D:0=[{v}]"))),
                        Err(e) => (exec_err(e), None),
                    };
                    render(&rs, &recs, &mut b.sinks, extra)
                }
                ["wod", th, n, "waiters", ws, "edges", es, "panic", pk, "to", to] => {
                    let csv = |x: &str| -> Vec<usize> { if x == "-" { vec![] } else { x.split(',').map(|v| v.parse().unwrap()).collect() } };
                    let n: usize = n.parse().unwrap();
                    let edges: Vec<(usize, usize)> = if *es == "-" { vec![] } else { es.split(',').map(|e| { let mut it = e.split('>'); (it.next().unwrap().parse().unwrap(), it.next().unwrap().parse().unwrap()) }).collect() };
                    let (r, hung) = wod(th.parse().unwrap(), n, &csv(ws), &edges, pk.parse().ok(), &csv(to));
                    let expect_res = if pk.parse::<usize>().is_ok() { "panic" } else { "ok" };
                    if hung {
                        out.hung = true;
                    }
                    if r != format!("wod {expect_res} returned once={n}/{n}") {
                        out.monitor.push(("C19".into(), format!("`{l}`: models own objects that wake other pending models when dropped; the simulation was {} and then dropped: `{r}` (the drop must return and every model must be dropped exactly once)", if expect_res == "panic" { "made to fail by a panicking handler that had just sent events" } else { "left idle" })));
                    }
                    out.nontrivial = true;
                    out.tags.push("wod".into());
                    r
                }
                ["wide", th, n] => {
                    let (th, n): (usize, usize) = (th.parse().unwrap(), n.parse().unwrap());
                    let r = wide(th, n);
                    if r != format!("wide ok inits={n}/{n} hits={n}/{n} then={}/{}", n.min(3), n.min(3)) {
                        out.monitor.push(("C04".into(), format!("a flat bench of {n} models on {th} thread(s): init, then one event per model due at the same time, then step: `{r}` — a call returned Ok although computations it had triggered never ran (every model must run its init and handle its event)")));
                        if r.starts_with("wide ") && !r.contains(&format!("inits={n}/{n}")) && !r.starts_with("wide init-") {
                            out.monitor.push(("C16".into(), format!("a flat bench of {n} models on {th} thread(s): SimInit::init returned Ok but not every model ran its init exactly once: `{r}`")));
                        }
                    }
                    out.nontrivial = true;
                    out.tags.push(format!("wide.{}", if n > 128 { "over-one-bucket" } else { "small" }));
                    r
                }
                ["work", us] => {
                    sh.work_us.store(us.parse().unwrap(), Ordering::Relaxed);
                    "ok".into()
                }
                ["delay", pt, us] => {
                    // schedule perturbation: sleep at a protocol point of the multi-threaded executor
                    nexosim::verif_hooks::set_protocol_delay(pt.parse().unwrap(), us.parse().unwrap());
                    out.tags.push(format!("delay.point{pt}"));
                    "ok".into()
                }
                ["nested", k, j] => {
                    let (k, j): (usize, usize) = (k.parse().unwrap(), j.parse().unwrap());
                    let r = nested(k, j);
                    if r != format!("nested ok outer={k}/{k} inner={j}/{j}") {
                        out.monitor.push(("C19".into(), format!("a single-threaded simulation with {j} model(s) was created and dropped inside a handler of another single-threaded simulation with {k} idle model(s), then the outer one was dropped: {r} (every model must be dropped exactly once)")));
                    }
                    out.nontrivial = true;
                    out.tags.push("nested".into());
                    r
                }
                ["deadlate", th, vf, q] => {
                    let r = deadlate(th.parse().unwrap(), *vf == "1", *q == "1");
                    if r != "deadlate no-recipient sender then terminated" {
                        out.monitor.push(("C11".into(), format!("a send suspended on the full mailbox of a recipient whose mailbox is then dropped ({th} thread(s), {}): the call must report NoRecipient naming the sender and the next call Terminated; got `{r}`", if *q == "1" { "query broadcast" } else { "event broadcast" })));
                    }
                    out.nontrivial = true;
                    out.tags.push("deadlate".into());
                    r
                }
                ["twosims", nb, na, victim] => {
                    let (nb, na, victim): (usize, usize, usize) = (nb.parse().unwrap(), na.parse().unwrap(), victim.parse().unwrap());
                    let r = twosims(nb, na, victim);
                    if !r.ends_with("b=no-recipient -") {
                        out.monitor.push(("C11".into(), format!("two single-threaded simulations driven from one thread: model a{victim} of the first panicked (reported: {r}); the second then stepped an event its scheduler sends to a dropped mailbox, which must be reported as NoRecipient without a model name")));
                    }
                    out.nontrivial = true;
                    out.tags.push("twosims".into());
                    r
                }
                ["nestrun", th, kind, n] => {
                    let (th, n): (usize, usize) = (th.parse().unwrap(), n.parse().unwrap());
                    let k: u8 = match *kind {
                        "clean" => 0,
                        "lose" => 1,
                        "deadlock" => 2,
                        _ => 3,
                    };
                    let r = nestrun(th, k, n);
                    if !r.ends_with("outer=ok") {
                        out.monitor.push(("C06".into(), format!("a handler of a simulation on {th} thread(s) ran a nested single-threaded simulation that ended `{kind}` and dealt with it; every message of the outer simulation was processed, but its run reported: {r}")));
                    }
                    out.nontrivial = true;
                    out.tags.push(format!("nestrun.{kind}"));
                    r
                }
                ["later", j, p, secs] if bench.is_some() => {
                    // an action that is still pending in the scheduler queue when the simulation is dropped
                    let b = bench.as_mut().unwrap();
                    let j: usize = j.parse().unwrap();
                    let addr = b.addrs[j].clone();
                    let d = std::time::Duration::from_secs(secs.parse::<u64>().unwrap().max(1));
                    match b.sched.schedule_event(d, Node::input, P::new(p.parse::<u128>().unwrap(), &sh.live), &addr) {
                        Ok(()) => "ok".into(),
                        Err(_) => "rejected".into(),
                    }
                }
                ["dropsim"] if bench.is_some() => {
                    let b = bench.take().unwrap();
                    let nsim = specs.iter().filter(|s| s.sim).count();
                    let handled_before = sh.log.lock().unwrap().len();
                    let Bench { sim, addrs, sinks, srcs, sched, _orphans, .. } = b;
                    // the drop runs on a helper thread so that a drop that never returns is detected
                    let (tx, rx) = std::sync::mpsc::channel();
                    let h = std::thread::spawn(move || {
                        let r = std::panic::catch_unwind(std::panic::AssertUnwindSafe(move || {
                            drop(srcs);
                            drop(addrs);
                            drop(sched);
                            drop(sim);
                        }));
                        let _ = tx.send(r.is_ok());
                    });
                    let verdict = rx.recv_timeout(std::time::Duration::from_secs(20));
                    // "no model code runs afterwards": what is logged from now on — the drop has returned — counts; a handler
                    // that another worker was still running while the drop was joining the threads (after a panic, a
                    // NoRecipient failure or a time-out the run returns as soon as the failure is known) ran *before* that
                    let handled_before = if verdict.is_ok() { sh.log.lock().unwrap().len() } else { handled_before };
                    let returned = match verdict {
                        Ok(ok) => {
                            let _ = h.join();
                            if ok { "returned" } else { "panicked" }
                        }
                        Err(_) => {
                            out.hung = true;
                            "hung"
                        }
                    };
                    // the worker threads are joined by the drop, also after a time-out: no handler can be in progress any more
                    let still_running: Vec<usize> = sh.busy.lock().unwrap().iter().enumerate().filter(|(_, b)| **b).map(|(i, _)| i).collect();
                    if returned == "returned" && timeout_seen && threads > 1 && sh.slept.load(Ordering::SeqCst) && !still_running.is_empty() {
                        // (on one thread a timed-out step runs on a helper thread that is abandoned by design; a handler that
                        // is merely suspended on a channel keeps its flag, hence only the overrunning, sleeping handler counts)
                        let sleeping = sh.sleeping.load(Ordering::SeqCst);
                        if sleeping {
                            out.monitor.push(("C19".into(), format!("dropping the simulation after a Timeout returned while the handler that overran the time-out was still running on a worker thread ({threads} threads): the workers were not joined")));
                        }
                    }
                    // worker threads are joined by the drop: wait briefly for the count to come back to the baseline
                    let mut threads_now = thread_count();
                    for _ in 0..200 {
                        if threads_now <= base_threads {
                            break;
                        }
                        std::thread::sleep(std::time::Duration::from_millis(5));
                        threads_now = thread_count();
                    }
                    let drops = sh.node_drops.lock().unwrap().clone();
                    let once = (0..specs.len()).filter(|i| specs[*i].sim && drops.get(*i).copied().unwrap_or(0) == 1).count();
                    let bad: Vec<String> = (0..specs.len())
                        .filter(|i| specs[*i].sim && drops.get(*i).copied().unwrap_or(0) != 1)
                        .map(|i| format!("{} dropped {} times", qname(&specs, i), drops.get(i).copied().unwrap_or(0)))
                        .collect();
                    drop(_orphans);
                    drop(sinks);
                    let leaked = sh.live.load(Ordering::SeqCst);
                    std::thread::sleep(std::time::Duration::from_millis(5));
                    let ran_after = sh.log.lock().unwrap().len() != handled_before;
                    let excluded = timeout_seen;
                    if excluded && returned == "hung" {
                        // after a time-out the abandoned computation makes the other measurements meaningless, but the drop
                        // itself still has to return (the handler that overran sleeps for 400 ms only)
                        out.monitor.push(("C19".into(), format!("dropping the simulation after a Timeout did not return within 20 s ({threads} thread(s))")));
                    }
                    if !excluded {
                        if returned != "returned" {
                            out.monitor.push(("C19".into(), format!("dropping the simulation {returned} ({threads} thread(s))")));
                        }
                        if !bad.is_empty() {
                            out.monitor.push(("C19".into(), format!("after dropping the simulation: {}", bad.join(", "))));
                        }
                        if leaked != 0 {
                            out.monitor.push(("C19".into(), format!("{leaked} message instance(s) still alive after the simulation, its handles, the orphan mailboxes and the sinks were dropped")));
                        }
                        if threads_now > base_threads {
                            out.monitor.push(("C19".into(), format!("{} thread(s) left running after the simulation was dropped", threads_now - base_threads)));
                        }
                        if ran_after {
                            out.monitor.push(("C19".into(), "model code ran after the simulation was dropped".into()));
                        }
                    }
                    out.tags.push("dropsim".into());
                    if excluded {
                        "dropped excluded".into()
                    } else {
                        format!(
                            "dropped {returned} once={once}/{nsim} leaked={leaked} threads={} after={}",
                            if threads_now <= base_threads { "ok".to_string() } else { format!("leak{}", threads_now - base_threads) },
                            if ran_after { "ran" } else { "quiet" }
                        )
                    }
                }
                ["ev", ..] | ["qr", ..] | ["sev", ..] | ["later", ..] | ["dropsim"] if dropped => "no-sim".into(),
                ["ev", ..] | ["qr", ..] | ["sev", ..] if init_failed => "terminated | I  | H  | R  | K ".into(),
                ["later", ..] | ["dropsim"] if init_failed => "no-sim".into(),
                _ => "bad-op".into(),
            };
            if w[0] == "dropsim" && bench.is_none() && r.starts_with("dropped") {
                dropped = true;
            }
            // A time-out that is not the one the scenario provokes (no handler is sleeping): the call simply took longer
            // than the configured limit in wall-clock time because the machine is loaded.  Reporting Timeout is then what
            // the property asks of the implementation, but the run says nothing about the model: the rest of the case is
            // voided (answers `void`, which agree with anything; no monitor looks at it).
            let r = if voided {
                "void".to_string()
            } else if r.starts_with("timeout") && !sh.slept.load(Ordering::SeqCst) {
                voided = true;
                void_mon = out.monitor.len();
                out.tags.push("void.timeout-under-load".into());
                "void".to_string()
            } else {
                r
            };
            if voided {
                out.resp.push(r);
                continue;
            }
            if r.starts_with("timeout") {
                timeout_seen = true;
            }
            let recs = sh.log.lock().unwrap()[log_start..].to_vec();
            n_handled += recs.iter().filter(|r| matches!(r, Rec::Handle(..))).count();
            if matches!(w[0], "init" | "ev" | "qr" | "sev") {
                let first = r.split(" | ").next().unwrap_or("").to_string();
                if fatal_seen && first != "no-sim" {
                    if first != "terminated" {
                        out.monitor.push(("C11".into(), format!("`{l}` returned `{first}` after a fatal error: it must return Terminated")));
                    } else if threads == 1 && timeout_ms == 0 && recs.iter().any(|x| matches!(x, Rec::Handle(..) | Rec::Init(_))) {
                        out.monitor.push(("C11".into(), format!("`{l}` returned Terminated but model code ran")));
                    }
                }
                if !(first == "ok" || first == "bad-query" || first == "bad-op" || first == "terminated" || first == "no-sim") {
                    fatal_seen = true;
                }
            }
            if matches!(w[0], "init" | "ev" | "qr" | "sev") && !r.starts_with("terminated") && !r.starts_with("bad-op") && !r.starts_with("panic") && !r.starts_with("no-recipient") && !r.starts_with("timeout") && !r.starts_with("bad-query") {
                let got = r.split(" | ").next().unwrap_or("").to_string();
                let exp = expected_report(&specs);
                if got.starts_with("deadlock ") {
                    // a stalled run: a model whose mailbox holds messages while none of its handlers is in progress is asleep
                    // in `recv` on a non-empty mailbox — its wake-up was lost (in a genuine deadlock the models with queued
                    // messages are suspended inside a handler)
                    let ids = CHAN_IDS.lock().unwrap().clone();
                    let ops = nexosim::verif_hooks::channel_ops();
                    let busy = sh.busy.lock().unwrap().clone();
                    for i in 0..specs.len() {
                        let held = ids.get(i).and_then(|id| ops.get(id)).map(|(pu, po)| pu.saturating_sub(*po)).unwrap_or(0);
                        if specs[i].sim && held > 0 && !busy.get(i).copied().unwrap_or(true) {
                            let what = format!("`{l}` stalled with {held} message(s) in the mailbox of model {} while that model is not inside any handler: the receiver sleeps on a non-empty mailbox (its wake-up was lost)", qname(&specs, i));
                            out.monitor.push(("C12".into(), what.clone()));
                            out.monitor.push(("C04".into(), what));
                            break;
                        }
                    }
                }
                if got != exp && (got == "ok" || got.starts_with("deadlock") || got.starts_with("message-loss")) {
                    out.monitor.push(("C06".into(), format!("`{l}` returned `{got}` but the mailboxes hold: `{exp}` (pushes − pops per mailbox)")));
                    if got.starts_with("deadlock ") && exp.starts_with("deadlock ") {
                        // same numbers of queued messages under other names: a model of a hierarchy is reported under the
                        // wrong qualified name (C16: a sub-model is known as `parent.child` in error reports)
                        let counts = |s: &str| {
                            let mut v: Vec<String> = s["deadlock ".len()..].split(',').map(|x| x.rsplit(':').next().unwrap_or("").to_string()).collect();
                            v.sort();
                            v
                        };
                        if counts(&got) == counts(&exp) {
                            out.monitor.push(("C16".into(), format!("`{l}`: the deadlock report is `{got}` but the mailboxes that hold these messages belong to `{exp}` (a model of a hierarchy is reported under another model's name)")));
                        }
                    }
                }
            }
            // ---- monitors
            if w[0] != "init" && recs.iter().any(|r| matches!(r, Rec::Init(_))) {
                out.monitor.push(("C16".into(), format!("a model's init ran during `{l}`, not during SimInit::init")));
            }
            if w[0] == "init" && r.starts_with("ok") {
                // SimInit::init returned Ok: every init that started has run to its end
                for x in &recs {
                    if let Rec::Init(m) = x {
                        let p = 9000 + 10 * *m as u128;
                        if !recs.iter().any(|y| matches!(y, Rec::Done(m2, p2) if m2 == m && *p2 == p)) {
                            out.monitor.push((
                                "C16".into(),
                                format!("SimInit::init returned Ok but the init of model {} is still suspended half-way (it never completes: the messages it has yet to send are never delivered)", qname(&specs, *m)),
                            ));
                            break;
                        }
                    }
                }
            }
            all_recs.extend(recs);
            // C12: when a run has returned (whatever it reports), no handler is suspended inside a send to a mailbox that
            // has a free slot.  Decidable from the trace for ports with a single connection: the handler's last record is
            // the start of that send, and the hook gives the mailbox's occupancy (pushes − pops).
            if matches!(w[0], "init" | "ev" | "qr" | "sev") && (r.starts_with("ok") || r.starts_with("deadlock") || r.starts_with("message-loss")) && bench.is_some() {
                let mut open: HashMap<(usize, u128), Option<usize>> = HashMap::new();
                for x in &all_recs {
                    match x {
                        Rec::Handle(m, p) => {
                            open.insert((*m, *p), None);
                        }
                        Rec::Init(m) => {
                            open.insert((*m, 9000 + 10 * *m as u128), None);
                        }
                        Rec::Sent(m, p, k, _, _) => {
                            if let Some(e) = open.get_mut(&(*m, *p)) {
                                *e = Some(*k);
                            }
                        }
                        Rec::Done(m, p) => {
                            open.remove(&(*m, *p));
                        }
                        _ => {}
                    }
                }
                let ids = CHAN_IDS.lock().unwrap().clone();
                let ops = nexosim::verif_hooks::channel_ops();
                for ((m, p), k) in &open {
                    let k = match k {
                        Some(k) => *k,
                        None => continue,
                    };
                    let script = if *p == 9000 + 10 * *m as u128 { &specs[*m].initops } else { &specs[*m].react };
                    let op = match script.get(k) {
                        Some(op) if !op.query => op,
                        _ => continue,
                    };
                    let conns = match specs[*m].ports.get(&op.port) {
                        Some(c) if c.len() == 1 && !c[0].to_sink && !c[0].query => c,
                        _ => continue,
                    };
                    let dst = conns[0].dst;
                    if specs.get(dst).map(|d| d.dead).unwrap_or(true) {
                        continue;
                    }
                    if let Some((pu, po)) = ids.get(dst).and_then(|id| ops.get(id)) {
                        let occ = pu.saturating_sub(*po) as usize;
                        if occ < specs[dst].cap.max(1) {
                            out.monitor.push((
                                "C12".into(),
                                format!("`{l}` returned `{}` while the handler of model {m} for message {p} is suspended in a send to model {dst}, whose mailbox holds {occ} of {} messages: a sender waiting for space was not resumed although space is available", r.split(" | ").next().unwrap_or(""), specs[dst].cap.max(1)),
                            ));
                            break;
                        }
                    }
                }
            }
            out.resp.push(r);
        }
        // C16: every simulation model initialised exactly once, before it handled anything; names are qualified
        if bench.is_some() || any_err {
            for (i, s) in specs.iter().enumerate() {
                if !s.sim {
                    continue;
                }
                let inits = all_recs.iter().filter(|r| matches!(r, Rec::Init(m) if *m == i)).count();
                let first_init = all_recs.iter().position(|r| matches!(r, Rec::Init(m) if *m == i));
                let first_handle = all_recs.iter().position(|r| matches!(r, Rec::Handle(m, _) if *m == i));
                if bench.is_some() && inits != 1 {
                    out.monitor.push(("C16".into(), format!("model {} was initialised {inits} times", qname(&specs, i))));
                }
                if let (Some(a), Some(b)) = (first_init, first_handle) {
                    if b < a {
                        out.monitor.push(("C16".into(), format!("model {} handled a message before its init ran", qname(&specs, i))));
                    }
                }
                if first_init.is_none() && first_handle.is_some() {
                    out.monitor.push(("C16".into(), format!("model {} handled a message but was never initialised", qname(&specs, i))));
                }
            }
            for (i, nm) in sh.ctx_names.lock().unwrap().iter() {
                if *nm != qname(&specs, *i) {
                    out.monitor.push(("C16".into(), format!("Context::name() of model {i} is `{nm}`, expected `{}`", qname(&specs, *i))));
                    break;
                }
            }
        }
        if sh.overlap.load(Ordering::SeqCst) {
            out.monitor.push(("C05".into(), "two computations of one model overlapped".into()));
        }
        // C04: a call that returned Ok left no handler half-way
        if !any_err {
            let mut open: HashSet<(usize, u128)> = HashSet::new();
            for r in &all_recs {
                match r {
                    Rec::Handle(m, p) => {
                        open.insert((*m, *p));
                    }
                    Rec::Done(m, p) => {
                        open.remove(&(*m, *p));
                    }
                    _ => {}
                }
            }
            if let Some((m, p)) = open.iter().next() {
                out.monitor.push(("C04".into(), format!("every call returned Ok but the handler of model {m} for message {p} never finished")));
                out.monitor.push(("C12".into(), format!("every call returned Ok (no message is counted in flight) but the handler of model {m} for message {p} is still suspended on a channel operation: a sender waiting for space (or a receiver waiting for a message) was never resumed although the condition it waits for became true")));
            }
            if let Some(v) = causal_violation(&specs, &all_recs) {
                out.monitor.push(("C02".into(), v));
            }
        }
        if specs.iter().any(|s| s.parent.is_some()) {
            out.tags.push("sub-models".into());
        }
        if specs.iter().any(|s| !s.sim) {
            out.tags.push("orphan-mailbox".into());
        }
        if any_err {
            out.tags.push("stalled-run".into());
        }
        out.nontrivial = n_handled >= 3;
        drop(bench);
        if voided {
            // nothing computed after the voiding point is a verdict
            out.monitor.truncate(void_mon);
        }
        out
    }

    fn agree(&self, _req: &str, impl_r: &str, model_r: &str) -> bool {
        // A stalled run (deadlock / message loss) stops in a schedule-dependent state: two stalled answers agree;
        // the exactness of the report is checked against the ground truth by the C06 monitor.
        let stalled = |s: &str| s.starts_with("deadlock") || s.starts_with("message-loss");
        let first = |s: &str| s.split(" | ").next().unwrap_or("").to_string();
        let faulted = |s: &str| s.starts_with("panic") || s.starts_with("no-recipient") || s.starts_with("timeout");
        // after a panic / missing recipient / timeout the other workers stop at an arbitrary point: only the error
        // (kind and attribution) is compared
        // (the same holds for what shows up later: a handler another worker was still running when the failing call
        // returned writes to its sinks afterwards, and the next call — which answers Terminated — collects that output)
        impl_r == model_r
            || impl_r == "void"
            || (stalled(impl_r) && stalled(model_r))
            || (faulted(model_r) && first(impl_r) == first(model_r))
            || (first(impl_r) == "terminated" && first(model_r) == "terminated")
    }
    fn blame(&self, req: &str, impl_r: &str, model_r: &str) -> Vec<&'static str> {
        // result kinds and report contents are fixed by C06; the multiset of handler invocations of a completed
        // call by C03/C04; init records by C16.
        let part = |s: &str, i: usize| s.split(" | ").nth(i).unwrap_or("").to_string();
        let mut v = Vec::new();
        let faulty = |s: &str| s.starts_with("panic") || s.starts_with("no-recipient") || s.starts_with("timeout") || s.starts_with("terminated");
        if part(impl_r, 0) != part(model_r, 0) {
            if faulty(&part(impl_r, 0)) || faulty(&part(model_r, 0)) {
                v.push("C11");
                if (part(impl_r, 0).starts_with("panic") && part(model_r, 0).starts_with("panic"))
                    || (part(impl_r, 0).starts_with("no-recipient") && part(model_r, 0).starts_with("no-recipient"))
                {
                    v.push("C16");
                }
            } else {
                v.push("C06");
                // one side says "no failure" (ok / the non-fatal BadQuery) and the other a fatal error: a failure that is not
                // one, or a failure that went unreported, is misclassified (C11)
                let benign = |s: &str| s == "ok" || s == "bad-query";
                if benign(&part(impl_r, 0)) != benign(&part(model_r, 0)) {
                    v.push("C11");
                }
            }
        }
        if part(impl_r, 0) == "ok" && part(model_r, 0) == "ok" {
            if part(impl_r, 2) != part(model_r, 2) || part(impl_r, 4) != part(model_r, 4) {
                v.push("C03");
                v.push("C04");
            }
            if part(impl_r, 1) != part(model_r, 1) && req == "init" {
                v.push("C16");
            }
        }
        v
    }
}

/// Bench generator.  Edges (events and queries) go from lower to higher model index, so every run completes
/// whatever the capacities; dedicated variants add one deterministic stall (query loop-back, saturating self-send)
/// and/or orphan mailboxes.
fn gen_case(rng: &mut Rng, _idx: usize, tier: Tier, focus: &str) -> Case {
    if (focus == "C19" && rng.chance(1, 10)) || rng.chance(1, 60) {
        return Case { lines: vec!["case net exec st".into(), format!("nested {} {}", rng.below(5), rng.below(5))] };
    }
    if (focus == "C11" && rng.chance(1, 15)) || rng.chance(1, 120) {
        return Case { lines: vec!["case net exec st".into(), format!("deadlate {} {} {}", rng.pick(&[1u64, 1, 2, 4]), rng.below(2), rng.below(2))] };
    }
    if (focus == "C11" && rng.chance(1, 15)) || rng.chance(1, 150) {
        let na = rng.range(1, 4);
        return Case { lines: vec!["case net exec st".into(), format!("twosims {} {na} {}", rng.range(0, 3), rng.below(na))] };
    }
    if ((focus == "C06" || focus == "C11") && rng.chance(1, 12)) || rng.chance(1, 90) {
        let kind = *rng.pick(&["clean", "lose", "deadlock", "panic"]);
        return Case { lines: vec!["case net exec st".into(), format!("nestrun {} {kind} {}", rng.pick(&[1u64, 1, 2, 4]), rng.range(1, 3))] };
    }
    if ((focus == "C04" || focus == "C16") && rng.chance(1, 12)) || rng.chance(1, 80) {
        // many models / many simultaneous events: more tasks than one injector bucket or one local queue holds
        let n = *rng.pick(&[1u64, 7, 100, 127, 128, 129, 130, 200, 257, 300, 520, 700]);
        return Case { lines: vec!["case net exec st".into(), format!("wide {} {n}", rng.pick(&[1u64, 2, 2, 3, 4, 8]))] };
    }
    if (focus == "C19" && rng.chance(1, 5)) || rng.chance(1, 60) {
        // models owning wake-on-drop objects; some models pending; optionally a handler that sends and then panics
        let n = rng.range(2, 6) as usize;
        let threads = *rng.pick(&[1u64, 2, 2, 3, 4]);
        let panicker = if rng.chance(2, 3) { Some(0usize) } else { None };
        let mut waiters = vec![];
        for i in 1..n {
            if rng.chance(1, 2) {
                waiters.push(i);
            }
        }
        let mut edges = vec![];
        for a in 0..n {
            for b in &waiters {
                if a != *b && rng.chance(1, 3) {
                    edges.push(format!("{a}>{b}"));
                }
            }
        }
        let mut to = vec![];
        for i in 1..n {
            if !waiters.contains(&i) && rng.chance(2, 3) {
                to.push(i.to_string());
            }
        }
        let j = |v: Vec<String>| if v.is_empty() { "-".to_string() } else { v.join(",") };
        return Case {
            lines: vec![
                "case net exec st".into(),
                format!(
                    "wod {threads} {n} waiters {} edges {} panic {} to {}",
                    j(waiters.iter().map(|x| x.to_string()).collect()),
                    j(edges),
                    panicker.map(|x| x.to_string()).unwrap_or("-".into()),
                    j(to)
                ),
            ],
        };
    }
    if (focus == "C02" && rng.chance(1, 4)) || ((focus == "C03" || focus == "C12") && rng.chance(1, 12)) || rng.chance(1, 60) {
        // a sender suspended on a full mailbox inside a broadcast, woken while the mailbox is full again, and a causally
        // later message that reaches the same mailbox through a relay
        const BIG: u64 = 999_999_999_999_999_989;
        let exec = match rng.below(4) {
            0 | 1 => "st".to_string(),
            2 => "mt2".into(),
            _ => "mt4".into(),
        };
        let cap = rng.range(1, 2);
        let mut l = vec![format!("case net exec {exec}")];
        // 0 = source, 1 = relay, 2 = bystander, 3 = receiver (small mailbox), 4 = competitor, 5 = helper
        for (i, nm) in ["a", "b", "c", "d", "e", "f"].iter().enumerate() {
            l.push(format!("model {i} cap {} sim 1 parent - name {nm}", if i == 3 { cap } else { rng.range(2, 4) }));
        }
        l.push("conn 0 0 ev box 3 add 0 fmod 0 fres 0".into());
        let mut bc = vec!["conn 0 1 ev box 2 add 0 fmod 0 fres 0".to_string(), "conn 0 1 ev box 3 add 0 fmod 0 fres 0".to_string()];
        if rng.chance(1, 2) {
            bc.swap(0, 1);
        }
        if rng.chance(1, 3) {
            bc.push("conn 0 1 ev box 5 add 0 fmod 0 fres 0".into());
        }
        l.extend(bc);
        l.push("conn 0 2 ev box 1 add 0 fmod 0 fres 0".into());
        l.push("conn 0 3 ev box 5 add 0 fmod 0 fres 0".into());
        l.push("conn 1 0 ev box 3 add 0 fmod 0 fres 0".into());
        l.push("conn 4 0 ev box 3 add 0 fmod 0 fres 0".into());
        l.push("conn 3 6 q box 5 add 0 fmod 0 fres 0".into());
        l.push("conn 3 7 ev box 4 add 0 fmod 0 fres 0".into());
        // the source: a message to the helper (which is thereby scheduled early), fill the receiver's mailbox, broadcast
        // (suspends on the receiver), then the relay
        l.push("react 0 ev 3 cmod 0 cres 0".into());
        for _ in 0..cap {
            l.push("react 0 ev 0 cmod 0 cres 0".into());
        }
        l.push("react 0 ev 1 cmod 0 cres 0".into());
        l.push("react 0 ev 2 cmod 0 cres 0".into());
        l.push("react 1 ev 0 cmod 0 cres 0".into());
        l.push("react 4 ev 0 cmod 0 cres 0".into());
        let root = rng.range(1, 9);
        let first = root * 100 + 2;
        // while it handles the first filler the receiver wakes the competitor (which takes the freed slot) and then waits
        // for the helper; it never waits for the competitor, so no schedule can deadlock
        if rng.chance(5, 6) {
            l.push(format!("react 3 ev 7 cmod {BIG} cres {first}"));
        }
        if rng.chance(5, 6) {
            l.push(format!("react 3 q 6 cmod {BIG} cres {first}"));
        }
        l.push("init".into());
        l.push(format!("ev 0 {root}"));
        if rng.chance(1, 2) {
            l.push(format!("ev 3 {}", 50 + rng.below(9)));
        }
        return Case { lines: l };
    }
    if ((focus == "C12" || focus == "C04" || focus == "C16") && rng.chance(1, 10)) || rng.chance(1, 80) {
        // a producer blocked on the small mailbox of a consumer whose handler, for the first message, queries the producer:
        // the producer must have been woken (and have finished its sends) for the query to be answered
        const BIG: u64 = 999_999_999_999_999_989;
        let exec = match rng.below(4) {
            0 | 1 => "st".to_string(),
            2 => "mt2".into(),
            _ => "mt4".into(),
        };
        let cap = rng.range(1, 3);
        let root = rng.range(1, 9);
        let mut l = vec![format!("case net exec {exec}")];
        l.push(format!("model 0 cap {} sim 1 parent - name a", rng.range(2, 4)));
        l.push(format!("model 1 cap {cap} sim 1 parent - name b"));
        l.push("conn 0 0 ev box 1 add 0 fmod 0 fres 0".into());
        l.push("conn 1 0 q box 0 add 0 fmod 0 fres 0".into());
        for _ in 0..(cap + rng.range(1, 2)) {
            l.push(format!("react 0 ev 0 cmod {BIG} cres {root}"));
        }
        l.push(format!("react 1 q 0 cmod {BIG} cres {}", root * 100 + 1));
        l.push("init".into());
        l.push(format!("ev 0 {root}"));
        return Case { lines: l };
    }
    let exec = match if focus == "C19" { 1 + rng.below(4) } else { rng.below(5) } {
        0 | 1 => "st".to_string(),
        2 => "mt2".into(),
        3 => "mt4".into(),
        _ => format!("mt{}", rng.pick(&[3u64, 8])),
    };
    let mut lines = vec![format!("case net exec {exec}")];
    let n = rng.range(2, if tier == Tier::Quick { 6 } else { 7 }) as usize;
    // hierarchy in pre-order: parent of i is some earlier model (or none)
    let mut parent: Vec<Option<usize>> = vec![None];
    let mut depth = vec![0usize];
    let want_tree = rng.chance(1, 2) || focus == "C16";
    for i in 1..n {
        // keep pre-order: a new node may be a child of the previous node or of one of its ancestors, or top-level
        let mut cands: Vec<Option<usize>> = vec![None];
        if want_tree {
            let mut a = Some(i - 1);
            while let Some(x) = a {
                if depth[x] < 3 {
                    cands.push(Some(x));
                }
                a = parent[x];
            }
        }
        let p = *rng.pick(&cands);
        depth.push(p.map(|x| depth[x] + 1).unwrap_or(0));
        parent.push(p);
    }
    let stall = if focus == "C06" { rng.below(4) } else if rng.chance(1, if focus == "C16" { 3 } else { 5 }) { rng.range(1, 3) } else { 0 };
    let with_orphan = rng.chance(1, 6) || (focus == "C06" && rng.chance(1, 2));
    let names = ["a", "b", "c", "d", "e", "f", "g", "h"];
    let mut caps = Vec::new();
    for i in 0..n {
        let cap = *rng.pick(&[1u64, 1, 2, 2, 3, 4]);
        caps.push(cap);
        lines.push(format!(
            "model {i} cap {cap} sim 1 parent {} name {}",
            parent[i].map(|p| p.to_string()).unwrap_or("-".into()),
            names[i % names.len()]
        ));
    }
    let orphan_idx = n;
    let mut total = n;
    const BIG: u64 = 999_999_999_999_999_989;
    const TRIG: u64 = 333;
    if with_orphan {
        lines.push(format!("model {orphan_idx} cap {} sim 0 parent - name orphan", rng.range(1, 3)));
        total += 1;
    }
    // ports and connections
    let mut ports: Vec<Vec<(usize, bool)>> = vec![Vec::new(); total]; // (port id, is query)
    let mut conn_lines = Vec::new();
    for i in 0..n {
        let nports = if i + 1 < n { rng.range(1, 3) } else { rng.range(0, 1) } as usize;
        for port in 0..nports {
            let is_q = rng.chance(1, 4);
            let mut has = false;
            let nconn = rng.range(1, 3);
            for _ in 0..nconn {
                // forward edges only
                if i + 1 < n {
                    let j = rng.range(i as u64 + 1, n as u64 - 1) as usize;
                    let (add, fm, fr) = match rng.below(4) {
                        0 => (1_000_000_000_000_000 * (port as u64 + 1), 0, 0),
                        1 => (0, 2, rng.below(2)),
                        2 => (1_000_000_000_000_000, 3, rng.below(3)),
                        _ => (0, 0, 0),
                    };
                    conn_lines.push(format!("conn {i} {port} {} box {j} add {add} fmod {fm} fres {fr}", if is_q { "q" } else { "ev" }));
                    has = true;
                }
            }
            if !is_q && rng.chance(1, 3) {
                conn_lines.push(format!("conn {i} {port} ev sink {} add 0 fmod 0 fres 0", rng.below(2)));
                has = true;
            }
            if !is_q && with_orphan && rng.chance(1, 2) {
                conn_lines.push(format!("conn {i} {port} ev box {orphan_idx} add 0 fmod 0 fres 0"));
                has = true;
            }
            if has {
                ports[i].push((port, is_q));
            }
        }
    }
    // a deterministic stall on one model: 1 = query loop-back, 2 = saturating self-send, 3 = transitive query loop
    let mut stall_line: Vec<String> = Vec::new();
    let mut stall_other: Option<usize> = None;
    // the partner of a transitive query loop has a larger index, so that no forward edge leads back into the loop
    let stall_model = if stall == 3 { rng.below(n as u64 - 1) as usize } else { rng.below(n as u64) as usize };
    let stall_port = 7usize;
    match stall {
        1 => {
            conn_lines.push(format!("conn {stall_model} {stall_port} q box {stall_model} add 0 fmod 0 fres 0"));
            stall_line.push(format!("react {stall_model} q {stall_port} cmod {BIG} cres {TRIG}"));
        }
        2 => {
            conn_lines.push(format!("conn {stall_model} {stall_port} ev box {stall_model} add 0 fmod 0 fres 0"));
            for _ in 0..(caps[stall_model] + 1) {
                stall_line.push(format!("react {stall_model} ev {stall_port} cmod {BIG} cres {TRIG}"));
            }
        }
        3 if n >= 2 => {
            let other = stall_model + 1;
            conn_lines.push(format!("conn {stall_model} {stall_port} q box {other} add 0 fmod 0 fres 0"));
            conn_lines.push(format!("conn {other} {stall_port} q box {stall_model} add 0 fmod 0 fres 0"));
            stall_line.push(format!("react {stall_model} q {stall_port} cmod {BIG} cres {TRIG}"));
            stall_other = Some(other);
        }
        _ => {}
    }
    // ---- fault variants (C11 / C16): panic in a (sub-)model, port send to a dropped mailbox, overrunning handler
    let fault_kind = if focus == "C11" { rng.range(1, 4) } else if focus == "C19" && rng.chance(1, 2) { if rng.chance(1, 3) { 3 } else { 1 } } else if focus == "C16" && rng.chance(1, 3) { rng.range(1, 2) } else if rng.chance(1, 8) { rng.range(1, 4) } else { 0 };
    // the fault is raised, two times out of three, in a model that owns sub-models (attribution has to pick the right
    // entry of the name table)
    let parents: Vec<usize> = (0..n).filter(|i| parent.iter().any(|p| *p == Some(*i))).collect();
    let mut fault_model = if !parents.is_empty() && rng.chance(2, 3) { *rng.pick(&parents) } else { rng.below(n as u64) as usize };
    if fault_kind == 3 && rng.chance(1, 2) {
        // the handler that overruns the time-out belongs to a model that sends nothing: when it finally returns its worker
        // finds no further task (it must still notice the abort and leave)
        let silent: Vec<usize> = (0..n).filter(|i| ports[*i].is_empty()).collect();
        if !silent.is_empty() {
            fault_model = *rng.pick(&silent);
        }
    }
    if fault_kind == 1 && fault_model % 2 == 1 && (with_orphan || stall != 0) {
        // an odd model panics at the *end* of its handler, after its sends; with a mailbox that nobody empties (an orphan of
        // small capacity) or a stall scenario in the bench, one of those sends may wait for ever and the panic never
        // happens — M-NET raises the fault when the handler starts and would disagree.  In such benches the panicking model
        // is an even one (panic on entry).
        fault_model -= 1;
    }
    let dead_idx = total;
    let mut fault_lines: Vec<String> = Vec::new();
    let mut fault_cmds: Vec<String> = Vec::new();
    let mut src_lines: Vec<String> = Vec::new();
    match fault_kind {
        1 => {
            fault_lines.push(format!("fault {fault_model} panic 444"));
            fault_cmds.push(format!("ev {fault_model} 444"));
        }
        2 => {
            lines.push(format!("model {dead_idx} cap 1 sim 0 parent - name gone"));
            lines.push(format!("dead {dead_idx}"));
            total += 1;
            if rng.chance(2, 3) {
                conn_lines.push(format!("conn {fault_model} 8 ev dead {dead_idx} add 0 fmod 0 fres 0"));
                fault_lines.push(format!("react {fault_model} ev 8 cmod {BIG} cres 555"));
                // harmless direct sends to the dropped mailbox first (ignored / BadQuery), then the port send
                fault_cmds.push(format!("ev {dead_idx} 5"));
                fault_cmds.push(format!("qr {dead_idx} 6"));
                fault_cmds.push(format!("ev {fault_model} 555"));
            } else {
                src_lines.push(format!("src 9 dead {dead_idx} add 0 fmod 0 fres 0"));
                src_lines.push(format!("src 9 box {fault_model} add 0 fmod 0 fres 0"));
                fault_cmds.push("sev 9 7".into());
            }
        }
        3 => {
            fault_lines.push(format!("fault {fault_model} sleep 666"));
            fault_lines.push("timeout 120".into());
            fault_cmds.push(format!("ev {fault_model} 666"));
        }
        _ => {}
    }
    // a generous time-out that never fires: the run goes through the watchdog path of the executor (on one thread the
    // model code then runs on a helper thread) and must report exactly what it reports without a time-out
    if fault_kind != 3 && rng.chance(1, if focus == "C06" || focus == "C04" || focus == "C11" { 3 } else { 8 }) {
        fault_lines.push("timeout 30000".into());
    }
    // ---- an EventSource with several connections, often to the same (small) mailbox
    let with_src = rng.chance(1, 3) || focus == "C03";
    if with_src {
        let nconn = rng.range(1, 5);
        let tgt = rng.below(n as u64);
        for _ in 0..nconn {
            let j = if rng.chance(2, 3) { tgt } else { rng.below(n as u64) };
            let (add, fm, fr) = match rng.below(3) {
                0 => (1_000_000_000_000_000u64 * rng.range(1, 3), 0, 0),
                1 => (0, 2, rng.below(2)),
                _ => (0, 0, 0),
            };
            src_lines.push(format!("src 0 box {j} add {add} fmod {fm} fres {fr}"));
        }
    }
    lines.extend(conn_lines);
    lines.extend(src_lines);
    // scripts
    let mut react_count = vec![0u64; n];
    for i in 0..n {
        if ports[i].is_empty() {
            continue;
        }
        let nops = rng.range(1, 3);
        for _ in 0..nops {
            let (port, is_q) = *rng.pick(&ports[i]);
            let (cm, cr) = if rng.chance(1, 4) { (2, rng.below(2)) } else { (0, 0) };
            lines.push(format!("react {i} {} {port} cmod {cm} cres {cr}", if is_q { "q" } else { "ev" }));
            react_count[i] += 1;
        }
        if rng.chance(1, 3) || focus == "C16" {
            let (port, is_q) = *rng.pick(&ports[i]);
            lines.push(format!("initop {i} {} {port} cmod 0 cres 0", if is_q { "q" } else { "ev" }));
        }
    }
    if let Some(other) = stall_other {
        // the partner queries back exactly when it handles the request sent by the stall line of `stall_model`
        let child = TRIG * 100 + stall_model as u64 * 10 + react_count[stall_model] + 1;
        stall_line.push(format!("react {other} q {stall_port} cmod {BIG} cres {child}"));
    }
    lines.extend(stall_line);
    lines.extend(fault_lines);
    // schedule perturbation on the multi-threaded executor: handlers that take some time (so that work is stolen) and a
    // sleep at one protocol point of the pool (worker deactivation, idle detection, task scheduling)
    if exec != "st" && fault_kind == 0 && rng.chance(1, if focus == "C04" || focus == "C06" { 3 } else { 8 }) {
        lines.push(format!("work {}", rng.range(50, 400)));
        lines.push(format!("delay {} {}", rng.below(6), rng.range(1000, 12000)));
    }
    lines.push("init".into());
    let ncmd = rng.range(1, 5);
    for c in 0..ncmd {
        let j = rng.below(n as u64);
        // payloads: small distinct roots (the stall trigger is the dedicated payload 333)
        let root = 1 + c * 2 + rng.below(2);
        if rng.chance(1, 5) {
            lines.push(format!("qr {j} {root}"));
        } else {
            lines.push(format!("ev {j} {root}"));
        }
    }
    if with_src {
        for c in 0..rng.range(1, 3) {
            lines.push(format!("sev 0 {}", 60 + c));
        }
    }
    if !fault_cmds.is_empty() {
        lines.extend(fault_cmds);
        // whatever follows a fatal error must answer Terminated
        for c in 0..rng.range(1, 4) {
            match rng.below(3) {
                0 => lines.push(format!("ev {} {}", rng.below(n as u64), 70 + c)),
                1 => lines.push(format!("qr {} {}", rng.below(n as u64), 80 + c)),
                _ => lines.push(format!("sev 0 {}", 90 + c)),
            }
        }
    }
    if stall != 0 {
        // the trigger arrives as an event, or (one time in three) as a query: the replier replies and the stall it started
        // elsewhere must still be reported
        if rng.chance(1, 3) {
            lines.push(format!("qr {stall_model} {TRIG}"));
        } else {
            lines.push(format!("ev {stall_model} {TRIG}"));
        }
        lines.push(format!("ev {} 5", rng.below(n as u64)));
    }
    // drop the simulation (with its scheduler handle, addresses and sources) at some point of the driver sequence:
    // idle, deadlocked, failed, with scheduled actions still pending
    if focus == "C19" || rng.chance(1, 4) {
        let first_cmd = lines.iter().position(|l| l == "init").unwrap() + 1;
        let at = first_cmd + rng.below((lines.len() - first_cmd + 1) as u64) as usize;
        let mut ins = vec![];
        for k in 0..rng.below(3) {
            ins.push(format!("later {} {} {}", rng.below(n as u64), 40 + k, 1 + rng.below(5)));
        }
        ins.push("dropsim".to_string());
        for (k, l) in ins.into_iter().enumerate() {
            lines.insert(at + k, l);
        }
    }
    Case { lines }
}
