//! Engine `slot`: the one-shot slot of `util/slot.rs` (through the verif hook, with a value that counts its drops) against
//! M-SLOT run operation by operation (the atomic steps of `write`, the writer's drop, `try_read`, the reader's drop
//! executed to their end before the next operation).  Responses: the result of the operation and the number of times the
//! value written has been dropped so far (a value that was read is dropped by the harness at once).  Plus `race`: the two
//! handles used from two threads at the same moment, many rounds: the value must have been dropped exactly once after each.

use std::sync::atomic::{AtomicUsize, Ordering};
use std::sync::Arc;

use nexosim::verif_hooks::{vreply_slot, VReplySlotReader, VReplySlotWriter};

use crate::rng::Rng;
use crate::runner::{Case, Engine, Outcome, Tier};

pub struct SlotEngine;

fn race(rounds: usize, mode: usize) -> Result<(), String> {
    for r in 0..rounds {
        let drops = Arc::new(AtomicUsize::new(0));
        let (w, mut rd) = vreply_slot(drops.clone());
        let go = Arc::new(AtomicUsize::new(0));
        let g2 = go.clone();
        let writes = mode != 1;
        let h = std::thread::spawn(move || {
            while g2.load(Ordering::Acquire) == 0 {
                std::hint::spin_loop();
            }
            for _ in 0..(r % 40) {
                std::hint::spin_loop();
            }
            if writes {
                w.write(r as u64)
            } else {
                drop(w);
                false
            }
        });
        go.store(1, Ordering::Release);
        let mut got = None;
        let tries = if mode == 2 { 0 } else { r % 5 };
        for _ in 0..tries {
            if let Ok(v) = rd.try_read() {
                got = Some(v);
                break;
            }
        }
        drop(rd);
        let ok = h.join().map_err(|_| "writer thread panicked".to_string())?;
        if let Some(v) = got {
            if v != r as u64 {
                return Err(format!("round {r}: read {v}, {r} had been written"));
            }
            if !ok {
                return Err(format!("round {r}: a value was read although `write` reported an error"));
            }
        }
        let d = drops.load(Ordering::SeqCst);
        let expect = if writes { 1 } else { 0 };
        if d != expect {
            return Err(format!("round {r}: the value was dropped {d} time(s) after both handles were gone (write returned {}), expected {expect}", if ok { "Ok" } else { "Err" }));
        }
    }
    Ok(())
}

impl Engine for SlotEngine {
    fn name(&self) -> &'static str {
        "slot"
    }
    fn serves(&self) -> &'static [&'static str] {
        &["C19"]
    }
    fn nontrivial_rule(&self) -> &'static str {
        "a case is one slot and a sequence over write(v) / drop of the writer / try_read / drop of the reader (each handle \
         operation where the handle still exists), all orders enumerated; plus two-thread races of the two handles; \
         non-trivial = a value was written; distinct by hash"
    }
    fn default_cases(&self, tier: Tier) -> usize {
        match tier {
            Tier::Quick => 200,
            Tier::Thorough => 2000,
        }
    }
    fn enumerate(&self, tier: Tier, _focus: &str) -> Vec<Case> {
        // every sequence up to length 6 over the four operations (operations on a handle that is gone answer `gone`)
        let maxlen = if tier == Tier::Quick { 5 } else { 7 };
        let alphabet = ["write", "wdrop", "read", "rdrop"];
        let mut out = Vec::new();
        for len in 1..=maxlen {
            for code in 0..4usize.pow(len as u32) {
                let mut c = code;
                let mut lines = vec!["case slot".to_string()];
                for k in 0..len {
                    let a = alphabet[c % 4];
                    c /= 4;
                    lines.push(if a == "write" { format!("write {}", 10 + k) } else { a.to_string() });
                }
                lines.push("wdrop".into());
                lines.push("rdrop".into());
                out.push(Case { lines });
            }
        }
        let rounds = if tier == Tier::Quick { 3000 } else { 15000 };
        for mode in 0..3 {
            out.push(Case { lines: vec![format!("race {rounds} {mode}")] });
        }
        out
    }
    fn gen(&self, rng: &mut Rng, _idx: usize, _tier: Tier, _focus: &str) -> Case {
        let mut lines = vec!["case slot".to_string()];
        for k in 0..rng.range(1, 8) {
            lines.push(match rng.weighted(&[3, 1, 4, 1]) {
                0 => format!("write {}", 100 + k),
                1 => "wdrop".into(),
                2 => "read".into(),
                _ => "rdrop".into(),
            });
        }
        lines.push("wdrop".into());
        lines.push("rdrop".into());
        Case { lines }
    }
    fn run_impl(&self, lines: &[String]) -> Outcome {
        let mut out = Outcome::default();
        let drops = Arc::new(AtomicUsize::new(0));
        let mut w: Option<VReplySlotWriter> = None;
        let mut r: Option<VReplySlotReader> = None;
        let mut written = false;
        for l in lines {
            let ws: Vec<&str> = l.split_whitespace().collect();
            let resp = match ws.as_slice() {
                ["case", "slot"] => {
                    let (a, b) = vreply_slot(drops.clone());
                    w = Some(a);
                    r = Some(b);
                    "ok".to_string()
                }
                ["race", rounds, mode] => {
                    out.nontrivial = true;
                    match race(rounds.parse().unwrap(), mode.parse().unwrap()) {
                        Ok(()) => "race ok".into(),
                        Err(e) => {
                            out.monitor.push(("C19".into(), format!("the two handles of a reply slot used from two threads: {e}")));
                            format!("race failed: {e}")
                        }
                    }
                }
                ["write", v] => match w.take() {
                    Some(h) => {
                        written = true;
                        out.nontrivial = true;
                        let ok = h.write(v.parse().unwrap());
                        format!("{} drops={}", if ok { "ok" } else { "err" }, drops.load(Ordering::SeqCst))
                    }
                    None => "gone".into(),
                },
                ["wdrop"] => match w.take() {
                    Some(h) => {
                        drop(h);
                        format!("- drops={}", drops.load(Ordering::SeqCst))
                    }
                    None => "gone".into(),
                },
                ["read"] => match r.as_mut() {
                    Some(h) => {
                        let res = h.try_read();
                        let t = match res {
                            Ok(v) => format!("some {v}"),
                            Err(1) => "novalue".to_string(),
                            Err(_) => "closed".to_string(),
                        };
                        format!("{t} drops={}", drops.load(Ordering::SeqCst))
                    }
                    None => "gone".into(),
                },
                ["rdrop"] => match r.take() {
                    Some(h) => {
                        drop(h);
                        format!("- drops={}", drops.load(Ordering::SeqCst))
                    }
                    None => "gone".into(),
                },
                _ => "bad-op".into(),
            };
            out.resp.push(resp);
        }
        if w.is_none() && r.is_none() {
            let d = drops.load(Ordering::SeqCst);
            if d != written as usize {
                out.monitor.push(("C19".into(), format!("both handles of the reply slot are gone and the value written was dropped {d} time(s)")));
            }
        }
        out
    }
}
