//! Engine `inj`: the injector queue of the multi-threaded executor (`executor/mt_executor/injector.rs`, through the
//! verif hook, buckets of 3 tasks) against M-INJ.  Sequential operation sequences; the responses include the bucket
//! handed out by `pop_bucket` (order of tasks inside the bucket included) and the advisory emptiness flag after every
//! operation.

use nexosim::verif_hooks::VInjector;

use crate::rng::Rng;
use crate::runner::{Case, Engine, Outcome, Tier};

pub struct Inj;

fn show(b: Option<Vec<u64>>) -> String {
    match b {
        None => "none".into(),
        Some(v) => format!("some {}", v.iter().map(|x| x.to_string()).collect::<Vec<_>>().join(",")),
    }
}

impl Engine for Inj {
    fn name(&self) -> &'static str {
        "inj"
    }
    fn serves(&self) -> &'static [&'static str] {
        &["C04"]
    }
    fn nontrivial_rule(&self) -> &'static str {
        "a case is one injector (bucket capacity 3) and a sequence over insert_task / push_bucket (1-3 tasks) / pop_bucket / \
         is_empty followed by a full drain; non-trivial = a bucket filled up (a full bucket was swapped for a new one) or the \
         queue went from non-empty to empty and back; distinct by hash"
    }
    fn default_cases(&self, tier: Tier) -> usize {
        match tier {
            Tier::Quick => 1500,
            Tier::Thorough => 30000,
        }
    }
    fn enumerate(&self, tier: Tier, _focus: &str) -> Vec<Case> {
        // every sequence up to a bound over { ins, push of 1, push of 3, pop }
        let maxlen = match tier {
            Tier::Quick => 6usize,
            Tier::Thorough => 8usize,
        };
        let alphabet = ["ins", "push1", "push3", "pop"];
        let mut out = Vec::new();
        let mut idx = vec![0usize; 0];
        fn rec(alphabet: &[&str], cur: &mut Vec<usize>, maxlen: usize, out: &mut Vec<Case>) {
            if !cur.is_empty() {
                let mut lines = vec!["case inj".to_string()];
                let mut next = 1u64;
                for a in cur.iter() {
                    match alphabet[*a] {
                        "ins" => {
                            lines.push(format!("ins {next}"));
                            next += 1;
                        }
                        "push1" => {
                            lines.push(format!("push {next}"));
                            next += 1;
                        }
                        "push3" => {
                            lines.push(format!("push {},{},{}", next, next + 1, next + 2));
                            next += 3;
                        }
                        _ => lines.push("pop".into()),
                    }
                    lines.push("empty".into());
                }
                for _ in 0..(cur.len() + 1) {
                    lines.push("pop".into());
                }
                lines.push("empty".into());
                out.push(Case { lines });
            }
            if cur.len() == maxlen {
                return;
            }
            for a in 0..alphabet.len() {
                cur.push(a);
                rec(alphabet, cur, maxlen, out);
                cur.pop();
            }
        }
        rec(&alphabet, &mut idx, maxlen, &mut out);
        out
    }
    fn gen(&self, rng: &mut Rng, _idx: usize, tier: Tier, _focus: &str) -> Case {
        if rng.chance(1, if tier == Tier::Quick { 60 } else { 400 }) {
            return Case { lines: vec![format!("stress {} {}", rng.range(2, 4), if tier == Tier::Quick { 300000 } else { 2000000 })] };
        }
        let n = rng.range(5, if tier == Tier::Quick { 60 } else { 200 });
        let mut lines = vec!["case inj".to_string()];
        let mut next = 1u64;
        let mut pushes = 0;
        for _ in 0..n {
            match rng.weighted(&[5, 2, 3, 2]) {
                0 => {
                    lines.push(format!("ins {next}"));
                    next += 1;
                    pushes += 1;
                }
                1 => {
                    // a bucket of 1-3 tasks (4: the bucket constructor keeps the first 3)
                    let k = rng.range(1, 4);
                    let v: Vec<String> = (0..k).map(|i| (next + i).to_string()).collect();
                    lines.push(format!("push {}", v.join(",")));
                    next += k;
                    pushes += 1;
                }
                2 => lines.push("pop".into()),
                _ => lines.push("empty".into()),
            }
        }
        for _ in 0..(pushes + 1) {
            lines.push("pop".into());
        }
        lines.push("empty".into());
        Case { lines }
    }

    fn run_impl(&self, lines: &[String]) -> Outcome {
        let mut out = Outcome::default();
        let mut q: Option<VInjector> = None;
        // monitor: multiset of tasks in = out + held, pop answers None only when nothing is held
        let mut held: Vec<u64> = Vec::new();
        let mut was_empty_then_filled = false;
        let mut swapped = false;
        let mut first_bucket_len = 0usize;
        for l in lines {
            let w: Vec<&str> = l.split_whitespace().collect();
            let r = match (w.as_slice(), &q) {
                (["stress", threads, iters], _) => {
                    // several threads push buckets and pop them concurrently; once they have all finished nothing is in
                    // progress, so the advisory flag must be exact again and every task pushed must be handed out exactly once
                    let (threads, iters): (u64, u64) = (threads.parse().unwrap(), iters.parse().unwrap());
                    let q = std::sync::Arc::new(VInjector::new());
                    let hs: Vec<_> = (0..threads)
                        .map(|ti| {
                            let q = q.clone();
                            std::thread::spawn(move || {
                                let mut got: Vec<u64> = Vec::new();
                                for k in 0..iters {
                                    // the queue hovers around empty: most pops take the last bucket while another thread
                                    // pushes onto the empty queue
                                    if k % 4 == 0 {
                                        q.insert_task(ti * 100_000_000 + k);
                                    } else if k % 4 == 2 {
                                        q.push_bucket(&[ti * 100_000_000 + k]);
                                    } else if let Some(b) = q.pop_bucket() {
                                        got.extend(b);
                                    }
                                }
                                got
                            })
                        })
                        .collect();
                    let mut got: Vec<u64> = hs.into_iter().flat_map(|h| h.join().unwrap()).collect();
                    let flag_before_drain = q.is_empty();
                    let mut drained = 0usize;
                    while let Some(b) = q.pop_bucket() {
                        drained += b.len();
                        got.extend(b);
                    }
                    let mut want: Vec<u64> = (0..threads).flat_map(|ti| (0..iters).filter(move |k| k % 2 == 0).map(move |k| ti * 100_000_000 + k)).collect();
                    want.sort();
                    got.sort();
                    if got != want {
                        let missing = want.len() as i64 - got.len() as i64;
                        out.monitor.push(("C04".into(), format!("{threads} threads pushed and popped concurrently ({iters} operations each); afterwards the injector hands out {} of the {} tasks that were put in ({missing} never come out: `is_empty()` = {flag_before_drain}, pop_bucket answers None): runnable work has become invisible to the workers", got.len(), want.len())));
                    }
                    out.nontrivial = true;
                    out.tags.push("stress".into());
                    let _ = drained;
                    format!("stress {}", if got == want { "ok" } else { "lost" })
                }
                (["case", "inj"], _) => {
                    q = Some(VInjector::new());
                    held.clear();
                    "ok".to_string()
                }
                (["ins", t], Some(q)) => {
                    let t: u64 = t.parse().unwrap();
                    if held.is_empty() {
                        first_bucket_len = 0;
                    }
                    q.insert_task(t);
                    first_bucket_len += 1;
                    if first_bucket_len > 3 {
                        swapped = true;
                        first_bucket_len = 1;
                    }
                    held.push(t);
                    format!("- {}", q.is_empty())
                }
                (["push", ts], Some(q)) => {
                    let v: Vec<u64> = ts.split(',').map(|x| x.parse().unwrap()).collect();
                    if held.is_empty() {
                        was_empty_then_filled = true;
                        first_bucket_len = v.len().min(3);
                    }
                    q.push_bucket(&v);
                    held.extend(v.iter().take(3));
                    format!("- {}", q.is_empty())
                }
                (["pop"], Some(q)) => {
                    let b = q.pop_bucket();
                    match &b {
                        None => {
                            if !held.is_empty() {
                                out.monitor.push(("C04".into(), format!("pop_bucket returned None while the injector holds {} task(s): runnable work is invisible to the workers", held.len())));
                            }
                        }
                        Some(v) => {
                            if v.is_empty() {
                                out.monitor.push(("C04".into(), "pop_bucket returned an empty bucket".into()));
                            }
                            for t in v {
                                match held.iter().position(|x| x == t) {
                                    Some(p) => {
                                        held.remove(p);
                                    }
                                    None => out.monitor.push(("C04".into(), format!("pop_bucket handed out task {t}, which is not in the injector (duplicated or invented)"))),
                                }
                            }
                        }
                    }
                    format!("{} {}", show(b), q.is_empty())
                }
                (["empty"], Some(q)) => {
                    let e = q.is_empty();
                    if e != held.is_empty() {
                        out.monitor.push(("C04".into(), format!("is_empty() = {e} while the injector holds {} task(s)", held.len())));
                    }
                    format!("{e}")
                }
                _ => "bad-op".into(),
            };
            out.resp.push(r);
        }
        out.nontrivial = swapped || was_empty_then_filled;
        if swapped {
            out.tags.push("bucket-swapped".into());
        }
        if was_empty_then_filled {
            out.tags.push("push-on-empty".into());
        }
        out
    }
    fn blame(&self, _req: &str, _impl_r: &str, _model_r: &str) -> Vec<&'static str> {
        Vec::new()
    }
}
