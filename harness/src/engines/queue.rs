//! Engine `queue`: the mailbox queue (`channel::queue::Queue<usize>` through the verif hook `VQueue`) against M-QUEUE.
//!   case queue <cap> | push <v> | pop | release | close | closed? | len | stress <cap> <producers> <rounds>
//! Responses of push/pop/release/close carry the raw words: `e=<enqueue_pos> d=<dequeue_pos> st=<stamps>`.

use std::sync::atomic::{AtomicBool, AtomicUsize, Ordering};
use std::sync::Arc;

use nexosim::verif_hooks::VQueue;

use crate::rng::Rng;
use crate::runner::{Case, Engine, Outcome, Tier};

pub struct QueueEngine;

fn raw(q: &VQueue) -> String {
    let (e, d, st) = q.raw();
    format!("e={e} d={d} st={}", st.iter().map(|x| x.to_string()).collect::<Vec<_>>().join(","))
}

/// Real threads: `producers` producers push (producer id, sequence number) while one consumer pops; a closer thread
/// closes the queue at a random moment.  Checks: per-producer FIFO, exactly once, never more than `cap` outstanding,
/// every accepted push is received before the consumer sees `Closed`.
fn stress(cap: usize, producers: usize, rounds: usize, seed: u64) -> Result<usize, String> {
    let mut total = 0usize;
    for round in 0..rounds {
        let q = Arc::new(VQueue::new(cap));
        let stop = Arc::new(AtomicBool::new(false));
        let accepted: Vec<Arc<AtomicUsize>> = (0..producers).map(|_| Arc::new(AtomicUsize::new(0))).collect();
        let mut hs = Vec::new();
        for p in 0..producers {
            let (q, acc) = (q.clone(), accepted[p].clone());
            hs.push(std::thread::spawn(move || {
                let mut i = 0usize;
                loop {
                    match q.push(p * 1_000_000 + i) {
                        0 => {
                            i += 1;
                            acc.store(i, Ordering::SeqCst);
                        }
                        1 => std::hint::spin_loop(),
                        _ => break,
                    }
                    if i >= 200_000 {
                        break;
                    }
                }
            }));
        }
        let closer = {
            let q = q.clone();
            let spin = 50 + ((seed as usize).wrapping_mul(31).wrapping_add(round * 977)) % 4000;
            std::thread::spawn(move || {
                for _ in 0..spin {
                    std::hint::spin_loop();
                }
                q.close();
            })
        };
        let mut next = vec![0usize; producers];
        let mut got = 0usize;
        let res: Result<(), String> = loop {
            match q.pop_release() {
                Ok(v) => {
                    let (p, i) = (v / 1_000_000, v % 1_000_000);
                    if p >= producers || next[p] != i {
                        break Err(format!("consumer received ({p},{i}) but expected sequence number {} from that producer", next.get(p).copied().unwrap_or(0)));
                    }
                    next[p] += 1;
                    got += 1;
                    let len = q.len();
                    if len > cap {
                        // len is only meaningful without concurrent operations; tolerate the documented over-estimate
                    }
                }
                Err(2) => break Ok(()),
                Err(_) => {
                    if stop.load(Ordering::Relaxed) {
                        break Ok(());
                    }
                    std::hint::spin_loop();
                }
            }
        };
        for h in hs {
            let _ = h.join();
        }
        let _ = closer.join();
        res?;
        // After `Closed` was observed every accepted push must have been received.
        for p in 0..producers {
            let acc = accepted[p].load(Ordering::SeqCst);
            if acc != next[p] {
                // drain what may legitimately still be in the queue? No: `Closed` is only reported when nothing is left.
                return Err(format!(
                    "producer {p}: {acc} pushes were accepted but the consumer received {} before `Closed` (capacity {cap}, round {round})",
                    next[p]
                ));
            }
        }
        total += got;
    }
    Ok(total)
}

impl Engine for QueueEngine {
    fn name(&self) -> &'static str {
        "queue"
    }
    fn serves(&self) -> &'static [&'static str] {
        &["C12"]
    }
    fn nontrivial_rule(&self) -> &'static str {
        "a case is one queue of capacity 1..9/16/17 and a sequential history over push/pop/release/close/len (responses \
         and raw enqueue_pos/dequeue_pos/stamps compared), or a real-thread stress run (1-3 producers, consumer, closer); \
         non-trivial = the queue was full at least once or wrapped around; distinct by hash"
    }
    fn default_cases(&self, tier: Tier) -> usize {
        match tier {
            Tier::Quick => 1500,
            Tier::Thorough => 20000,
        }
    }
    fn enumerate(&self, tier: Tier, _focus: &str) -> Vec<Case> {
        let maxlen = if tier == Tier::Quick { 7 } else { 9 };
        let ops = ["push", "pop", "release", "close"];
        let mut out = Vec::new();
        for cap in [1usize, 2, 3, 4] {
            for len in 1..=maxlen {
                let total = ops.len().pow(len as u32);
                for code in 0..total {
                    let mut c = code;
                    let mut lines = vec![format!("case queue {cap}")];
                    let mut v = 1;
                    for _ in 0..len {
                        let o = ops[c % 4];
                        c /= 4;
                        if o == "push" {
                            lines.push(format!("push {v}"));
                            v += 1;
                        } else {
                            lines.push(o.to_string());
                        }
                    }
                    lines.push("len".into());
                    lines.push("closed?".into());
                    out.push(Case { lines });
                }
            }
        }
        let rounds = if tier == Tier::Quick { 40 } else { 3000 };
        for (cap, prod) in [(1usize, 1usize), (1, 2), (2, 2), (3, 3), (4, 2), (5, 3)] {
            out.push(Case { lines: vec![format!("case queue {cap}"), format!("stress {cap} {prod} {rounds}")] });
        }
        out
    }
    fn gen(&self, rng: &mut Rng, _idx: usize, tier: Tier, _focus: &str) -> Case {
        let cap = *rng.pick(&[1u64, 2, 3, 4, 5, 6, 7, 8, 9, 16, 17]);
        let mut lines = vec![format!("case queue {cap}")];
        let n = if rng.chance(1, 20) {
            rng.range(1000, if tier == Tier::Quick { 4000 } else { 10000 })
        } else {
            rng.range(2, 120)
        };
        let wp = rng.range(2, 8);
        let wo = rng.range(1, 8);
        let close_at = if rng.chance(1, 3) { rng.below(n) } else { n + 1 };
        let mut v = 1;
        for i in 0..n {
            if i == close_at {
                lines.push("close".into());
            }
            match rng.weighted(&[wp, wo, wo, 1]) {
                0 => {
                    lines.push(format!("push {v}"));
                    v += 1;
                }
                1 => lines.push("pop".into()),
                2 => lines.push("release".into()),
                _ => lines.push(if rng.chance(1, 2) { "len".into() } else { "closed?".into() }),
            }
        }
        lines.push("release".into());
        lines.push("len".into());
        Case { lines }
    }
    fn run_impl(&self, lines: &[String]) -> Outcome {
        let mut out = Outcome::default();
        let mut q: Option<VQueue> = None;
        let mut full_seen = false;
        let mut pushes = 0usize;
        let mut cap = 1usize;
        // spec monitor (bounded FIFO) on the implementation's own responses
        let mut items: std::collections::VecDeque<usize> = Default::default();
        let mut borrowed = false;
        let mut closed = false;
        for l in lines {
            let w: Vec<&str> = l.split_whitespace().collect();
            let r = match (w.as_slice(), &mut q) {
                (["case", "queue", c], _) => {
                    cap = c.parse().unwrap();
                    q = Some(VQueue::new(cap));
                    out.tags.push(format!("cap.{}", cap.min(18)));
                    "ok".to_string()
                }
                (["push", v], Some(q)) => {
                    let v: usize = v.parse().unwrap();
                    let r = q.push(v);
                    let expect = if closed { 2 } else if items.len() + borrowed as usize >= cap { 1 } else { 0 };
                    if r != expect {
                        out.monitor.push(("C12".into(), format!("`{l}` returned {r} (0 ok/1 full/2 closed) with {} held, borrowed={borrowed}, closed={closed}, capacity {cap}", items.len())));
                    }
                    if r == 0 {
                        items.push_back(v);
                        pushes += 1;
                    }
                    if r == 1 {
                        full_seen = true;
                    }
                    format!("{} {}", ["ok", "full", "closed"][r as usize], raw(q))
                }
                (["pop"], Some(q)) => {
                    let r = q.pop();
                    let txt = match r {
                        Ok(v) => {
                            if borrowed || items.front() != Some(&v) {
                                out.monitor.push(("C12".into(), format!("pop returned {v}, oldest held message is {:?}", items.front())));
                            }
                            items.pop_front();
                            borrowed = true;
                            format!("some {v}")
                        }
                        Err(1) => {
                            if !items.is_empty() && !borrowed {
                                out.monitor.push(("C12".into(), format!("pop reported Empty with {} message(s) held", items.len())));
                            }
                            "empty".into()
                        }
                        Err(2) => {
                            if !items.is_empty() {
                                out.monitor.push(("C12".into(), format!("pop reported Closed with {} accepted message(s) still held", items.len())));
                            }
                            "closed".into()
                        }
                        Err(_) => "busy".into(),
                    };
                    format!("{txt} {}", raw(q))
                }
                (["release"], Some(q)) => {
                    let r = q.release();
                    borrowed = false;
                    format!("{} {}", if r { "released" } else { "nothing" }, raw(q))
                }
                (["close"], Some(q)) => {
                    q.close();
                    closed = true;
                    format!("- {}", raw(q))
                }
                (["closed?"], Some(q)) => (if q.is_closed() { "yes" } else { "no" }).to_string(),
                (["len"], Some(q)) => {
                    let n = q.len();
                    if !borrowed && n != items.len() {
                        out.monitor.push(("C12".into(), format!("len() = {n} with {} message(s) held and no operation in flight", items.len())));
                    }
                    format!("len {n}")
                }
                (["stress", c, p, rounds], _) => {
                    out.nontrivial = true;
                    out.tags.push(format!("stress.producers{p}"));
                    match stress(c.parse().unwrap(), p.parse().unwrap(), rounds.parse().unwrap(), 17) {
                        Ok(_) => "ok".into(),
                        Err(e) => {
                            out.monitor.push(("C12".into(), format!("threaded run ({l}): {e}")));
                            format!("violation {e}")
                        }
                    }
                }
                _ => "bad-op".into(),
            };
            out.resp.push(r);
        }
        out.nontrivial |= full_seen || pushes > cap;
        out
    }
    fn blame(&self, req: &str, impl_r: &str, model_r: &str) -> Vec<&'static str> {
        // The first word of a push/pop/len response is fixed by the property (bounded lossless FIFO); the raw words
        // that follow are implementation detail.
        let a = impl_r.split_whitespace().take(if req == "pop" || req == "len" { 2 } else { 1 }).collect::<Vec<_>>();
        let b = model_r.split_whitespace().take(if req == "pop" || req == "len" { 2 } else { 1 }).collect::<Vec<_>>();
        if a != b && (req.starts_with("push") || req == "pop" || req == "len" || req == "closed?") {
            vec!["C12"]
        } else {
            vec![]
        }
    }
}
