pub mod bcast;
pub mod net;
pub mod pq;
pub mod queue;
pub mod sched;
pub mod sinks;
pub mod synccell;
pub mod task;
