pub mod pq;
pub mod sinks;
