pub mod sinks;
