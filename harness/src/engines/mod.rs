pub mod pq;
pub mod sched;
pub mod sinks;
pub mod synccell;
pub mod task;
