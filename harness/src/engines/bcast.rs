//! Engine `bcast`: the real `QueryBroadcaster` / `BroadcastFuture` / `TaskSet` with scripted repliers (verif hook
//! `VQueryBroadcaster`), the real `CachedRwLock` (hook `VCachedRwLock`) and real `Output` clones, against M-BCAST.
//!   case bcast | add <add> <fmod> <fres> | bc <arg> <consume> | poll | drop | reply <c> <v> | wake <c> | fail <c>
//!   case lock [ports] | clone <c> | wpush <c> <v> | read <c>

use std::future::Future;
use std::pin::Pin;
use std::sync::atomic::{AtomicUsize, Ordering};
use std::sync::{Arc, Mutex};
use std::task::{Context, Poll, Wake, Waker};

use nexosim::ports::{EventBuffer, EventSinkStream, Output};
use nexosim::verif_hooks::{VCachedRwLock, VQueryBroadcaster, VSlot};

use crate::rng::Rng;
use crate::runner::{Case, Engine, Outcome, Tier};

pub struct Bcast;

struct CountWaker(AtomicUsize);
impl Wake for CountWaker {
    fn wake(self: Arc<Self>) {
        self.0.fetch_add(1, Ordering::SeqCst);
    }
    fn wake_by_ref(self: &Arc<Self>) {
        self.0.fetch_add(1, Ordering::SeqCst);
    }
}

type BFut = Pin<Box<dyn Future<Output = Result<Vec<u64>, ()>> + 'static>>;

struct BState {
    fut: Option<BFut>, // declared before `vb`: dropped first
    vb: Box<VQueryBroadcaster>,
    slots: Vec<Arc<Mutex<VSlot>>>,
    params: Vec<(u64, u64, u64)>,
    count: Arc<CountWaker>,
    // monitor state
    arg: u64,
    consume: usize,
    handed: Vec<Option<u64>>,     // reply value handed to connection c and not yet consumed
    polled: Vec<bool>,            // c's sub-future was polled (and returned Pending) during the current broadcast
    woken: Vec<bool>,             // c's current waker was invoked after its reply was made available
    done: Vec<bool>,              // c's reply was consumed by the current broadcast
    started: bool,                // the current broadcast future was polled at least once
    armed: bool,                  // last poll returned Pending and no current sub-future was woken since
}

impl BState {
    fn new() -> Self {
        BState {
            fut: None,
            vb: Box::new(VQueryBroadcaster::new()),
            slots: vec![],
            params: vec![],
            count: Arc::new(CountWaker(AtomicUsize::new(0))),
            arg: 0,
            consume: 0,
            handed: vec![],
            polled: vec![],
            woken: vec![],
            done: vec![],
            started: false,
            armed: false,
        }
    }
    fn obs(&self) -> String {
        let polls: Vec<String> = self.slots.iter().map(|s| s.lock().unwrap().polls.to_string()).collect();
        let reqs: Vec<String> = self
            .slots
            .iter()
            .map(|s| s.lock().unwrap().requests.iter().map(|x| x.to_string()).collect::<Vec<_>>().join(","))
            .collect();
        format!("P {} | W {} | Q {}", polls.join(","), self.count.0.load(Ordering::SeqCst), reqs.join(";"))
    }
    fn accepted(&self) -> Vec<usize> {
        (0..self.params.len()).filter(|&c| self.params[c].1 == 0 || self.arg % self.params[c].1 == self.params[c].2).collect()
    }
}

enum LState {
    Lock(Vec<VCachedRwLock>),
    Ports(Vec<Output<u64>>, Vec<EventBuffer<u64>>),
}

fn noop_waker() -> Waker {
    Arc::new(CountWaker(AtomicUsize::new(0))).into()
}

impl Engine for Bcast {
    fn name(&self) -> &'static str {
        "bcast"
    }
    fn serves(&self) -> &'static [&'static str] {
        &["C14", "C03", "C04"]
    }
    fn nontrivial_rule(&self) -> &'static str {
        "a case is one query broadcaster with 0-6 scripted repliers (map, filter) driven by broadcast / poll / drop (cancel) / \
         reply / wake (incl. spurious and stale wakers) / fail operations with partially consumed reply iterators, or one \
         CachedRwLock / Output port with clones driven by clone / connect / send; non-trivial = a broadcast with at least two \
         accepting repliers completed after a Pending poll, or a read through a clone other than the writer; distinct by hash"
    }
    fn default_cases(&self, tier: Tier) -> usize {
        match tier {
            Tier::Quick => 3000,
            Tier::Thorough => 60000,
        }
    }
    fn enumerate(&self, tier: Tier, _focus: &str) -> Vec<Case> {
        // all lock/port histories up to a length over 2-3 clones
        let maxlen = if tier == Tier::Quick { 6 } else { 8 };
        let mut out = Vec::new();
        for ports in [false, true] {
            let ops: Vec<String> = vec!["clone 0".into(), "wpush 0".into(), "wpush 1".into(), "read 0".into(), "read 1".into(), "wpush 2".into(), "read 2".into()];
            for len in 1..=maxlen {
                let total = ops.len().pow(len as u32);
                let stride = if total > 6000 { total / 6000 } else { 1 };
                let mut code = 0;
                while code < total {
                    let mut c = code;
                    let mut lines = vec![if ports { "case lock ports".to_string() } else { "case lock".to_string() }, "clone 0".into()];
                    let mut v = 1;
                    for _ in 0..len {
                        let o = &ops[c % ops.len()];
                        c /= ops.len();
                        if o.starts_with("wpush") {
                            lines.push(format!("{o} {v}"));
                            v += 1;
                        } else {
                            lines.push(o.clone());
                        }
                    }
                    lines.push("read 0".into());
                    lines.push("read 1".into());
                    out.push(Case { lines });
                    code += stride;
                }
            }
        }
        out
    }
    fn gen(&self, rng: &mut Rng, _idx: usize, tier: Tier, _focus: &str) -> Case {
        if rng.chance(1, if tier == Tier::Quick { 150 } else { 600 }) {
            return Case { lines: vec![format!("lockstress {} {} {}", rng.range(2, 4), rng.range(2, 4), if tier == Tier::Quick { 300 } else { 1500 })] };
        }
        if rng.chance(1, 6) {
            let ports = rng.chance(1, 2);
            let mut lines = vec![if ports { "case lock ports".to_string() } else { "case lock".to_string() }];
            let mut clones = 1;
            let mut v = 1;
            for _ in 0..rng.range(3, 30) {
                match rng.weighted(&[1, 3, 3]) {
                    0 => {
                        lines.push(format!("clone {}", rng.below(clones)));
                        clones += 1;
                    }
                    1 => {
                        lines.push(format!("wpush {} {v}", rng.below(clones)));
                        v += 1;
                    }
                    _ => lines.push(format!("read {}", rng.below(clones))),
                }
            }
            for c in 0..clones {
                lines.push(format!("read {c}"));
            }
            return Case { lines };
        }
        let mut lines = vec!["case bcast".to_string()];
        let n = rng.range(0, 7);
        for _ in 0..n {
            let fmod = *rng.pick(&[0u64, 0, 2, 3]);
            lines.push(format!("add {} {} {}", rng.below(3) * 1000, fmod, if fmod == 0 { 0 } else { rng.below(fmod) }));
        }
        let rounds = rng.range(1, 5);
        let mut vctr = 1u64;
        for _ in 0..rounds {
            let arg = rng.range(1, 13);
            let consume = if rng.chance(1, 3) { rng.below(4) } else { 9 };
            // replies that are available before the broadcast starts
            for c in 0..n {
                if rng.chance(1, 4) {
                    lines.push(format!("reply {c} {}", arg * 100 + c + 1 + 10000 * vctr));
                    vctr += 1;
                }
            }
            lines.push(format!("bc {arg} {consume}"));
            lines.push("poll".into());
            let steps = rng.range(0, 14);
            for _ in 0..steps {
                if n == 0 {
                    break;
                }
                let c = rng.below(n);
                match rng.weighted(&[5, 2, 2, 4, 1, 1]) {
                    0 => {
                        // complete: reply then wake
                        lines.push(format!("reply {c} {}", arg * 100 + c + 1 + 10000 * vctr));
                        vctr += 1;
                        lines.push(format!("wake {c}"));
                    }
                    1 => {
                        lines.push(format!("reply {c} {}", arg * 100 + c + 1 + 10000 * vctr));
                        vctr += 1;
                    }
                    2 => lines.push(format!("wake {c}")),
                    3 => lines.push("poll".into()),
                    4 => lines.push(format!("fail {c}")),
                    _ => {
                        if rng.chance(1, 3) {
                            lines.push("drop".into());
                        }
                    }
                }
            }
            // finish the round: complete everybody, poll, then drop whatever is left
            if rng.chance(4, 5) {
                for c in 0..n {
                    lines.push(format!("reply {c} {}", arg * 100 + c + 1 + 10000 * vctr));
                    vctr += 1;
                    lines.push(format!("wake {c}"));
                }
                lines.push("poll".into());
                lines.push("poll".into());
            }
            lines.push("drop".into());
            if rng.chance(1, 4) && n < 6 {
                lines.push(format!("add 0 0 0"));
            }
        }
        Case { lines }
    }
    fn run_impl(&self, lines: &[String]) -> Outcome {
        let mut out = Outcome::default();
        let mut b: Option<BState> = None;
        let mut l: Option<LState> = None;
        let mut pushed: Vec<usize> = vec![];
        let mut pending_seen = false;
        for line in lines {
            let w: Vec<&str> = line.split_whitespace().collect();
            let r: String = match w.as_slice() {
                ["case", "bcast"] => {
                    b = Some(BState::new());
                    l = None;
                    "ok".into()
                }
                ["lockstress", writers, n, rounds] => {
                    // several threads add values through their own clone of one cached lock, all at the same time; afterwards
                    // every clone (and a fresh one) must read all of them: a write is atomic and bumps the shared epoch
                    let (writers, n, rounds): (usize, usize, usize) = (writers.parse().unwrap(), n.parse().unwrap(), rounds.parse().unwrap());
                    let mut bad: Option<String> = None;
                    for round in 0..rounds {
                        let root = VCachedRwLock::new();
                        let barrier = std::sync::Arc::new(std::sync::Barrier::new(writers));
                        let hs: Vec<_> = (0..writers)
                            .map(|wi| {
                                let mut c = root.clone();
                                let barrier = barrier.clone();
                                std::thread::spawn(move || {
                                    barrier.wait();
                                    for k in 0..n {
                                        c.write_push(wi * 1000 + k);
                                        let _ = c.read();
                                    }
                                    c
                                })
                            })
                            .collect();
                        let mut clones: Vec<VCachedRwLock> = hs.into_iter().map(|h| h.join().unwrap()).collect();
                        clones.push(root.clone());
                        for (ci, c) in clones.iter_mut().enumerate() {
                            let mut got = c.read();
                            got.sort();
                            let mut want: Vec<usize> = (0..writers).flat_map(|wi| (0..n).map(move |k| wi * 1000 + k)).collect();
                            want.sort();
                            if got != want && bad.is_none() {
                                bad = Some(format!("round {round}: after {writers} threads each added {n} connections through their own clone, clone {ci} reads {} of {} ({:?} …)", got.len(), want.len(), &got[..got.len().min(8)]));
                            }
                        }
                        if bad.is_some() {
                            break;
                        }
                    }
                    if let Some(b) = &bad {
                        out.monitor.push(("C14".into(), format!("{b}: a connection added through one clone is not used by another clone's subsequent sends")));
                    }
                    out.nontrivial = true;
                    out.tags.push("lockstress".into());
                    if bad.is_some() { "lockstress lost".into() } else { "lockstress ok".into() }
                }
                ["case", "lock"] => {
                    l = Some(LState::Lock(vec![VCachedRwLock::new()]));
                    b = None;
                    pushed.clear();
                    "ok".into()
                }
                ["case", "lock", "ports"] => {
                    l = Some(LState::Ports(vec![Output::default()], vec![]));
                    b = None;
                    pushed.clear();
                    "ok".into()
                }
                ["clone", c] if l.is_some() => {
                    let c: usize = c.parse().unwrap();
                    match l.as_mut().unwrap() {
                        LState::Lock(v) => {
                            if c < v.len() {
                                let x = v[c].clone();
                                v.push(x);
                            }
                        }
                        LState::Ports(v, _) => {
                            if c < v.len() {
                                let x = v[c].clone();
                                v.push(x);
                            }
                        }
                    }
                    "ok".into()
                }
                ["wpush", c, v] if l.is_some() => {
                    let (c, v): (usize, usize) = (c.parse().unwrap(), v.parse().unwrap());
                    match l.as_mut().unwrap() {
                        LState::Lock(cl) => {
                            if c < cl.len() {
                                cl[c].write_push(v);
                                pushed.push(v);
                            }
                        }
                        LState::Ports(cl, sinks) => {
                            if c < cl.len() {
                                let sink = EventBuffer::with_capacity(64);
                                cl[c].connect_sink(&sink);
                                sinks.push(sink);
                                pushed.push(v);
                            }
                        }
                    }
                    "ok".into()
                }
                ["read", c] if l.is_some() => {
                    let c: usize = c.parse().unwrap();
                    let got: Option<Vec<usize>> = match l.as_mut().unwrap() {
                        LState::Lock(cl) => {
                            if c < cl.len() {
                                Some(cl[c].read())
                            } else {
                                None
                            }
                        }
                        LState::Ports(cl, sinks) => {
                            if c < cl.len() {
                                // a send through clone c: which sinks receive it?
                                let mut fut = Box::pin(cl[c].send(77));
                                let wk = noop_waker();
                                let mut cx = Context::from_waker(&wk);
                                let done = matches!(fut.as_mut().poll(&mut cx), Poll::Ready(()));
                                drop(fut);
                                let mut reached = vec![];
                                for (i, s) in sinks.iter_mut().enumerate() {
                                    let mut n = 0;
                                    while s.next().is_some() {
                                        n += 1;
                                    }
                                    if n > 1 || !done {
                                        out.monitor.push(("C14".into(), format!("a single send through a port clone delivered {n} events to one sink (completed: {done})")));
                                    }
                                    if n >= 1 {
                                        reached.push(pushed[i]);
                                    }
                                }
                                Some(reached)
                            } else {
                                None
                            }
                        }
                    };
                    match got {
                        Some(v) => {
                            if v != pushed {
                                let what = format!("`{line}`: a send through clone {c} used connections {v:?}, but connections {pushed:?} had been added (through any clone) before it");
                                out.monitor.push(("C14".into(), what.clone()));
                                // a connected recipient that a send does not reach (C03: delivery to every connected recipient)
                                out.monitor.push(("C03".into(), what));
                            }
                            if c != 0 && !pushed.is_empty() {
                                out.nontrivial = true;
                            }
                            format!("v {}", v.iter().map(|x| x.to_string()).collect::<Vec<_>>().join(","))
                        }
                        None => "bad-clone".into(),
                    }
                }
                ["add", a, fm, fr] if b.is_some() => {
                    let st = b.as_mut().unwrap();
                    if st.fut.is_some() {
                        "busy".into()
                    } else {
                        let p: (u64, u64, u64) = (a.parse().unwrap(), fm.parse().unwrap(), fr.parse().unwrap());
                        let slot = st.vb.add(p.0, p.1, p.2);
                        st.slots.push(slot);
                        st.params.push(p);
                        st.handed.push(None);
                        st.polled.push(false);
                        st.woken.push(false);
                        st.done.push(false);
                        st.obs()
                    }
                }
                ["bc", arg, consume] if b.is_some() => {
                    let st = b.as_mut().unwrap();
                    if st.fut.is_some() {
                        "busy".into()
                    } else {
                        st.arg = arg.parse().unwrap();
                        st.consume = consume.parse().unwrap();
                        // Safety: `fut` borrows `*vb` (boxed, never moved); `fut` is dropped before `vb` (field order) and
                        // `vb` is not touched while `fut` exists.
                        let vb: &'static mut VQueryBroadcaster = unsafe { &mut *(&mut *st.vb as *mut VQueryBroadcaster) };
                        st.fut = Some(vb.broadcast(st.arg, st.consume));
                        st.started = false;
                        st.armed = false;
                        for c in 0..st.polled.len() {
                            st.polled[c] = false;
                            st.woken[c] = false;
                            st.done[c] = false;
                        }
                        st.obs()
                    }
                }
                ["poll"] if b.is_some() => {
                    let st = b.as_mut().unwrap();
                    match st.fut.take() {
                        None => format!("no-future | {}", st.obs()),
                        Some(mut f) => {
                            let acc = st.accepted();
                            // liveness expectation (property predicate on the implementation's own trace)
                            let first = !st.started;
                            let must_ready = acc.iter().all(|&c| {
                                let s = st.slots[c].lock().unwrap();
                                st.done[c] || (s.reply.is_some() && (first || (st.polled[c] && st.woken[c])))
                            }) && !st.slots.iter().any(|s| s.lock().unwrap().fail);
                            let waker: Waker = st.count.clone().into();
                            let mut cx = Context::from_waker(&waker);
                            let before: Vec<Option<u64>> = st.slots.iter().map(|s| s.lock().unwrap().reply).collect();
                            let res = std::panic::catch_unwind(std::panic::AssertUnwindSafe(|| f.as_mut().poll(&mut cx)));
                            st.started = true;
                            let txt = match res {
                                Err(_) => {
                                    st.fut = None;
                                    out.monitor.push(("C14".into(), "the broadcast future panicked (a reply slot was empty when the replies were collected)".into()));
                                    "panic".to_string()
                                }
                                Ok(Poll::Pending) => {
                                    st.fut = Some(f);
                                    pending_seen = true;
                                    if must_ready {
                                        out.monitor.push(("C14".into(), format!("every accepting replier {acc:?} had replied and woken its sub-task, but the broadcast returned Pending")));
                                    }
                                    for &c in &acc {
                                        if st.done[c] {
                                            continue;
                                        }
                                        let s = st.slots[c].lock().unwrap();
                                        if s.reply.is_none() && before[c].is_none() {
                                            st.polled[c] = true;
                                            st.woken[c] = false;
                                        } else if s.reply.is_none() {
                                            // consumed
                                            st.handed[c] = before[c];
                                            st.done[c] = true;
                                        }
                                    }
                                    st.armed = acc.len() >= 2;
                                    "pending".into()
                                }
                                Ok(Poll::Ready(Err(()))) => {
                                    st.fut = None;
                                    "err".into()
                                }
                                Ok(Poll::Ready(Ok(vals))) => {
                                    st.fut = None;
                                    // expected: one reply per accepting replier, in connection order, each the value handed to
                                    // that replier; the caller looks at the first `consume` of them
                                    let mut expect = vec![];
                                    let mut missing = None;
                                    for &c in &acc {
                                        let s = st.slots[c].lock().unwrap();
                                        let v = if s.reply.is_none() && before[c].is_some() { before[c] } else { st.handed[c] };
                                        match v {
                                            Some(v) => expect.push(v),
                                            None => {
                                                missing = Some(c);
                                                break;
                                            }
                                        }
                                    }
                                    if let Some(c) = missing {
                                        out.monitor.push(("C14".into(), format!("the broadcast of {} completed although replier {c} (which accepted it) had not replied", st.arg)));
                                    } else {
                                        expect.truncate(st.consume);
                                        if vals != expect {
                                            out.monitor.push((
                                                "C14".into(),
                                                format!("broadcast of {} to accepting repliers {acc:?} (caller reads {} replies) yielded {vals:?}, expected {expect:?} (one reply per accepting replier, in connection order)", st.arg, st.consume),
                                            ));
                                        }
                                    }
                                    for &c in &acc {
                                        st.handed[c] = None;
                                    }
                                    if acc.len() >= 2 && pending_seen {
                                        out.nontrivial = true;
                                    }
                                    pending_seen = false;
                                    format!("ready {}", vals.iter().map(|x| x.to_string()).collect::<Vec<_>>().join(","))
                                }
                            };
                            format!("{txt} | {}", st.obs())
                        }
                    }
                }
                ["drop"] if b.is_some() => {
                    let st = b.as_mut().unwrap();
                    st.fut = None;
                    st.armed = false;
                    pending_seen = false;
                    st.obs()
                }
                ["reply", c, v] if b.is_some() => {
                    let st = b.as_mut().unwrap();
                    let (c, v): (usize, u64) = (c.parse().unwrap(), v.parse().unwrap());
                    if c < st.slots.len() {
                        st.slots[c].lock().unwrap().reply = Some(v);
                        st.woken[c] = false;
                    }
                    st.obs()
                }
                ["wake", c] if b.is_some() => {
                    let st = b.as_mut().unwrap();
                    let c: usize = c.parse().unwrap();
                    if c < st.slots.len() {
                        let wk = st.slots[c].lock().unwrap().waker.clone();
                        let before = st.count.0.load(Ordering::SeqCst);
                        if let Some(wk) = wk {
                            wk.wake_by_ref();
                        }
                        let after = st.count.0.load(Ordering::SeqCst);
                        let current = st.fut.is_some() && st.started && st.polled[c] && !st.done[c] && st.accepted().contains(&c);
                        if current {
                            if st.slots[c].lock().unwrap().reply.is_some() {
                                st.woken[c] = true;
                            }
                            if st.armed && after == before {
                                let what = format!("the broadcast had returned Pending and sub-task {c} was then woken (first wake-up since), but the caller's waker was not notified: the broadcast would never be polled again");
                                out.monitor.push(("C14".into(), what.clone()));
                                // the handler that awaits this broadcast is left half-way for good (C04)
                                out.monitor.push(("C04".into(), what));
                            }
                        }
                        if after != before || current {
                            // any delivered notification (also one caused by a stale waker of an earlier broadcast) disarms
                            st.armed = false;
                        }
                    }
                    st.obs()
                }
                ["fail", c] if b.is_some() => {
                    let st = b.as_mut().unwrap();
                    let c: usize = c.parse().unwrap();
                    if c < st.slots.len() {
                        st.slots[c].lock().unwrap().fail = true;
                    }
                    st.obs()
                }
                _ => "bad-op".into(),
            };
            out.resp.push(r);
        }
        if let Some(st) = &b {
            out.tags.push(format!("repliers.{}", st.params.len()));
        }
        if l.is_some() {
            out.tags.push("lock".into());
        }
        out
    }
    fn blame(&self, req: &str, impl_r: &str, model_r: &str) -> Vec<&'static str> {
        // the first word(s) of a poll / read response are fixed by the property
        let head = |s: &str| s.split('|').next().unwrap_or("").trim().to_string();
        if (req == "poll" || req.starts_with("read")) && head(impl_r) != head(model_r) {
            vec!["C14"]
        } else {
            vec![]
        }
    }
}
