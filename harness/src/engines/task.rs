//! Engine `task`: the real task handles (`spawn`/`spawn_and_forget`, `Runnable`, `Waker`, `CancelToken`,
//! `Promise`) driven sequentially through the verif hooks, against M-TASK.
//!   case task <spawn|forget>
//!   script <poll> <poll> ...     per poll: letters c (clone cx waker, keep it), w (wake cx waker by ref),
//!                                s (wake a kept waker by ref), v (wake a kept waker by value), d (drop a kept
//!                                waker), then p (Pending) or r (Ready); polls beyond the script: Pending
//!   run | dropr | wake | wakev | clone | dropw | cancel | dropt | ppoll | dropp
//! Response: q=<scheduled runnables> polls= fd=<future drops> od=<output releases> free=<deallocations>.

use std::future::Future;
use std::pin::Pin;
use std::sync::atomic::{AtomicUsize, Ordering};
use std::sync::{Arc, Mutex};
use std::task::{Context, Poll, Waker};

use nexosim::verif_hooks::{vtask_spawn, vtask_spawn_and_forget, VCancelToken, VPromise, VRunnable, VStage};

use crate::rng::Rng;
use crate::runner::{Case, Engine, Outcome, Tier};

pub struct TaskEngine;

/// Registry of the per-case shared state: the task's tag is an index into it (the task API requires a
/// scheduling function and a tag without drop glue).
static REGISTRY: Mutex<Vec<Option<Arc<Shared>>>> = Mutex::new(Vec::new());

fn schedule(r: VRunnable, tag: usize) {
    let sh = REGISTRY.lock().unwrap()[tag].clone();
    if let Some(sh) = sh {
        if sh.in_poll.load(Ordering::SeqCst) {
            sh.scheduled_during_poll.store(true, Ordering::SeqCst);
        }
        sh.queue.lock().unwrap().push(r);
    }
}

/// Allocations of the (padded) task are recognised by their size.
pub const TASK_PAD: usize = 6000;
pub static TASK_ALLOCS: AtomicUsize = AtomicUsize::new(0);
pub static TASK_FREES: AtomicUsize = AtomicUsize::new(0);
/// set by the engine around a spawn call: the allocator then remembers the task's address
pub static TRACK_SPAWN: std::sync::atomic::AtomicBool = std::sync::atomic::AtomicBool::new(false);
pub static TASK_PTR: AtomicUsize = AtomicUsize::new(0);

#[derive(Default)]
struct Shared {
    polls: AtomicUsize,
    fut_drops: AtomicUsize,
    out_drops: AtomicUsize,
    wakers: Mutex<Vec<Waker>>,
    queue: Mutex<Vec<VRunnable>>,
    script: Mutex<Vec<String>>,
    token: Mutex<Option<VCancelToken>>,
    fdrop: Mutex<String>,
    odrop: Mutex<String>,
    in_poll: std::sync::atomic::AtomicBool,
    scheduled_during_poll: std::sync::atomic::AtomicBool,
    /// the last poll woke its own task and returned Pending
    woke_pending: std::sync::atomic::AtomicBool,
    cancelled: std::sync::atomic::AtomicBool,
    /// the future's destructor started while a poll of it was in progress
    dropped_in_poll: std::sync::atomic::AtomicBool,
    /// the future returned Ready (an output exists)
    out_made: std::sync::atomic::AtomicUsize,
}

impl Shared {
    /// actions performed by the future (inside `poll` without the context waker) or by a destructor
    fn act(&self, c: char) {
        match c {
            's' => {
                let g = self.wakers.lock().unwrap();
                if let Some(w) = g.last() {
                    w.wake_by_ref();
                }
            }
            'v' => {
                let w = self.wakers.lock().unwrap().pop();
                if let Some(w) = w {
                    w.wake();
                }
            }
            'd' => {
                let w = self.wakers.lock().unwrap().pop();
                drop(w);
            }
            'x' => {
                let t = self.token.lock().unwrap().take();
                if let Some(t) = t {
                    self.cancelled.store(true, Ordering::SeqCst);
                    t.cancel();
                }
            }
            _ => {}
        }
    }
}

struct Out(Arc<Shared>);
impl Drop for Out {
    fn drop(&mut self) {
        self.0.out_drops.fetch_add(1, Ordering::SeqCst);
        let acts = self.0.odrop.lock().unwrap().clone();
        for c in acts.chars() {
            self.0.act(c);
        }
    }
}

struct ScriptFut {
    sh: Arc<Shared>,
    _pad: [u8; TASK_PAD],
}
impl Drop for ScriptFut {
    fn drop(&mut self) {
        if self.sh.in_poll.load(Ordering::SeqCst) {
            // (a future that cancels its own task from inside `poll` is not dropped before that poll returns)
            self.sh.dropped_in_poll.store(true, Ordering::SeqCst);
        }
        self.sh.fut_drops.fetch_add(1, Ordering::SeqCst);
        let acts = self.sh.fdrop.lock().unwrap().clone();
        for c in acts.chars() {
            self.sh.act(c);
        }
    }
}
impl Future for ScriptFut {
    type Output = Out;
    fn poll(self: Pin<&mut Self>, cx: &mut Context<'_>) -> Poll<Out> {
        let k = self.sh.polls.fetch_add(1, Ordering::SeqCst);
        if self.sh.in_poll.swap(true, Ordering::SeqCst) {
            self.sh.scheduled_during_poll.store(true, Ordering::SeqCst);
        }
        struct Guard<'a>(&'a std::sync::atomic::AtomicBool);
        impl Drop for Guard<'_> {
            fn drop(&mut self) {
                self.0.store(false, Ordering::SeqCst);
            }
        }
        let _g = Guard(&self.sh.in_poll);
        let item = self.sh.script.lock().unwrap().get(k).cloned().unwrap_or_else(|| "p".into());
        for c in item.chars() {
            match c {
                'c' => self.sh.wakers.lock().unwrap().push(cx.waker().clone()),
                'w' => cx.waker().wake_by_ref(),
                'z' => {
                    for _ in 0..2000 {
                        std::hint::spin_loop();
                    }
                }
                c => self.sh.act(c),
            }
        }
        self.sh.woke_pending.store(item.contains('w') && !item.contains('r'), Ordering::SeqCst);
        if item.contains('r') {
            self.sh.out_made.fetch_add(1, Ordering::SeqCst);
            Poll::Ready(Out(self.sh.clone()))
        } else {
            Poll::Pending
        }
    }
}

impl Engine for TaskEngine {
    fn name(&self) -> &'static str {
        "task"
    }
    fn serves(&self) -> &'static [&'static str] {
        &["C13", "C05", "C04"]
    }
    fn isolated(&self) -> bool {
        true
    }
    fn crash_blame(&self) -> Vec<&'static str> {
        vec!["C13", "C05"]
    }
    fn nontrivial_rule(&self) -> &'static str {
        "a case is one task (spawn or spawn_and_forget) with a scripted future and a sequence of handle operations \
         (run, drop runnable, wake by ref/value, clone/drop waker, cancel, drop token, promise poll/drop), all handles \
         released at the end; non-trivial = at least one poll and one wake/cancel; distinct by hash"
    }
    fn default_cases(&self, tier: Tier) -> usize {
        match tier {
            Tier::Quick => 3000,
            Tier::Thorough => 40000,
        }
    }

    fn enumerate(&self, tier: Tier, _focus: &str) -> Vec<Case> {
        // all operation sequences up to a bound over the op alphabet, for a few scripts
        let maxlen = if tier == Tier::Quick { 5 } else { 7 };
        let ops = ["run", "wake", "wakev", "clone", "dropw", "cancel", "ppoll", "dropr"];
        let scripts = ["cp cwp r", "cwp wp r", "ccp vp sdr", "cr", "cp p p", "cxp p", "ccxr"];
        let mut out = Vec::new();
        // real threads waking one idle task at the same moment
        for (k, n) in if tier == Tier::Quick { vec![(2, 1500), (3, 800)] } else { vec![(2, 20000), (3, 12000), (4, 8000), (2, 20000)] } {
            for kind in ["spawn", "forget"] {
                let mut lines = vec![format!("case task {kind}"), "script cp".to_string(), "run".to_string(), format!("racewake {k} {n}")];
                finish(&mut lines);
                out.push(Case { lines });
            }
        }
        // a task cancelled by one thread while another thread wakes and runs it
        out.push(Case { lines: vec!["case task forget".to_string(), "script p".to_string(), format!("racecancel {}", if tier == Tier::Quick { 2500 } else { 15000 }), "run".into(), "dropt".into(), "dropr".into()] });
        for kind in ["spawn", "forget"] {
            for sc in scripts {
                for len in 1..=maxlen {
                    let total = ops.len().pow(len as u32);
                    // sample the space when it is large (deterministic stride), enumerate fully when small
                    let stride = (total / 4000).max(1);
                    let mut code = 0;
                    while code < total {
                        let mut c = code;
                        let mut lines = vec![format!("case task {kind}"), format!("script {sc}")];
                        match (code / 3) % 4 {
                            1 => lines.push("fdrop s".into()),
                            2 => lines.push("odrop d".into()),
                            3 => {
                                lines.push("fdrop sd".into());
                                lines.push("odrop s".into());
                            }
                            _ => {}
                        }
                        for _ in 0..len {
                            lines.push(ops[c % ops.len()].to_string());
                            c /= ops.len();
                        }
                        finish(&mut lines);
                        out.push(Case { lines });
                        code += stride;
                    }
                }
            }
        }
        out
    }

    fn gen(&self, rng: &mut Rng, _idx: usize, tier: Tier, _focus: &str) -> Case {
        let kind = if rng.chance(1, 2) { "spawn" } else { "forget" };
        let mut lines = vec![format!("case task {kind}")];
        let npolls = rng.range(1, 6);
        let mut script = Vec::new();
        for i in 0..npolls {
            let mut s = String::new();
            for _ in 0..rng.below(4) {
                s.push(*rng.pick(&['c', 'c', 'c', 'w', 's', 'v', 'd', 'x']));
            }
            let ready = i == npolls - 1 && rng.chance(2, 3);
            s.push(if ready { 'r' } else { 'p' });
            script.push(s);
        }
        lines.push(format!("script {}", script.join(" ")));
        if rng.chance(1, 3) {
            lines.push(format!("fdrop {}", rng.pick(&["s", "v", "d", "sd", "x", "ss"])));
        }
        if rng.chance(1, 3) {
            lines.push(format!("odrop {}", rng.pick(&["s", "v", "d", "dd", "x"])));
        }
        let n = match tier {
            Tier::Quick => rng.range(1, 25),
            Tier::Thorough => rng.range(1, 200),
        };
        for _ in 0..n {
            let op = *rng.pick(&[
                "run", "run", "run", "wake", "wake", "wakev", "clone", "dropw", "cancel", "dropt", "ppoll", "ppoll", "dropp",
                "dropr",
            ]);
            lines.push(op.to_string());
        }
        finish(&mut lines);
        Case { lines }
    }

    fn run_impl(&self, lines: &[String]) -> Outcome {
        let mut out = Outcome::default();
        let sh = Arc::new(Shared::default());
        let tag = {
            let mut g = REGISTRY.lock().unwrap();
            g.push(Some(sh.clone()));
            g.len() - 1
        };
        let mut promise: Option<VPromise<Out>> = None;
        let mut started = false;
        let (a0, f0) = (TASK_ALLOCS.load(Ordering::SeqCst), TASK_FREES.load(Ordering::SeqCst));
        let mut wakes = 0;
        let two_runnables = std::sync::atomic::AtomicBool::new(false);
        for l in lines {
            let w: Vec<&str> = l.split_whitespace().collect();
            let obs = |extra: &str| {
                if sh.queue.lock().unwrap().len() > 1 {
                    two_runnables.store(true, Ordering::SeqCst);
                }
                format!(
                    "q={} polls={} fd={} od={} free={}{}",
                    sh.queue.lock().unwrap().len(),
                    sh.polls.load(Ordering::SeqCst),
                    sh.fut_drops.load(Ordering::SeqCst),
                    sh.out_drops.load(Ordering::SeqCst),
                    TASK_FREES.load(Ordering::SeqCst) - f0,
                    extra
                )
            };
            let r = std::panic::catch_unwind(std::panic::AssertUnwindSafe(|| match w.as_slice() {
                ["case", "task", kind] => {
                    started = true;
                    let fut = ScriptFut { sh: sh.clone(), _pad: [0; TASK_PAD] };
                    if *kind == "forget" {
                        TRACK_SPAWN.store(true, Ordering::SeqCst);
                        let (r, c) = vtask_spawn_and_forget(fut, schedule, tag);
                        TRACK_SPAWN.store(false, Ordering::SeqCst);
                        sh.queue.lock().unwrap().push(r);
                        *sh.token.lock().unwrap() = Some(c);
                    } else {
                        TRACK_SPAWN.store(true, Ordering::SeqCst);
                        let (p, r, c) = vtask_spawn(fut, schedule, tag);
                        TRACK_SPAWN.store(false, Ordering::SeqCst);
                        sh.queue.lock().unwrap().push(r);
                        promise = Some(p);
                        *sh.token.lock().unwrap() = Some(c);
                    }
                    "ok".to_string()
                }
                ["fdrop", acts] => {
                    *sh.fdrop.lock().unwrap() = acts.to_string();
                    "ok".into()
                }
                ["odrop", acts] => {
                    *sh.odrop.lock().unwrap() = acts.to_string();
                    "ok".into()
                }
                ["script", polls @ ..] => {
                    *sh.script.lock().unwrap() = polls.iter().map(|s| s.to_string()).collect();
                    "ok".into()
                }
                ["run"] => {
                    let r = sh.queue.lock().unwrap().pop();
                    match r {
                        Some(r) => {
                            sh.woke_pending.store(false, Ordering::SeqCst);
                            r.run();
                            if sh.woke_pending.load(Ordering::SeqCst) && !sh.cancelled.load(Ordering::SeqCst) && sh.queue.lock().unwrap().is_empty() {
                                let what = "the task was woken while it was being polled and returned Pending, but it was neither polled again nor rescheduled: the wake-up is lost and the computation is left half-way";
                                out.monitor.push(("C04".into(), what.into()));
                                out.monitor.push(("C13".into(), what.into()));
                            }
                            obs("")
                        }
                        None => "no-runnable".into(),
                    }
                }
                ["dropr"] => {
                    let r = sh.queue.lock().unwrap().pop();
                    match r {
                        Some(r) => {
                            drop(r);
                            obs("")
                        }
                        None => "no-runnable".into(),
                    }
                }
                ["wake"] => {
                    let w = sh.wakers.lock().unwrap().pop();
                    match w {
                        Some(w) => {
                            w.wake_by_ref();
                            sh.wakers.lock().unwrap().push(w);
                            wakes += 1;
                            obs("")
                        }
                        None => "no-waker".into(),
                    }
                }
                ["racecancel", n] => {
                    // `n` rounds, each on a fresh idle task: one thread cancels the task while another wakes it and runs the
                    // Runnable it gets; whatever the interleaving the future is dropped exactly once and never while (or
                    // after) it is polled by the other thread
                    let n: usize = n.parse().unwrap();
                    let mut bad: Option<String> = None;
                    for r in 0..n {
                        let rsh = Arc::new(Shared::default());
                        *rsh.script.lock().unwrap() = vec!["cp".to_string(), "zp".to_string(), "zp".to_string()];
                        let rtag = {
                            let mut g = REGISTRY.lock().unwrap();
                            g.push(Some(rsh.clone()));
                            g.len() - 1
                        };
                        let fut = ScriptFut { sh: rsh.clone(), _pad: [0; TASK_PAD] };
                        let (run0, tok) = vtask_spawn_and_forget(fut, schedule, rtag);
                        run0.run(); // first poll: stores a waker, Pending, the task is idle
                        let wk = rsh.wakers.lock().unwrap().pop();
                        let go = std::sync::atomic::AtomicUsize::new(0);
                        std::thread::scope(|sc| {
                            let (go1, go2) = (&go, &go);
                            let rsh2 = rsh.clone();
                            sc.spawn(move || {
                                while go1.load(Ordering::Acquire) == 0 {
                                    std::hint::spin_loop();
                                }
                                for _ in 0..(r % 24) {
                                    std::hint::spin_loop();
                                }
                                tok.cancel();
                            });
                            sc.spawn(move || {
                                while go2.load(Ordering::Acquire) == 0 {
                                    std::hint::spin_loop();
                                }
                                for _ in 0..((r / 24) % 24) {
                                    std::hint::spin_loop();
                                }
                                if let Some(w) = wk {
                                    w.wake_by_ref();
                                    loop {
                                        let rn = rsh2.queue.lock().unwrap().pop();
                                        match rn {
                                            Some(rn) => rn.run(),
                                            None => break,
                                        }
                                    }
                                    drop(w);
                                }
                            });
                            go.store(1, Ordering::Release);
                        });
                        // whatever is still queued is released
                        let rest: Vec<VRunnable> = rsh.queue.lock().unwrap().drain(..).collect();
                        drop(rest);
                        rsh.wakers.lock().unwrap().clear();
                        REGISTRY.lock().unwrap()[rtag] = None;
                        let fd = rsh.fut_drops.load(Ordering::SeqCst);
                        if rsh.dropped_in_poll.load(Ordering::SeqCst) {
                            bad = Some(format!("round {r}: the future was destroyed by the cancelling thread while the other thread was polling it"));
                        } else if rsh.scheduled_during_poll.load(Ordering::SeqCst) {
                            bad = Some(format!("round {r}: the future was polled by two threads at once"));
                        } else if fd != 1 {
                            bad = Some(format!("round {r}: every handle is gone and the future was dropped {fd} time(s)"));
                        }
                        if bad.is_some() {
                            break;
                        }
                    }
                    wakes += 1;
                    match bad {
                        Some(b) => {
                            out.monitor.push(("C05".into(), format!("a task cancelled by one thread while another wakes and runs it: {b}")));
                            out.monitor.push(("C13".into(), format!("a task cancelled by one thread while another wakes and runs it: {b}")));
                            format!("racecancel failed: {b}")
                        }
                        None => "racecancel ok".into(),
                    }
                }
                ["racewake", k, n] => {
                    // `k` threads wake the idle task through the same stored waker at (as nearly as possible) the same
                    // moment, `n` rounds with a swept skew; after each round exactly one Runnable must exist; it is
                    // run (the future returns Pending) and the task is idle again
                    let (k, n): (usize, usize) = (k.parse().unwrap(), n.parse().unwrap());
                    let guard = sh.wakers.lock().unwrap();
                    match guard.last() {
                        None => "no-waker".into(),
                        Some(w) => {
                            use std::sync::atomic::AtomicUsize;
                            let go = AtomicUsize::new(0);
                            let done = AtomicUsize::new(0);
                            let mut worst = 1usize;
                            std::thread::scope(|sc| {
                                for t in 0..k {
                                    let (go, done) = (&go, &done);
                                    sc.spawn(move || {
                                        for r in 1..=n {
                                            let mut spins = 0u32;
                                            while go.load(Ordering::Acquire) < r {
                                                spins += 1;
                                                if spins % 200 == 0 {
                                                    std::thread::yield_now();
                                                } else {
                                                    std::hint::spin_loop();
                                                }
                                            }
                                            for _ in 0..((r * (t + 1)) % 48) {
                                                std::hint::spin_loop();
                                            }
                                            w.wake_by_ref();
                                            done.fetch_add(1, Ordering::Release);
                                        }
                                    });
                                }
                                for r in 1..=n {
                                    go.store(r, Ordering::Release);
                                    let mut spins = 0u32;
                                    while done.load(Ordering::Acquire) < r * k {
                                        spins += 1;
                                        if spins % 200 == 0 {
                                            std::thread::yield_now();
                                        } else {
                                            std::hint::spin_loop();
                                        }
                                    }
                                    let rs: Vec<VRunnable> = sh.queue.lock().unwrap().drain(..).collect();
                                    if rs.len() != 1 {
                                        worst = worst.max(rs.len());
                                        if rs.len() > 1 {
                                            two_runnables.store(true, Ordering::SeqCst);
                                        }
                                    }
                                    for r in rs {
                                        r.run();
                                    }
                                }
                            });
                            wakes += 1;
                            if worst > 1 {
                                format!("racewake {worst} Runnables at once")
                            } else {
                                obs("")
                            }
                        }
                    }
                }
                ["wakev"] => {
                    let w = sh.wakers.lock().unwrap().pop();
                    match w {
                        Some(w) => {
                            w.wake();
                            wakes += 1;
                            obs("")
                        }
                        None => "no-waker".into(),
                    }
                }
                ["clone"] => {
                    let w = sh.wakers.lock().unwrap().last().cloned();
                    match w {
                        Some(w) => {
                            sh.wakers.lock().unwrap().push(w);
                            obs("")
                        }
                        None => "no-waker".into(),
                    }
                }
                ["dropw"] => {
                    let w = sh.wakers.lock().unwrap().pop();
                    match w {
                        Some(w) => {
                            drop(w);
                            obs("")
                        }
                        None => "no-waker".into(),
                    }
                }
                ["cancel"] => match { let t = sh.token.lock().unwrap().take(); t } {
                    Some(t) => {
                        sh.cancelled.store(true, Ordering::SeqCst);
                        t.cancel();
                        wakes += 1;
                        obs("")
                    }
                    None => "no-token".into(),
                },
                ["dropt"] => match { let t = sh.token.lock().unwrap().take(); t } {
                    Some(t) => {
                        drop(t);
                        obs("")
                    }
                    None => "no-token".into(),
                },
                ["ppoll"] => match &promise {
                    Some(p) => {
                        let st = match p.poll() {
                            VStage::Ready(o) => {
                                drop(o);
                                "ready"
                            }
                            VStage::Pending => "pending",
                            VStage::Cancelled => "cancelled",
                        };
                        obs(&format!(" st={st}"))
                    }
                    None => "no-promise".into(),
                },
                ["dropp"] => match promise.take() {
                    Some(p) => {
                        drop(p);
                        obs("")
                    }
                    None => "no-promise".into(),
                },
                _ => "bad-op".into(),
            }));
            out.resp.push(r.unwrap_or_else(|_| "panic".into()));
        }
        // ---- monitor (C13): after every handle is gone, everything was released exactly once
        let all_gone = promise.is_none() && sh.token.lock().unwrap().is_none() && sh.wakers.lock().unwrap().is_empty() && sh.queue.lock().unwrap().is_empty();
        if started && all_gone {
            let (fd, od) = (sh.fut_drops.load(Ordering::SeqCst), sh.out_drops.load(Ordering::SeqCst));
            let (al, fr) = (TASK_ALLOCS.load(Ordering::SeqCst) - a0, TASK_FREES.load(Ordering::SeqCst) - f0);
            if fd != 1 {
                out.monitor.push(("C13".into(), format!("all handles released but the future was dropped {fd} times")));
            }
            if od > 1 {
                out.monitor.push(("C13".into(), format!("the output was released {od} times")));
            }
            let made = sh.out_made.load(Ordering::SeqCst);
            if made == 1 && od == 0 {
                out.monitor.push(("C13".into(), "the task completed and all its handles are gone, but its output was never released (leaked)".into()));
            }
            if al != 1 || fr != 1 {
                out.monitor.push(("C13".into(), format!("all handles released: {al} task allocation(s), {fr} deallocation(s)")));
            }
        }
        if sh.scheduled_during_poll.load(Ordering::SeqCst) {
            out.monitor.push(("C05".into(), "a second Runnable was created (or the future re-entered) while the task was being polled: two computations of one task at the same time".into()));
            out.monitor.push(("C13".into(), "a Runnable was scheduled while the task's own Runnable was polling it (two Runnables at once)".into()));
        }
        if sh.queue.lock().unwrap().len() > 1 || two_runnables.load(Ordering::SeqCst) {
            out.monitor.push(("C13".into(), "two Runnables of one task exist at the same time".into()));
            out.monitor.push(("C05".into(), "two Runnables of one task exist at the same time: the task can be polled by two threads at once".into()));
        }
        // release whatever the case left (keeps the process clean); not part of the compared responses
        drop(promise.take());
        { let t = sh.token.lock().unwrap().take(); drop(t); }
        sh.wakers.lock().unwrap().clear();
        let q: Vec<VRunnable> = std::mem::take(&mut *sh.queue.lock().unwrap());
        drop(q);
        REGISTRY.lock().unwrap()[tag] = None;
        let polls = sh.polls.load(Ordering::SeqCst);
        out.nontrivial = polls >= 1 && wakes >= 1;
        out.tags.push(format!("polls.{}", polls.min(5)));
        out
    }

    fn blame(&self, _req: &str, impl_r: &str, _m: &str) -> Vec<&'static str> {
        if impl_r == "panic" {
            vec!["C13"]
        } else {
            vec![]
        }
    }
}

/// Release every handle at the end of a case (each op is a no-op answer when the handle is gone).
fn finish(lines: &mut Vec<String>) {
    for _ in 0..3 {
        lines.push("run".into());
    }
    lines.push("ppoll".into());
    lines.push("dropp".into());
    lines.push("dropt".into());
    for _ in 0..8 {
        lines.push("dropw".into());
    }
    for _ in 0..2 {
        lines.push("dropr".into());
    }
    // wakers kept by the script may still exist if more than 8 were cloned
    for _ in 0..24 {
        lines.push("dropw".into());
    }
    lines.push("dropr".into());
}
