//! Generic differential runner: generate cases, run the real code in-process, pipe the same request
//! lines to the Lean driver, diff the two response streams, minimise disagreements, write a report.

use std::collections::hash_map::DefaultHasher;
use std::collections::{BTreeMap, HashSet};
use std::hash::{Hash, Hasher};
use std::io::Write;
use std::process::{Command, Stdio};
use std::time::Instant;

use crate::json::J;
use crate::rng::Rng;

#[derive(Clone, Copy, PartialEq, Eq, Debug)]
pub enum Tier {
    Quick,
    Thorough,
}

#[derive(Clone, Debug)]
pub struct Case {
    pub lines: Vec<String>,
}

#[derive(Clone, Debug, Default)]
pub struct Outcome {
    pub resp: Vec<String>,
    /// Features exercised by this case (for the input-distribution histogram).
    pub tags: Vec<String>,
    pub nontrivial: bool,
    /// Violations of a property predicate observed directly on the implementation (not via the model):
    /// (property id, description).
    pub monitor: Vec<(String, String)>,
    /// The implementation did not return (watchdog fired): the case is reported as is, not minimised.
    pub hung: bool,
    /// Per request line: schedule information observed on the implementation, appended (after " ; ") to the
    /// line sent to the model, which uses it as its oracle (trace validation of nondeterministic steps).
    pub hints: Vec<String>,
}

pub fn model_lines(lines: &[String], out: &Outcome) -> Vec<String> {
    lines
        .iter()
        .enumerate()
        .map(|(i, l)| match out.hints.get(i) {
            Some(h) if !h.is_empty() => format!("{l} ; {h}"),
            _ => l.clone(),
        })
        .collect()
}

pub trait Engine: Sync {
    fn name(&self) -> &'static str;
    /// Properties whose proofs rest on the model this engine ties to the code.
    fn serves(&self) -> &'static [&'static str];
    fn gen(&self, rng: &mut Rng, idx: usize, tier: Tier, focus: &str) -> Case;
    /// Exhaustively enumerated cases run before the random ones (None: no enumeration).
    fn enumerate(&self, _tier: Tier, _focus: &str) -> Vec<Case> {
        Vec::new()
    }
    fn run_impl(&self, lines: &[String]) -> Outcome;
    /// Does the implementation's response agree with the model's?
    fn agree(&self, _req: &str, impl_r: &str, model_r: &str) -> bool {
        impl_r == model_r
    }
    /// For a disagreement on `req`: which properties does the *implementation's* response violate by
    /// itself (the property statement decides the expected response)?  Others get `no-failing-input-found`.
    fn blame(&self, _req: &str, _impl_r: &str, _model_r: &str) -> Vec<&'static str> {
        Vec::new()
    }
    /// Run the implementation in child processes (a memory error aborts the process, a lost wake-up hangs it).
    fn isolated(&self) -> bool {
        false
    }
    /// Properties concretely violated when the implementation crashes (abort/segfault) or hangs on a case.
    fn crash_blame(&self) -> Vec<&'static str> {
        Vec::new()
    }
    fn nontrivial_rule(&self) -> &'static str;
    fn default_cases(&self, tier: Tier) -> usize;
    /// Lines that must be kept by the minimiser (e.g. the `case` header).
    fn pinned(&self, line: &str) -> bool {
        line.starts_with("case") || line == "init" || line.starts_with("clock") || line.starts_with("src")
    }
}

pub struct Disagreement {
    pub origin: String,
    pub lines: Vec<String>,
    pub impl_resp: Vec<String>,
    pub model_resp: Vec<String>,
    pub first_diff: usize,
    pub blamed: Vec<String>,
}

pub struct MonitorHit {
    pub origin: String,
    pub lines: Vec<String>,
    pub impl_resp: Vec<String>,
    pub property: String,
    pub what: String,
}

pub struct Report {
    pub engine: String,
    pub seed: u64,
    pub evaluations: usize,
    pub distinct_nontrivial: usize,
    pub request_lines: usize,
    pub corpus_cases: usize,
    pub enumerated_cases: usize,
    pub exhaustive: bool,
    pub histogram: BTreeMap<String, usize>,
    pub samples: Vec<(Vec<String>, Vec<String>)>,
    pub disagreements: Vec<Disagreement>,
    pub monitor_hits: Vec<MonitorHit>,
    pub driver_error: Option<String>,
    pub wall_s: f64,
}

pub fn run_driver(driver: &str, mode: &str, lines: &[String]) -> Result<Vec<String>, String> {
    let mut child = Command::new(driver)
        .arg(mode)
        .stdin(Stdio::piped())
        .stdout(Stdio::piped())
        .stderr(Stdio::piped())
        .spawn()
        .map_err(|e| format!("cannot start driver {driver}: {e}"))?;
    let mut stdin = child.stdin.take().unwrap();
    let input = {
        let mut s = String::with_capacity(lines.len() * 16);
        for l in lines {
            s.push_str(l);
            s.push('\n');
        }
        s
    };
    let writer = std::thread::spawn(move || {
        let _ = stdin.write_all(input.as_bytes());
    });
    let out = child
        .wait_with_output()
        .map_err(|e| format!("driver wait failed: {e}"))?;
    let _ = writer.join();
    if !out.status.success() {
        return Err(format!(
            "driver exited with {:?}: {}",
            out.status.code(),
            String::from_utf8_lossy(&out.stderr)
        ));
    }
    let text = String::from_utf8_lossy(&out.stdout);
    let resp: Vec<String> = text.lines().map(|s| s.to_string()).collect();
    if resp.len() != lines.len() {
        return Err(format!(
            "driver returned {} lines for {} requests",
            resp.len(),
            lines.len()
        ));
    }
    Ok(resp)
}

fn first_diff(e: &dyn Engine, lines: &[String], a: &[String], b: &[String]) -> Option<usize> {
    for i in 0..lines.len() {
        let (x, y) = (a.get(i), b.get(i));
        match (x, y) {
            (Some(x), Some(y)) if e.agree(&lines[i], x, y) => {}
            _ => return Some(i),
        }
    }
    None
}

/// Delta-debugging on the request list: drop chunks of lines while the two sides still disagree.
fn minimise(e: &dyn Engine, driver: &str, lines: &[String], budget: usize) -> Vec<String> {
    let mut cur: Vec<String> = lines.to_vec();
    let mut tries = 0usize;
    let mut chunk = (cur.len() / 2).max(1);
    let disagrees = |ls: &[String]| -> bool {
        let imp = exec_impl(e, ls);
        if imp.hung {
            return false;
        }
        match run_driver(driver, e.name(), &model_lines(ls, &imp)) {
            Ok(m) => first_diff(e, ls, &imp.resp, &m).is_some(),
            Err(_) => false,
        }
    };
    while chunk >= 1 && tries < budget {
        let mut i = 0;
        let mut progressed = false;
        while i < cur.len() && tries < budget {
            let end = (i + chunk).min(cur.len());
            if cur[i..end].iter().any(|l| e.pinned(l)) {
                i = end;
                continue;
            }
            let mut cand = cur.clone();
            cand.drain(i..end);
            tries += 1;
            if disagrees(&cand) {
                cur = cand;
                progressed = true;
            } else {
                i = end;
            }
        }
        if !progressed {
            if chunk == 1 {
                break;
            }
            chunk /= 2;
        }
    }
    cur
}

fn hash_case(lines: &[String], resp: &[String]) -> u64 {
    let mut h = DefaultHasher::new();
    lines.hash(&mut h);
    resp.hash(&mut h);
    h.finish()
}

/// ---- child-process isolation -------------------------------------------------------------------

fn esc(s: &str) -> String {
    s.replace('\\', "\\\\").replace('\n', "\\n")
}
fn unesc(s: &str) -> String {
    let mut out = String::new();
    let mut it = s.chars();
    while let Some(c) = it.next() {
        if c == '\\' {
            match it.next() {
                Some('n') => out.push('\n'),
                Some(c2) => out.push(c2),
                None => {}
            }
        } else {
            out.push(c);
        }
    }
    out
}

/// Child side: run the cases of `cases_file` from index `from`, appending framed outcomes to `out_file`.
pub fn child_main(e: &dyn Engine, cases_file: &str, from: usize, out_file: &str) {
    let text = std::fs::read_to_string(cases_file).unwrap_or_default();
    let cases: Vec<Vec<String>> = text
        .split("\n%%\n")
        .map(|b| b.lines().filter(|l| !l.is_empty()).map(|l| l.to_string()).collect())
        .collect();
    let mut f = std::fs::OpenOptions::new().create(true).append(true).open(out_file).expect("child out");
    for (i, lines) in cases.iter().enumerate().skip(from) {
        let _ = writeln!(f, "C {i}");
        let _ = f.flush();
        let out = e.run_impl(lines);
        let mut buf = String::new();
        for r in &out.resp {
            buf.push_str(&format!("R {}\n", esc(r)));
        }
        for h in &out.hints {
            buf.push_str(&format!("H {}\n", esc(h)));
        }
        for t in &out.tags {
            buf.push_str(&format!("T {}\n", esc(t)));
        }
        for (p, w) in &out.monitor {
            buf.push_str(&format!("M {}\t{}\n", p, esc(w)));
        }
        buf.push_str(&format!("N {}\nU {}\nE {i}\n", out.nontrivial as u8, out.hung as u8));
        let _ = f.write_all(buf.as_bytes());
        let _ = f.flush();
    }
}

fn parse_child_out(text: &str, outcomes: &mut [Option<Outcome>]) -> Option<usize> {
    // returns the index of a case that was started but not finished, if any
    let mut cur: Option<(usize, Outcome)> = None;
    for l in text.lines() {
        let (k, v) = l.split_at(1.min(l.len()));
        let v = v.strip_prefix(' ').unwrap_or(v);
        match k {
            "C" => cur = Some((v.parse().unwrap_or(0), Outcome::default())),
            "R" => {
                if let Some((_, o)) = &mut cur {
                    o.resp.push(unesc(v));
                }
            }
            "H" => {
                if let Some((_, o)) = &mut cur {
                    o.hints.push(unesc(v));
                }
            }
            "T" => {
                if let Some((_, o)) = &mut cur {
                    o.tags.push(unesc(v));
                }
            }
            "M" => {
                if let Some((_, o)) = &mut cur {
                    if let Some((p, w)) = v.split_once('\t') {
                        o.monitor.push((p.to_string(), unesc(w)));
                    }
                }
            }
            "N" => {
                if let Some((_, o)) = &mut cur {
                    o.nontrivial = v == "1";
                }
            }
            "U" => {
                if let Some((_, o)) = &mut cur {
                    o.hung = v == "1";
                }
            }
            "E" => {
                if let Some((i, o)) = cur.take() {
                    if i < outcomes.len() {
                        outcomes[i] = Some(o);
                    }
                }
            }
            _ => {}
        }
    }
    cur.map(|(i, _)| i)
}

static CHILD_SEQ: std::sync::atomic::AtomicUsize = std::sync::atomic::AtomicUsize::new(0);

/// Parent side: run all cases in child processes; a crash or hang ends one child, is recorded on the case that was
/// running, and a fresh child continues with the next case.
pub fn run_isolated(e: &dyn Engine, cases: &[Vec<String>], per_case_timeout_s: u64) -> Vec<Outcome> {
    let n = cases.len();
    let mut outcomes: Vec<Option<Outcome>> = vec![None; n];
    let dir = std::env::temp_dir().join(format!("nexo_harness_{}", std::process::id()));
    let _ = std::fs::create_dir_all(&dir);
    let seq = CHILD_SEQ.fetch_add(1, std::sync::atomic::Ordering::SeqCst);
    let cases_file = dir.join(format!("cases_{seq}.txt"));
    let text: Vec<String> = cases.iter().map(|c| c.join("\n")).collect();
    std::fs::write(&cases_file, text.join("\n%%\n")).expect("write cases");
    let exe = std::env::current_exe().expect("current exe");
    let mut next = 0usize;
    let mut crashes = 0usize;
    let mut restarts = 0usize;
    while next < n {
        let out_file = dir.join(format!("out_{seq}_{next}.txt"));
        let _ = std::fs::remove_file(&out_file);
        let mut child = match Command::new(&exe)
            .arg(e.name())
            .arg("--child")
            .arg(&cases_file)
            .arg(next.to_string())
            .arg(&out_file)
            .stdin(Stdio::null())
            .stdout(Stdio::null())
            .stderr(Stdio::null())
            .spawn()
        {
            Ok(c) => c,
            Err(_) => {
                // could not start a child (loaded machine): wait and try again a few times
                restarts += 1;
                if restarts > 8 {
                    break;
                }
                std::thread::sleep(std::time::Duration::from_millis(500));
                continue;
            }
        };
        let mut last_len = 0u64;
        let mut last_progress = Instant::now();
        let status = loop {
            match child.try_wait() {
                Ok(Some(st)) => break Some(st),
                Ok(None) => {}
                Err(_) => break None,
            }
            let len = std::fs::metadata(&out_file).map(|m| m.len()).unwrap_or(0);
            if len != last_len {
                last_len = len;
                last_progress = Instant::now();
            } else if last_progress.elapsed().as_secs() >= (if last_len == 0 { per_case_timeout_s.max(90) } else { per_case_timeout_s }) {
                // (before its first output the child is still loading the case file: be patient on a loaded machine)
                let _ = child.kill();
                let _ = child.wait();
                break None;
            }
            std::thread::sleep(std::time::Duration::from_millis(5));
        };
        let text = std::fs::read_to_string(&out_file).unwrap_or_default();
        let unfinished = parse_child_out(&text, &mut outcomes);
        let _ = std::fs::remove_file(&out_file);
        let ok = status.map(|s| s.success()).unwrap_or(false);
        match unfinished {
            Some(i) if !ok => {
                crashes += 1;
                let what = match status {
                    None => format!("the implementation did not return within {per_case_timeout_s} s (hang)"),
                    Some(st) => {
                        #[cfg(unix)]
                        {
                            use std::os::unix::process::ExitStatusExt;
                            format!("the process died (signal {:?}, code {:?}): memory error or abort", st.signal(), st.code())
                        }
                        #[cfg(not(unix))]
                        {
                            format!("the process died ({st:?})")
                        }
                    }
                };
                let mut o = Outcome::default();
                o.resp = cases[i].iter().map(|_| "CRASH".to_string()).collect();
                o.hung = true;
                for p in e.crash_blame() {
                    o.monitor.push((p.to_string(), what.clone()));
                }
                if i < n {
                    outcomes[i] = Some(o);
                }
                next = i + 1;
                if crashes >= 6 {
                    break;
                }
            }
            _ => {
                if ok {
                    next = n;
                } else {
                    // the child ended between two cases (killed by the inactivity watchdog while starting up on a loaded
                    // machine, or by the system): continue with a fresh child from the first case without an outcome
                    restarts += 1;
                    match outcomes.iter().position(|o| o.is_none()) {
                        Some(i) if restarts <= 8 && i >= next => next = i,
                        Some(i) if restarts <= 8 => next = i,
                        _ => break,
                    }
                    std::thread::sleep(std::time::Duration::from_millis(300));
                }
            }
        }
    }
    let _ = std::fs::remove_file(&cases_file);
    let _ = std::fs::remove_dir(&dir);
    outcomes
        .into_iter()
        .enumerate()
        .map(|(i, o)| {
            o.unwrap_or_else(|| {
                let mut x = Outcome::default();
                x.resp = cases[i].iter().map(|_| "not-run".to_string()).collect();
                x.hung = true;
                x.tags.push("infra.not-run".into());
                x
            })
        })
        .collect()
}

/// Run one case, in a child process when the engine asks for isolation.
pub fn exec_impl(e: &dyn Engine, lines: &[String]) -> Outcome {
    if e.isolated() {
        run_isolated(e, &[lines.to_vec()], 10).pop().unwrap()
    } else {
        e.run_impl(lines)
    }
}

/// For a case on which the implementation crashed/hung: the shortest prefix that still does (binary search).
pub fn shrink_crash(e: &dyn Engine, lines: &[String]) -> Vec<String> {
    let crashes = |k: usize| -> bool { exec_impl(e, &lines[..k]).hung };
    let (mut lo, mut hi) = (1usize, lines.len());
    if !crashes(hi) {
        return lines.to_vec();
    }
    while lo < hi {
        let mid = (lo + hi) / 2;
        if crashes(mid) {
            hi = mid;
        } else {
            lo = mid + 1;
        }
    }
    lines[..hi].to_vec()
}

pub struct Opts {
    pub seed: u64,
    pub tier: Tier,
    pub cases: Option<usize>,
    pub driver: String,
    pub focus: String,
    pub corpus_dir: Option<String>,
    pub replay: Option<String>,
}

pub fn load_case_file(path: &str) -> Vec<String> {
    std::fs::read_to_string(path)
        .unwrap_or_default()
        .lines()
        .filter(|l| !l.trim().is_empty() && !l.starts_with('#'))
        .map(|l| l.split(" => ").next().unwrap().to_string())
        .collect()
}

pub fn run(e: &dyn Engine, o: &Opts) -> Report {
    let t0 = Instant::now();
    let mut rng = Rng::new(o.seed);
    let mut all: Vec<(String, Case)> = Vec::new();
    let mut corpus_cases = 0;
    let mut enumerated_cases = 0;
    if let Some(r) = &o.replay {
        all.push((format!("replay:{r}"), Case { lines: load_case_file(r) }));
    } else {
        if let Some(dir) = &o.corpus_dir {
            let mut files: Vec<_> = std::fs::read_dir(dir)
                .map(|rd| rd.filter_map(|x| x.ok()).map(|x| x.path()).collect())
                .unwrap_or_default();
            files.sort();
            for f in files {
                if f.extension().map(|x| x == "case").unwrap_or(false) {
                    let p = f.to_string_lossy().to_string();
                    all.push((format!("corpus:{p}"), Case { lines: load_case_file(&p) }));
                    corpus_cases += 1;
                }
            }
        }
        for (i, c) in e.enumerate(o.tier, &o.focus).into_iter().enumerate() {
            all.push((format!("enum:{i}"), c));
            enumerated_cases += 1;
        }
        let n = o.cases.unwrap_or_else(|| e.default_cases(o.tier));
        for i in 0..n {
            let mut r = rng.fork();
            all.push((format!("gen:{}:{}", o.seed, i), e.gen(&mut r, i, o.tier, &o.focus)));
        }
    }

    if let Ok(path) = std::env::var("VERIF_DUMP_CASES") {
        let text: Vec<String> = all.iter().map(|(o, c)| format!("# {o}\n{}", c.lines.join("\n"))).collect();
        let _ = std::fs::write(path, text.join("\n%%\n"));
    }
    let mut report = Report {
        engine: e.name().to_string(),
        seed: o.seed,
        evaluations: all.len(),
        distinct_nontrivial: 0,
        request_lines: 0,
        corpus_cases,
        enumerated_cases,
        exhaustive: false,
        histogram: BTreeMap::new(),
        samples: Vec::new(),
        disagreements: Vec::new(),
        monitor_hits: Vec::new(),
        driver_error: None,
        wall_s: 0.0,
    };

    // Run the implementation on every case.
    let mut outcomes: Vec<Outcome> = Vec::with_capacity(all.len());
    let mut seen: HashSet<u64> = HashSet::new();
    let mut batch: Vec<String> = Vec::new();
    let pre: Option<Vec<Outcome>> = if e.isolated() {
        let cs: Vec<Vec<String>> = all.iter().map(|(_, c)| c.lines.clone()).collect();
        let mut outs = run_isolated(e, &cs, 30);
        // A crash or hang decides a property, so it has to be a fact about the code and not about the machine: every case
        // on which the child process died or stopped responding is run again on its own, up to twice.  If it then completes,
        // the first observation is attributed to the load of the machine (recorded as `infra.crash-not-reproduced`) and the
        // completed run is what gets compared.
        let crashed: Vec<usize> = outs.iter().enumerate().filter(|(_, o)| o.hung && o.resp.first().map(|r| r == "CRASH").unwrap_or(false)).map(|(i, _)| i).collect();
        for i in crashed.into_iter().take(12) {
            let mut again = None;
            for _ in 0..2 {
                let o = run_isolated(e, &[cs[i].clone()], 60).pop().unwrap();
                if !(o.hung && o.resp.first().map(|r| r == "CRASH" || r == "not-run").unwrap_or(false)) {
                    again = Some(o);
                } else {
                    again = None;
                    break;
                }
            }
            if let Some(mut o) = again {
                o.tags.push("infra.crash-not-reproduced".into());
                outs[i] = o;
            }
        }
        Some(outs)
    } else {
        None
    };
    let mut pre_it = pre.map(|v| v.into_iter());
    for (origin, c) in &all {
        let mut out = match &mut pre_it {
            Some(it) => it.next().unwrap_or_default(),
            None => e.run_impl(&c.lines),
        };
        let mut shown_lines = c.lines.clone();
        if out.hung && e.isolated() && !out.monitor.is_empty() && report.monitor_hits.len() < 3 {
            // shortest crashing prefix as the replay
            shown_lines = shrink_crash(e, &c.lines);
            out.resp.truncate(shown_lines.len());
        }
        for t in &out.tags {
            *report.histogram.entry(t.clone()).or_insert(0) += 1;
        }
        if out.nontrivial && seen.insert(hash_case(&c.lines, &out.resp)) {
            report.distinct_nontrivial += 1;
        }
        for (p, w) in &out.monitor {
            if report.monitor_hits.iter().filter(|h| &h.property == p).count() < 8 {
                report.monitor_hits.push(MonitorHit {
                    origin: origin.clone(),
                    lines: shown_lines.clone(),
                    impl_resp: out.resp.clone(),
                    property: p.clone(),
                    what: w.clone(),
                });
            }
        }
        report.request_lines += c.lines.len();
        batch.extend(model_lines(&c.lines, &out));
        outcomes.push(out);
    }
    // Samples: first, middle, last generated case.
    if !all.is_empty() {
        let idxs = [0, all.len() / 2, all.len() - 1];
        let mut done = HashSet::new();
        for i in idxs {
            if done.insert(i) {
                let (l, r) = (&all[i].1.lines, &outcomes[i].resp);
                let cut = l.len().min(40);
                report.samples.push((l[..cut].to_vec(), r[..cut.min(r.len())].to_vec()));
            }
        }
    }

    // Run the model on the whole batch, then compare case by case.
    match run_driver(&o.driver, e.name(), &batch) {
        Err(err) => report.driver_error = Some(err),
        Ok(model) => {
            let mut off = 0;
            for (k, (origin, c)) in all.iter().enumerate() {
                let n = c.lines.len();
                let m = &model[off..off + n];
                off += n;
                if outcomes[k].resp.first().map(|r| r == "not-run").unwrap_or(false) {
                    // the harness could not run this case (see `infra.not-run` in the histogram): nothing to compare
                    continue;
                }
                if let Some(d) = first_diff(e, &c.lines, &outcomes[k].resp, m) {
                    if report.disagreements.len() >= 5 || outcomes[k].hung || (e.isolated() && !report.disagreements.is_empty()) {
                        // Count but do not minimise more than five.
                        report.disagreements.push(Disagreement {
                            origin: origin.clone(),
                            lines: c.lines.clone(),
                            impl_resp: outcomes[k].resp.clone(),
                            model_resp: m.to_vec(),
                            first_diff: d,
                            blamed: e
                                .blame(
                                    &c.lines[d],
                                    outcomes[k].resp.get(d).map(|s| s.as_str()).unwrap_or(""),
                                    &m[d],
                                )
                                .iter()
                                .map(|s| s.to_string())
                                .collect(),
                        });
                        if report.disagreements.len() >= 25 {
                            break;
                        }
                        continue;
                    }
                    let min = minimise(e, &o.driver, &c.lines, if e.isolated() { 80 } else { 400 });
                    let imp = exec_impl(e, &min);
                    let mm = run_driver(&o.driver, e.name(), &model_lines(&min, &imp)).unwrap_or_default();
                    // a disagreement that does not reproduce on the reduced case (timing-dependent) is kept as observed
                    let (min, imp_resp, mm, fd) = match first_diff(e, &min, &imp.resp, &mm) {
                        Some(fd) => (min, imp.resp, mm, fd),
                        None => (c.lines.clone(), outcomes[k].resp.clone(), m.to_vec(), d),
                    };
                    let imp = Outcome { resp: imp_resp, ..Default::default() };
                    let blamed = e
                        .blame(
                            min.get(fd).map(|s| s.as_str()).unwrap_or(""),
                            imp.resp.get(fd).map(|s| s.as_str()).unwrap_or(""),
                            mm.get(fd).map(|s| s.as_str()).unwrap_or(""),
                        )
                        .iter()
                        .map(|s| s.to_string())
                        .collect();
                    report.disagreements.push(Disagreement {
                        origin: origin.clone(),
                        lines: min,
                        impl_resp: imp.resp,
                        model_resp: mm,
                        first_diff: fd,
                        blamed,
                    });
                }
            }
        }
    }
    report.wall_s = t0.elapsed().as_secs_f64();
    report
}

impl Report {
    pub fn to_json(&self) -> J {
        let lines = |v: &Vec<String>| J::Arr(v.iter().map(|s| J::Str(s.clone())).collect());
        J::Obj(vec![
            ("engine".into(), J::Str(self.engine.clone())),
            ("seed".into(), J::Num(self.seed as f64)),
            ("evaluations".into(), J::Num(self.evaluations as f64)),
            ("distinct_nontrivial".into(), J::Num(self.distinct_nontrivial as f64)),
            ("request_lines".into(), J::Num(self.request_lines as f64)),
            ("corpus_cases".into(), J::Num(self.corpus_cases as f64)),
            ("enumerated_cases".into(), J::Num(self.enumerated_cases as f64)),
            ("exhaustive".into(), J::Bool(self.exhaustive)),
            (
                "histogram".into(),
                J::Obj(self.histogram.iter().map(|(k, v)| (k.clone(), J::Num(*v as f64))).collect()),
            ),
            (
                "samples".into(),
                J::Arr(
                    self.samples
                        .iter()
                        .map(|(l, r)| {
                            J::Arr(
                                l.iter()
                                    .zip(r.iter())
                                    .map(|(a, b)| J::Str(format!("{a} => {b}")))
                                    .collect(),
                            )
                        })
                        .collect(),
                ),
            ),
            (
                "disagreements".into(),
                J::Arr(
                    self.disagreements
                        .iter()
                        .map(|d| {
                            J::Obj(vec![
                                ("origin".into(), J::Str(d.origin.clone())),
                                ("lines".into(), lines(&d.lines)),
                                ("impl".into(), lines(&d.impl_resp)),
                                ("model".into(), lines(&d.model_resp)),
                                ("first_diff".into(), J::Num(d.first_diff as f64)),
                                ("blamed".into(), lines(&d.blamed)),
                            ])
                        })
                        .collect(),
                ),
            ),
            (
                "monitor_hits".into(),
                J::Arr(
                    self.monitor_hits
                        .iter()
                        .map(|d| {
                            J::Obj(vec![
                                ("origin".into(), J::Str(d.origin.clone())),
                                ("lines".into(), lines(&d.lines)),
                                ("impl".into(), lines(&d.impl_resp)),
                                ("property".into(), J::Str(d.property.clone())),
                                ("what".into(), J::Str(d.what.clone())),
                            ])
                        })
                        .collect(),
                ),
            ),
            (
                "driver_error".into(),
                match &self.driver_error {
                    Some(e) => J::Str(e.clone()),
                    None => J::Null,
                },
            ),
            ("wall_s".into(), J::Num(self.wall_s)),
        ])
    }
}
