//! Minimal JSON writer (no external crates).

pub enum J {
    Null,
    Bool(bool),
    Num(f64),
    Str(String),
    Arr(Vec<J>),
    Obj(Vec<(String, J)>),
}

fn esc(s: &str, out: &mut String) {
    out.push('"');
    for c in s.chars() {
        match c {
            '"' => out.push_str("\\\""),
            '\\' => out.push_str("\\\\"),
            '\n' => out.push_str("\\n"),
            '\r' => out.push_str("\\r"),
            '\t' => out.push_str("\\t"),
            c if (c as u32) < 0x20 => out.push_str(&format!("\\u{:04x}", c as u32)),
            c => out.push(c),
        }
    }
    out.push('"');
}

impl J {
    pub fn write(&self, out: &mut String) {
        match self {
            J::Null => out.push_str("null"),
            J::Bool(b) => out.push_str(if *b { "true" } else { "false" }),
            J::Num(n) => {
                if n.fract() == 0.0 && n.abs() < 1e15 {
                    out.push_str(&format!("{}", *n as i64))
                } else {
                    out.push_str(&format!("{}", n))
                }
            }
            J::Str(s) => esc(s, out),
            J::Arr(a) => {
                out.push('[');
                for (i, x) in a.iter().enumerate() {
                    if i > 0 {
                        out.push(',');
                    }
                    x.write(out);
                }
                out.push(']');
            }
            J::Obj(o) => {
                out.push('{');
                for (i, (k, v)) in o.iter().enumerate() {
                    if i > 0 {
                        out.push(',');
                    }
                    esc(k, out);
                    out.push(':');
                    v.write(out);
                }
                out.push('}');
            }
        }
    }
    pub fn to_string(&self) -> String {
        let mut s = String::new();
        self.write(&mut s);
        s
    }
}
