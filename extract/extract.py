#!/usr/bin/env python3
"""
extract.py <repo> <out.lean> — regenerates NexoVerif/Extracted.lean from the current source:
  * the sequence of atomic operations (with their Ordering) of SyncCell::write, SyncCellReader::try_read,
    TearableAtomicTime::tearable_store / tearable_load;
  * the bit-layout constants of executor/task.rs and util/task_set.rs, the mask definitions of channel/queue.rs.
Deliberately narrow: anything it cannot find makes it fail (exit 1) — it never guesses.
The output file is rewritten only when its content changes (keeps lake's cache warm).
"""
import json, os, re, sys

def die(msg):
    print("extract.py: " + msg, file=sys.stderr)
    sys.exit(1)

def strip_comments(src):
    src = re.sub(r"/\*.*?\*/", "", src, flags=re.S)
    return re.sub(r"//[^\n]*", "", src)

def fn_body(src, header_re):
    m = re.search(header_re, src)
    if not m:
        return None
    i = src.index("{", m.end() - 1) if src[m.end() - 1] != "{" else m.end() - 1
    depth, j = 0, i
    while j < len(src):
        if src[j] == "{":
            depth += 1
        elif src[j] == "}":
            depth -= 1
            if depth == 0:
                return src[i + 1:j]
        j += 1
    return None

def rust_expr_to_lean(expr, idents):
    """Translate a side-effect-free Rust integer/boolean expression over `idents` into a Lean Bool/Nat expression
    (Rust precedence: unary, + -, << >>, &, ^, |, comparisons, &&, ||).  Returns None for anything else."""
    toks = re.findall(r"\s*(0x[0-9a-fA-F_]+|\d[\d_]*|[A-Za-z_][A-Za-z_0-9]*|<<|>>|==|!=|<=|>=|&&|\|\||[-+&|^<>()!])", expr)
    if "".join(toks) != re.sub(r"\s+", "", expr):
        return None
    pos = [0]
    def peek():
        return toks[pos[0]] if pos[0] < len(toks) else None
    def take():
        t = peek(); pos[0] += 1; return t
    class Bad(Exception):
        pass
    def atom():
        t = take()
        if t is None:
            raise Bad()
        if t == "(":
            e = level(0)
            if take() != ")":
                raise Bad()
            return "(" + e + ")"
        if t == "!":
            return "(!" + atom() + ")"
        if re.fullmatch(r"0x[0-9a-fA-F_]+|\d[\d_]*", t):
            return str(int(t.replace("_", ""), 0))
        if t in idents:
            return idents[t]
        raise Bad()
    LEVELS = [["||"], ["&&"], ["==", "!=", "<", "<=", ">", ">="], ["|"], ["^"], ["&"], ["<<", ">>"], ["+", "-"]]
    LEAN = {"||": "||", "&&": "&&", "==": "==", "!=": "!=", "|": "|||", "^": "^^^", "&": "&&&", "<<": "<<<", ">>": ">>>", "+": "+", "-": "-"}
    def level(i):
        if i == len(LEVELS):
            return atom()
        e = level(i + 1)
        while peek() in LEVELS[i]:
            op = take()
            r = level(i + 1)
            if op in ("<", "<=", ">", ">="):
                e = {"<": f"(Nat.blt {e} {r})", "<=": f"(Nat.ble {e} {r})", ">": f"(Nat.blt {r} {e})", ">=": f"(Nat.ble {r} {e})"}[op]
            else:
                e = f"({e} {LEAN[op]} {r})"
        return e
    try:
        e = level(0)
        if pos[0] != len(toks):
            return None
        return e
    except Bad:
        return None

ORD = {"Relaxed": ".relaxed", "Acquire": ".acquire", "Release": ".release", "AcqRel": ".acqrel", "SeqCst": ".seqcst"}

def atomic_ops(body, calls=()):
    """Atomic operations of a function body in textual order as Lean AOp terms."""
    body = re.sub(r"\s+", " ", body)
    pat = re.compile(
        r"(?P<loc>[A-Za-z_][A-Za-z_0-9\.]*?)\s*\.\s*(?P<op>load|store|fetch_add|fetch_sub|fetch_or|fetch_and|swap|fetch_update|compare_exchange_weak|compare_exchange)\s*\("
        r"|(?P<fence>fence)\s*\(\s*Ordering::(?P<ford>\w+)\s*\)"
        + ("|(?P<call>" + "|".join(map(re.escape, calls)) + r")\s*\(" if calls else ""))
    out = []
    for m in pat.finditer(body):
        if m.group("fence"):
            out.append(f".fence {ORD[m.group('ford')]}")
            continue
        if calls and m.group("call"):
            out.append(f'.call "{m.group("call")}"')
            continue
        # arguments up to the matching parenthesis
        i, depth = m.end(), 1
        while i < len(body) and depth:
            depth += body[i] == "("
            depth -= body[i] == ")"
            i += 1
        args = body[m.end():i - 1]
        ords = re.findall(r"Ordering::(\w+)", args)
        loc = m.group("loc").split(".")[-1]
        op = m.group("op")
        if not ords:
            die(f"no Ordering in `{loc}.{op}({args})`")
        if op == "load":
            out.append(f'.load "{loc}" {ORD[ords[0]]}')
        elif op == "store":
            out.append(f'.store "{loc}" {ORD[ords[0]]}')
        elif op in ("compare_exchange", "compare_exchange_weak", "fetch_update"):
            out.append(f'.cas "{loc}" {ORD[ords[0]]} {ORD[ords[1] if len(ords) > 1 else ords[0]]}')
        else:
            out.append(f'.rmw "{loc}" "{op}" {ORD[ords[0]]}')
    return out

def lean_list(name, items, doc):
    body = ",\n    ".join(items)
    return f"/-- {doc} -/\ndef {name} : List AOp :=\n  [ {body} ]\n"

def const_expr(src, name):
    m = re.search(r"const\s+" + name + r"\s*:\s*\w+\s*=\s*([^;]+);", src)
    if not m:
        die(f"constant {name} not found")
    return m.group(1).strip()

def to_lean_nat(expr, bits=64):
    """Translate a Rust constant expression over u64/usize to a Lean Nat expression (modulo 2^bits for `!`)."""
    e = expr
    e = re.sub(r"\b(\d+)(?:_?(?:u64|usize|u32))\b", r"\1", e)
    e = e.replace("usize::MAX", f"(2^{bits} - 1)").replace("u64::MAX", "(2^64 - 1)")
    e = e.replace("usize::BITS", str(bits)).replace("u64::BITS", "64")
    e = re.sub(r"\bas\s+\w+", "", e)
    e = e.replace("<<", "<<<").replace(">>", ">>>").replace("|", "|||").replace("&", "&&&")
    e = re.sub(r"!\s*([A-Za-z_][A-Za-z_0-9]*|\([^()]*\))", lambda m: f"((2^{bits} - 1) - {m.group(1)})", e)
    return e

def main():
    if len(sys.argv) != 3:
        die("usage: extract.py <repo> <out.lean>")
    repo, out_path = sys.argv[1], sys.argv[2]
    rd = lambda p: strip_comments(open(os.path.join(repo, "nexosim/src", p)).read())
    out = ["/- GENERATED by /verif/extract/extract.py from the current source of /repo — do not edit. -/",
           "import NexoVerif.Model.Atomics", "namespace NexoVerif.Extracted", "open NexoVerif", ""]

    # ---- util/sync_cell.rs + time/monotonic_time.rs
    sc = rd("util/sync_cell.rs")
    w = fn_body(sc, r"fn\s+write\s*\(\s*&self\s*,\s*value\s*:\s*T::Value\s*\)\s*\{")
    r = fn_body(sc, r"fn\s+try_read\s*\(\s*&self\s*\)[^{]*\{")
    if w is None or r is None:
        die("SyncCell::write / SyncCellReader::try_read not found")
    out.append(lean_list("syncCellWrite", atomic_ops(w, calls=("tearable_store",)), "`SyncCell::write`"))
    rops = atomic_ops(r, calls=("tearable_load",))
    # the two control-flow guards of try_read (the model's reader program has both)
    rn = re.sub(r"\s+", " ", r)
    if re.search(r"if \(?\s*seq & 1\s*\)? (!= 0|== 1) \{ return Err", rn) and len(rops) >= 1:
        rops.insert(1, '.call "guard_odd"')
    if re.search(r"if new_seq == seq \{ Ok\(value\) \} else \{ Err", rn):
        rops.append('.call "guard_same"')
    out.append(lean_list("syncCellTryRead", rops, "`SyncCellReader::try_read` (guards: early return on an odd sequence; final equality test)"))
    # the two tests of try_read as functions, for the failing-history search of M-SEQLOCK (whatever they are)
    m1 = re.search(r"let seq = self\.inner\.sequence\.load\(Ordering::\w+\); if (.+?) \{ return Err\(SyncCellReadError \{\}\); \}", rn)
    m2 = re.search(r"let new_seq = self\.inner\.sequence\.load\(Ordering::\w+\); if (.+?) \{ Ok\(value\) \} else \{ Err\(SyncCellReadError \{\}\) \}", rn)
    e1 = rust_expr_to_lean(m1.group(1), {"seq": "seq"}) if m1 else None
    e2 = rust_expr_to_lean(m2.group(1), {"seq": "seq", "new_seq": "newSeq"}) if m2 else None
    mseq = re.search(r"sequence: Atomic(Usize|U8|U16|U32|U64|I8|I16|I32|I64|Isize),", sc)
    bits = {"Usize": 64, "U64": 64, "I64": 64, "Isize": 64, "U32": 32, "I32": 32, "U16": 16, "I16": 16, "U8": 8, "I8": 8}.get(mseq.group(1), 0) if mseq else 0
    out.append("/-- width in bits of the sequence counter of `SyncCell` (0: not recognised) -/\ndef syncCellSeqBits : Nat := " + str(bits))
    out.append("/-- both tests of `try_read` could be translated -/\ndef tryReadTestsTranslated : Bool := " + ("true" if (e1 is not None and e2 is not None) else "false"))
    out.append("/-- `try_read` gives up right after its first load of the sequence when this holds -/\ndef tryReadEarlyReject (seq : Nat) : Bool := " + (e1 if e1 and e2 else "seq % 2 == 1"))
    out.append("/-- `try_read` returns the value it has read when this holds of the first and second sequence loads -/\ndef tryReadAccept (seq newSeq : Nat) : Bool := " + (e2 if e1 and e2 else "newSeq == seq"))

    mt = rd("time/monotonic_time.rs")
    ts = fn_body(mt, r"fn\s+tearable_store\s*\([^)]*\)\s*\{")
    tl = fn_body(mt, r"fn\s+tearable_load\s*\([^)]*\)[^{]*\{")
    if ts is None or tl is None:
        die("TearableAtomicTime::tearable_store / tearable_load not found")
    out.append(lean_list("tearableStore", atomic_ops(ts), "`TearableAtomicTime::tearable_store`"))
    out.append(lean_list("tearableLoad", atomic_ops(tl), "`TearableAtomicTime::tearable_load`"))

    # ---- executor/task.rs state-word layout
    task = rd("executor/task.rs")
    for c in ["POLLING", "CLOSED", "REF_INC", "WAKE_INC", "REF_MASK", "WAKE_MASK", "REF_CRITICAL", "WAKE_CRITICAL"]:
        out.append(f"def task{c} : Nat := {to_lean_nat(const_expr(task, c))}")
    inits = re.findall(r"state\s*:\s*AtomicU64::new\(([^;]*?)\)\s*,\s*core", task)
    if len(inits) != 2:
        die(f"expected the two initial state words of spawn / spawn_and_forget, found {len(inits)}")
    out.append(f"/-- initial state word of `spawn` -/\ndef taskSpawnWord : Nat := {to_lean_nat(inits[0])}")
    out.append(f"/-- initial state word of `spawn_and_forget` -/\ndef taskSpawnAndForgetWord : Nat := {to_lean_nat(inits[1])}")
    m = re.search(r"fn\s+runnable_exists\s*\(\s*state\s*:\s*u64\s*\)\s*->\s*bool\s*\{([^}]*)\}", rd("executor/task/util.rs"))
    if not m:
        die("runnable_exists not found")
    out.append("/-- body of `runnable_exists(state)` (util.rs), verbatim -/\ndef taskRunnableExistsSrc : String := " + json.dumps(re.sub(r"\s+", " ", m.group(1)).strip()))
    # ---- executor/task*.rs: the atomic operations of every handle operation, in textual order (M-TASK's transitions
    # are written from these: one read-modify-write decides and acts, no separate load in front of it)
    tfiles = [("Task", "executor/task.rs", ["clone_waker", "wake_by_val", "wake", "drop_waker"]),
              ("Runnable", "executor/task/runnable.rs", ["run", "cancel"]),
              ("Token", "executor/task/cancel_token.rs", ["cancel", "drop"]),
              ("Promise", "executor/task/promise.rs", ["poll", "drop"])]
    for tag, f, fns in tfiles:
        tsrc = rd(f)
        for fn in fns:
            tm = re.search(r"fn\s+" + fn + r"\b", tsrc)
            tbody = fn_body(tsrc[tm.start():], r"fn\s+" + fn + r"\b[^{]*\{") if tm else None
            if tbody is None:
                die(f"{f}: fn {fn} not found")
            camel = "".join(w.capitalize() for w in fn.split("_"))
            out.append(lean_list(f"taskOps{tag}{camel}", atomic_ops(tbody), f"atomic operations of `{fn}` in `{f}`"))
    # ---- executor drop sequence (M-DROP switches) and the cached lock's epoch rule (M-BCAST)
    norm = lambda t: re.sub(r"\s+", " ", t)
    mt = norm(rd("executor/mt_executor.rs"))
    st = norm(rd("executor/st_executor.rs"))
    rlw = fn_body(mt, r"fn run_local_worker\s*\([^{]*\{")
    if rlw is None:
        die("run_local_worker not found")
    tail = rlw[rlw.rfind("register_panic"):] if "register_panic" in rlw else rlw
    b = lambda x: "true" if x else "false"
    hand_fast = re.search(r"if let Some\(task\) = fast_slot\.take\(\) \{ injector\.insert_task\(task\); \}", tail) is not None
    hand_local = re.search(r"while let Some\(task\) = local_queue\.pop\(\) \{ injector\.insert_task\(task\); \}", tail) is not None
    mdrop = fn_body(mt[mt.index("impl Drop for Executor"):], r"fn drop\s*\(&mut self\)\s*\{") if "impl Drop for Executor" in mt else None
    sdrop = fn_body(st[st.index("impl Drop for ExecutorInner"):], r"fn drop\s*\(&mut self\)\s*\{") if "impl Drop for ExecutorInner" in st else None
    if mdrop is None or sdrop is None:
        die("Executor::drop / ExecutorInner::drop not found")
    cancel_all = r"for task in tasks\.drain\(\) \{ task\.cancel\(\); \}"
    mt_unset = re.search(r"ACTIVE_TASKS\.unset\(\|\| \{ let mut tasks = self\.active_tasks\.lock\(\)\.unwrap\(\); " + cancel_all, mdrop) is not None
    st_unset = re.search(r"ACTIVE_TASKS\.unset\(\|\| \{ let mut tasks = self\.active_tasks\.borrow_mut\(\); " + cancel_all, sdrop) is not None
    mt_cancels = re.search(cancel_all, mdrop) is not None
    st_cancels = re.search(cancel_all, sdrop) is not None
    jpos, wpos = mdrop.find("handle.join()"), mdrop.find("LOCAL_WORKER.set(&worker")
    cpos = mdrop.find("task.cancel()")
    out.append("/-- end of `run_local_worker`: the fast slot is handed over to the injector -/\ndef dropWorkerHandsOverFastSlot : Bool := " + b(hand_fast))
    out.append("/-- end of `run_local_worker`: the local queue is handed over to the injector -/\ndef dropWorkerHandsOverLocalQueue : Bool := " + b(hand_local))
    out.append("/-- `Executor::drop` (mt) cancels every active task, with `ACTIVE_TASKS` unset -/\ndef dropMtUnsetsActiveTasks : Bool := " + b(mt_unset and mt_cancels))
    out.append("/-- `ExecutorInner::drop` (st) cancels every active task, with `ACTIVE_TASKS` unset -/\ndef dropStUnsetsActiveTasks : Bool := " + b(st_unset and st_cancels))
    out.append("/-- `Executor::drop` (mt) joins the workers first and cancels inside `LOCAL_WORKER.set` -/\ndef dropMtJoinsThenCancelsInWorker : Bool := " + b(0 <= jpos < wpos < cpos))
    # ---- scheduler: every request validates its deadline, and the stepper writes the time, under the queue lock
    sch = norm(rd("simulation/scheduler.rs"))
    under_lock = True
    names = ["schedule_from", "schedule_event_from", "schedule_keyed_event_from", "schedule_periodic_event_from", "schedule_keyed_periodic_event_from"]
    for fnm in names:
        body = fn_body(sch, r"fn " + fnm + r"\b[^{]*?\)\s*->\s*Result<[^{]*\{")
        if body is None:
            die(f"scheduler function {fnm} not found")
        pos = [body.find("self.scheduler_queue.lock()"), body.find("self.time()"), body.find("deadline.into_time(now)"),
               body.find("if now >= time"), body.find("scheduler_queue.insert(")]
        ok = all(x >= 0 for x in pos) and pos == sorted(pos) and body.count("self.time()") == 1 and body.count("into_time(") == 1
        under_lock = under_lock and ok
    out.append("/-- every `GlobalScheduler::schedule*_from` takes the queue lock, then reads the time, converts and validates the deadline, then inserts -/\ndef schedValidatesUnderLock : Bool := " + b(under_lock))
    simrs = norm(rd("simulation.rs"))
    stb = fn_body(simrs, r"fn step_to_next_bounded\s*\([^{]*\{")
    suu = fn_body(simrs, r"fn step_until_unchecked\s*\([^{]*\{")
    if stb is None or suu is None:
        die("step_to_next_bounded / step_until_unchecked not found")
    lockpos = stb.find("self.scheduler_queue.lock()")
    writes = [m.start() for m in re.finditer(r"self\.time\.write\(", stb)]
    droppos = stb.find("drop(scheduler_queue)")
    time_under_lock = lockpos >= 0 and len(writes) >= 1 and all(lockpos < wpos and (droppos < 0 or wpos < droppos) for wpos in writes) and "self.time.write(" not in suu
    out.append("/-- `step_to_next_bounded` writes the simulation time only while it holds the queue lock; `step_until_unchecked` never writes it -/\ndef stepWritesTimeUnderLock : Bool := " + b(time_under_lock))
    # ---- channel/queue.rs: order of the atomic operations of push / pop / MessageBorrow::drop / close
    qsrc = rd("channel/queue.rs")
    qpush = fn_body(qsrc, r"fn\s+push\s*<F>\s*\([^{]*\{")
    qpop = fn_body(qsrc, r"unsafe\s+fn\s+pop\s*\(\s*&self\s*\)[^{]*\{")
    qclose = fn_body(qsrc, r"fn\s+close\s*\(\s*&self\s*\)\s*\{")
    mdrop = re.search(r"impl<T:\s*\?Sized>\s+Drop\s+for\s+MessageBorrow<'_,\s*T>\s*\{", qsrc)
    qrel = fn_body(qsrc[mdrop.end():], r"fn\s+drop\s*\(&mut self\)\s*\{") if mdrop else None
    if None in (qpush, qpop, qclose, qrel):
        die("queue.rs: push / pop / close / MessageBorrow::drop not found")
    def rename(ops):
        return [o.replace('"self.queue.buffer[self.index].stamp"', '"slot.stamp"') for o in ops]
    out.append(lean_list("queuePush", atomic_ops(qpush), "`Queue::push`"))
    out.append(lean_list("queuePop", atomic_ops(qpop), "`Queue::pop`"))
    out.append(lean_list("queueRelease", rename(atomic_ops(qrel)), "`MessageBorrow::drop`"))
    out.append(lean_list("queueClose", atomic_ops(qclose), "`Queue::close`"))
    # ---- idle detection of the multi-threaded executor (M-POOL): shape of the worker loop head, of `run()`, and of
    # the pool manager's operations on `active_workers`
    def call_seq(body, vocab):
        hits = []
        for name, pat in vocab:
            for m in re.finditer(pat, body):
                hits.append((m.start(), name))
        return [n for _, n in sorted(hits)]
    lp = rlw.find("loop {")
    ab = rlw.find("abort_signal.is_set()", lp)
    if lp < 0 or ab < 0:
        die("run_local_worker: outer loop / abort test not found")
    wvocab = [("update_msg_count", r"(?<!let )update_msg_count\(\)"),
              ("try_set_worker_inactive", r"if pool_manager\.try_set_worker_inactive\(id\) \{"),
              ("park", r"(?<![a-z_.])parker\.park\(\)"),
              ("injector.is_empty", r"\} else if injector\.is_empty\(\) \{"),
              ("set_all_workers_inactive", r"pool_manager\.set_all_workers_inactive\(\)"),
              ("unpark_executor", r"executor_unparker\.unpark\(\)"),
              ("begin_worker_search", r"\} else \{ pool_manager\.begin_worker_search\(\)")]
    head = call_seq(rlw[lp:ab], wvocab)
    flushes = len(re.findall(r"(?<!let )update_msg_count\(\)", rlw))
    strs = lambda xs: "[" + ", ".join(json.dumps(x) for x in xs) + "]"
    out.append("/-- `run_local_worker`: the protocol calls at the top of the worker loop, in textual order, up to the abort test -/\ndef poolWorkerLoopHead : List String := " + strs(head))
    out.append("/-- `run_local_worker`: number of places where the thread-local message count is published -/\ndef poolWorkerFlushes : Nat := " + str(flushes))
    runb = fn_body(mt, r"pub\(crate\) fn run\s*\(&mut self, timeout: Duration\)[^{]*\{")
    if runb is None:
        die("Executor::run (mt) not found")
    rvocab = [("activate_worker", r"pool_manager\.activate_worker\(\)"),
              ("loop", r"loop \{"),
              ("pool_is_idle", r"if self\.context\.pool_manager\.pool_is_idle\(\) \{"),
              ("read_count", r"self\.context\.msg_count\.load\("),
              ("return_unprocessed", r"return Err\(ExecutorError::UnprocessedMessages"),
              ("return_ok", r"return Ok\(\(\)\)"),
              ("park", r"self\.parker\.park\(\)"),
              ("park_timeout", r"self\.parker\.park_timeout\(timeout\)")]
    out.append("/-- `Executor::run` (mt): the protocol calls in textual order -/\ndef poolRunShape : List String := " + strs(call_seq(runb, rvocab)))
    pm = norm(rd("executor/mt_executor/pool_manager.rs"))
    tsi = fn_body(pm, r"fn try_set_worker_inactive\(&self, worker_id: usize\) -> bool \{")
    sai = fn_body(pm, r"fn set_all_workers_inactive\(&self\) \{")
    pii = fn_body(pm, r"fn pool_is_idle\(&self\) -> bool \{")
    awk = fn_body(pm, r"fn activate_worker\(&self\) \{")
    awr = fn_body(pm, r"fn activate_worker_relaxed\(&self\) \{")
    pnew = fn_body(pm, r"fn new\( pool_size: usize,[^{]*\{")
    if None in (tsi, sai, pii, awk, awr, pnew):
        die("pool_manager.rs: new / try_set_worker_inactive / set_all_workers_inactive / pool_is_idle / activate_worker(_relaxed) not found")
    keeps_last = re.search(r"\.fetch_update\(Ordering::\w+, Ordering::\w+, \|active_workers\| \{ if active_workers == \(1 << worker_id\) \{ Some\(active_workers\) \} else \{ Some\(active_workers & !\(1 << worker_id\)\) \} \}\)", tsi) is not None \
        and re.search(r"if active_workers == \(1 << worker_id\) \{ atomic::fence\(Ordering::\w+\); false \} else \{ true \}", tsi) is not None
    clears_all = re.fullmatch(r"\s*self\.active_workers\.store\(0, Ordering::\w+\);\s*", sai) is not None
    idle_is_zero = re.fullmatch(r"\s*self\.active_workers\.load\(Ordering::\w+\) == 0\s*", pii) is not None
    act = r"active_workers = self \.active_workers \.fetch_or\(1 << first_idle_worker, Ordering::\w+\); if active_workers & \(1 << first_idle_worker\) == 0 \{ self\.begin_worker_search\(\); self\.worker_unparkers\[first_idle_worker\]\.unpark\(\); return; \}"
    first_idle = r"let first_idle_worker = active_workers\.trailing_ones\(\) as usize; if first_idle_worker >= self\.pool_size \{"
    activates = all(re.search(first_idle, f) and re.search(act, f) for f in (awk, awr))
    size_pos = re.search(r"assert!\( pool_size >= 1,", pnew) is not None
    out.append("/-- `try_set_worker_inactive`: one read-modify-write that clears the worker's bit unless it is the only one set, and reports which -/\ndef poolDeactKeepsLast : Bool := " + b(keeps_last))
    out.append("/-- `set_all_workers_inactive` stores 0 -/\ndef poolClearsAll : Bool := " + b(clears_all))
    out.append("/-- `pool_is_idle` is `active_workers == 0` -/\ndef poolIdleIsZero : Bool := " + b(idle_is_zero))
    out.append("/-- `activate_worker(_relaxed)`: set the bit of an idle worker; whoever set it starts the search count and unparks the worker -/\ndef poolActivateSetsBitThenUnparks : Bool := " + b(activates))
    out.append("/-- `PoolManager::new` refuses an empty pool -/\ndef poolSizeAtLeastOne : Bool := " + b(size_pos))
    # ---- channel.rs: the wake-up protocol around the queue (M-CHAN)
    ch = norm(rd("channel.rs"))
    recvb = fn_body(ch, r"pub\(crate\) async fn recv\(")
    sendb = fn_body(ch, r"pub\(crate\) async fn send<F>\(")
    if recvb is None or sendb is None:
        die("channel.rs: recv / send not found")
    recv_waits = re.search(r"self\.inner \.receiver_signal \.wait_until\(\|\| match self\.inner\.queue\.pop\(\) \{ Ok\(msg\) => Some\(Some\(msg\)\), Err\(PopError::Empty\) => None, Err\(PopError::Closed\) => Some\(None\), \}\) \.await", recvb) is not None
    # the popped message is dropped (its slot released), then one sender is notified, unconditionally, before the handler runs
    recv_notifies = re.search(r"let fut = msg\.call_once\(model, cx, self\.future_box\.take\(\)\.unwrap\(\)\); drop\(msg\); self\.inner\.sender_signal\.notify_one\(\); let mut fut = RecycleBox::into_pin\(fut\); fut\.as_mut\(\)\.await;", recvb) is not None
    send_waits = re.search(r"\.sender_signal \.wait_until\(\|\| \{ match self\.inner\.queue\.push\(msg_fn\.take\(\)\.unwrap\(\)\) \{ Ok\(\(\)\) => Some\(true\), Err\(PushError::Full\(m\)\) => \{ msg_fn = Some\(m\); None \} Err\(PushError::Closed\) => Some\(false\), \} \}\) \.await;", sendb) is not None
    send_notifies = re.search(r"if success \{ (#\[cfg\(nexosim_verif\)\] crate::verif_hooks::on_channel_op\(self\.channel_id\(\), true\); )?self\.inner\.receiver_signal\.notify\(\);", sendb) is not None
    sig_types = re.search(r"receiver_signal: DiatomicWaker, sender_signal: Event,", ch) is not None
    out.append("/-- `Receiver::recv` waits on `receiver_signal` with `queue.pop()` as the predicate -/\ndef chanRecvWaitsOnPop : Bool := " + b(recv_waits))
    out.append("/-- `Receiver::recv`: message dropped, then `sender_signal.notify_one()`, unconditionally, before the handler is awaited -/\ndef chanRecvNotifiesAfterEveryPop : Bool := " + b(recv_notifies))
    out.append("/-- `Sender::send` waits on `sender_signal` with `queue.push()` as the predicate -/\ndef chanSendWaitsOnPush : Bool := " + b(send_waits))
    out.append("/-- `Sender::send` notifies the receiver after a successful push -/\ndef chanSendNotifiesReceiver : Bool := " + b(send_notifies))
    rdrop = re.search(r"impl<M> Drop for Receiver<M> \{ fn drop\(&mut self\) \{ self\.inner\.queue\.close\(\); self\.inner\.sender_signal\.notify_all\(\); \} \}", ch) is not None
    out.append("/-- `Receiver::drop`: `queue.close()`, then `sender_signal.notify_all()`, unconditionally -/\ndef chanReceiverDropClosesThenNotifiesAll : Bool := " + b(rdrop))
    out.append("/-- the receiver's signal is a `DiatomicWaker`, the senders' an `async_event::Event` -/\ndef chanSignalTypes : Bool := " + b(sig_types))
    lock = open(os.path.join(repo, "Cargo.lock")).read()
    def locked(name):
        m = re.search(r'name = "' + re.escape(name) + r'"\nversion = "([^"]+)"', lock)
        return m.group(1) if m else "?"
    out.append("/-- versions of the two signalling crates in Cargo.lock (their protocol is modelled from this source) -/\ndef chanSignalCrates : List String := " + strs(["async-event " + locked("async-event"), "diatomic-waker " + locked("diatomic-waker")]))
    # ---- util/slot.rs: the operations of the one-shot slot (M-SLOT)
    slsrc = rd("util/slot.rs")
    def after(hdr):
        mm = re.search(hdr, slsrc)
        return slsrc[mm.end():] if mm else ""
    slcalls = ("write_value", "read_value", "drop_value_in_place", "Box::from_raw")
    sl = [("slotWrite", fn_body(after(r"impl<T> SlotWriter<T> \{"), r"fn\s+write\s*\(self, value: T\)[^{]*\{"), "`SlotWriter::write`"),
          ("slotWriterDrop", fn_body(after(r"impl<T> Drop for SlotWriter<T> \{"), r"fn\s+drop\s*\(&mut self\)\s*\{"), "`SlotWriter::drop`"),
          ("slotTryRead", fn_body(after(r"impl<T> SlotReader<T> \{"), r"fn\s+try_read\s*\(&mut self\)[^{]*\{"), "`SlotReader::try_read`"),
          ("slotReaderDrop", fn_body(after(r"impl<T> Drop for SlotReader<T> \{"), r"fn\s+drop\s*\(&mut self\)\s*\{"), "`SlotReader::drop`")]
    for nm, body, doc in sl:
        if body is None:
            die("util/slot.rs: " + doc + " not found")
        out.append(lean_list(nm, atomic_ops(body, calls=slcalls), doc + ": atomic operations, accesses to the value and the free, in textual order"))
    # ---- simulation.rs / sim_init.rs / model/context.rs: identifiers, table of names, observers (M-NAMES)
    simn = norm(rd("simulation.rs"))
    am = fn_body(simn, r"pub\(crate\) fn add_model<P: ProtoModel>\(")
    nm_ok = False
    if am is not None:
        p1 = am.find("observers.push((name.clone(), Box::new(mailbox.0.observer())));")
        p2 = am.find("let model = model.build(&mut build_cx);")
        p3 = am.find("let model_id = ModelId::new(model_names.len()); model_names.push(name);")
        p4 = am.find("ModelFuture::new(fut, model_id)")
        nm_ok = 0 <= p1 < p2 < p3 < p4 and am.count("model_names.push") == 1 and am.count("observers.push") == 1 and am.count("ModelId::new") == 1
    cxn = norm(rd("model/context.rs"))
    sub_ok = re.search(r"let mut submodel_name = name\.into\(\); if submodel_name\.is_empty\(\) \{ submodel_name = String::from\(\"<unknown>\"\); \}; submodel_name = self\.name\.to_string\(\) \+ \"\.\" \+ &submodel_name; simulation::add_model\( model, mailbox, submodel_name, self\.scheduler\.clone\(\), self\.executor, self\.abort_signal, self\.model_names, self\.observers, \);", cxn) is not None
    sin = norm(rd("simulation/sim_init.rs"))
    top_ok = re.search(r"let mut name = name\.into\(\); if name\.is_empty\(\) \{ name = String::from\(\"<unknown>\"\); \}; let scheduler = GlobalScheduler::new\(self\.scheduler_queue\.clone\(\), self\.time\.reader\(\)\); add_model\( model, mailbox, name, scheduler, &self\.executor, &self\.abort_signal, &mut self\.model_names, &mut self\.observers, \);", sin) is not None
    dl_ok = re.search(r"for \(model, observer\) in &self\.observers \{ let mailbox_size = observer\.len\(\); if mailbox_size != 0 \{ deadlock_info\.push\(DeadlockInfo \{ model: model\.clone\(\), mailbox_size, \}\); \} \}", simn) is not None
    lk_ok = re.search(r"ExecutorError::Panic\(model_id, payload\) => \{ let model = model_id \.get\(\) \.map\(\|id\| self\.model_names\.get\(id\)\.unwrap\(\)\.clone\(\)\);", simn) is not None
    out.append("/-- `simulation::add_model`: observer pushed, then `build`, then `model_id = model_names.len()` immediately followed by the push of the name, then the future spawned with that identifier -/\ndef namesIdTakenWhenNameIsPushed : Bool := " + b(nm_ok))
    out.append("/-- `BuildContext::add_submodel` is `add_model` under `parent + \".\" + name` (`<unknown>` for an empty name) on the same two tables -/\ndef namesSubmodelIsQualified : Bool := " + b(sub_ok))
    out.append("/-- `SimInit::add_model` is `add_model` under the given name (`<unknown>` for an empty name) -/\ndef namesTopLevelAsGiven : Bool := " + b(top_ok))
    out.append("/-- the deadlock report lists the `(name, observer)` pairs of `observers` -/\ndef namesDeadlockUsesObserverPairs : Bool := " + b(dl_ok))
    out.append("/-- panic and no-recipient reports look the name up with `model_names[model_id]` -/\ndef namesErrorLooksUpById : Bool := " + b(lk_ok))
    # ---- executor/mt_executor.rs: how the workers are made to leave (M-ABORT)
    mta = re.sub(r"#\[cfg\(nexosim_verif\)\] crate::verif_hooks::protocol_point\(\d+\); ?", "", mt)
    pma = norm(rd("executor/mt_executor/pool_manager.rs"))
    ab_drop = re.search(r"impl Drop for Executor \{ fn drop\(&mut self\) \{ self\.abort_signal\.set\(\); self\.context\.pool_manager\.activate_all_workers\(\); for handle in self\.worker_handles\.drain\(0\.\.\) \{ handle\.join\(\)\.unwrap\(\); \}", mta) is not None
    ab_timeout = re.search(r"\} else if !self\.parker\.park_timeout\(timeout\) \{ self\.abort_signal\.set\(\); self\.context\.pool_manager\.activate_all_workers\(\); return Err\(ExecutorError::Timeout\); \}", mta) is not None
    ab_panic = re.search(r"if let Err\(payload\) = result \{ let model_id = CURRENT_MODEL_ID\.take\(\); pool_manager\.register_panic\(model_id, payload\); abort_signal\.set\(\); pool_manager\.activate_all_workers\(\); executor_unparker\.unpark\(\); \}", mta) is not None
    ab_all = re.search(r"fn activate_all_workers\(&self\) \{ self\.set_all_workers_active\(\); for unparker in &\*self\.worker_unparkers \{ unparker\.unpark\(\); \} \}", pma) is not None
    ab_after_park = re.search(r"\} else \{ pool_manager\.begin_worker_search\(\); \} if abort_signal\.is_set\(\) \{ return; \} let mut search_start = Instant::now\(\);", mta) is not None
    ab_before_task = re.search(r"while let Some\(task\) = fast_slot\.take\(\)\.or_else\(\|\| local_queue\.pop\(\)\) \{ if abort_signal\.is_set\(\) \{ return; \} task\.run\(\); \}", mta) is not None
    out.append("/-- `Executor::drop` (multi-threaded): `abort_signal.set()`, then `activate_all_workers()`, then the joins -/\ndef abortSetBeforeUnparkOnDrop : Bool := " + b(ab_drop))
    out.append("/-- `Executor::run` on a time-out: `abort_signal.set()`, then `activate_all_workers()`, then `Err(Timeout)` -/\ndef abortSetBeforeUnparkOnTimeout : Bool := " + b(ab_timeout))
    out.append("/-- a worker that caught a model panic: registers it, `abort_signal.set()`, then `activate_all_workers()`, then unparks the executor thread -/\ndef abortSetBeforeUnparkOnPanic : Bool := " + b(ab_panic))
    out.append("/-- `activate_all_workers` unparks every worker, parked or not -/\ndef activateAllUnparksEveryWorker : Bool := " + b(ab_all))
    out.append("/-- `run_local_worker` tests the abort signal right after the parking block of every turn of its outer loop -/\ndef workerTestsAbortAfterParking : Bool := " + b(ab_after_park))
    out.append("/-- `run_local_worker` tests the abort signal before every task it runs -/\ndef workerTestsAbortBeforeEachTask : Bool := " + b(ab_before_task))
    # ---- util/indexed_priority_queue.rs: the text of the heap operations M-HEAP transliterates
    ipq = rd("util/indexed_priority_queue.rs")
    nrm = lambda t: re.sub(r"\s+", " ", t).strip()
    ipq_expect = {
        "Insert": (r"pub\(crate\) fn insert\(&mut self, key: K, value: V\) -> InsertKey \{",
            "let epoch = self.next_epoch; assert_ne!(epoch, u64::MAX); self.next_epoch += 1; let unique_key = UniqueKey { key, epoch }; let slab_idx = match self.first_free_node { Some(idx) => { self.first_free_node = self.slab[idx].unwrap_next_free_node(); self.slab[idx] = Node::HeapNode(HeapNode { value, heap_idx: 0, }); idx } None => { let idx = self.slab.len(); self.slab.push(Node::HeapNode(HeapNode { value, heap_idx: 0, })); idx } }; let heap_idx = self.heap.len(); self.heap.push(Item { key: unique_key, slab_idx: 0, }); self.sift_up( Item { key: unique_key, slab_idx, }, heap_idx, ); InsertKey { slab_idx, epoch }"),
        "Pull": (r"pub\(crate\) fn pull\(&mut self\) -> Option<\(K, V\)> \{",
            "let item = self.heap.first()?; let top_slab_idx = item.slab_idx; let key = item.key.key; let value = mem::replace( &mut self.slab[top_slab_idx], Node::FreeNode(FreeNode { next: self.first_free_node, }), ) .unwrap_value(); self.first_free_node = Some(top_slab_idx); let last_item = self.heap.pop().unwrap(); if last_item.slab_idx != top_slab_idx { self.sift_down(last_item, 0); } Some((key, value))"),
        "Extract": (r"pub\(crate\) fn extract\(&mut self, insert_key: InsertKey\) -> Option<\(K, V\)> \{",
            "let slab_idx = insert_key.slab_idx; match self.slab.get(slab_idx) { None | Some(Node::FreeNode(_)) => return None, Some(Node::HeapNode(node)) => { if self.heap[node.heap_idx].key.epoch != insert_key.epoch { return None; } } }; let node = mem::replace( &mut self.slab[slab_idx], Node::FreeNode(FreeNode { next: self.first_free_node, }), ) .unwrap_heap_node(); self.first_free_node = Some(slab_idx); let key = self.heap[node.heap_idx].key.key; let last_item = self.heap.pop().unwrap(); if let Some(item) = self.heap.get(node.heap_idx) { if last_item.key < item.key { self.sift_up(last_item, node.heap_idx); } else { self.sift_down(last_item, node.heap_idx); } } Some((key, node.value))"),
        "SiftUp": (r"fn sift_up\(&mut self, item: Item<K>, heap_idx: usize\) \{",
            "let mut child_heap_idx = heap_idx; let key = &item.key; while child_heap_idx != 0 { let parent_heap_idx = (child_heap_idx - 1) / 2; if key >= &self.heap[parent_heap_idx].key { break; } self.heap[child_heap_idx] = self.heap[parent_heap_idx]; let parent_slab_idx = self.heap[parent_heap_idx].slab_idx; *self.slab[parent_slab_idx].unwrap_heap_index_mut() = child_heap_idx; if key >= &self.heap[parent_heap_idx].key { break; } child_heap_idx = parent_heap_idx; } self.heap[child_heap_idx] = item; *self.slab[item.slab_idx].unwrap_heap_index_mut() = child_heap_idx;"),
        "SiftDown": (r"fn sift_down\(&mut self, item: Item<K>, heap_idx: usize\) \{",
            "let mut parent_heap_idx = heap_idx; let mut child_heap_idx = 2 * parent_heap_idx + 1; let key = &item.key; while child_heap_idx < self.heap.len() { if let Some(other_child) = self.heap.get(child_heap_idx + 1) { child_heap_idx += (self.heap[child_heap_idx].key > other_child.key) as usize; } if key <= &self.heap[child_heap_idx].key { break; } self.heap[parent_heap_idx] = self.heap[child_heap_idx]; let child_slab_idx = self.heap[child_heap_idx].slab_idx; *self.slab[child_slab_idx].unwrap_heap_index_mut() = parent_heap_idx; parent_heap_idx = child_heap_idx; child_heap_idx = 2 * parent_heap_idx + 1; } self.heap[parent_heap_idx] = item; *self.slab[item.slab_idx].unwrap_heap_index_mut() = parent_heap_idx;"),
        "Peek": (r"pub\(crate\) fn peek\(&self\) -> Option<\(&K, &V\)> \{",
            "let item = self.heap.first()?; let top_slab_idx = item.slab_idx; let key = &item.key.key; let value = self.slab[top_slab_idx].unwrap_value_ref(); Some((key, value))"),
        "PeekKey": (r"pub\(crate\) fn peek_key\(&self\) -> Option<&K> \{",
            "let item = self.heap.first()?; Some(&item.key.key)"),
    }
    for nm, (hdr, want) in ipq_expect.items():
        body = fn_body(ipq, hdr)
        out.append(f"/-- the body of `IndexedPriorityQueue::{nm}` is the text M-HEAP was transliterated from (comments and white space aside) -/\ndef ipq{nm}IsAsModelled : Bool := " + b(body is not None and nrm(body) == want))
    ukey = re.search(r"#\[derive\(Copy, Clone, PartialEq, Eq, PartialOrd, Ord\)\]\s*struct UniqueKey<K: Copy \+ Clone>\s*\{\s*key: K,\s*epoch: u64,\s*\}", ipq) is not None
    out.append("/-- `UniqueKey` derives `Ord` with the fields in the order `key`, `epoch` (lexicographic order of M-HEAP's `HItem.lt`) -/\ndef ipqUniqueKeyIsKeyThenEpoch : Bool := " + b(ukey))
    # ---- util/seq_futures.rs: the loop of SeqFuture::poll (M-SEQ)
    sq = norm(rd("util/seq_futures.rs"))
    sqp = fn_body(sq, r"fn poll\(mut self: Pin<&mut Self>, cx: &mut Context<'_>\) -> Poll<Self::Output> \{")
    if sqp is None:
        die("SeqFuture::poll not found")
    seq_loop = re.fullmatch(r"\s*let this = &mut \*self; while Pin::new\(&mut this\.inner\[this\.idx\]\)\.poll\(cx\)\.is_ready\(\) \{ this\.idx \+= 1; if this\.idx == this\.inner\.len\(\) \{ return Poll::Ready\(\(\)\); \} \} Poll::Pending\s*", sqp) is not None
    seq_push = re.search(r"pub\(crate\) fn push\(&mut self, future: F\) \{ self\.inner\.push\(future\); \}", sq) is not None
    out.append("/-- `SeqFuture::poll`: poll the current sub-future; on Ready advance, Ready when the index reaches the length; on Pending return Pending -/\ndef seqFuturePollsInOrder : Bool := " + b(seq_loop and seq_push))
    # ---- util/task_set.rs: atomic operations of wake_by_ref / take_scheduled / TaskIterator::next (M-TSET)
    ts = rd("util/task_set.rs")
    tswake = fn_body(ts, r"fn\s+wake_by_ref\s*\(arc_self: &Arc<Self>\)\s*\{")
    tstake = fn_body(ts, r"fn\s+take_scheduled\s*\(&self, notify_count: usize\)[^{]*\{")
    itimpl = re.search(r"impl Iterator for TaskIterator<'_>\s*\{", ts)
    tsnext = fn_body(ts[itimpl.end():], r"fn\s+next\s*\(&mut self\)[^{]*\{") if itimpl else None
    if None in (tswake, tstake, tsnext):
        die("task_set.rs: wake_by_ref / take_scheduled / TaskIterator::next not found")
    out.append(lean_list("taskSetWake", atomic_ops(tswake, calls=("arc_self.shared.notifier.notify",)), "`Task::wake_by_ref` (task_set.rs)"))
    out.append(lean_list("taskSetTake", atomic_ops(tstake), "`TaskSet::take_scheduled`"))
    out.append(lean_list("taskSetIterNext", atomic_ops(tsnext), "`TaskIterator::next`"))
    tsn = norm(ts)
    disc = fn_body(tsn, r"pub\(crate\) fn discard_scheduled\(&self\) \{")
    itdrop_impl = re.search(r"impl Drop for TaskIterator<'_> \{", tsn)
    itdrop = fn_body(tsn[itdrop_impl.end():], r"fn drop\(&mut self\) \{") if itdrop_impl else None
    if disc is None or itdrop is None:
        die("task_set.rs: discard_scheduled / TaskIterator::drop not found")
    disc_ok = re.fullmatch(r"\s*if self\.shared\.head\.load\(Ordering::\w+\) != EMPTY as u64 \{ let _ = self\.take_scheduled\(0\); \}\s*", disc) is not None
    drop_ok = re.fullmatch(r"\s*while self\.next_index != EMPTY \{ let index = self\.next_index as usize; self\.next_index = self\.task_list\.tasks\[index\]\.next\.load\(Ordering::\w+\); self\.task_list\.tasks\[index\] \.next \.store\(SLEEPING, Ordering::\w+\); \}\s*", itdrop) is not None
    out.append("/-- `discard_scheduled` is `take_scheduled(0)` (unless the head is EMPTY) followed by the iterator's drop, which puts every remaining element back to SLEEPING -/\ndef taskSetDiscardTakesAndDrops : Bool := " + b(disc_ok and drop_ok))
    # ---- ports/sink: a write is one critical section (what makes every write one step of M-SINK under concurrent writers)
    eb = norm(rd("ports/sink/event_buffer.rs"))
    es = norm(rd("ports/sink/event_slot.rs"))
    ebw = re.search(r"impl<T: Send \+ 'static> EventSinkWriter<T> for EventBufferWriter<T> \{", eb)
    esw = re.search(r"impl<T: Send \+ 'static> EventSinkWriter<T> for EventSlotWriter<T> \{", es)
    ebwrite = fn_body(eb[ebw.end():], r"fn write\(&self, event: T\) \{") if ebw else None
    eswrite = fn_body(es[esw.end():], r"fn write\(&self, event: T\) \{") if esw else None
    if ebwrite is None or eswrite is None:
        die("EventBufferWriter::write / EventSlotWriter::write not found")
    buf_one = re.fullmatch(r"\s*if !self\.inner\.is_open\.load\(Ordering::\w+\) \{ return; \} let mut buffer = self\.inner\.buffer\.lock\(\)\.unwrap\(\); if buffer\.len\(\) == self\.inner\.capacity \{ buffer\.pop_front\(\); \} buffer\.push_back\(event\);\s*", ebwrite) is not None
    slot_one = re.fullmatch(r"\s*if !self\.inner\.is_open\.load\(Ordering::\w+\) \{ return; \} match self\.inner\.slot\.try_lock\(\) \{ TryLockResult::Ok\(mut v\) => \*v = Some\(event\), TryLockResult::Err\(TryLockError::WouldBlock\) => \{\} TryLockResult::Err\(TryLockError::Poisoned\(_\)\) => panic!\(\), \}\s*", eswrite) is not None
    out.append("/-- `EventBufferWriter::write`: closed → ignored; else one lock acquisition covers the eviction of the oldest event (when full) and the insertion -/\ndef sinkBufferWriteIsOneCriticalSection : Bool := " + b(buf_one))
    out.append("/-- `EventSlotWriter::write`: closed → ignored (the slot is not touched); else the event replaces the content under the lock -/\ndef sinkSlotWriteIgnoredWhenClosed : Bool := " + b(slot_one))
    # ---- ports/output/broadcaster.rs: the owner loop of BroadcastFuture::poll around the task set
    bc = norm(rd("ports/output/broadcaster.rs"))
    owner_loop = re.search(r"loop \{ if !this\.shared\.task_set\.has_scheduled\(\) \{ this\.shared\.wake_sink\.register\(cx\.waker\(\)\); \} let scheduled_tasks = match this\.shared\.task_set\.take_scheduled\(1\) \{ Some\(st\) => st, None => return Poll::Pending, \}; for task_idx in scheduled_tasks \{", bc) is not None
    out.append("/-- `BroadcastFuture::poll`: in its loop the parent's waker is registered (when nothing is scheduled) before `take_scheduled(1)`, `None` returns `Pending`, otherwise the iterator is walked -/\ndef bcastRegistersBeforeTake : Bool := " + b(owner_loop))
    sbc = norm(rd("ports/source/broadcaster.rs"))
    src_owner_loop = re.search(r"loop \{ if !this\.task_set\.has_scheduled\(\) \{ this\.wake_sink\.register\(cx\.waker\(\)\); \} let scheduled_tasks = match this\.task_set\.take_scheduled\(1\) \{ Some\(st\) => st, None => return Poll::Pending, \}; for task_idx in scheduled_tasks \{", sbc) is not None
    out.append("/-- the same loop in the source-side `BroadcastFuture::poll` (`ports/source/broadcaster.rs`) -/\ndef srcBcastRegistersBeforeTake : Bool := " + b(src_owner_loop))
    # ---- executor/mt_executor/injector.rs: every operation updates the vector and the flag inside one critical section
    ij = norm(rd("executor/mt_executor/injector.rs"))
    ij_pop = fn_body(ij, r"pub\(crate\) fn pop_bucket\(&self\)[^{]*\{")
    ij_push = fn_body(ij, r"pub\(crate\) fn push_bucket\(&self, bucket: Bucket<T, BUCKET_CAPACITY>\) \{")
    ij_ins = fn_body(ij, r"pub\(crate\) fn insert_task\(&self, task: T\) \{")
    if None in (ij_pop, ij_push, ij_ins):
        die("injector.rs: pop_bucket / push_bucket / insert_task not found")
    pop_ok = re.fullmatch(r"\s*if self\.is_empty\.load\(Ordering::\w+\) \{ return None; \} let mut inner = self\.inner\.lock\(\)\.unwrap\(\); let bucket = inner\.pop\(\); if inner\.is_empty\(\) \{ self\.is_empty\.store\(true, Ordering::\w+\); \} bucket\s*", ij_pop) is not None
    push_ok = re.fullmatch(r"\s*let mut inner = self\.inner\.lock\(\)\.unwrap\(\); let was_empty = inner\.is_empty\(\); inner\.push\(bucket\); if was_empty \{ self\.is_empty\.store\(false, Ordering::\w+\); \}\s*", ij_push) is not None
    ins_ok = ij_ins.strip().startswith("let mut inner = self.inner.lock().unwrap();") and ij_ins.strip().endswith("inner.push(new_bucket); self.is_empty.store(false, Ordering::Relaxed);") and "drop(inner)" not in ij_ins
    out.append("/-- `Injector::{pop_bucket, push_bucket, insert_task}` change the vector and the `is_empty` flag inside one critical section of the mutex (the guard lives to the end of the function) -/\ndef injOperationsAreCriticalSections : Bool := " + b(pop_ok and push_ok and ins_ok))
    crw = norm(rd("util/cached_rw_lock.rs"))
    wbody = fn_body(crw, r"fn write\s*\(&mut self\)[^{]*\{")
    if wbody is None:
        die("CachedRwLock::write not found")
    shared_epoch = re.search(r"let guard = self\.shared\.value\.lock\(\); let epoch = self\.shared\.epoch\.load\(Ordering::\w+\) \+ 1; self\.shared\.epoch\.store\(epoch, Ordering::\w+\);", wbody) is not None
    out.append("/-- `CachedRwLock::write` takes the lock, then bumps the *shared* epoch -/\ndef lockWriteBumpsSharedEpoch : Bool := " + b(shared_epoch))
    # ---- util/bit.rs, util/rng.rs, pool_manager.rs: the bit-level core of work stealing (M-STEAL)
    bitsrc = rd("util/bit.rs"); rngsrc = rd("util/rng.rs"); pmsrc = rd("executor/mt_executor/pool_manager.rs")
    fbit = fn_body(bitsrc, r"fn\s+find_bit\b[^{]*\{")
    smask = fn_body(bitsrc, r"const\s+fn\s+sum_masks\b[^{]*\{")
    gbnd = fn_body(rngsrc, r"fn\s+gen_bounded\b[^{]*\{")
    srank = re.search(r"bit::find_bit\s*\(\s*candidates\s*,\s*\|count\|\s*\{(.*?)\}\s*\)", pmsrc, re.S)
    ssimpl = re.search(r"impl<'a> ShuffledStealers<'a>\s*\{", pmsrc)
    ssnew = fn_body(pmsrc[ssimpl.end():], r"fn\s+new\b[^{]*\{") if ssimpl else None
    if None in (fbit, smask, gbnd, srank, ssnew):
        die("find_bit / sum_masks / gen_bounded / the rank closure of ShuffledStealers::new not found")
    out.append("/-- body of `find_bit` (util/bit.rs), comments stripped, white space normalised -/\ndef findBitSrc : String := " + json.dumps(norm(fbit).strip()))
    out.append("/-- body of `sum_masks` (util/bit.rs) -/\ndef sumMasksSrc : String := " + json.dumps(norm(smask).strip()))
    out.append("/-- body of `Rng::gen_bounded` (util/rng.rs) -/\ndef genBoundedSrc : String := " + json.dumps(norm(gbnd).strip()))
    out.append("/-- body of `ShuffledStealers::new` (pool_manager.rs) -/\ndef stealNewSrc : String := " + json.dumps(norm(ssnew).strip()))
    out.append("/-- the rank closure handed to `find_bit` by `ShuffledStealers::new` (pool_manager.rs) -/\ndef stealRankSrc : String := " + json.dumps(norm(srank.group(1)).strip()))
    out.append("")
    # names inside the expressions refer to the other constants
    text = "\n".join(out)
    for c in ["POLLING", "CLOSED", "REF_MASK", "REF_INC", "REF_CRITICAL", "WAKE_MASK", "WAKE_INC", "WAKE_CRITICAL"]:
        text = re.sub(r"(?<![A-Za-z_])" + c + r"(?![A-Za-z_0-9])", "task" + c, text)
    text = text.replace("def tasktask", "def task")
    text += "\nend NexoVerif.Extracted\n"
    old = open(out_path).read() if os.path.exists(out_path) else None
    if old != text:
        with open(out_path, "w") as f:
            f.write(text)
        print("extract.py: Extracted.lean updated")
    return 0

if __name__ == "__main__":
    sys.exit(main())
