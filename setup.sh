#!/bin/sh
# MANIFEST.setup_cmd — build the framework offline from files on disk.
set -e
cd "$(dirname "$0")"
export CARGO_NET_OFFLINE=true
mkdir -p .cache evidence replays
[ -f extract/extract.py ] && python3 extract/extract.py /repo lean/NexoVerif/Extracted.lean || true
(cd lean && lake build NexoVerif nexo_driver)
cp -f /repo/Cargo.lock harness/Cargo.lock
(cd harness && cargo build --release --offline)
echo "setup ok"
