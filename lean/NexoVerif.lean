import NexoVerif.Props.C01
import NexoVerif.Props.C07
import NexoVerif.Props.C08
import NexoVerif.Props.C09
import NexoVerif.Props.C10
import NexoVerif.Props.C17
import NexoVerif.Props.C18
import NexoVerif.Props.C20
