import NexoVerif.Model.Sink
import NexoVerif.Lemmas.SinkLemmas
import NexoVerif.Props.C17
