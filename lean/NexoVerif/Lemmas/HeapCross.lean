import NexoVerif.Lemmas.HeapBasic
/-! M-HEAP: the cross-indexing of heap and slab, with and without a vacant spot. -/
namespace NexoVerif.Heap

/-- heap → slab and slab → heap indices agree, except at the vacant spot `hole` of the heap and for the slab node `own`
of the item kept aside (whose back-pointer is stale until the item is placed) -/
structure Cross (h : Array HItem) (s : Array SNode) (hole own : Nat) : Prop where
  fwd : ∀ k, k < h.size → k ≠ hole →
    (rd h k).slab < s.size ∧ (rd h k).slab ≠ own ∧ ∃ v, rd s (rd h k).slab = .used v k
  bwd : ∀ j v hi, j < s.size → rd s j = .used v hi → j ≠ own → hi < h.size ∧ hi ≠ hole ∧ (rd h hi).slab = j
  ownUsed : own < s.size ∧ ∃ v hi, rd s own = .used v hi
  holeIn : hole < h.size

/-- the indices agree everywhere -/
structure XInv (h : Array HItem) (s : Array SNode) : Prop where
  fwd : ∀ k, k < h.size → (rd h k).slab < s.size ∧ ∃ v, rd s (rd h k).slab = .used v k
  bwd : ∀ j v hi, j < s.size → rd s j = .used v hi → hi < h.size ∧ (rd h hi).slab = j

theorem XInv.inj {h s} (x : XInv h s) {k k' : Nat} (hk : k < h.size) (hk' : k' < h.size)
    (e : (rd h k).slab = (rd h k').slab) : k = k' := by
  obtain ⟨_, v, h1⟩ := x.fwd k hk
  obtain ⟨_, v', h2⟩ := x.fwd k' hk'
  rw [e] at h1; rw [h1] at h2; injection h2

theorem Cross.inj {h s hole own} (x : Cross h s hole own) {k k' : Nat} (hk : k < h.size) (hk' : k' < h.size)
    (n : k ≠ hole) (n' : k' ≠ hole) (e : (rd h k).slab = (rd h k').slab) : k = k' := by
  obtain ⟨_, _, v, h1⟩ := x.fwd k hk n
  obtain ⟨_, _, v', h2⟩ := x.fwd k' hk' n'
  rw [e] at h1; rw [h1] at h2; injection h2

/-- placing the item closes the hole -/
theorem Cross.placed {h s hole} {item : HItem} (x : Cross h s hole item.slab) :
    XInv (place h s item hole).1 (place h s item hole).2 := by
  obtain ⟨hown, v0, hi0, hv0⟩ := x.ownUsed
  have hh := x.holeIn
  constructor
  · intro k hk
    simp only [place, size_wr, size_setH] at hk ⊢
    by_cases e : k = hole
    · subst e
      rw [rd_wr_same _ _ _ hh]
      exact ⟨hown, v0, rd_setH_same _ _ _ _ _ hown hv0⟩
    · rw [rd_wr_other _ _ _ _ (Ne.symm e)]
      obtain ⟨a, b, v, c⟩ := x.fwd k hk e
      exact ⟨a, v, by rw [rd_setH_other _ _ _ _ (Ne.symm b)]; exact c⟩
  · intro j v hi hj hu
    simp only [place, size_wr, size_setH] at hj hu ⊢
    by_cases e : j = item.slab
    · subst e
      rw [rd_setH_same _ _ _ _ _ hown hv0] at hu
      injection hu with _ e2
      subst e2
      exact ⟨hh, by rw [rd_wr_same _ _ _ hh]⟩
    · rw [rd_setH_other _ _ _ _ (Ne.symm e)] at hu
      obtain ⟨a, b, c⟩ := x.bwd j v hi hj hu e
      exact ⟨a, by rw [rd_wr_other _ _ _ _ (Ne.symm b)]; exact c⟩

/-- moving the element at `p` into the hole `i` moves the hole to `p` -/
theorem Cross.moved {h s i own} (x : Cross h s i own) {p : Nat} (hp : p < h.size) (hpi : p ≠ i) :
    Cross (wr h i (rd h p)) (setH s (rd h p).slab i) p own := by
  obtain ⟨hown, v0, hi0, hv0⟩ := x.ownUsed
  have hh := x.holeIn
  obtain ⟨pa, pb, pv, pc⟩ := x.fwd p hp hpi
  constructor
  · intro k hk kp
    simp only [size_wr, size_setH] at hk ⊢
    by_cases e : k = i
    · subst e
      rw [rd_wr_same _ _ _ hh]
      exact ⟨pa, pb, pv, rd_setH_same _ _ _ _ _ pa pc⟩
    · rw [rd_wr_other _ _ _ _ (Ne.symm e)]
      obtain ⟨a, b, v, c⟩ := x.fwd k hk e
      have ne : (rd h p).slab ≠ (rd h k).slab := fun q => kp (x.inj hp hk hpi e q).symm
      exact ⟨a, b, v, by rw [rd_setH_other _ _ _ _ ne]; exact c⟩
  · intro j v hi hj hu jo
    simp only [size_wr, size_setH] at hj hu ⊢
    by_cases e : j = (rd h p).slab
    · subst e
      rw [rd_setH_same _ _ _ _ _ pa pc] at hu
      injection hu with _ e2
      subst e2
      exact ⟨hh, Ne.symm hpi, by rw [rd_wr_same _ _ _ hh]⟩
    · rw [rd_setH_other _ _ _ _ (Ne.symm e)] at hu
      obtain ⟨a, b, c⟩ := x.bwd j v hi hj hu jo
      have : hi ≠ p := fun q => e (by rw [← c, q])
      exact ⟨a, this, by rw [rd_wr_other _ _ _ _ (Ne.symm b)]; exact c⟩
  · refine ⟨by simpa using hown, ?_⟩
    rw [rd_setH_other _ _ _ _ pb]
    exact ⟨v0, hi0, hv0⟩
  · simpa using hp

@[simp] theorem siftUp_size1 (h s item i) : (siftUp h s item i).1.size = h.size := by
  fun_induction siftUp h s item i <;> simp_all +zetaDelta [place]

@[simp] theorem siftUp_size2 (h s item i) : (siftUp h s item i).2.size = s.size := by
  fun_induction siftUp h s item i <;> simp_all +zetaDelta [place]

@[simp] theorem siftDown_size1 (h s item p) : (siftDown h s item p).1.size = h.size := by
  fun_induction siftDown h s item p <;> simp_all +zetaDelta [place]

@[simp] theorem siftDown_size2 (h s item p) : (siftDown h s item p).2.size = s.size := by
  fun_induction siftDown h s item p <;> simp_all +zetaDelta [place]

theorem siftUp_cross (h s) (item : HItem) (i) (x : Cross h s i item.slab) :
    XInv (siftUp h s item i).1 (siftUp h s item i).2 := by
  fun_induction siftUp h s item i with
  | case1 h s => exact x.placed
  | case2 h s i h0 p hlt => exact x.placed
  | case3 h s i h0 p hlt h' s' hlt2 =>
    rw [show rd h' p = rd h p from rd_wr_other _ _ _ _ (by omega)] at hlt2
    exact absurd hlt2 hlt
  | case4 h s i h0 p hlt h' s' hlt2 ih =>
    have hp : p < h.size := by have := x.holeIn; omega
    exact ih (x.moved hp (by omega))

theorem pickChild_cases (h : Array HItem) (c : Nat) : pickChild h c = c ∨ (pickChild h c = c + 1 ∧ c + 1 < h.size) := by
  unfold pickChild; split
  · rename_i hh; exact Or.inr ⟨rfl, hh.1⟩
  · exact Or.inl rfl

theorem siftDown_cross (h s) (item : HItem) (p) (x : Cross h s p item.slab) :
    XInv (siftDown h s item p).1 (siftDown h s item p).2 := by
  fun_induction siftDown h s item p with
  | case1 h s p hc c hlt => exact x.placed
  | case2 h s p hc c hlt ih =>
    have hcs : c < h.size ∧ c ≠ p := by
      rcases pickChild_cases h (2 * p + 1) with e | ⟨e, e2⟩ <;> (simp only [c]; omega)
    exact ih (x.moved hcs.1 hcs.2)
  | case3 h s p hc => exact x.placed

end NexoVerif.Heap
