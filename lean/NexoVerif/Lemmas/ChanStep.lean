import NexoVerif.Lemmas.ChanInv
namespace NexoVerif.Chan
set_option linter.unusedSimpArgs false
set_option linter.unusedVariables false
set_option maxHeartbeats 4000000

theorem holders_upd1 (s s' : St) (i : Nat) (hi : i < s.n) (hn : s'.n = s.n)
    (ho : ∀ j, j < s.n → j ≠ i → s'.spc j = s.spc j ∧ s'.inset j = s.inset j) :
    holders s' + holder (s.spc i) (s.inset i) = holders s + holder (s'.spc i) (s'.inset i) := by
  unfold holders; rw [hn]
  exact total_upd1 s.n (fun j => holder (s.spc j) (s.inset j)) (fun j => holder (s'.spc j) (s'.inset j)) i hi
    (fun j hj hji => by show holder (s'.spc j) (s'.inset j) = holder (s.spc j) (s.inset j); rw [(ho j hj hji).1, (ho j hj hji).2])

theorem holders_upd2 (s s' : St) (i k : Nat) (hi : i < s.n) (hk : k < s.n) (hik : i ≠ k) (hn : s'.n = s.n)
    (ho : ∀ j, j < s.n → j ≠ i → j ≠ k → s'.spc j = s.spc j ∧ s'.inset j = s.inset j) :
    holders s' + holder (s.spc i) (s.inset i) + holder (s.spc k) (s.inset k) =
      holders s + holder (s'.spc i) (s'.inset i) + holder (s'.spc k) (s'.inset k) := by
  unfold holders; rw [hn]
  exact total_upd2 s.n (fun j => holder (s.spc j) (s.inset j)) (fun j => holder (s'.spc j) (s'.inset j)) i k hi hk hik
    (fun j hj hji hjk => by
      show holder (s'.spc j) (s'.inset j) = holder (s.spc j) (s.inset j)
      rw [(ho j hj hji hjk).1, (ho j hj hji hjk).2])

theorem holders_same (s s' : St) (hn : s'.n = s.n)
    (ho : ∀ j, j < s.n → s'.spc j = s.spc j ∧ s'.inset j = s.inset j) : holders s' = holders s := by
  unfold holders; rw [hn]
  exact total_congr s.n (fun j => holder (s.spc j) (s.inset j)) (fun j => holder (s'.spc j) (s'.inset j))
    (fun j hj => by show holder (s'.spc j) (s'.inset j) = holder (s.spc j) (s.inset j); rw [(ho j hj).1, (ho j hj).2])

theorem pushers_upd1 (s s' : St) (i : Nat) (hi : i < s.n) (hn : s'.n = s.n)
    (ho : ∀ j, j < s.n → j ≠ i → s'.spc j = s.spc j) :
    pushers s' + pusher (s.spc i) = pushers s + pusher (s'.spc i) := by
  unfold pushers; rw [hn]
  exact total_upd1 s.n (fun j => pusher (s.spc j)) (fun j => pusher (s'.spc j)) i hi
    (fun j hj hji => by show pusher (s'.spc j) = pusher (s.spc j); rw [ho j hj hji])

theorem pushers_same (s s' : St) (hn : s'.n = s.n) (ho : ∀ j, j < s.n → s'.spc j = s.spc j) :
    pushers s' = pushers s := by
  unfold pushers; rw [hn]
  exact total_congr s.n (fun j => pusher (s.spc j)) (fun j => pusher (s'.spc j))
    (fun j hj => by show pusher (s'.spc j) = pusher (s.spc j); rw [ho j hj])

/-- sleepers other than `i` are the same in two states that differ only at sender `i` -/
theorem sleeping_other (s s' : St) (i j : Nat) (hn : s'.n = s.n) (hji : j ≠ i)
    (ho : ∀ j, j < s.n → j ≠ i → s'.spc j = s.spc j ∧ s'.inset j = s.inset j) (h : Sleeping s' j) : Sleeping s j := by
  obtain ⟨hj, hp, hb⟩ := h
  rw [hn] at hj
  exact ⟨hj, by rw [← (ho j hj hji).1]; exact hp, by rw [← (ho j hj hji).2]; exact hb⟩

/-- a step of sender `i` that changes nothing but its own program counter and wait-set membership, the two counters
and (for `notify`) the receiver's registration -/
theorem inv_sender_local (s s' : St) (i : Nat) (h : Inv s) (hi : i < s.n) (hn : s'.n = s.n) (hcap : s'.cap = s.cap)
    (ho : ∀ j, j < s.n → j ≠ i → s'.spc j = s.spc j ∧ s'.inset j = s.inset j) (hrpc : s'.rpc = s.rpc)
    (hcpc : s'.cpc = s.cpc) (hclosed : s'.closed = s.closed)
    (hocc : s'.occ ≤ s'.cap) (hmsgs : s'.msgs + s.occ ≤ s.msgs + s'.occ)
    (hni : (s'.spc i = .idle ∨ s'.spc i = .try1 ∨ s'.spc i = .ins ∨ s'.spc i = .notifyRecv) → s'.inset i = false)
    -- the balance of the senders' side
    (hs : (Sleeping s' i → (Sleeping s i ∨ s.closed = false) ∧ s'.occ = s'.cap) ∧
      (s.occ + holder (s.spc i) (s.inset i) ≤ s'.occ + holder (s'.spc i) (s'.inset i) ∨ s'.occ = s'.cap ∨
        s'.cpc = true ∨ (s'.closed = true ∧ s'.cpc = false)))
    -- the balance of the receiver's side
    (hr : (s'.rreg = true → s.rreg = true) ∧
      (s'.rreg = true → s'.msgs + pusher (s.spc i) ≤ s.msgs + pusher (s'.spc i))) : Inv s' := by
  have hH := holders_upd1 s s' i hi hn ho
  have hP := pushers_upd1 s s' i hi hn (fun j hj hji => (ho j hj hji).1)
  have hbor : rborrow s' = rborrow s := by unfold rborrow; rw [hrpc]
  refine ⟨hocc, by have := h.msgsLe; omega, ?_, ?_, ?_, by rw [hcpc, hclosed]; exact h.cpcClosed, ?_⟩
  · intro j hj hp
    rw [hn] at hj
    by_cases hji : j = i
    · subst hji; exact hni hp
    · rw [(ho j hj hji).1] at hp; rw [(ho j hj hji).2]; exact h.notInset j hj hp
  · rintro ⟨j, hsl⟩
    have hrt : rtoken s' = rtoken s := by unfold rtoken; rw [hrpc]
    have hct : ctoken s' = ctoken s := by unfold ctoken; rw [hcpc, hcap]
    by_cases hji : j = i
    · subst hji
      have := (hs.1 hsl).2
      omega
    · have := h.senders ⟨j, sleeping_other s s' i j hn hji ho hsl⟩
      rcases hs.2 with h2 | h2 | h2 | ⟨h2, h3⟩
      · rw [hcap, hrt, hct]; omega
      · omega
      · have : ctoken s' = s'.cap := by unfold ctoken; rw [h2]; rfl
        omega
      · rw [hclosed] at h2; rw [hcpc] at h3
        exact absurd (sleeping_other s s' i j hn hji ho hsl) (h.noSleepAfterClose h2 h3 j)
  · rintro ⟨hp, hreg⟩
    have := h.receiver ⟨by rw [← hrpc]; exact hp, hr.1 hreg⟩
    have := hr.2 hreg
    omega

  · intro hcl hcp j hsl
    rw [hclosed] at hcl; rw [hcpc] at hcp
    by_cases hji : j = i
    · subst hji
      rcases (hs.1 hsl).1 with a | a
      · exact h.noSleepAfterClose hcl hcp j a
      · rw [hcl] at a; cases a
    · exact h.noSleepAfterClose hcl hcp j (sleeping_other s s' i j hn hji ho hsl)

end NexoVerif.Chan
