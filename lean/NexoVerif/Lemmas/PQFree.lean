import NexoVerif.Lemmas.PQLemmas
/-! The free list of the keyed queue is a proper list of free nodes: `insert` never finds a used node or an index
outside the slab at its head (the `unwrap_next_free_node` / index panic of the code). -/
namespace NexoVerif.PQ

/-- the nodes reached from `ff` through the `next` links, in order -/
inductive Chain (slab : List Node) : Option Nat → List Nat → Prop
  | nil : Chain slab none []
  | cons {i : Nat} {nx : Option Nat} {l : List Nat} :
      slab[i]? = some (Node.free nx) → Chain slab nx l → Chain slab (some i) (i :: l)

def FreeOK (q : IPQ) : Prop := ∃ l, Chain q.slab q.firstFree l ∧ l.Nodup

theorem Chain.set {slab : List Node} {ff : Option Nat} {l : List Nat} (c : Chain slab ff l) (i : Nat) (n : Node)
    (h : ∀ j, j ∈ l → j ≠ i) : Chain (slab.set i n) ff l := by
  induction c with
  | nil => exact Chain.nil
  | @cons j nx l' hj _ ih =>
    refine Chain.cons ?_ (ih (fun k hk => h k (List.mem_cons_of_mem _ hk)))
    rw [List.getElem?_set_ne (Ne.symm (h j (List.mem_cons_self)))]
    exact hj

theorem Chain.append {slab : List Node} {ff : Option Nat} {l : List Nat} (c : Chain slab ff l) (n : Node) :
    Chain (slab ++ [n]) ff l := by
  induction c with
  | nil => exact Chain.nil
  | @cons j nx l' hj _ ih =>
    refine Chain.cons ?_ ih
    have : j < slab.length := by
      rcases Nat.lt_or_ge j slab.length with h | h
      · exact h
      · rw [List.getElem?_eq_none h] at hj; cases hj
    rw [List.getElem?_append_left this]
    exact hj

theorem Chain.free_mem {slab : List Node} {ff : Option Nat} {l : List Nat} (c : Chain slab ff l) :
    ∀ j, j ∈ l → ∃ nx, slab[j]? = some (Node.free nx) := by
  induction c with
  | nil => intro j hj; cases hj
  | @cons i nx l' hj _ ih =>
    intro j hm
    rcases List.mem_cons.mp hm with e | e
    · subst e; exact ⟨nx, hj⟩
    · exact ih j e

theorem freeOK_new : FreeOK IPQ.new := ⟨[], Chain.nil, List.nodup_nil⟩

/-- freeing a used node puts it at the head of the list -/
theorem freeOK_free {q : IPQ} (f : FreeOK q) (i : Nat) (it : Item) (hu : q.slab[i]? = some (Node.used it)) :
    FreeOK { q with slab := q.slab.set i (Node.free q.firstFree), firstFree := some i } := by
  obtain ⟨l, c, nd⟩ := f
  have ni : ∀ j, j ∈ l → j ≠ i := by
    intro j hj e
    obtain ⟨nx, h⟩ := c.free_mem j hj
    rw [e, hu] at h; cases h
  have il : i < q.slab.length := by
    rcases Nat.lt_or_ge i q.slab.length with h | h
    · exact h
    · rw [List.getElem?_eq_none h] at hu; cases hu
  refine ⟨i :: l, Chain.cons ?_ (c.set i _ ni), List.nodup_cons.mpr ⟨fun h => ni i h rfl, nd⟩⟩
  simp [il]

theorem freeOK_step (q : IPQ) (op : IOp) (f : FreeOK q) : FreeOK (q.stepOp op) ∧ (q.err = false → (q.stepOp op).err = false) := by
  cases op with
  | ins k v =>
    simp only [IPQ.stepOp]
    unfold IPQ.insert
    obtain ⟨l, c, nd⟩ := f
    cases hff : q.firstFree with
    | none =>
      simp only
      rw [hff] at c
      exact ⟨⟨l, by simpa [hff] using c.append _, nd⟩, fun h => h⟩
    | some idx =>
      simp only
      rw [hff] at c
      cases c with
      | @cons _ nx l' hj c' =>
        simp only [hj]
        have nd' := List.nodup_cons.mp nd
        exact ⟨⟨l', c'.set idx _ (fun j hj e => nd'.1 (e ▸ hj)), nd'.2⟩, fun h => h⟩
  | pull =>
    simp only [IPQ.stepOp]
    unfold IPQ.pull
    cases hm : minUsed q.slab 0 with
    | none => exact ⟨f, fun h => h⟩
    | some r =>
      obtain ⟨i, it⟩ := r
      obtain ⟨_, h2, _⟩ := minUsed_spec q.slab 0 i it hm
      simp only [Nat.sub_zero] at h2
      exact ⟨freeOK_free f i it h2, fun h => h⟩
  | ext i e =>
    simp only [IPQ.stepOp]
    unfold IPQ.extract
    split
    · rename_i it hs
      split
      · exact ⟨f, fun h => h⟩
      · exact ⟨freeOK_free f i it hs, fun h => h⟩
    · exact ⟨f, fun h => h⟩

theorem never_panics_aux (ops : List IOp) : ∀ q, FreeOK q → q.err = false → (q.runOps ops).err = false := by
  induction ops with
  | nil => intro q _ h; exact h
  | cons op ops ih =>
    intro q f h
    exact ih _ (freeOK_step q op f).1 ((freeOK_step q op f).2 h)

end NexoVerif.PQ
