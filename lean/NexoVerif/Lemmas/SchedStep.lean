import NexoVerif.Lemmas.SchedInv
/-! The locked phase of `step_to_next_bounded`: discard, pull loop, fuel sufficiency (M-SCHED). -/
namespace NexoVerif.Sched

/-- weak invariant used while the lock is held in `stepNext`: pending entries are not before `t` -/
structure InvW (t : Nat) (s : St) : Prop where
  sorted : Sorted s.queue
  future : ∀ e ∈ s.queue, t ≤ e.time
  period : ∀ e ∈ s.queue, e.period ≠ some 0
  epoch  : ∀ e ∈ s.queue, e.epoch < s.nextEpoch

theorem Inv.toW {s : St} (h : Inv s) (t : Nat) (ht : t ≤ s.now + 1) : InvW t s :=
  ⟨h.sorted, fun e he => by have := h.future e he; omega, h.period, h.epoch⟩

/-! ### discardCancelled -/

theorem discard_go_spec (bound : Option Nat) (q : List Entry) (s : St) :
    ∃ q', (discardCancelled.go bound q s).queue = q' ∧ q'.Sublist q ∧
      (discardCancelled.go bound q s).now = s.now ∧
      (discardCancelled.go bound q s).nextEpoch = s.nextEpoch ∧
      (discardCancelled.go bound q s).cancelled = s.cancelled ∧
      (discardCancelled.go bound q s).terminated = s.terminated ∧
      (discardCancelled.go bound q s).tol = s.tol ∧
      (discardCancelled.go bound q s).syncCalls = s.syncCalls := by
  induction q generalizing s with
  | nil => exact ⟨[], rfl, List.Sublist.refl _, rfl, rfl, rfl, rfl, rfl, rfl⟩
  | cons e es ih =>
    unfold discardCancelled.go
    split
    · obtain ⟨q', h1, h2, h3⟩ := ih { s with log := .discard e.aid :: s.log }
      exact ⟨q', h1, h2.cons _, h3⟩
    · exact ⟨e :: es, rfl, List.Sublist.refl _, rfl, rfl, rfl, rfl, rfl, rfl⟩

theorem discard_spec (bound : Option Nat) (s : St) :
    (discardCancelled bound s).queue.Sublist s.queue ∧
      (discardCancelled bound s).now = s.now ∧
      (discardCancelled bound s).nextEpoch = s.nextEpoch ∧
      (discardCancelled bound s).cancelled = s.cancelled ∧
      (discardCancelled bound s).terminated = s.terminated ∧
      (discardCancelled bound s).tol = s.tol ∧
      (discardCancelled bound s).syncCalls = s.syncCalls := by
  obtain ⟨q', h1, h2, h3⟩ := discard_go_spec bound s.queue s
  unfold discardCancelled
  exact ⟨h1 ▸ h2, h3⟩

theorem sorted_sublist {l l' : List Entry} (h : l'.Sublist l) (hs : Sorted l) : Sorted l' :=
  List.Pairwise.sublist h hs

theorem discard_invW (bound : Option Nat) (t : Nat) (s : St) (h : InvW t s) : InvW t (discardCancelled bound s) := by
  obtain ⟨hsub, _, hep, _⟩ := discard_spec bound s
  exact ⟨sorted_sublist hsub h.sorted, fun e he => h.future e (hsub.subset he),
         fun e he => h.period e (hsub.subset he), fun e he => by rw [hep]; exact h.epoch e (hsub.subset he)⟩

theorem discard_inv (bound : Option Nat) (s : St) (h : Inv s) : Inv (discardCancelled bound s) := by
  obtain ⟨hsub, hnow, hep, _⟩ := discard_spec bound s
  exact ⟨sorted_sublist hsub h.sorted, fun e he => by rw [hnow]; exact h.future e (hsub.subset he),
         fun e he => h.period e (hsub.subset he), fun e he => by rw [hep]; exact h.epoch e (hsub.subset he)⟩

/-! ### pullHead -/

theorem pullHead_spec {s : St} {e : Entry} {s' : St} (h : pullHead s = some (e, s')) :
    ∃ es, s.queue = e :: es ∧ s'.now = s.now ∧ s'.cancelled = s.cancelled ∧ s'.terminated = s.terminated ∧
      s'.tol = s.tol ∧ s'.syncCalls = s.syncCalls ∧ s'.log = s.log ∧
      ((e.period = none ∧ s'.queue = es ∧ s'.nextEpoch = s.nextEpoch) ∨
       (∃ p, e.period = some p ∧ s'.queue = insert { e with time := e.time + p, epoch := s.nextEpoch } es ∧
          s'.nextEpoch = s.nextEpoch + 1)) := by
  unfold pullHead at h
  split at h
  · simp at h
  · rename_i x xs hq
    split at h
    · rename_i hp
      simp at h; obtain ⟨rfl, rfl⟩ := h
      exact ⟨xs, hq, rfl, rfl, rfl, rfl, rfl, rfl, Or.inl ⟨hp, rfl, rfl⟩⟩
    · rename_i p hp
      simp at h; obtain ⟨rfl, rfl⟩ := h
      exact ⟨xs, hq, rfl, rfl, rfl, rfl, rfl, rfl, Or.inr ⟨p, hp, rfl, rfl⟩⟩

theorem pullHead_invW {t : Nat} {s : St} {e : Entry} {s' : St} (h : pullHead s = some (e, s'))
    (hi : InvW t s) : InvW t s' := by
  obtain ⟨es, hq, _, _, _, _, _, _, hcase⟩ := pullHead_spec h
  have hs : Sorted es := by have := hi.sorted; rw [hq] at this; exact (List.pairwise_cons.mp this).2
  have hmem : ∀ x ∈ es, x ∈ s.queue := fun x hx => by rw [hq]; simp [hx]
  have he : e ∈ s.queue := by rw [hq]; simp
  rcases hcase with ⟨_, hq', hep⟩ | ⟨p, hp, hq', hep⟩
  · exact ⟨hq' ▸ hs, fun x hx => hi.future x (hmem x (hq' ▸ hx)), fun x hx => hi.period x (hmem x (hq' ▸ hx)),
           fun x hx => by rw [hep]; exact hi.epoch x (hmem x (hq' ▸ hx))⟩
  · refine ⟨?_, ?_, ?_, ?_⟩
    · rw [hq']; apply sorted_insert hs
      intro x hx; have := hi.epoch x (hmem x hx); simp only; omega
    · intro x hx; rw [hq'] at hx
      rcases mem_insert.mp hx with rfl | hx
      · have := hi.future e he; simp only; omega
      · exact hi.future x (hmem x hx)
    · intro x hx; rw [hq'] at hx
      rcases mem_insert.mp hx with rfl | hx
      · simp only; have := hi.period e he; rw [hp] at this ⊢; exact this
      · exact hi.period x (hmem x hx)
    · intro x hx; rw [hq'] at hx; rw [hep]
      rcases mem_insert.mp hx with rfl | hx
      · simp only; omega
      · have := hi.epoch x (hmem x hx); omega

/-! ### pullAll -/

def cnt (t : Nat) (q : List Entry) : Nat := (q.filter (fun e => e.time == t)).length

theorem cnt_sublist {t : Nat} {q q' : List Entry} (h : q'.Sublist q) : cnt t q' ≤ cnt t q :=
  (h.filter _).length_le

theorem cnt_insert_ne {t : Nat} {e : Entry} {q : List Entry} (h : e.time ≠ t) : cnt t (insert e q) = cnt t q := by
  induction q with
  | nil => simp [insert, cnt, h]
  | cons x xs ih =>
    unfold insert
    split
    · simp [cnt, List.filter_cons, h]
    · simp only [cnt, List.filter_cons] at ih ⊢
      split <;> simp [ih]

theorem pullAll_invW (bound : Option Nat) (t : Nat) (fuel : Nat) (s : St) (gs : List (List Entry)) (hi : InvW t s) :
    InvW t (pullAll bound t fuel s gs).1 ∧ (pullAll bound t fuel s gs).1.now = s.now := by
  induction fuel generalizing s gs with
  | zero => exact ⟨hi, rfl⟩
  | succ n ih =>
    unfold pullAll
    have hd := discard_invW bound t s hi
    have hnow := (discard_spec bound s).2.1
    simp only
    split
    · exact ⟨hd, hnow⟩
    · split
      · split
        · exact ⟨hd, hnow⟩
        · rename_i e' s' hp
          have := ih s' (addToGroups e' gs) (pullHead_invW hp hd)
          obtain ⟨_, _, hn, _⟩ := pullHead_spec hp
          exact ⟨this.1, by rw [this.2, hn, hnow]⟩
      · exact ⟨hd, hnow⟩

/-- with enough fuel, no entry due at `t` is left at the head -/
theorem pullAll_done (bound : Option Nat) (t : Nat) (fuel : Nat) (s : St) (gs : List (List Entry)) (hi : InvW t s)
    (hfuel : cnt t s.queue ≤ fuel) :
    ∀ e ∈ ((pullAll bound t fuel s gs).1.queue.head?), e.time ≠ t := by
  induction fuel generalizing s gs with
  | zero =>
    intro e he
    unfold pullAll at he
    have h0 : cnt t s.queue = 0 := by omega
    intro het
    have hmem : e ∈ s.queue := List.mem_of_mem_head? he
    have : 0 < cnt t s.queue := by
      unfold cnt
      apply List.length_pos_of_mem (a := e)
      simp [List.mem_filter, hmem, het]
    omega
  | succ n ih =>
    intro e he
    unfold pullAll at he
    have hd := discard_invW bound t s hi
    have hsub := (discard_spec bound s).1
    simp only at he
    split at he
    · rename_i hq; simp [hq] at he
    · rename_i x xs hq
      split at he
      · rename_i hxt
        split at he
        · rename_i hp; simp only [pullHead, hq] at hp; split at hp <;> simp at hp
        · rename_i e' s' hp
          obtain ⟨es, hq2, _, _, _, _, _, _, hcase⟩ := pullHead_spec hp
          have hee : e' = x ∧ es = xs := by rw [hq] at hq2; simp at hq2; exact ⟨hq2.1.symm, hq2.2.symm⟩
          have hcnt : cnt t s'.queue + 1 ≤ cnt t s.queue := by
            have h1 : cnt t (x :: xs) = cnt t xs + 1 := by simp [cnt, List.filter_cons, hxt]
            have h2 : cnt t (discardCancelled bound s).queue ≤ cnt t s.queue := cnt_sublist hsub
            rw [hq] at h2
            rcases hcase with ⟨_, hq', _⟩ | ⟨p, hpp, hq', _⟩
            · rw [hq', hee.2]; omega
            · rw [hq', hee.2, cnt_insert_ne]
              · omega
              · have hper := hd.period x (by rw [hq]; simp)
                rw [hee.1] at hpp
                simp only
                have : p ≠ 0 := by intro h0; rw [hpp, h0] at hper; exact hper rfl
                rw [hee.1]; omega
          exact ih s' _ (pullHead_invW hp hd) (by omega) e he
      · rename_i hxt
        simp [hq] at he; subst he; exact hxt

end NexoVerif.Sched
