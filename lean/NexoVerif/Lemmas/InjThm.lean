import NexoVerif.Model.Inj
namespace NexoVerif.Inj
set_option linter.unusedSimpArgs false
set_option linter.unusedVariables false

/-- the flag agrees with the vector; no bucket is empty or larger than the capacity -/
structure Inv (s : St) : Prop where
  flag : s.flag = s.inner.isEmpty
  sizes : ∀ b ∈ s.inner, 0 < b.length ∧ b.length ≤ s.cap
  cap : 0 < s.cap

/-- operations as the executor issues them: no empty bucket, no bucket above the capacity -/
def Op.ok (cap : Nat) : Op → Prop
  | .push b => 0 < b.length ∧ b.length ≤ cap
  | _ => True

theorem insert_inv (s : St) (t : Nat) (h : Inv s) : Inv (insertTask s t) := by
  obtain ⟨hf, hs, hc⟩ := h
  unfold insertTask
  split
  · rename_i first rest hin
    split
    · rename_i hlt
      refine ⟨by simp [hf, hin], ?_, hc⟩
      intro b hb
      simp only [List.mem_cons] at hb
      rcases hb with rfl | hb
      · simp; omega
      · exact hs b (by rw [hin]; exact List.mem_cons_of_mem _ hb)
    · rename_i hge
      refine ⟨by simp [hf, hin], ?_, hc⟩
      intro b hb
      simp only [List.mem_cons, List.mem_append, List.not_mem_nil, or_false] at hb
      rcases hb with (rfl | hb) | rfl
      · simp; omega
      · exact hs b (by rw [hin]; exact List.mem_cons_of_mem _ hb)
      · exact hs b (by rw [hin]; exact List.mem_cons_self)
  · rename_i hin
    refine ⟨by simp, ?_, hc⟩
    intro b hb
    simp at hb; subst hb; simp; omega

theorem push_inv (s : St) (b : List Nat) (h : Inv s) (hb : 0 < b.length ∧ b.length ≤ s.cap) : Inv (pushBucket s b) := by
  obtain ⟨hf, hs, hc⟩ := h
  unfold pushBucket
  refine ⟨?_, ?_, hc⟩
  · cases hi : s.inner with
    | nil => simp [hi]
    | cons x xs => simp [hi, hf]
  · intro x hx
    simp only [List.mem_append, List.mem_singleton] at hx
    rcases hx with hx | rfl
    · exact hs x hx
    · exact hb

theorem pop_inv (s : St) (h : Inv s) : Inv (popBucket s).1 := by
  obtain ⟨hf, hs, hc⟩ := h
  unfold popBucket
  split
  · exact ⟨hf, hs, hc⟩
  · rename_i hflag
    split
    · rename_i hnone
      have : s.inner = [] := by simpa using hnone
      exact ⟨by simp [this], by simp [this], hc⟩
    · rename_i b hsome
      refine ⟨?_, ?_, hc⟩
      · cases hd : s.inner.dropLast with
        | nil => simp [hd]
        | cons x xs =>
          have : s.flag = false := by cases hx : s.flag <;> simp_all
          simp [hd, this]
      · intro x hx
        exact hs x (List.dropLast_subset _ hx)

theorem step_inv (s : St) (o : Op) (h : Inv s) (ho : o.ok s.cap) : Inv (step s o) := by
  cases o with
  | insert t => exact insert_inv s t h
  | push b => exact push_inv s b h ho
  | pop => exact pop_inv s h

theorem step_cap (s : St) (o : Op) : (step s o).cap = s.cap := by
  cases o with
  | insert t => simp only [step, insertTask]; split <;> (try split) <;> rfl
  | push b => rfl
  | pop => simp only [step, popBucket]; split <;> (try split) <;> rfl

theorem run_inv (s : St) (ops : List Op) (h : Inv s) (ho : ∀ o ∈ ops, o.ok s.cap) : Inv (run s ops) := by
  induction ops generalizing s with
  | nil => exact h
  | cons o os ih =>
    refine ih (step s o) (step_inv s o h (ho o List.mem_cons_self)) ?_
    intro x hx; rw [step_cap]; exact ho x (List.mem_cons_of_mem _ hx)

/-- **pop_bucket answers `None` exactly when nothing is held** (and so does `is_empty`) -/
theorem pop_none_iff_empty (s : St) (h : Inv s) : (popBucket s).2 = none ↔ held s = [] := by
  have hf := h.flag
  unfold popBucket held
  split
  · rename_i hflag
    rw [hflag] at hf
    have : s.inner = [] := by simpa using hf.symm
    simp [this]
  · rename_i hflag
    have hff : s.flag = false := by cases hx : s.flag <;> simp_all
    rw [hff] at hf
    cases hi : s.inner with
    | nil => simp [hi] at hf
    | cons x xs =>
      have hne : x :: xs ≠ [] := by simp
      have hsome : (x :: xs).getLast? = some ((x :: xs).getLast hne) := List.getLast?_eq_some_getLast hne
      rw [hsome]
      simp only [reduceCtorEq, false_iff]
      intro hflat
      have := h.sizes x (by rw [hi]; exact List.mem_cons_self)
      have : x = [] := by
        have := List.flatten_eq_nil_iff.mp hflat x List.mem_cons_self
        exact this
      subst this; simp at *

theorem split_last {α} (l : List α) (b : α) (h : l.getLast? = some b) : l = l.dropLast ++ [b] := by
  have hne : l ≠ [] := by intro e; subst e; simp at h
  have := List.dropLast_concat_getLast hne
  rw [List.getLast?_eq_some_getLast hne] at h
  injection h with h
  rw [← h]; exact this.symm

/-- one operation neither loses nor duplicates a task -/
theorem step_conserves (s : St) (o : Op) (h : Inv s) :
    List.Perm (held s ++ inp o) (out s o ++ held (step s o)) := by
  cases o with
  | insert t =>
    simp only [inp, out, step, List.nil_append, held, insertTask]
    cases hin : s.inner with
    | nil => simp
    | cons first rest =>
      simp only []
      split
      · apply List.perm_iff_count.mpr
        intro a
        simp [List.count_append, List.count_cons, List.flatten_cons]
      · apply List.perm_iff_count.mpr
        intro a
        simp [List.count_append, List.count_cons, List.flatten_cons, List.flatten_append, List.count_flatten]
        omega
  | push b => simp [inp, out, step, held, pushBucket, List.flatten_append]
  | pop =>
    simp only [inp, out, step, List.append_nil, held, popBucket]
    split
    · simp
    · split
      · rename_i hn
        have : s.inner = [] := by simpa using hn
        simp [this]
      · rename_i b hb
        simp only [Option.getD_some]
        have := split_last s.inner b hb
        conv => lhs; rw [this]
        simp [List.flatten_append]
        exact List.perm_append_comm

theorem run_conserves (s : St) (ops : List Op) (h : Inv s) (ho : ∀ o ∈ ops, o.ok s.cap) :
    List.Perm (held s ++ inps ops) (outs s ops ++ held (run s ops)) := by
  induction ops generalizing s with
  | nil => simp [inps, outs, run]
  | cons o os ih =>
    have h1 := step_conserves s o h
    have hi := step_inv s o h (ho o List.mem_cons_self)
    have h2 := ih (step s o) hi (by intro x hx; rw [step_cap]; exact ho x (List.mem_cons_of_mem _ hx))
    simp only [inps, List.flatMap_cons, outs, run, List.foldl_cons] at *
    -- held s ++ (inp o ++ rest) ~ (out ++ held') ++ rest ~ out ++ (outs' ++ held'')
    have e1 : List.Perm (held s ++ (inp o ++ List.flatMap inp os)) ((out s o ++ held (step s o)) ++ List.flatMap inp os) := by
      rw [← List.append_assoc]; exact List.Perm.append_right _ h1
    refine e1.trans ?_
    rw [List.append_assoc, List.append_assoc]
    exact List.Perm.append_left _ h2

theorem run_cap (s : St) (ops : List Op) : (run s ops).cap = s.cap := by
  induction ops generalizing s with
  | nil => rfl
  | cons o os ih => simp only [run, List.foldl_cons]; exact (ih (step s o)).trans (step_cap s o)

theorem held_nil_iff (s : St) (h : Inv s) : held s = [] ↔ s.inner = [] := by
  constructor
  · intro hh
    cases hi : s.inner with
    | nil => rfl
    | cons x xs =>
      have hx := h.sizes x (by rw [hi]; exact List.mem_cons_self)
      have : x = [] := by
        unfold held at hh
        rw [hi] at hh
        exact List.flatten_eq_nil_iff.mp hh x List.mem_cons_self
      subst this; simp at hx
  · intro hi; simp [held, hi]

theorem flag_iff_held_nil (s : St) (h : Inv s) : s.flag = true ↔ held s = [] := by
  rw [held_nil_iff s h, h.flag]
  cases s.inner <;> simp

end NexoVerif.Inj
