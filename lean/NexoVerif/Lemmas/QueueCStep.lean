import NexoVerif.Lemmas.QueueCInv
namespace NexoVerif.CQ
set_option linter.unusedSimpArgs false
set_option linter.unusedVariables false
set_option maxHeartbeats 2000000

theorem take_succ_getElem? {α} (l : List α) (n : Nat) (a : α) (h : l[n]? = some a) : l.take (n + 1) = l.take n ++ [a] := by
  rw [List.take_add_one, h]; rfl

theorem inv_step (l : Label) (s s' : St) (h : Inv s) (hs : step l s = some s') : Inv s' := by
  have hcap := h.capPos
  cases l with
  | pBegin i v =>
    simp only [step] at hs
    split at hs
    · rename_i hidle
      simp only [Option.some.injEq] at hs; subst hs
      exact inv_loadPos s i v h (fun v' p => by rw [hidle]; simp)
    · simp at hs
  | close =>
    simp only [step, Option.some.injEq] at hs; subst hs
    obtain ⟨a1, a2, a3, a4, a5, a6, a7, a8, a9, a10, a11, a12, a13⟩ := h
    exact ⟨a1, a2, a3, a4, a5, a6, a7, a8, a9, a10, a11, a12, fun hp => ⟨rfl, (a13 hp).2⟩⟩
  | pLoadStamp i =>
    simp only [step] at hs
    split at hs
    · rename_i v p hpc
      simp only [Option.some.injEq] at hs; subst hs
      obtain ⟨a1, a2, a3, a4, a5, a6, a7, a8, a9, a10, a11, a12, a13⟩ := h
      refine ⟨a1, a2, a3, a4, a5, a6, a7, a8, ?_, ?_, ?_, a12, a13⟩
      · intro j v' p' st hj
        by_cases hji : j = i
        · subst hji; simp at hj; obtain ⟨_, rfl, rfl⟩ := hj; exact Nat.le_refl _
        · simp only [upd_other _ _ hji] at hj; exact a9 j v' p' st hj
      · intro j v' p' hj
        by_cases hji : j = i
        · subst hji; simp at hj
        · simp only [upd_other _ _ hji] at hj; exact a10 j v' p' hj
      · intro j v' p' hj
        by_cases hji : j = i
        · subst hji; simp at hj
        · simp only [upd_other _ _ hji] at hj; exact a11 j v' p' hj
    · simp at hs
  | pDecide i =>
    simp only [step] at hs
    split at hs
    · rename_i v p st hpc
      have hnot : ∀ v' p', s.prod i ≠ .claimed v' p' ∧ s.prod i ≠ .wrote v' p' := fun v' p' => by rw [hpc]; simp
      split at hs
      · rename_i hst
        split at hs
        · -- the CAS succeeds: position p is claimed
          rename_i hcas
          simp only [Option.some.injEq] at hs; subst hs
          obtain ⟨a1, a2, a3, a4, a5, a6, a7, a8, a9, a10, a11, a12, a13⟩ := h
          obtain ⟨he, hcl⟩ := hcas
          have hslot : p % s.cap < s.cap := Nat.mod_lt _ a1
          have hstamp : s.stamp (p % s.cap) = 2 * p := by
            have h1 := a9 i v p st hpc
            have h2 := a6 p (by omega)
            omega
          have hev := a7 (p % s.cap) p hslot hstamp
          have hget : ∀ (q : Nat) (x : Nat × Nat), s.claims[q]? = some x → (s.claims ++ [(i, v)])[q]? = some x := by
            intro q x hq
            have : q < s.claims.length := by
              rcases Nat.lt_or_ge q s.claims.length with h | h
              · exact h
              · rw [List.getElem?_eq_none h] at hq; simp at hq
            rw [List.getElem?_append_left this]; exact hq
          refine ⟨a1, by simp only; omega, ?_, a4, by simp; omega, ?_, a7, ?_, ?_, ?_, ?_, ?_, ?_⟩
          · show p + 1 ≤ St.dRel _ + s.cap
            have : St.dRel { s with e := p + 1, prod := upd s.prod i (.claimed v p), claims := s.claims ++ [(i, v)] } = s.dRel := rfl
            rw [this]; omega
          · intro p' hp'; exact a6 p' (by simp only at hp'; omega)
          · intro j p' hj hsj
            obtain ⟨b1, b2, b3, pr, b4⟩ := a8 j p' hj hsj
            exact ⟨b1, by simp only; omega, b3, pr, hget _ _ b4⟩
          · intro j v' p' st' hj
            by_cases hji : j = i
            · subst hji; simp at hj
            · simp only [upd_other _ _ hji] at hj; exact a9 j v' p' st' hj
          · intro j v' p' hj
            by_cases hji : j = i
            · subst hji; simp at hj; obtain ⟨rfl, rfl⟩ := hj
              refine ⟨by simp only; omega, hstamp, ?_⟩
              simp only
              rw [List.getElem?_append_right (by omega)]
              simp [a5, he]
            · simp only [upd_other _ _ hji] at hj
              obtain ⟨b1, b2, b3⟩ := a10 j v' p' hj
              exact ⟨by simp only; omega, b2, hget _ _ b3⟩
          · intro j v' p' hj
            by_cases hji : j = i
            · subst hji; simp at hj
            · simp only [upd_other _ _ hji] at hj
              obtain ⟨b1, b2, b3, b4⟩ := a11 j v' p' hj
              exact ⟨by simp only; omega, b2, hget _ _ b3, b4⟩
          · simp only
            rw [a12, List.take_append_of_le_length (by omega)]
          · intro hp; obtain ⟨c1, c2⟩ := a13 hp; rw [c1] at hcl; simp at hcl
        · simp only [Option.some.injEq] at hs; subst hs
          exact inv_loadPos s i v h hnot
      · split at hs
        · simp only [Option.some.injEq] at hs; subst hs
          obtain ⟨a1, a2, a3, a4, a5, a6, a7, a8, a9, a10, a11, a12, a13⟩ := h
          refine ⟨a1, a2, a3, a4, a5, a6, a7, a8, ?_, ?_, ?_, a12, a13⟩
          · intro j v' p' st' hj
            by_cases hji : j = i
            · subst hji; simp at hj
            · simp only [upd_other _ _ hji] at hj; exact a9 j v' p' st' hj
          · intro j v' p' hj
            by_cases hji : j = i
            · subst hji; simp at hj
            · simp only [upd_other _ _ hji] at hj; exact a10 j v' p' hj
          · intro j v' p' hj
            by_cases hji : j = i
            · subst hji; simp at hj
            · simp only [upd_other _ _ hji] at hj; exact a11 j v' p' hj
        · simp only [Option.some.injEq] at hs; subst hs
          exact inv_loadPos s i v h hnot
    · simp at hs
  | pWrite i =>
    simp only [step] at hs
    split at hs
    · rename_i v p hpc
      simp only [Option.some.injEq] at hs; subst hs
      obtain ⟨a1, a2, a3, a4, a5, a6, a7, a8, a9, a10, a11, a12, a13⟩ := h
      obtain ⟨c1, c2, c3⟩ := a10 i v p hpc
      refine ⟨a1, a2, a3, a4, a5, a6, a7, ?_, ?_, ?_, ?_, a12, a13⟩
      · intro j p' hj hsj
        obtain ⟨b1, b2, b3, pr, b4⟩ := a8 j p' hj hsj
        refine ⟨b1, b2, b3, pr, ?_⟩
        have hne : j ≠ p % s.cap := by intro heq; subst heq; simp only at hsj; omega
        simp only [upd_other _ _ hne]; exact b4
      · intro j v' p' st' hj
        by_cases hji : j = i
        · subst hji; simp at hj
        · simp only [upd_other _ _ hji] at hj; exact a9 j v' p' st' hj
      · intro j v' p' hj
        by_cases hji : j = i
        · subst hji; simp at hj
        · simp only [upd_other _ _ hji] at hj; exact a10 j v' p' hj
      · intro j v' p' hj
        by_cases hji : j = i
        · subst hji; simp at hj; obtain ⟨rfl, rfl⟩ := hj
          exact ⟨c1, c2, c3, by simp⟩
        · simp only [upd_other _ _ hji] at hj
          obtain ⟨b1, b2, b3, b4⟩ := a11 j v' p' hj
          refine ⟨b1, b2, b3, ?_⟩
          have hne : p' % s.cap ≠ p % s.cap := by
            intro heq
            have : p' = p := by rw [heq] at b2; omega
            subst this
            rw [b3] at c3; simp at c3; exact hji c3.1
          simp only [upd_other _ _ hne]; exact b4
    · simp at hs
  | pPublish i =>
    simp only [step] at hs
    split at hs
    · rename_i v p hpc
      simp only [Option.some.injEq] at hs; subst hs
      obtain ⟨a1, a2, a3, a4, a5, a6, a7, a8, a9, a10, a11, a12, a13⟩ := h
      obtain ⟨c1, c2, c3, c4⟩ := a11 i v p hpc
      have hslot : p % s.cap < s.cap := Nat.mod_lt _ a1
      have hev := a7 (p % s.cap) p hslot c2
      refine ⟨a1, a2, a3, ?_, a5, ?_, ?_, ?_, ?_, ?_, ?_, a12, a13⟩
      · intro q hq
        obtain ⟨b1, b2⟩ := a4 q hq
        refine ⟨b1, ?_⟩
        have hne : q % s.cap ≠ p % s.cap := by intro heq; rw [heq] at b2; omega
        simp only [upd_other _ _ hne]; exact b2
      · intro p' hp'
        simp only at hp' ⊢
        by_cases hsl : p' % s.cap = p % s.cap
        · rw [hsl]; simp
          have := cong_gap a1 (by omega : p < p') hsl.symm
          omega
        · simp only [upd_other _ _ hsl]; exact a6 p' hp'
      · intro j p' hj hsj
        simp only at hsj
        by_cases hsl : j = p % s.cap
        · subst hsl; simp at hsj; omega
        · simp only [upd_other _ _ hsl] at hsj; exact a7 j p' hj hsj
      · intro j p' hj hsj
        simp only at hsj
        by_cases hsl : j = p % s.cap
        · subst hsl; simp at hsj
          have : p' = p := by omega
          subst this
          exact ⟨rfl, c1, hev.2.2, i, by rw [c3, c4]⟩
        · simp only [upd_other _ _ hsl] at hsj; exact a8 j p' hj hsj
      · intro j v' p' st' hj
        by_cases hji : j = i
        · subst hji; simp at hj
        · simp only [upd_other _ _ hji] at hj
          have := a9 j v' p' st' hj
          by_cases hsl : p' % s.cap = p % s.cap
          · rw [hsl] at this ⊢; simp; omega
          · simp only [upd_other _ _ hsl]; exact this
      · intro j v' p' hj
        by_cases hji : j = i
        · subst hji; simp at hj
        · simp only [upd_other _ _ hji] at hj
          obtain ⟨b1, b2, b3⟩ := a10 j v' p' hj
          have hne : p' % s.cap ≠ p % s.cap := by
            intro heq
            have : p' = p := by rw [heq] at b2; omega
            subst this
            rw [b3] at c3; simp at c3; exact hji c3.1
          exact ⟨b1, by simp only [upd_other _ _ hne]; exact b2, b3⟩
      · intro j v' p' hj
        by_cases hji : j = i
        · subst hji; simp at hj
        · simp only [upd_other _ _ hji] at hj
          obtain ⟨b1, b2, b3, b4⟩ := a11 j v' p' hj
          have hne : p' % s.cap ≠ p % s.cap := by
            intro heq
            have : p' = p := by rw [heq] at b2; omega
            subst this
            rw [b3] at c3; simp at c3; exact hji c3.1
          exact ⟨b1, by simp only [upd_other _ _ hne]; exact b2, b3, b4⟩
    · simp at hs
  | cPop =>
    simp only [step] at hs
    split at hs
    · rename_i hidle
      have hdrel : s.dRel = s.d := by unfold St.dRel; rw [hidle]
      split at hs
      · rename_i hne
        simp only [Option.some.injEq] at hs; subst hs
        obtain ⟨a1, a2, a3, a4, a5, a6, a7, a8, a9, a10, a11, a12, a13⟩ := h
        have hslot : s.d % s.cap < s.cap := Nat.mod_lt _ a1
        -- the slot of position d holds the message of position d
        have hfilled : s.stamp (s.d % s.cap) = 2 * s.d + 1 ∧ s.d < s.e ∧ ∃ pr, s.claims[s.d]? = some (pr, s.val (s.d % s.cap)) := by
          have hpar : ∃ p', s.stamp (s.d % s.cap) = 2 * p' ∨ s.stamp (s.d % s.cap) = 2 * p' + 1 :=
            ⟨s.stamp (s.d % s.cap) / 2, by omega⟩
          obtain ⟨p', hp' | hp'⟩ := hpar
          · obtain ⟨b1, b2, b3⟩ := a7 _ p' hslot hp'
            rw [hdrel] at b2 b3
            have : s.d = p' := cong_eq a1 b3 b2 b1.symm
            subst this; exact absurd hp' hne
          · obtain ⟨b1, b2, b3, pr, b4⟩ := a8 _ p' hslot hp'
            rw [hdrel] at b3
            have hlt : p' < s.d + s.cap := by rw [hdrel] at a3; omega
            have : s.d = p' := cong_eq a1 b3 hlt b1.symm
            subst this; exact ⟨hp', b2, pr, b4⟩
        obtain ⟨f1, f2, pr, f3⟩ := hfilled
        have hdrel' : St.dRel { s with d := s.d + 1, cons := .borrowed s.d, popped := s.popped ++ [s.val (s.d % s.cap)] } = s.d := by
          simp [St.dRel]
        refine ⟨a1, by simp only; omega, ?_, ?_, a5, a6, ?_, ?_, a9, a10, a11, ?_, ?_⟩
        · rw [hdrel']; rw [hdrel] at a3; exact a3
        · intro q hq; simp at hq; subst hq; exact ⟨rfl, f1⟩
        · intro j p' hj hsj; rw [hdrel']; rw [hdrel] at a7; exact a7 j p' hj hsj
        · intro j p' hj hsj; rw [hdrel']; rw [hdrel] at a8; exact a8 j p' hj hsj
        · simp only
          rw [take_succ_getElem? _ _ _ f3, a12]; simp
        · intro hp; obtain ⟨c1, c2⟩ := a13 hp; omega
      · split at hs
        · rename_i hcl
          simp only [Option.some.injEq] at hs; subst hs
          obtain ⟨a1, a2, a3, a4, a5, a6, a7, a8, a9, a10, a11, a12, a13⟩ := h
          exact ⟨a1, a2, a3, a4, a5, a6, a7, a8, a9, a10, a11, a12, fun _ => ⟨hcl.1, hcl.2.symm⟩⟩
        · simp only [Option.some.injEq] at hs; subst hs; exact h
    · simp at hs
  | cRelease =>
    simp only [step] at hs
    split at hs
    · rename_i q hb
      simp only [Option.some.injEq] at hs; subst hs
      obtain ⟨a1, a2, a3, a4, a5, a6, a7, a8, a9, a10, a11, a12, a13⟩ := h
      obtain ⟨hq1, hq2⟩ := a4 q hb
      have hdrel : s.dRel = q := by simp [St.dRel, hb]; omega
      have hslot : q % s.cap < s.cap := Nat.mod_lt _ a1
      refine ⟨a1, a2, ?_, by intro q' hq'; simp at hq', a5, ?_, ?_, ?_, ?_, ?_, ?_, a12, a13⟩
      · simp only [St.dRel]; rw [hdrel] at a3; omega
      · intro p' hp'
        simp only at hp' ⊢
        by_cases hsl : p' % s.cap = q % s.cap
        · rw [hsl]; simp
          have := cong_gap a1 (by omega : q < p') hsl.symm
          omega
        · simp only [upd_other _ _ hsl]; exact a6 p' hp'
      · intro j p' hj hsj
        simp only [St.dRel]
        simp only at hsj
        by_cases hsl : j = q % s.cap
        · subst hsl; simp at hsj
          have : p' = q + s.cap := by omega
          subst this
          exact ⟨by simp, by omega, by omega⟩
        · simp only [upd_other _ _ hsl] at hsj
          obtain ⟨b1, b2, b3⟩ := a7 j p' hj hsj
          rw [hdrel] at b2 b3
          have : p' ≠ q := by intro h; subst h; exact hsl b1.symm
          exact ⟨b1, by omega, by omega⟩
      · intro j p' hj hsj
        simp only [St.dRel]
        simp only at hsj
        by_cases hsl : j = q % s.cap
        · subst hsl; simp at hsj; omega
        · simp only [upd_other _ _ hsl] at hsj
          obtain ⟨b1, b2, b3, b4⟩ := a8 j p' hj hsj
          rw [hdrel] at b3
          have : p' ≠ q := by intro h; subst h; exact hsl b1.symm
          exact ⟨b1, b2, by omega, b4⟩
      · intro j v' p' st' hj
        have := a9 j v' p' st' hj
        simp only
        by_cases hsl : p' % s.cap = q % s.cap
        · rw [hsl] at this ⊢; simp; omega
        · simp only [upd_other _ _ hsl]; exact this
      · intro j v' p' hj
        obtain ⟨b1, b2, b3⟩ := a10 j v' p' hj
        have hne : p' % s.cap ≠ q % s.cap := by intro heq; rw [heq] at b2; omega
        exact ⟨b1, by simp only [upd_other _ _ hne]; exact b2, b3⟩
      · intro j v' p' hj
        obtain ⟨b1, b2, b3, b4⟩ := a11 j v' p' hj
        have hne : p' % s.cap ≠ q % s.cap := by intro heq; rw [heq] at b2; omega
        exact ⟨b1, by simp only [upd_other _ _ hne]; exact b2, b3, b4⟩
    · simp at hs

theorem reach_inv {cap : Nat} (hc : 0 < cap) {s : St} (h : Reach cap s) : Inv s := by
  induction h with
  | init => exact inv_init cap hc
  | step l _ hs ih => exact inv_step l _ _ ih hs

end NexoVerif.CQ
