import NexoVerif.Lemmas.TSetOwner
namespace NexoVerif.TSet
set_option linter.unusedSimpArgs false
set_option linter.unusedVariables false
set_option maxHeartbeats 4000000

/-- what a step of a waker thread leaves alone or can only change in one direction -/
structure WFrame (t t' : St) : Prop where
  cur : t'.cur = t.cur
  armed : t'.armed = t.armed
  m : t'.m = t.m
  n : t'.n = t.n
  headSome : t.head.ix.isSome = true → t'.head.ix.isSome = true
  pushes : (t.pushes = 0 → t.stack = []) → (t'.pushes = 0 → t'.stack = [])

theorem waker_frame (wl : Label) (hw : wl.isWaker = true) (t t' : St) (hs : step wl t = some t') : WFrame t t' := by
  cases wl with
  | take c => simp [Label.isWaker] at hw
  | iterNext => simp [Label.isWaker] at hw
  | dropNext => simp [Label.isWaker] at hw
  | wPush w =>
    simp only [step] at hs
    split at hs
    · split at hs
      · split at hs
        · simp only [Option.some.injEq] at hs; subst hs
          exact ⟨rfl, rfl, rfl, rfl, fun _ => rfl, fun _ h => by simp at h⟩
        · simp only [Option.some.injEq] at hs; subst hs
          exact ⟨rfl, rfl, rfl, rfl, fun h => h, fun h => h⟩
      · simp at hs
    · simp at hs
  | wBegin w i | wLoadNext w | wLook w | wClaim w | wFixNext w | wNotify w =>
    simp only [step] at hs
    (repeat' split at hs) <;>
      first
        | (simp only [Option.some.injEq] at hs; subst hs; exact ⟨rfl, rfl, rfl, rfl, fun h => h, fun h => h⟩)
        | (simp at hs)

/-- the threads that are about to notify: a step of a waker thread other than `wNotify w` keeps `w` there -/
theorem notify_pc_kept (wl : Label) (t t' : St) (hs : step wl t = some t') (w : Nat) (hpc : t.wpc w = .notify)
    (hne : ∀ w1, wl = .wNotify w1 → w1 ≠ w) : t'.wpc w = .notify := by
  cases wl with
  | take c =>
    simp only [step] at hs
    (repeat' split at hs) <;> first | (simp only [Option.some.injEq] at hs; subst hs; exact hpc) | (simp at hs)
  | iterNext =>
    simp only [step] at hs
    (repeat' split at hs) <;> first | (simp only [Option.some.injEq] at hs; subst hs; exact hpc) | (simp at hs)
  | dropNext =>
    simp only [step] at hs
    (repeat' split at hs) <;> first | (simp only [Option.some.injEq] at hs; subst hs; exact hpc) | (simp at hs)
  | wNotify w1 =>
    have hw1 : w1 ≠ w := hne w1 rfl
    simp only [step] at hs
    split at hs
    · simp only [Option.some.injEq] at hs; subst hs
      simp only [upd_other _ _ (Ne.symm hw1)]; exact hpc
    · simp at hs
  | wBegin w1 i =>
    simp only [step] at hs
    split at hs
    · rename_i hc
      simp only [Option.some.injEq] at hs; subst hs
      have : w ≠ w1 := by intro e; subst e; rw [hpc] at hc; simp at hc
      simp only [upd_other _ _ this]; exact hpc
    · simp at hs
  | wLoadNext w1 =>
    simp only [step] at hs
    split at hs
    · rename_i hc
      simp only [Option.some.injEq] at hs; subst hs
      have : w ≠ w1 := by intro e; subst e; rw [hpc] at hc; simp at hc
      simp only [upd_other _ _ this]; exact hpc
    · simp at hs
  | wLook w1 | wClaim w1 | wPush w1 | wFixNext w1 =>
    simp only [step] at hs
    split at hs
    · split at hs
      all_goals first
        | (simp at hs; done)
        | (rename_i hq
           have : w ≠ w1 := by intro e; subst e; rw [hpc] at hq; simp at hq
           (repeat' split at hs) <;>
             (simp only [Option.some.injEq] at hs; subst hs; simp only [upd_other _ _ this]; exact hpc))
    · simp at hs

end NexoVerif.TSet
