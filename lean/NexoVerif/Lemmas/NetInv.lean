import NexoVerif.Model.Net
/-! FIFO + conservation invariant of M-NET. -/
namespace NexoVerif.Net
set_option linter.unusedSimpArgs false
set_option linter.unusedVariables false

/-- FIFO + conservation in one statement: what arrived = what was handled (in order) ++ what is queued (in order) -/
structure Inv (s : St) : Prop where
  fifo : ∀ m, arrivals s m = handledBy s m ++ (s.mbox m).map (·.eid)
  count : s.count + s.handled.length = s.arrLog.length   -- in Int
  hp : s.handledP.length = s.handled.length

theorem filter_map_append_single {α β} (l : List α) (x : α) (p : α → Bool) (f : α → β) :
    ((l ++ [x]).filter p).map f = (l.filter p).map f ++ (if p x then [f x] else []) := by
  simp [List.filter_append, List.map_append]; split <;> simp [*]

theorem inv_init : Inv St.init := by
  constructor <;> simp [St.init, arrivals, handledBy]

theorem inv_step (P : Prog) (l : Label) (s s' : St) (h : Inv s) (hs : step P l s = some s') : Inv s' := by
  obtain ⟨hf, hc, hp⟩ := h
  unfold step at hs
  split at hs
  · simp at hs
  · cases l with
    | init m =>
      simp only at hs
      split at hs
      · simp only [Option.some.injEq] at hs; subst hs; exact ⟨hf, hc, hp⟩
      · simp at hs
    | spawn t ops =>
      simp only at hs
      split at hs
      · simp only [Option.some.injEq] at hs; subst hs; exact ⟨hf, hc, hp⟩
      · simp at hs
    | start t =>
      simp only at hs
      split at hs
      · simp only [Option.some.injEq] at hs; subst hs; exact ⟨hf, hc, hp⟩
      · simp at hs
    | push t i =>
      simp only at hs
      split at hs
      · rename_i sub hsub
        split at hs
        · split at hs
          · simp only [Option.some.injEq] at hs; subst hs; exact ⟨hf, hc, hp⟩
          · simp only [Option.some.injEq] at hs; subst hs; exact ⟨hf, hc, hp⟩
          · rename_i d hd
            split at hs
            · simp only [Option.some.injEq] at hs; subst hs
              refine ⟨?_, ?_, hp⟩
              · intro m
                simp only [arrivals, handledBy] at hf ⊢
                rw [filter_map_append_single]
                by_cases hm : m = d
                · subst hm; simp [hf]
                · have : (d == m) = false := by simp; exact fun h => hm h.symm
                  simp [this, upd_other _ _ hm, hf]
              · simp only [List.length_append, List.length_cons, List.length_nil]; push_cast; omega
            · simp at hs
        · simp at hs
      · simp at hs
    | deliver m =>
      simp only at hs
      split at hs
      · rename_i p ps hph hmb
        simp only [Option.some.injEq] at hs; subst hs
        refine ⟨?_, ?_, by simp [hp]⟩
        · intro m'
          simp only [arrivals, handledBy] at hf ⊢
          rw [filter_map_append_single]
          by_cases hm : m' = m
          · subst hm
            have := hf m'
            rw [hmb] at this
            simp [this]
          · have : (m == m') = false := by simp; exact fun h => hm h.symm
            simp [this, upd_other _ _ hm, hf]
        · simp only [List.length_append, List.length_cons, List.length_nil]
          push_cast
          omega
      · simp at hs
    | opDone t =>
      simp only at hs
      split at hs
      · simp only [Option.some.injEq] at hs; subst hs; exact ⟨hf, hc, hp⟩
      · simp at hs
    | finish t =>
      simp only at hs
      split at hs
      · split at hs <;> (simp only [Option.some.injEq] at hs; subst hs; exact ⟨hf, hc, hp⟩)
      · simp at hs

theorem reach_inv (P : Prog) {s : St} (h : Reach P s) : Inv s := by
  induction h with
  | init => exact inv_init
  | step l _ hs ih => exact inv_step P l _ _ ih hs

end NexoVerif.Net
