import NexoVerif.Lemmas.SeqLockInv
/-! Writer steps preserve the memory invariant. -/
namespace NexoVerif.SeqLock

set_option maxHeartbeats 1000000

theorem getLast?_val {l : List Msg} {m : Msg} (h : l.getLast? = some m) : l[l.length - 1]? = some m := by
  rw [List.getLast?_eq_getElem?] at h; exact h

theorem join_seq (a b : View) : (a.join b).seq = max a.seq b.seq := rfl
theorem join_d1 (a b : View) : (a.join b).d1 = max a.d1 b.d1 := rfl
theorem join_d2 (a b : View) : (a.join b).d2 = max a.d2 b.d2 := rfl

theorem inv_wBegin (o : Ords) (s s' : St) (a b : Nat) (h : Inv o s) (hs : step o (.wBegin a b) s = some s') : Inv o s' := by
  simp only [step] at hs
  split at hs
  · rename_i hidle
    split at hs
    · rename_i m hm
      simp only [Option.some.injEq] at hs; subst hs
      have hv := h.seqVal _ m (getLast?_val hm)
      have hsh := h.shape.1 hidle
      have hne := h.seqNe
      refine ⟨h.seqVal, h.seqNe, ?_, h.wcurOk, ?_, h.evenView, h.d1View, h.d2View⟩
      · simp only [reduceCtorEq, false_implies, true_implies, false_or, or_false, true_and, and_true]
        refine ⟨hsh.1, hsh.2.1, hsh.2.2, ?_⟩
        omega
      · intro _ hd; simp [dataPhase] at hd
    · simp at hs
  · simp at hs

theorem inv_wStep (o : Ords) (s s' : St) (h : Inv o s) (hs : step o .wStep s = some s') : Inv o s' := by
  simp only [step] at hs
  obtain ⟨hsv, hne, ⟨sh1, sh2, sh3, sh4, sh5⟩, ⟨wc1, wc2, wc3⟩, hwrel, hev, hd1, hd2⟩ := h
  split at hs
  · simp at hs
  · -- loaded: store sequence + 1
    rename_i hpc
    simp only [Option.some.injEq] at hs; subst hs
    have := sh2 hpc
    refine ⟨?_, by simp, ?_, ?_, ?_, ?_, hd1, hd2⟩
    · intro i m hm
      rcases getElem?_snoc _ _ _ _ hm with h | ⟨rfl, rfl⟩
      · exact hsv i m h
      · simp only; omega
    · simp [List.length_append]; omega
    · simp [List.length_append]; omega
    · intro _ hd; simp [dataPhase] at hd
    · intro hr i m hm hi
      rcases getElem?_snoc _ _ _ _ hm with h | ⟨rfl, rfl⟩
      · exact hev hr i m h hi
      · omega
  · -- oddStored: fence
    rename_i hpc
    simp only [Option.some.injEq] at hs; subst hs
    have := sh3 (Or.inl hpc)
    refine ⟨hsv, hne, ?_, ⟨wc1, wc2, wc3⟩, ?_, hev, hd1, hd2⟩
    · simp; omega
    · intro hr _; simp [hr]; exact wc1
  · -- fenced: store d1
    rename_i hpc
    simp only [Option.some.injEq] at hs; subst hs
    have := sh3 (Or.inr hpc)
    have hrel := fun hr => hwrel hr (by simp [hpc, dataPhase])
    refine ⟨hsv, hne, ?_, ?_, ?_, hev, ?_, hd2⟩
    · simp [List.length_append]; omega
    · simp [List.length_append]; omega
    · intro hr _; exact hrel hr
    · intro hr j m hm hj
      rcases getElem?_snoc _ _ _ _ hm with h | ⟨rfl, rfl⟩
      · exact hd1 hr j m h hj
      · have := hrel hr; simp only [join_seq]; omega
  · -- d1Stored: store d2
    rename_i hpc
    simp only [Option.some.injEq] at hs; subst hs
    have := sh4 hpc
    have hrel := fun hr => hwrel hr (by simp [hpc, dataPhase])
    refine ⟨hsv, hne, ?_, ?_, ?_, hev, hd1, ?_⟩
    · simp [List.length_append]; omega
    · simp [List.length_append]; omega
    · intro hr _; exact hrel hr
    · intro hr j m hm hj
      rcases getElem?_snoc _ _ _ _ hm with h | ⟨rfl, rfl⟩
      · exact hd2 hr j m h hj
      · have := hrel hr; simp only [join_seq]; omega
  · -- d2Stored: store sequence + 2 (release)
    rename_i hpc
    simp only [Option.some.injEq] at hs; subst hs
    have := sh5 hpc
    refine ⟨?_, by simp, ?_, ?_, ?_, ?_, hd1, hd2⟩
    · intro i m hm
      rcases getElem?_snoc _ _ _ _ hm with h | ⟨rfl, rfl⟩
      · exact hsv i m h
      · simp only; omega
    · simp [List.length_append]; omega
    · simp [List.length_append]; omega
    · intro _ hd; simp [dataPhase] at hd
    · intro hr i m hm hi
      rcases getElem?_snoc _ _ _ _ hm with h | ⟨rfl, rfl⟩
      · exact hev hr i m h hi
      · simp only [storeView, hr, if_true, join_d1, join_d2]; omega

end NexoVerif.SeqLock
