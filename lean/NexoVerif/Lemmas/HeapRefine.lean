import NexoVerif.Lemmas.HeapCont
import NexoVerif.Lemmas.PQLemmas
/-! M-HEAP refines the mid-level model of the keyed queue (`PQ.IPQ`): same slab, same free list, same epochs, and every
used node stands for the same `(key, epoch, value)`; every operation gives the same answer. -/
namespace NexoVerif.Heap
open NexoVerif.PQ (Item Node IPQ)

structure Abs (q : HQ) (m : IPQ) : Prop where
  len : m.slab.length = q.slab.size
  get : ∀ j, j < q.slab.size → m.slab[j]? = some (cont q.heap q.slab j)
  ff : m.firstFree = q.firstFree
  ep : m.nextEpoch = q.nextEpoch
  er : m.err = q.err

theorem Abs.new : Abs HQ.new IPQ.new := by
  constructor <;> simp [HQ.new, IPQ.new]

/-- nodes other than the new one stand for the same entry after the garbage item has been pushed on the heap -/
theorem cont_push {h : Array HItem} {s s0 : Array SNode} (x : XInv h s) (g : HItem) (j : Nat) (hj : j < s.size)
    (e : rd s0 j = rd s j) : cont (h.push g) s0 j = cont h s j := by
  simp only [cont, e]
  cases hu : rd s j with
  | free nx => rfl
  | used v hi =>
    obtain ⟨b, _⟩ := x.bwd j v hi hj hu
    simp only [rd_push_lt _ _ _ b]

theorem Abs.insert {q : HQ} {m : IPQ} (a : Abs q m) (i : HInv q) (k v : Nat) :
    Abs (q.insert k v).1 (m.insert k v).1 ∧ (q.insert k v).2 = (m.insert k v).2 := by
  unfold HQ.insert IPQ.insert
  rw [a.ff, a.ep]
  cases hff : q.firstFree with
  | none =>
    simp only [a.len]
    refine ⟨?_, by first | rfl | trivial⟩
    have c := cross_push (s0 := q.slab.push (.used v 0)) i.x { key := k, epoch := q.nextEpoch, slab := 0 } q.slab.size v
      (fun j hj _ => rd_push_lt _ _ _ hj) (fun j hj jn => by simp only [Array.size_push] at hj; omega) (by simp)
      ⟨by simp, rd_push_eq _ _⟩ (fun v' hi' hh => by omega)
    constructor
    · simp [a.len]
    · intro j hj
      simp only [siftUp_size2, Array.size_push] at hj
      rw [siftUp_cont _ _ _ _ c j (by simpa using hj)]
      by_cases e : j = q.slab.size
      · subst e
        have hl : ∀ x : Node, (m.slab ++ [x])[q.slab.size]? = some x := by intro x; rw [← a.len]; simp
        rw [hl]
        simp [ownNode, rd_push_eq]
      · have hj' : j < q.slab.size := by omega
        simp only [e, if_false]
        rw [cont_push i.x _ j hj' (rd_push_lt _ _ _ hj'), List.getElem?_append_left (by rw [a.len]; exact hj')]
        exact a.get j hj'
    · rfl
    · simp
    · exact a.er
  | some idx =>
    by_cases hidx : idx < q.slab.size
    · have hg := a.get idx hidx
      simp only [hidx, if_true]
      cases hu : rd q.slab idx with
      | used v' hi =>
        simp only [cont, hu] at hg
        simp only [hg]
        exact ⟨⟨a.len, a.get, rfl, rfl, rfl⟩, by first | rfl | trivial⟩
      | free nx =>
        simp only [cont, hu] at hg
        simp only [hg]
        refine ⟨?_, by first | rfl | trivial⟩
        have c := cross_push (s0 := wr q.slab idx (.used v 0)) i.x { key := k, epoch := q.nextEpoch, slab := 0 } idx v
          (fun j _ jn => rd_wr_other _ _ _ _ (Ne.symm jn)) (fun j hj _ => by simpa using hj) (by simp)
          ⟨by simpa using hidx, rd_wr_same _ _ _ hidx⟩ (fun v' hi' _ => by rw [hu]; intro q; cases q)
        constructor
        · simp [a.len]
        · intro j hj
          simp only [siftUp_size2, size_wr] at hj
          rw [siftUp_cont _ _ _ _ c j (by simpa using hj)]
          by_cases e : j = idx
          · subst e
            simp [ownNode, rd_wr_same _ _ _ hidx, a.len, hj]
          · simp only [e, if_false]
            rw [cont_push i.x _ j hj (rd_wr_other _ _ _ _ (Ne.symm e)), List.getElem?_set_ne (Ne.symm e)]
            exact a.get j hj
        · rfl
        · simp
        · exact a.er
    · have : m.slab[idx]? = none := by
        rw [List.getElem?_eq_none]; rw [a.len]; omega
      simp only [hidx, if_false, this]
      exact ⟨⟨a.len, a.get, rfl, rfl, rfl⟩, by first | rfl | trivial⟩


/-! ### removal -/

/-- after the element at `hi < size - 1` has been removed and the last one re-inserted by either loop -/
theorem cont_removed_mid {h : Array HItem} {s : Array SNode} (x : XInv h s) (hi : Nat) (ff : Option Nat)
    (hhi : hi < h.size - 1) {h' : Array HItem} {s' : Array SNode}
    (post : ∀ j, j < s.size → cont h' s' j =
      if j = (rd h (h.size - 1)).slab then ownNode (wr s (rd h hi).slab (.free ff)) (rd h (h.size - 1))
      else cont h.pop (wr s (rd h hi).slab (.free ff)) j)
    (j : Nat) (hj : j < s.size) :
    cont h' s' j = if j = (rd h hi).slab then .free ff else cont h s j := by
  have hn : h.size - 1 < h.size := by omega
  obtain ⟨t1, tv, t2⟩ := x.fwd hi (by omega)
  obtain ⟨l1, lv, l2⟩ := x.fwd (h.size - 1) hn
  have tl : (rd h hi).slab ≠ (rd h (h.size - 1)).slab := fun q => by
    have := x.inj (by omega) hn q; omega
  rw [post j hj]
  by_cases e : j = (rd h (h.size - 1)).slab
  · subst e
    simp only [if_true, Ne.symm tl, if_false, ownNode, rd_wr_other _ _ _ _ tl, l2, cont]
  · simp only [e, if_false]
    by_cases e2 : j = (rd h hi).slab
    · subst e2
      simp only [if_true, cont, rd_wr_same _ _ _ t1]
    · simp only [e2, if_false, cont, rd_wr_other _ _ _ _ (Ne.symm e2)]
      cases hu : rd s j with
      | free nx => rfl
      | used v hi' =>
        obtain ⟨p1, p2⟩ := x.bwd j v hi' hj hu
        have : hi' ≠ h.size - 1 := fun q => e (by rw [← p2, q])
        simp only [rd_pop _ _ (show hi' < h.size - 1 by omega)]

/-- after the last element itself has been removed -/
theorem cont_removed_last {h : Array HItem} {s : Array SNode} (x : XInv h s) (ff : Option Nat) (hn : 0 < h.size)
    (j : Nat) (hj : j < s.size) :
    cont h.pop (wr s (rd h (h.size - 1)).slab (.free ff)) j =
      if j = (rd h (h.size - 1)).slab then .free ff else cont h s j := by
  obtain ⟨t1, tv, t2⟩ := x.fwd (h.size - 1) (by omega)
  by_cases e2 : j = (rd h (h.size - 1)).slab
  · subst e2
    simp only [if_true, cont, rd_wr_same _ _ _ t1]
  · simp only [e2, if_false, cont, rd_wr_other _ _ _ _ (Ne.symm e2)]
    cases hu : rd s j with
    | free nx => rfl
    | used v hi' =>
      obtain ⟨p1, p2⟩ := x.bwd j v hi' hj hu
      have : hi' ≠ h.size - 1 := fun q => e2 (by rw [← p2, q])
      simp only [rd_pop _ _ (show hi' < h.size - 1 by omega)]

/-- the state both models reach when the node `t` is freed -/
theorem Abs.removed {q : HQ} {m : IPQ} (a : Abs q m) (t : Nat) (ht : t < q.slab.size) {h' : Array HItem} {s' : Array SNode}
    (hs : s'.size = q.slab.size)
    (hc : ∀ j, j < q.slab.size → cont h' s' j = if j = t then .free q.firstFree else cont q.heap q.slab j) :
    Abs { q with heap := h', slab := s', firstFree := some t }
      { m with slab := m.slab.set t (.free m.firstFree), firstFree := some t } := by
  constructor
  · simp [a.len, hs]
  · intro j hj
    simp only [hs] at hj
    simp only [hc j hj]
    by_cases e : j = t
    · subst e
      simp [a.len, hj, a.ff]
    · simp only [e, if_false, List.getElem?_set_ne (Ne.symm e)]
      exact a.get j hj
  · rfl
  · exact a.ep
  · exact a.er

theorem Abs.extract {q : HQ} {m : IPQ} (a : Abs q m) (i : HInv q) (idx e : Nat) :
    Abs (q.extract idx e).1 (m.extract idx e).1 ∧ (q.extract idx e).2 = (m.extract idx e).2 := by
  unfold HQ.extract IPQ.extract
  by_cases hidx : idx < q.slab.size
  · have hg := a.get idx hidx
    simp only [hidx, if_true]
    cases hu : rd q.slab idx with
    | free nx =>
      simp only [cont, hu] at hg
      simp only [hg]
      exact ⟨a, by first | rfl | trivial⟩
    | used v hi =>
      simp only [cont, hu] at hg
      obtain ⟨b1, b2⟩ := i.x.bwd idx v hi hidx hu
      simp only [hg, b1, if_true]
      by_cases he : (rd q.heap hi).epoch = e
      · simp only [he, ne_eq, not_true_eq_false, if_false, bne_self_eq_false, Bool.false_eq_true, Array.size_pop]
        refine ⟨?_, by first | rfl | trivial⟩
        by_cases hlast : hi < q.heap.size - 1
        · have xr := cross_remove i.x hi q.firstFree hlast
          rw [b2] at xr
          simp only [hlast, if_true]
          by_cases hlt : (rd q.heap (q.heap.size - 1)).lt (rd q.heap.pop hi)
          · simp only [hlt, if_true]
            refine a.removed idx hidx (by simp) (fun j hj => ?_)
            have := cont_removed_mid i.x hi q.firstFree hlast
              (fun j hj => by rw [b2]; exact siftUp_cont _ _ _ _ xr j (by simpa using hj)) j hj
            rw [b2] at this
            exact this
          · simp only [hlt, if_false]
            refine a.removed idx hidx (by simp) (fun j hj => ?_)
            have := cont_removed_mid i.x hi q.firstFree hlast
              (fun j hj => by rw [b2]; exact siftDown_cont _ _ _ _ xr j (by simpa using hj)) j hj
            rw [b2] at this
            exact this
        · simp only [hlast, if_false]
          have hh : hi = q.heap.size - 1 := by omega
          refine a.removed idx hidx (by simp) (fun j hj => ?_)
          have := cont_removed_last i.x q.firstFree (by omega) j hj
          rw [← hh, b2] at this
          exact this
      · have : ((rd q.heap hi).epoch != e) = true := by simpa using he
        simp only [he, ne_eq, not_false_eq_true, if_true, this]
        exact ⟨a, by first | rfl | trivial⟩
  · have : m.slab[idx]? = none := by
      rw [List.getElem?_eq_none]; rw [a.len]; omega
    simp only [hidx, if_false, this]
    exact ⟨a, by first | rfl | trivial⟩


/-! ### pull: the root of the heap is the node the mid-level model designates -/

open NexoVerif.PQ in
theorem minUsed_none_of_no_used : ∀ (slab : List Node) (off : Nat),
    (∀ (i : Nat) (it : Item), slab[i]? ≠ some (Node.used it)) → minUsed slab off = none
  | [], _, _ => rfl
  | .free nx :: r, off, h => by
    simp only [minUsed]
    exact minUsed_none_of_no_used r (off + 1) (fun i it => by simpa using h (i + 1) it)
  | .used a :: r, off, h => by have := h 0 a; simp at this

open NexoVerif.PQ in
theorem minUsed_some_of_used : ∀ (slab : List Node) (off i : Nat) (it : Item),
    slab[i]? = some (Node.used it) → minUsed slab off ≠ none
  | [], _, i, it, h => by simp at h
  | .free nx :: r, off, i, it, h => by
    simp only [minUsed]
    cases i with
    | zero => simp at h
    | succ i => exact minUsed_some_of_used r (off + 1) i it (by simpa using h)
  | .used a :: r, off, i, it, h => by
    simp only [minUsed]
    split <;> (try split) <;> simp

/-- no two entries of the queue have the same epoch -/
def EpochsDistinct (m : IPQ) : Prop :=
  ∀ (j j' : Nat) (it it' : Item), m.slab[j]? = some (Node.used it) → m.slab[j']? = some (Node.used it') →
    it.epoch = it'.epoch → j = j'

open NexoVerif.PQ in
theorem minUsed_unique (m : IPQ) (hd : EpochsDistinct m) (i : Nat) (it : Item) (hu : m.slab[i]? = some (Node.used it))
    (hmin : ∀ (j : Nat) (it' : Item), m.slab[j]? = some (Node.used it') → it.lexLe it' = true) :
    minUsed m.slab 0 = some (i, it) := by
  cases hm : minUsed m.slab 0 with
  | none => exact absurd hm (minUsed_some_of_used _ _ i it hu)
  | some r =>
    obtain ⟨i', it'⟩ := r
    obtain ⟨_, h2, h3⟩ := minUsed_spec m.slab 0 i' it' hm
    simp only [Nat.sub_zero] at h2
    have l1 := hmin i' it' h2
    have l2 := h3 i it hu
    rw [lexLe_iff] at l1 l2
    have ee : it.epoch = it'.epoch := by omega
    have := hd i i' it it' hu h2 ee
    subst this
    rw [hu] at h2
    injection h2 with h2
    injection h2 with h2
    rw [h2]

theorem Abs.used_in_range {q : HQ} {m : IPQ} (a : Abs q m) {j : Nat} {it : Item}
    (hj : m.slab[j]? = some (Node.used it)) : j < q.slab.size := by
  rw [← a.len]
  rcases Nat.lt_or_ge j m.slab.length with l | l
  · exact l
  · rw [List.getElem?_eq_none l] at hj; cases hj

theorem Abs.minUsed_empty {q : HQ} {m : IPQ} (a : Abs q m) (i : HInv q) (hz : q.heap.size = 0) :
    PQ.minUsed m.slab 0 = none := by
  apply minUsed_none_of_no_used
  intro j it hj
  have jl := a.used_in_range hj
  rw [a.get j jl] at hj
  simp only [cont] at hj
  cases hu : rd q.slab j with
  | free nx => rw [hu] at hj; cases hj
  | used v hi => have := (i.x.bwd j v hi jl hu).1; omega

/-- the node of the root of the heap is the node the mid-level model designates as the least one -/
theorem Abs.minUsed_root {q : HQ} {m : IPQ} (a : Abs q m) (i : HInv q) (hd : EpochsDistinct m) (hz : q.heap.size ≠ 0) :
    ∃ tv, (rd q.heap 0).slab < q.slab.size ∧ rd q.slab (rd q.heap 0).slab = .used tv 0 ∧
      PQ.minUsed m.slab 0 =
        some ((rd q.heap 0).slab, { key := (rd q.heap 0).key, epoch := (rd q.heap 0).epoch, val := tv }) := by
  obtain ⟨t1, tv, t2⟩ := i.x.fwd 0 (by omega)
  refine ⟨tv, t1, t2, ?_⟩
  apply minUsed_unique m hd
  · rw [a.get _ t1]; simp only [cont, t2]
  · intro j it' hj
    have jl := a.used_in_range hj
    rw [a.get j jl] at hj
    simp only [cont] at hj
    cases hu : rd q.slab j with
    | free nx => rw [hu] at hj; cases hj
    | used v hi =>
      rw [hu] at hj
      injection hj with hj
      injection hj with hj
      subst hj
      have := i.o.root_le hi (i.x.bwd j v hi jl hu).1
      rw [PQ.lexLe_iff]
      unfold HItem.le HItem.lt at this
      simp only
      omega

theorem Abs.pull {q : HQ} {m : IPQ} (a : Abs q m) (i : HInv q) (hd : EpochsDistinct m) :
    Abs q.pull.1 m.pull.1 ∧ q.pull.2 = m.pull.2 := by
  unfold HQ.pull IPQ.pull
  by_cases hz : q.heap.size = 0
  · simp only [hz, if_true, a.minUsed_empty i hz]
    exact ⟨a, by first | rfl | trivial⟩
  · simp only [hz, if_false]
    obtain ⟨tv, t1, t2, hmin⟩ := a.minUsed_root i hd hz
    simp only [t1, if_true, t2, hmin]
    refine ⟨?_, by first | rfl | trivial⟩
    by_cases e : (rd q.heap (q.heap.size - 1)).slab ≠ (rd q.heap 0).slab
    · rw [if_pos e]
      have h1 : 0 < q.heap.size - 1 := by
        rcases Nat.eq_zero_or_pos (q.heap.size - 1) with z | z
        · rw [z] at e; exact absurd rfl e
        · exact z
      have xr := cross_remove i.x 0 q.firstFree h1
      refine a.removed _ t1 (by simp) (fun j hj => ?_)
      exact cont_removed_mid i.x 0 q.firstFree h1
        (fun j hj => siftDown_cont _ _ _ _ xr j (by simpa using hj)) j hj
    · rw [if_neg e]
      have e' := Classical.not_not.mp e
      have hh : q.heap.size - 1 = 0 := i.x.inj (by omega) (by omega) e'
      refine a.removed _ t1 (by simp) (fun j hj => ?_)
      have := cont_removed_last i.x q.firstFree (by omega) j hj
      rw [hh] at this
      exact this

theorem Abs.peek {q : HQ} {m : IPQ} (a : Abs q m) (i : HInv q) (hd : EpochsDistinct m) :
    q.peek = m.peek ∧ q.peekKey = m.peekKey := by
  unfold HQ.peek IPQ.peek HQ.peekKey IPQ.peekKey
  by_cases hz : q.heap.size = 0
  · simp [hz, a.minUsed_empty i hz]
  · obtain ⟨tv, t1, t2, hmin⟩ := a.minUsed_root i hd hz
    simp [hz, t2, hmin]

/-! ### distinct epochs in the mid-level model, and the simulation over whole histories -/

theorem getElem?_append_used {slab : List Node} {j : Nat} {n : Node} {it : Item}
    (h : (slab ++ [n])[j]? = some (Node.used it)) :
    (j = slab.length ∧ n = Node.used it) ∨ (j < slab.length ∧ slab[j]? = some (Node.used it)) := by
  rw [List.getElem?_append] at h
  split at h
  · rename_i hl; exact Or.inr ⟨hl, h⟩
  · rename_i hl
    have : j - slab.length = 0 ∨ j - slab.length ≠ 0 := by omega
    rcases this with h0 | h0
    · simp [h0] at h; exact Or.inl ⟨by omega, h⟩
    · have : ([n] : List Node)[j - slab.length]? = none := by simp; omega
      rw [this] at h; cases h

theorem distinct_set_free {m : IPQ} (hd : EpochsDistinct m) (i : Nat) (ff : Option Nat) (m' : IPQ)
    (hs : m'.slab = m.slab.set i (.free ff)) : EpochsDistinct m' := by
  intro j j' it it' hj hj' he
  rw [hs] at hj hj'
  rcases PQ.getElem?_set_used hj with ⟨_, hn⟩ | ⟨_, h1⟩
  · cases hn
  · rcases PQ.getElem?_set_used hj' with ⟨_, hn⟩ | ⟨_, h2⟩
    · cases hn
    · exact hd j j' it it' h1 h2 he

open NexoVerif.PQ in
theorem epochsDistinct_step (m : IPQ) (op : IOp) (hb : EpochsBelow m) (hd : EpochsDistinct m) :
    EpochsDistinct (m.stepOp op) := by
  cases op with
  | ins k v =>
    simp only [IPQ.stepOp]
    unfold IPQ.insert
    cases hff : m.firstFree with
    | none =>
      intro j j' it it' hj hj' he
      simp only at hj hj'
      rcases getElem?_append_used hj with ⟨a1, a2⟩ | ⟨a1, a2⟩ <;>
        rcases getElem?_append_used hj' with ⟨b1, b2⟩ | ⟨b1, b2⟩
      · omega
      · injection a2 with a2; subst a2; have := hb j' it' b2; simp only at he; omega
      · injection b2 with b2; subst b2; have := hb j it a2; simp only at he; omega
      · exact hd j j' it it' a2 b2 he
    | some idx =>
      simp only
      cases hs : m.slab[idx]? with
      | none => simp only; exact hd
      | some n =>
        cases n with
        | used b => simp only; exact hd
        | free nx =>
          simp only
          intro j j' it it' hj hj' he
          simp only at hj hj'
          rcases getElem?_set_used hj with ⟨a1, a2⟩ | ⟨a1, a2⟩ <;>
            rcases getElem?_set_used hj' with ⟨b1, b2⟩ | ⟨b1, b2⟩
          · omega
          · injection a2 with a2; subst a2; have := hb j' it' b2; simp only at he; omega
          · injection b2 with b2; subst b2; have := hb j it a2; simp only at he; omega
          · exact hd j j' it it' a2 b2 he
  | pull =>
    simp only [IPQ.stepOp]
    unfold IPQ.pull
    cases hm : minUsed m.slab 0 with
    | none => exact hd
    | some r => exact distinct_set_free hd r.1 m.firstFree _ rfl
  | ext i e =>
    simp only [IPQ.stepOp]
    unfold IPQ.extract
    split
    · split
      · exact hd
      · exact distinct_set_free hd i m.firstFree _ rfl
    · exact hd

/-- the corresponding operation of the mid-level model -/
def HOp.toIOp : HOp → PQ.IOp
  | .ins k v => .ins k v
  | .pull => .pull
  | .ext i e => .ext i e

/-- everything the proofs need of a pair of states reached by the same history -/
structure Sim (q : HQ) (m : IPQ) : Prop where
  abs : Abs q m
  inv : HInv q
  below : PQ.EpochsBelow m
  distinct : EpochsDistinct m

theorem Sim.new : Sim HQ.new IPQ.new :=
  ⟨Abs.new, HInv.new, by intro j it hj; simp [IPQ.new] at hj, by intro j j' it it' hj; simp [IPQ.new] at hj⟩

theorem Sim.step {q : HQ} {m : IPQ} (s : Sim q m) (op : HOp) : Sim (q.stepOp op) (m.stepOp op.toIOp) := by
  refine ⟨?_, ?_, PQ.epochsBelow_step m _ s.below, epochsDistinct_step m _ s.below s.distinct⟩
  · cases op with
    | ins k v => exact (s.abs.insert s.inv k v).1
    | pull => exact (s.abs.pull s.inv s.distinct).1
    | ext i e => exact (s.abs.extract s.inv i e).1
  · cases op with
    | ins k v => exact s.inv.insert k v
    | pull => exact s.inv.pull
    | ext i e => exact s.inv.extract i e

theorem Sim.runOps {q : HQ} {m : IPQ} (s : Sim q m) (ops : List HOp) :
    Sim (q.runOps ops) (m.runOps (ops.map HOp.toIOp)) := by
  induction ops generalizing q m with
  | nil => exact s
  | cons op ops ih => exact ih (s.step op)

end NexoVerif.Heap
