import NexoVerif.Lemmas.HeapOrd
/-! M-HEAP: the three operations preserve the cross-indexing and the heap order. -/
namespace NexoVerif.Heap

structure HInv (q : HQ) : Prop where
  x : XInv q.heap q.slab
  o : Ordered q.heap

/-- a new last spot of the heap and a node for the new item: the state `sift_up` starts from in `insert` -/
theorem cross_push {h : Array HItem} {s s0 : Array SNode} (x : XInv h s) (g : HItem) (idx v : Nat)
    (a : ∀ j, j < s.size → j ≠ idx → rd s0 j = rd s j)
    (b : ∀ j, j < s0.size → j ≠ idx → j < s.size) (c : s.size ≤ s0.size)
    (d : idx < s0.size ∧ rd s0 idx = .used v 0)
    (e : ∀ v hi, idx < s.size → rd s idx ≠ .used v hi) :
    Cross (h.push g) s0 h.size idx := by
  constructor
  · intro k hk kn
    simp only [Array.size_push] at hk
    have hk' : k < h.size := by omega
    rw [rd_push_lt _ _ _ hk']
    obtain ⟨p1, v1, p2⟩ := x.fwd k hk'
    have ne : (rd h k).slab ≠ idx := fun q => e v1 k (q ▸ p1) (q ▸ p2)
    have : (rd h k).slab < s0.size := by omega
    exact ⟨this, ne, v1, by rw [a _ p1 ne]; exact p2⟩
  · intro j v' hi hj hu jn
    have js := b j hj jn
    rw [a j js jn] at hu
    obtain ⟨p1, p2⟩ := x.bwd j v' hi js hu
    exact ⟨by simp only [Array.size_push]; omega, by omega, by rw [rd_push_lt _ _ _ p1]; exact p2⟩
  · exact ⟨d.1, v, 0, d.2⟩
  · simp

theorem upPre_push {h : Array HItem} (o : Ordered h) (g item : HItem) : UpPre (h.push g) h.size item := by
  constructor
  · intro j j0 js jn _
    simp only [Array.size_push] at js
    rw [rd_push_lt _ _ _ (by omega), rd_push_lt _ _ _ (by omega)]
    exact o j j0 (by omega)
  · intro j j0 js jp; simp only [Array.size_push] at js; omega
  · intro _ j j0 js jp; simp only [Array.size_push] at js; omega
  · simp

/-- the element at `hi` is removed and the last element is kept aside: the state the loops start from in `pull` and
`extract` -/
theorem cross_remove {h : Array HItem} {s : Array SNode} (x : XInv h s) (hi : Nat) (ff : Option Nat)
    (hhi : hi < h.size - 1) :
    Cross h.pop (wr s (rd h hi).slab (.free ff)) hi (rd h (h.size - 1)).slab := by
  have hn : h.size - 1 < h.size := by omega
  obtain ⟨t1, tv, t2⟩ := x.fwd hi (by omega)
  obtain ⟨l1, lv, l2⟩ := x.fwd (h.size - 1) hn
  have tl : (rd h hi).slab ≠ (rd h (h.size - 1)).slab := fun q => by
    have := x.inj (by omega) hn q; omega
  constructor
  · intro k hk kn
    simp only [Array.size_pop] at hk
    rw [rd_pop _ _ hk]
    obtain ⟨p1, v1, p2⟩ := x.fwd k (by omega)
    have n1 : (rd h k).slab ≠ (rd h (h.size - 1)).slab := fun q => by
      have := x.inj (by omega) hn q; omega
    have n2 : (rd h hi).slab ≠ (rd h k).slab := fun q => kn (x.inj (by omega) (by omega) q).symm
    exact ⟨by simpa using p1, n1, v1, by rw [rd_wr_other _ _ _ _ n2]; exact p2⟩
  · intro j v hi' hj hu jn
    simp only [size_wr] at hj
    have jt : (rd h hi).slab ≠ j := fun q => by
      rw [← q, rd_wr_same _ _ _ t1] at hu; cases hu
    rw [rd_wr_other _ _ _ _ jt] at hu
    obtain ⟨p1, p2⟩ := x.bwd j v hi' hj hu
    have n1 : hi' ≠ h.size - 1 := fun q => jn (by rw [← p2, q])
    have n2 : hi' ≠ hi := fun q => jt (by rw [← p2, q])
    have : hi' < h.size - 1 := by omega
    exact ⟨by simpa using this, n2, by rw [rd_pop _ _ this]; exact p2⟩
  · exact ⟨by simpa using l1, lv, h.size - 1, by rw [rd_wr_other _ _ _ _ tl]; exact l2⟩
  · simpa using hhi

/-- the last element itself is removed -/
theorem xinv_remove_last {h : Array HItem} {s : Array SNode} (x : XInv h s) (ff : Option Nat) (hn : 0 < h.size) :
    XInv h.pop (wr s (rd h (h.size - 1)).slab (.free ff)) := by
  obtain ⟨t1, tv, t2⟩ := x.fwd (h.size - 1) (by omega)
  constructor
  · intro k hk
    simp only [Array.size_pop] at hk
    rw [rd_pop _ _ hk]
    obtain ⟨p1, v1, p2⟩ := x.fwd k (by omega)
    have n2 : (rd h (h.size - 1)).slab ≠ (rd h k).slab := fun q => by
      have := x.inj (by omega) (by omega) q; omega
    exact ⟨by simpa using p1, v1, by rw [rd_wr_other _ _ _ _ n2]; exact p2⟩
  · intro j v hi' hj hu
    simp only [size_wr] at hj
    have jt : (rd h (h.size - 1)).slab ≠ j := fun q => by
      rw [← q, rd_wr_same _ _ _ t1] at hu; cases hu
    rw [rd_wr_other _ _ _ _ jt] at hu
    obtain ⟨p1, p2⟩ := x.bwd j v hi' hj hu
    have n1 : hi' ≠ h.size - 1 := fun q => jt (by rw [← p2, q])
    have : hi' < h.size - 1 := by omega
    exact ⟨by simpa using this, by rw [rd_pop _ _ this]; exact p2⟩

theorem ordered_pop {h : Array HItem} (o : Ordered h) : Ordered h.pop := by
  intro j j0 js
  simp only [Array.size_pop] at js
  rw [rd_pop _ _ js, rd_pop _ _ (by omega)]
  exact o j j0 (by omega)

theorem ordEx_pop {h : Array HItem} (o : Ordered h) (hole : Nat) : OrdEx h.pop hole := fun j j0 js _ _ =>
  ordered_pop o j j0 js

theorem downPre_remove {h : Array HItem} (o : Ordered h) (hi : Nat) (item : HItem) (hhi : hi < h.size - 1)
    (hle : hi ≠ 0 → (rd h hi).le item) : DownPre h.pop hi item := by
  constructor
  · exact ordEx_pop o hi
  · intro h0
    rw [rd_pop _ _ (by omega)]
    exact le_trans' (o hi (by omega) (by omega)) (hle h0)
  · intro h0 j j0 js jp
    simp only [Array.size_pop] at js
    rw [rd_pop _ _ (by omega), rd_pop _ _ js]
    have := o j j0 (by omega)
    rw [jp] at this
    exact le_trans' (o hi (by omega) (by omega)) this
  · simpa using hhi

theorem upPre_remove {h : Array HItem} (o : Ordered h) (hi : Nat) (item : HItem) (hhi : hi < h.size - 1)
    (hlt : item.lt (rd h hi)) : UpPre h.pop hi item := by
  constructor
  · exact ordEx_pop o hi
  · intro j j0 js jp
    simp only [Array.size_pop] at js
    rw [rd_pop _ _ js]
    have := o j j0 (by omega)
    rw [jp] at this
    exact lt_le_trans hlt this
  · intro h0 j j0 js jp
    simp only [Array.size_pop] at js
    rw [rd_pop _ _ (by omega), rd_pop _ _ js]
    have := o j j0 (by omega)
    rw [jp] at this
    exact le_trans' (o hi (by omega) (by omega)) this
  · simpa using hhi

/-! ### the three operations -/

theorem HInv.new : HInv HQ.new := by
  constructor
  · constructor
    · intro k hk; simp [HQ.new] at hk
    · intro j v hi hj; simp [HQ.new] at hj
  · intro j _ hj; simp [HQ.new] at hj

theorem HInv.insert {q : HQ} (i : HInv q) (k v : Nat) : HInv (q.insert k v).1 := by
  unfold HQ.insert
  split
  · rename_i idx hff
    split
    · rename_i hidx
      split
      · rename_i nx hfree
        have c := cross_push (s0 := wr q.slab idx (.used v 0)) i.x { key := k, epoch := q.nextEpoch, slab := 0 } idx v
          (fun j _ jn => rd_wr_other _ _ _ _ (Ne.symm jn)) (fun j hj _ => by simpa using hj) (by simp)
          ⟨by simpa using hidx, rd_wr_same _ _ _ hidx⟩ (fun v' hi' _ => by rw [hfree]; intro q; cases q)
        exact ⟨siftUp_cross _ _ _ _ c, siftUp_ord _ _ _ _ (upPre_push i.o _ _)⟩
      · exact ⟨i.x, i.o⟩
    · exact ⟨i.x, i.o⟩
  · have c := cross_push (s0 := q.slab.push (.used v 0)) i.x { key := k, epoch := q.nextEpoch, slab := 0 } q.slab.size v
      (fun j hj _ => rd_push_lt _ _ _ hj) (fun j hj jn => by simp only [Array.size_push] at hj; omega) (by simp)
      ⟨by simp, rd_push_eq _ _⟩ (fun v' hi' hh => by omega)
    exact ⟨siftUp_cross _ _ _ _ c, siftUp_ord _ _ _ _ (upPre_push i.o _ _)⟩

theorem HInv.pull {q : HQ} (i : HInv q) : HInv q.pull.1 := by
  unfold HQ.pull
  split
  · exact i
  · rename_i hne
    dsimp only
    split
    · split
      · exact ⟨i.x, i.o⟩
      · rename_i v hi hu
        by_cases e : (rd q.heap (q.heap.size - 1)).slab ≠ (rd q.heap 0).slab
        · rw [if_pos e]
          have h1 : 0 < q.heap.size - 1 := by
            rcases Nat.eq_zero_or_pos (q.heap.size - 1) with z | z
            · rw [z] at e; exact absurd rfl e
            · exact z
          exact ⟨siftDown_cross _ _ _ _ (cross_remove i.x 0 q.firstFree h1),
            siftDown_ord _ _ _ _ (downPre_remove i.o 0 _ h1 (fun h => absurd rfl h))⟩
        · rw [if_neg e]
          have e' := Classical.not_not.mp e
          have : q.heap.size - 1 = 0 := i.x.inj (by omega) (by omega) e'
          have x := xinv_remove_last i.x q.firstFree (by omega)
          rw [this] at x
          exact ⟨x, ordered_pop i.o⟩
    · exact ⟨i.x, i.o⟩

theorem HInv.extract {q : HQ} (i : HInv q) (idx e : Nat) : HInv (q.extract idx e).1 := by
  unfold HQ.extract
  split
  · rename_i hidx
    split
    · exact i
    · rename_i v hi hu
      split
      · rename_i hhi
        split
        · exact i
        · obtain ⟨b1, b2⟩ := i.x.bwd idx v hi hidx hu
          simp only [Array.size_pop]
          split
          · rename_i hlast
            have xr := cross_remove i.x hi q.firstFree hlast
            rw [b2] at xr
            split
            · rename_i hlt
              rw [rd_pop _ _ hlast] at hlt
              exact ⟨siftUp_cross _ _ _ _ xr, siftUp_ord _ _ _ _ (upPre_remove i.o hi _ hlast hlt)⟩
            · rename_i hlt
              rw [rd_pop _ _ hlast] at hlt
              exact ⟨siftDown_cross _ _ _ _ xr, siftDown_ord _ _ _ _ (downPre_remove i.o hi _ hlast (fun _ => hlt))⟩
          · rename_i hlast
            have : hi = q.heap.size - 1 := by omega
            have x := xinv_remove_last i.x q.firstFree (by omega)
            rw [← this, b2] at x
            exact ⟨x, ordered_pop i.o⟩
      · exact ⟨i.x, i.o⟩
  · exact i

theorem HInv.runOps {q : HQ} (i : HInv q) (ops : List HOp) : HInv (q.runOps ops) := by
  induction ops generalizing q with
  | nil => exact i
  | cons op ops ih =>
    apply ih
    cases op with
    | ins k v => exact i.insert k v
    | pull => exact i.pull
    | ext a b => exact i.extract a b

end NexoVerif.Heap
