import NexoVerif.Lemmas.SeqLockRead
/-! Reader steps; reachability; no torn read. -/
namespace NexoVerif.SeqLock

set_option maxHeartbeats 1000000

theorem rinv_reader (o : Ords) (hmin : minimal o) (s s' : St) (l : Label) (hi : Inv o s) (h : RInv s)
    (hl : ¬ ((∃ a b, l = .wBegin a b) ∨ l = .wStep)) (hs : step o l s = some s') : RInv s' := by
  obtain ⟨hwF, hwE, hrA, hrF⟩ := hmin
  obtain ⟨h1, h2, h3, h4, h5, h6⟩ := h
  cases l with
  | wBegin a b => exact absurd (Or.inl ⟨a, b, rfl⟩) hl
  | wStep => exact absurd (Or.inr rfl) hl
  | rLoadSeq1 i =>
    simp only [step] at hs
    split at hs
    · rename_i hc
      split at hs
      · rename_i m hm
        have hval := hi.seqVal i m hm
        split at hs
        · simp only [Option.some.injEq] at hs; subst hs
          refine ⟨?_, ?_, ?_, ?_, ?_, ?_⟩
          · intro r; simp [inRead, RPc.rank] at r
          · intro r1 r2; simp [RPc.rank] at r2
          · intro r1 r2; simp [RPc.rank] at r2
          · intro r; cases r
          · simp only [hrA, if_true, join_d1]; omega
          · intro _ x y hr; simp at hr
        · rename_i hodd
          simp only [Option.some.injEq] at hs; subst hs
          have hev := hi.evenView hwE i m hm (by omega)
          refine ⟨?_, ?_, ?_, ?_, ?_, ?_⟩
          · intro _; simp only [hrA, if_true, join_d1, join_d2]; omega
          · intro r1 r2; simp [RPc.rank] at r1
          · intro r1 r2; simp [RPc.rank] at r1
          · intro r; cases r
          · simp only [hrA, if_true, join_d1]; omega
          · intro r; cases r
      · simp at hs
    · simp at hs
  | rLoadD1 j =>
    simp only [step] at hs
    split at hs
    · rename_i hc
      split at hs
      · rename_i m hm
        simp only [Option.some.injEq] at hs; subst hs
        have hf := h1 (by simp [inRead, RPc.rank, hc.1])
        have hv := hi.d1View hwF j m hm
        refine ⟨?_, ?_, ?_, ?_, ?_, ?_⟩
        · intro _; simp only; omega
        · intro _ _; simp only [join_seq]
          refine ⟨by omega, ?_, by omega, m, hm, rfl⟩
          intro hj; have := hv hj; omega
        · intro r; simp [RPc.rank] at r
        · intro r; cases r
        · simp only; omega
        · intro r; cases r
      · simp at hs
    · simp at hs
  | rLoadD2 j =>
    simp only [step] at hs
    split at hs
    · rename_i hc
      split at hs
      · rename_i m hm
        simp only [Option.some.injEq] at hs; subst hs
        have hf := h1 (by simp [inRead, RPc.rank, hc.1])
        have ha := h2 (by simp [RPc.rank, hc.1]) (by simp [RPc.rank, hc.1])
        have hv := hi.d2View hwF j m hm
        refine ⟨?_, ?_, ?_, ?_, ?_, ?_⟩
        · intro _; simp only; omega
        · intro _ _; simp only [join_seq]
          obtain ⟨x1, x2, x3, x4⟩ := ha
          exact ⟨x1, fun hj => by have := x2 hj; omega, x3, x4⟩
        · intro _ _; simp only [join_seq]
          refine ⟨by omega, ?_, m, hm, rfl⟩
          intro hj; have := hv hj; omega
        · intro r; cases r
        · simp only; exact h5
        · intro r; cases r
      · simp at hs
    · simp at hs
  | rFence =>
    simp only [step] at hs
    split at hs
    · rename_i hc
      simp only [Option.some.injEq] at hs; subst hs
      have hf := h1 (by simp [inRead, RPc.rank, hc])
      have ha := h2 (by simp [RPc.rank, hc]) (by simp [RPc.rank, hc])
      have hb := h3 (by simp [RPc.rank, hc]) (by simp [RPc.rank, hc])
      refine ⟨?_, ?_, ?_, ?_, ?_, ?_⟩
      · intro _; simp only [hrF, if_true, join_d1, join_d2]; omega
      · intro _ _; exact ha
      · intro _ _; exact hb
      · intro _; simp only [hrF, if_true, join_seq]; omega
      · simp only [hrF, if_true, join_d1]; omega
      · intro r; cases r
    · simp at hs
  | rLoadSeq2 i =>
    simp only [step] at hs
    split at hs
    · rename_i hc
      split at hs
      · rename_i m hm
        have hval := hi.seqVal i m hm
        have hf := h1 (by simp [inRead, RPc.rank, hc.1])
        have ha := h2 (by simp [RPc.rank, hc.1]) (by simp [RPc.rank, hc.1])
        have hb := h3 (by simp [RPc.rank, hc.1]) (by simp [RPc.rank, hc.1])
        have hfe := h4 hc.1
        split at hs
        · rename_i heq
          simp only [Option.some.injEq] at hs; subst hs
          obtain ⟨a1, a2, a3, m1, hm1, hv1⟩ := ha
          obtain ⟨b1, b2, m2, hm2, hv2⟩ := hb
          -- the heart of the seqlock argument
          have hja : 2 * s.ja = s.rv := by
            rcases Nat.eq_zero_or_pos s.ja with h0 | hp
            · omega
            · have := a2 hp; omega
          have hjb : 2 * s.jb = s.rv := by
            rcases Nat.eq_zero_or_pos s.jb with h0 | hp
            · omega
            · have := b2 hp; omega
          refine ⟨?_, ?_, ?_, ?_, ?_, ?_⟩
          · intro r; simp [inRead, RPc.rank] at r
          · intro r1 r2; simp [RPc.rank] at r2
          · intro r1 r2; simp [RPc.rank] at r2
          · intro r; cases r
          · simp only; omega
          · intro _ x y hr
            simp only [Option.some.injEq, Prod.mk.injEq] at hr
            obtain ⟨rfl, rfl⟩ := hr
            exact ⟨by simp only; omega, rfl, m1, m2, hm1, hv1, hm2, hv2⟩
        · simp only [Option.some.injEq] at hs; subst hs
          refine ⟨?_, ?_, ?_, ?_, ?_, ?_⟩
          · intro r; simp [inRead, RPc.rank] at r
          · intro r1 r2; simp [RPc.rank] at r2
          · intro r1 r2; simp [RPc.rank] at r2
          · intro r; cases r
          · simp only; exact h5
          · intro _ x y hr; simp at hr
      · simp at hs
    · simp at hs
  | rRestart =>
    simp only [step] at hs
    split at hs
    · simp only [Option.some.injEq] at hs; subst hs
      constructor <;> simp_all [inRead, RPc.rank]
    · simp at hs

theorem reach_inv (o : Ords) (hmin : minimal o) (a0 b0 : Nat) {s : St} (h : Reach o a0 b0 s) : Inv o s ∧ RInv s := by
  induction h with
  | init => exact ⟨inv_init o a0 b0, rinv_init a0 b0⟩
  | step l _ hs ih =>
    by_cases hl : (∃ a b, l = .wBegin a b) ∨ l = .wStep
    · refine ⟨?_, rinv_writer o _ _ l hl ih.2 hs⟩
      rcases hl with ⟨a, b, rfl⟩ | rfl
      · exact inv_wBegin o _ _ a b ih.1 hs
      · exact inv_wStep o _ _ ih.1 hs
    · refine ⟨?_, rinv_reader o hmin _ _ l ih.1 ih.2 hl hs⟩
      -- reader steps leave memory and the writer untouched
      obtain ⟨i1, i2, i3, i4, i5, i6, i7, i8⟩ := ih.1
      cases l with
      | wBegin a b => exact absurd (Or.inl ⟨a, b, rfl⟩) hl
      | wStep => exact absurd (Or.inr rfl) hl
      | rLoadSeq1 i =>
        simp only [step] at hs
        split at hs
        · split at hs
          · split at hs <;> (simp only [Option.some.injEq] at hs; subst hs; exact ⟨i1, i2, i3, i4, i5, i6, i7, i8⟩)
          · simp at hs
        · simp at hs
      | rLoadD1 j =>
        simp only [step] at hs
        split at hs
        · split at hs
          · simp only [Option.some.injEq] at hs; subst hs; exact ⟨i1, i2, i3, i4, i5, i6, i7, i8⟩
          · simp at hs
        · simp at hs
      | rLoadD2 j =>
        simp only [step] at hs
        split at hs
        · split at hs
          · simp only [Option.some.injEq] at hs; subst hs; exact ⟨i1, i2, i3, i4, i5, i6, i7, i8⟩
          · simp at hs
        · simp at hs
      | rFence =>
        simp only [step] at hs
        split at hs
        · simp only [Option.some.injEq] at hs; subst hs; exact ⟨i1, i2, i3, i4, i5, i6, i7, i8⟩
        · simp at hs
      | rLoadSeq2 i =>
        simp only [step] at hs
        split at hs
        · split at hs
          · split at hs <;> (simp only [Option.some.injEq] at hs; subst hs; exact ⟨i1, i2, i3, i4, i5, i6, i7, i8⟩)
          · simp at hs
        · simp at hs
      | rRestart =>
        simp only [step] at hs
        split at hs
        · simp only [Option.some.injEq] at hs; subst hs; exact ⟨i1, i2, i3, i4, i5, i6, i7, i8⟩
        · simp at hs

/-- C15: in every execution of the release/acquire machine — any number of writes, any interleaving,
any stale-but-coherent choice of message by every relaxed load — a successful `try_read` returns the
two halves of ONE write (never seconds of one time and nanoseconds of another). -/
theorem no_torn_read (o : Ords) (hmin : minimal o) (a0 b0 : Nat) {s : St} (h : Reach o a0 b0 s)
    (hd : s.rpc = .done) (x y : Nat) (hr : s.result = some (some (x, y))) :
    ∃ (k : Nat) (m1 m2 : Msg), s.d1M[k]? = some m1 ∧ m1.val = x ∧ s.d2M[k]? = some m2 ∧ m2.val = y := by
  obtain ⟨e1, _, m1, m2, hm1, hv1, hm2, hv2⟩ := (reach_inv o hmin a0 b0 h).2.ok hd x y hr
  exact ⟨s.ja, m1, m2, hm1, hv1, e1 ▸ hm2, hv2⟩

end NexoVerif.SeqLock
