import NexoVerif.Lemmas.TaskInv
/-! Every atomic transition of M-TASK preserves the invariant. -/
namespace NexoVerif.TaskM

set_option maxHeartbeats 2000000

attribute [local grind] S.handles PPc.n TPc.n RPc.n S.rex expectedCore usesWc finOfOld S.oops S.hasWakerRef S.wakeCore

macro "task_step" f:ident : tactic => `(tactic|
  (unfold $f at *
   (repeat' (split at *))
   all_goals first
     | (simp at *; done)
     | (simp only [Option.some.injEq] at *; subst_vars; constructor <;> grind (splits := 60))))

theorem inv_stepWClone (s s' : S) (h : Inv s) (hl : s.live = true) (hs : stepWClone s = some s') : Inv s' := by
  obtain ⟨h1, h2, h3, h4, h5, h6, h7, h8, h9, h10, h11, h12, h13, h14, h15⟩ := h
  unfold stepWClone at hs
  split at hs
  · simp only [Option.some.injEq] at hs; subst hs; constructor <;> grind (splits := 60)
  · simp at hs

theorem inv_stepWWakeRef (s s' : S) (h : Inv s) (hl : s.live = true) (hs : stepWWakeRef s = some s') : Inv s' := by
  obtain ⟨h1, h2, h3, h4, h5, h6, h7, h8, h9, h10, h11, h12, h13, h14, h15⟩ := h
  unfold stepWWakeRef at hs
  split at hs
  · simp only [Option.some.injEq] at hs; subst hs; constructor <;> grind (splits := 60)
  · simp at hs

theorem inv_stepWWakeVal (s s' : S) (h : Inv s) (hl : s.live = true) (hs : stepWWakeVal s = some s') : Inv s' := by
  obtain ⟨h1, h2, h3, h4, h5, h6, h7, h8, h9, h10, h11, h12, h13, h14, h15⟩ := h
  unfold stepWWakeVal at hs
  split at hs
  · simp at hs
  · simp only at hs
    split at hs <;> (simp only [Option.some.injEq] at hs; subst hs; constructor <;> grind (splits := 60))

theorem inv_stepWDrop (s s' : S) (h : Inv s) (hl : s.live = true) (hs : stepWDrop s = some s') : Inv s' := by
  obtain ⟨h1, h2, h3, h4, h5, h6, h7, h8, h9, h10, h11, h12, h13, h14, h15⟩ := h
  unfold stepWDrop at hs
  split at hs
  · simp at hs
  · simp only at hs
    split at hs <;> (simp only [Option.some.injEq] at hs; subst hs; constructor <;> grind (splits := 60))

theorem inv_stepRStart (s s' : S) (h : Inv s) (hl : s.live = true) (hs : stepRStart s = some s') : Inv s' := by
  obtain ⟨h1, h2, h3, h4, h5, h6, h7, h8, h9, h10, h11, h12, h13, h14, h15⟩ := h
  unfold stepRStart at hs
  repeat' (split at hs)
  all_goals first
    | (simp at hs; done)
    | (simp only [Option.some.injEq] at hs; subst hs; constructor <;> grind (splits := 60))

theorem inv_stepRPollBegin (s s' : S) (h : Inv s) (hl : s.live = true) (hs : stepRPollBegin s = some s') : Inv s' := by
  obtain ⟨h1, h2, h3, h4, h5, h6, h7, h8, h9, h10, h11, h12, h13, h14, h15⟩ := h
  unfold stepRPollBegin at hs
  repeat' (split at hs)
  all_goals first
    | (simp at hs; done)
    | (simp only [Option.some.injEq] at hs; subst hs; constructor <;> grind (splits := 60))

theorem inv_stepRPollPending (s s' : S) (h : Inv s) (hl : s.live = true) (hs : stepRPollPending s = some s') : Inv s' := by
  obtain ⟨h1, h2, h3, h4, h5, h6, h7, h8, h9, h10, h11, h12, h13, h14, h15⟩ := h
  unfold stepRPollPending at hs
  repeat' (split at hs)
  all_goals first
    | (simp at hs; done)
    | (simp only [Option.some.injEq] at hs; subst hs; constructor <;> grind (splits := 60))

theorem inv_stepRPollReady (s s' : S) (h : Inv s) (hl : s.live = true) (hs : stepRPollReady s = some s') : Inv s' := by
  obtain ⟨h1, h2, h3, h4, h5, h6, h7, h8, h9, h10, h11, h12, h13, h14, h15⟩ := h
  unfold stepRPollReady at hs
  repeat' (split at hs)
  all_goals first
    | (simp at hs; done)
    | (simp only [Option.some.injEq] at hs; subst hs; constructor <;> grind (splits := 60))

theorem inv_stepRPollPanic (s s' : S) (h : Inv s) (hl : s.live = true) (hs : stepRPollPanic s = some s') : Inv s' := by
  obtain ⟨h1, h2, h3, h4, h5, h6, h7, h8, h9, h10, h11, h12, h13, h14, h15⟩ := h
  unfold stepRPollPanic at hs
  repeat' (split at hs)
  all_goals first
    | (simp at hs; done)
    | (simp only [Option.some.injEq] at hs; subst hs; constructor <;> grind (splits := 60))

theorem inv_stepRReadyA (s s' : S) (h : Inv s) (hl : s.live = true) (hs : stepRReadyA s = some s') : Inv s' := by
  obtain ⟨h1, h2, h3, h4, h5, h6, h7, h8, h9, h10, h11, h12, h13, h14, h15⟩ := h
  unfold stepRReadyA at hs
  repeat' (split at hs)
  all_goals first
    | (simp at hs; done)
    | (simp only [Option.some.injEq] at hs; subst hs; constructor <;> grind (splits := 60))

theorem inv_stepRReadyB (s s' : S) (h : Inv s) (hl : s.live = true) (hs : stepRReadyB s = some s') : Inv s' := by
  obtain ⟨h1, h2, h3, h4, h5, h6, h7, h8, h9, h10, h11, h12, h13, h14, h15⟩ := h
  unfold stepRReadyB at hs
  repeat' (split at hs)
  all_goals first
    | (simp at hs; done)
    | (simp only [Option.some.injEq] at hs; subst hs; constructor <;> grind (splits := 60))

theorem inv_stepRReadyC (s s' : S) (h : Inv s) (hl : s.live = true) (hs : stepRReadyC s = some s') : Inv s' := by
  obtain ⟨h1, h2, h3, h4, h5, h6, h7, h8, h9, h10, h11, h12, h13, h14, h15⟩ := h
  unfold stepRReadyC at hs
  repeat' (split at hs)
  all_goals first
    | (simp at hs; done)
    | (simp only [Option.some.injEq] at hs; subst hs; constructor <;> grind (splits := 60))

theorem inv_stepRReadyD (s s' : S) (h : Inv s) (hl : s.live = true) (hs : stepRReadyD s = some s') : Inv s' := by
  obtain ⟨h1, h2, h3, h4, h5, h6, h7, h8, h9, h10, h11, h12, h13, h14, h15⟩ := h
  unfold stepRReadyD at hs
  repeat' (split at hs)
  all_goals first
    | (simp at hs; done)
    | (simp only [Option.some.injEq] at hs; subst hs; constructor <;> grind (splits := 60))

theorem inv_stepRPend (s s' : S) (h : Inv s) (hl : s.live = true) (hs : stepRPend s = some s') : Inv s' := by
  obtain ⟨h1, h2, h3, h4, h5, h6, h7, h8, h9, h10, h11, h12, h13, h14, h15⟩ := h
  unfold stepRPend at hs
  repeat' (split at hs)
  all_goals first
    | (simp at hs; done)
    | (simp only [Option.some.injEq] at hs; subst hs; constructor <;> grind (splits := 60))

theorem inv_stepRDropQueued (s s' : S) (h : Inv s) (hl : s.live = true) (hs : stepRDropQueued s = some s') : Inv s' := by
  obtain ⟨h1, h2, h3, h4, h5, h6, h7, h8, h9, h10, h11, h12, h13, h14, h15⟩ := h
  unfold stepRDropQueued at hs
  repeat' (split at hs)
  all_goals first
    | (simp at hs; done)
    | (simp only [Option.some.injEq] at hs; subst hs; constructor <;> grind (splits := 60))

theorem inv_stepRCancelA (s s' : S) (h : Inv s) (hl : s.live = true) (hs : stepRCancelA s = some s') : Inv s' := by
  obtain ⟨h1, h2, h3, h4, h5, h6, h7, h8, h9, h10, h11, h12, h13, h14, h15⟩ := h
  unfold stepRCancelA at hs
  repeat' (split at hs)
  all_goals first
    | (simp at hs; done)
    | (simp only [Option.some.injEq] at hs; subst hs; constructor <;> grind (splits := 60))

theorem inv_stepRCancelB (s s' : S) (h : Inv s) (hl : s.live = true) (hs : stepRCancelB s = some s') : Inv s' := by
  obtain ⟨h1, h2, h3, h4, h5, h6, h7, h8, h9, h10, h11, h12, h13, h14, h15⟩ := h
  unfold stepRCancelB at hs
  repeat' (split at hs)
  all_goals first
    | (simp at hs; done)
    | (simp only [Option.some.injEq] at hs; subst hs; constructor <;> grind (splits := 60))

theorem inv_stepTCancel (s s' : S) (h : Inv s) (hl : s.live = true) (hs : stepTCancel s = some s') : Inv s' := by
  obtain ⟨h1, h2, h3, h4, h5, h6, h7, h8, h9, h10, h11, h12, h13, h14, h15⟩ := h
  unfold stepTCancel at hs
  repeat' (split at hs)
  all_goals first
    | (simp at hs; done)
    | (simp only [Option.some.injEq] at hs; subst hs; constructor <;> grind (splits := 60))

theorem inv_stepTDropFut (s s' : S) (h : Inv s) (hl : s.live = true) (hs : stepTDropFut s = some s') : Inv s' := by
  obtain ⟨h1, h2, h3, h4, h5, h6, h7, h8, h9, h10, h11, h12, h13, h14, h15⟩ := h
  unfold stepTDropFut at hs
  repeat' (split at hs)
  all_goals first
    | (simp at hs; done)
    | (simp only [Option.some.injEq] at hs; subst hs; constructor <;> grind (splits := 60))

theorem inv_stepTDecRef (s s' : S) (h : Inv s) (hl : s.live = true) (hs : stepTDecRef s = some s') : Inv s' := by
  obtain ⟨h1, h2, h3, h4, h5, h6, h7, h8, h9, h10, h11, h12, h13, h14, h15⟩ := h
  unfold stepTDecRef at hs
  repeat' (split at hs)
  all_goals first
    | (simp at hs; done)
    | (simp only [Option.some.injEq] at hs; subst hs; constructor <;> grind (splits := 60))

theorem inv_stepTDrop (s s' : S) (h : Inv s) (hl : s.live = true) (hs : stepTDrop s = some s') : Inv s' := by
  obtain ⟨h1, h2, h3, h4, h5, h6, h7, h8, h9, h10, h11, h12, h13, h14, h15⟩ := h
  unfold stepTDrop at hs
  repeat' (split at hs)
  all_goals first
    | (simp at hs; done)
    | (simp only [Option.some.injEq] at hs; subst hs; constructor <;> grind (splits := 60))

theorem inv_stepPPoll (s s' : S) (h : Inv s) (hl : s.live = true) (hs : stepPPoll s = some s') : Inv s' := by
  obtain ⟨h1, h2, h3, h4, h5, h6, h7, h8, h9, h10, h11, h12, h13, h14, h15⟩ := h
  unfold stepPPoll at hs
  repeat' (split at hs)
  all_goals first
    | (simp at hs; done)
    | (simp only [Option.some.injEq] at hs; subst hs; constructor <;> grind (splits := 60))

theorem inv_stepPTake (s s' : S) (h : Inv s) (hl : s.live = true) (hs : stepPTake s = some s') : Inv s' := by
  obtain ⟨h1, h2, h3, h4, h5, h6, h7, h8, h9, h10, h11, h12, h13, h14, h15⟩ := h
  unfold stepPTake at hs
  repeat' (split at hs)
  all_goals first
    | (simp at hs; done)
    | (simp only [Option.some.injEq] at hs; subst hs; constructor <;> grind (splits := 60))

theorem inv_stepPDrop (s s' : S) (h : Inv s) (hl : s.live = true) (hs : stepPDrop s = some s') : Inv s' := by
  obtain ⟨h1, h2, h3, h4, h5, h6, h7, h8, h9, h10, h11, h12, h13, h14, h15⟩ := h
  unfold stepPDrop at hs
  repeat' (split at hs)
  all_goals first
    | (simp at hs; done)
    | (simp only [Option.some.injEq] at hs; subst hs; constructor <;> grind (splits := 60))

theorem inv_stepFin (s s' : S) (h : Inv s) (hl : s.live = true) (hs : stepFin s = some s') : Inv s' := by
  obtain ⟨h1, h2, h3, h4, h5, h6, h7, h8, h9, h10, h11, h12, h13, h14, h15⟩ := h
  unfold stepFin at hs
  repeat' (split at hs)
  all_goals first
    | (simp at hs; done)
    | (simp only [Option.some.injEq] at hs; subst hs; constructor <;> grind (splits := 60))

end NexoVerif.TaskM
