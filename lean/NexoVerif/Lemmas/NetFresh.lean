import NexoVerif.Lemmas.NetCausal
/-! Event ids are fresh: no event arrives twice (M-NET). -/
namespace NexoVerif.Net
set_option linter.unusedSimpArgs false
set_option linter.unusedVariables false

def eids (s : St) (t : Nat) : List Nat := (s.task t).cur.map (·.eid)

structure FInv (s : St) : Prop where
  bound : ∀ t, ∀ e ∈ eids s t, e < s.nextEid
  nodup : ∀ t, (eids s t).Nodup
  disj : ∀ t t' e, e ∈ eids s t → e ∈ eids s t' → t = t'
  arrBound : ∀ e ∈ arrE s, e < s.nextEid
  arrNodup : (arrE s).Nodup
  pending : ∀ t sub, sub ∈ (s.task t).cur → sub.st = .toPush → sub.eid ∉ arrE s

theorem finv_init : FInv St.init := by
  constructor <;> simp [St.init, arrE, eids]

theorem setSt_map_eid (l : List Sub) (i : Nat) (st : SubSt) : (setSt l i st).map (·.eid) = l.map (·.eid) := by
  induction l generalizing i with
  | nil => simp [setSt]
  | cons a r ih => cases i <;> simp [setSt, ih]

theorem markReplied_map_eid (l : List Sub) (e v : Nat) : (markReplied l e v).map (·.eid) = l.map (·.eid) := by
  unfold markReplied
  rw [List.map_map]
  apply List.map_congr_left
  intro a _
  simp only [Function.comp]
  split <;> rfl

theorem mkSubs_map_eid (e : Nat) (op : Op) : (mkSubs e op).map (·.eid) = List.range' e op.length := by
  induction op generalizing e with
  | nil => simp [mkSubs]
  | cons x r ih =>
    obtain ⟨d, p, q⟩ := x
    simp [mkSubs, ih, List.range'_succ]

theorem setSt_pending {l : List Sub} {i : Nat} {st : SubSt} {sub x : Sub} (hi : l[i]? = some sub)
    (hn : (l.map (·.eid)).Nodup) (hx : x ∈ setSt l i st) (hst : st ≠ .toPush) (hxp : x.st = .toPush) :
    x ∈ l ∧ x.eid ≠ sub.eid := by
  induction l generalizing i with
  | nil => simp at hi
  | cons a r ih =>
    simp only [List.map_cons, List.nodup_cons] at hn
    cases i with
    | zero =>
      simp at hi; subst hi
      simp [setSt] at hx
      rcases hx with rfl | hx
      · exact absurd hxp hst
      · refine ⟨by simp [hx], ?_⟩
        intro he
        exact hn.1 (he ▸ List.mem_map_of_mem hx)
    | succ i =>
      simp at hi
      simp [setSt] at hx
      rcases hx with rfl | hx
      · refine ⟨by simp, ?_⟩
        intro he
        exact hn.1 (he ▸ List.mem_map_of_mem (List.mem_of_getElem? hi))
      · obtain ⟨h1, h2⟩ := ih hi hn.2 hx
        exact ⟨by simp [h1], h2⟩

theorem markReplied_pending {l : List Sub} {e v : Nat} {y : Sub} (hy : y ∈ markReplied l e v) (hp : y.st = .toPush) :
    y ∈ l := by
  unfold markReplied at hy
  simp only [List.mem_map] at hy
  obtain ⟨z, hz, rfl⟩ := hy
  by_cases hc : z.eid = e ∧ z.st = .pushed
  · simp [hc] at hp
  · simp only [hc, if_false]; exact hz

/-- steps that leave event ids, the arrival log and the id counter alone preserve freshness -/
theorem finv_frame {s s' : St} (h : FInv s)
    (hE : ∀ t, eids s' t = eids s t ∨ eids s' t = [])
    (hP : ∀ t y, y ∈ (s'.task t).cur → y.st = .toPush → y ∈ (s.task t).cur)
    (hN : s'.nextEid = s.nextEid) (hA : s'.arrLog = s.arrLog) : FInv s' := by
  obtain ⟨f1, f2, f3, f4, f5, f6⟩ := h
  have hAE : arrE s' = arrE s := by simp [arrE, hA]
  have sub : ∀ t e, e ∈ eids s' t → e ∈ eids s t := by
    intro t e he
    rcases hE t with h | h
    · rw [h] at he; exact he
    · rw [h] at he; simp at he
  refine ⟨?_, ?_, ?_, ?_, ?_, ?_⟩
  · intro t e he; rw [hN]; exact f1 t e (sub t e he)
  · intro t
    rcases hE t with h | h
    · rw [h]; exact f2 t
    · rw [h]; simp
  · intro t t' e h1 h2; exact f3 t t' e (sub t e h1) (sub t' e h2)
  · rw [hAE, hN]; exact f4
  · rw [hAE]; exact f5
  · intro t y hy hp; rw [hAE]; exact f6 t y (hP t y hy hp) hp

theorem finv_step (P : Prog) (l : Label) (s s' : St) (h : FInv s) (hs : step P l s = some s') : FInv s' := by
  unfold step at hs
  split at hs
  · simp at hs
  · cases l with
    | init m =>
      simp only at hs
      split at hs
      · simp only [Option.some.injEq] at hs; subst hs
        apply finv_frame h
        · intro t; left; unfold eids; by_cases ht : t = m
          · subst ht; simp
          · simp [upd_other _ _ ht]
        · intro t y hy _; by_cases ht : t = m
          · subst ht; simpa using hy
          · simpa [upd_other _ _ ht] using hy
        · rfl
        · rfl
      · simp at hs
    | spawn t0 ops =>
      simp only at hs
      split at hs
      · simp only [Option.some.injEq] at hs; subst hs
        apply finv_frame h
        · intro t; left; unfold eids; by_cases ht : t = t0
          · subst ht; simp
          · simp [upd_other _ _ ht]
        · intro t y hy _; by_cases ht : t = t0
          · subst ht; simpa using hy
          · simpa [upd_other _ _ ht] using hy
        · rfl
        · rfl
      · simp at hs
    | start t0 =>
      simp only at hs
      split at hs
      · rename_i op ops hph hcur hrest
        simp only [Option.some.injEq] at hs; subst hs
        obtain ⟨f1, f2, f3, f4, f5, f6⟩ := h
        have he0 : eids s t0 = [] := by simp [eids, hcur]
        have hnew : ∀ t, eids { s with task := upd s.task t0 { s.task t0 with cur := mkSubs s.nextEid op, rest := ops },
                                       nextEid := s.nextEid + op.length,
                                       sent := s.sent ++ (mkSubs s.nextEid op).map (fun x => (x.dst, x.eid)) } t
                          = if t = t0 then List.range' s.nextEid op.length else eids s t := by
          intro t
          by_cases ht : t = t0
          · subst ht; simp [eids, mkSubs_map_eid]
          · simp [eids, upd_other _ _ ht, ht]
        refine ⟨?_, ?_, ?_, ?_, f5, ?_⟩
        · intro t e he
          rw [hnew] at he
          split at he
          · simp [List.mem_range'_1] at he; simp; omega
          · have := f1 t e he; simp; omega
        · intro t
          rw [hnew]
          split
          · exact List.nodup_range' ..
          · exact f2 t
        · intro t t' e h1 h2
          rw [hnew] at h1 h2
          split at h1 <;> split at h2
          · rename_i a b; rw [a, b]
          · simp [List.mem_range'_1] at h1; have := f1 t' e h2; omega
          · simp [List.mem_range'_1] at h2; have := f1 t e h1; omega
          · exact f3 t t' e h1 h2
        · intro e he
          have := f4 e he; simp; omega
        · intro t y hy hp
          by_cases ht : t = t0
          · subst ht
            simp at hy
            have : y.eid ∈ List.range' s.nextEid op.length := by
              rw [← mkSubs_map_eid]; exact List.mem_map_of_mem hy
            simp [List.mem_range'_1] at this
            intro hc
            have := f4 _ hc
            omega
          · simp [upd_other _ _ ht] at hy
            exact f6 t y hy hp
      · simp at hs
    | push t0 i =>
      simp only at hs
      split at hs
      · rename_i sub hsub
        have hsubmem : sub ∈ (s.task t0).cur := List.mem_of_getElem? hsub
        split at hs
        · rename_i hst
          split at hs
          · simp only [Option.some.injEq] at hs; subst hs
            apply finv_frame h
            · intro t; left; unfold eids; by_cases ht : t = t0
              · subst ht; simp [setSt_map_eid]
              · simp [upd_other _ _ ht]
            · intro t y hy hp; by_cases ht : t = t0
              · subst ht
                simp at hy
                exact (setSt_pending hsub (h.nodup t) hy (by simp) hp).1
              · simpa [upd_other _ _ ht] using hy
            · rfl
            · rfl
          · simp only [Option.some.injEq] at hs; subst hs
            exact finv_frame h (fun t => Or.inl rfl) (fun t y hy _ => hy) rfl rfl
          · rename_i d hd
            split at hs
            · simp only [Option.some.injEq] at hs; subst hs
              obtain ⟨f1, f2, f3, f4, f5, f6⟩ := h
              have hE : ∀ t, eids { s with
                    task := upd s.task t0 { s.task t0 with cur := setSt (s.task t0).cur i .pushed },
                    mbox := upd s.mbox d (s.mbox d ++ [⟨sub.eid, t0, sub.payload, sub.query, sub.eid :: (s.task t0).past⟩]),
                    arrLog := s.arrLog ++ [(d, sub.eid)],
                    pasts := s.pasts ++ [(sub.eid, (s.task t0).past)],
                    count := s.count + 1 } t = eids s t := by
                intro t; unfold eids; by_cases ht : t = t0
                · subst ht; simp [setSt_map_eid]
                · simp [upd_other _ _ ht]
              have hsubE : sub.eid ∈ eids s t0 := List.mem_map_of_mem hsubmem
              refine ⟨?_, ?_, ?_, ?_, ?_, ?_⟩
              · intro t e he; rw [hE] at he; exact f1 t e he
              · intro t; rw [hE]; exact f2 t
              · intro t t' e h1 h2; rw [hE] at h1 h2; exact f3 t t' e h1 h2
              · intro e he
                simp [arrE] at he
                rcases he with ⟨a, ha⟩ | rfl
                · exact f4 e (by simp [arrE]; exact ⟨a, ha⟩)
                · exact f1 t0 _ hsubE
              · simp only [arrE, List.map_append, List.map_cons, List.map_nil]
                rw [List.nodup_append]
                refine ⟨f5, by simp, ?_⟩
                intro a ha b hb
                simp at hb; subst hb
                intro hab; subst hab
                exact f6 t0 sub hsubmem hst ha
              · intro t y hy hp
                simp only [arrE, List.map_append, List.map_cons, List.map_nil, List.mem_append, List.mem_singleton]
                by_cases ht : t = t0
                · subst ht
                  simp at hy
                  obtain ⟨hy1, hy2⟩ := setSt_pending hsub (f2 t) hy (by simp) hp
                  rintro (hc | hc)
                  · exact f6 t y hy1 hp hc
                  · exact hy2 hc
                · simp [upd_other _ _ ht] at hy
                  rintro (hc | hc)
                  · exact f6 t y hy hp hc
                  · have : y.eid ∈ eids s t := List.mem_map_of_mem hy
                    rw [hc] at this
                    exact ht (f3 t t0 _ this hsubE)
            · simp at hs
        · simp at hs
      · simp at hs
    | deliver m =>
      simp only at hs
      split at hs
      · simp only [Option.some.injEq] at hs; subst hs
        apply finv_frame h
        · intro t; left; unfold eids; by_cases ht : t = m
          · subst ht; simp
          · simp [upd_other _ _ ht]
        · intro t y hy _; by_cases ht : t = m
          · subst ht; simpa using hy
          · simpa [upd_other _ _ ht] using hy
        · rfl
        · rfl
      · simp at hs
    | opDone t0 =>
      simp only at hs
      split at hs
      · simp only [Option.some.injEq] at hs; subst hs
        apply finv_frame h
        · intro t; unfold eids; by_cases ht : t = t0
          · subst ht; right; simp
          · left; simp [upd_other _ _ ht]
        · intro t y hy _; by_cases ht : t = t0
          · subst ht; simp at hy
          · simpa [upd_other _ _ ht] using hy
        · rfl
        · rfl
      · simp at hs
    | finish t0 =>
      simp only at hs
      split at hs
      · split at hs
        · simp only [Option.some.injEq] at hs; subst hs
          apply finv_frame h
          · intro t; left; unfold eids; by_cases ht : t = t0
            · subst ht; simp
            · simp [upd_other _ _ ht]
          · intro t y hy _; by_cases ht : t = t0
            · subst ht; simpa using hy
            · simpa [upd_other _ _ ht] using hy
          · rfl
          · rfl
        · rename_i r e hserv
          simp only [Option.some.injEq] at hs; subst hs
          apply finv_frame h
          · intro t; left; unfold eids
            by_cases ht : t = t0
            · subst ht
              by_cases hr : t = r
              · subst hr; simp [markReplied_map_eid]
              · simp [upd_other _ _ hr]
            · by_cases hr : t = r
              · subst hr; simp [upd_other _ _ ht, markReplied_map_eid]
              · simp [upd_other _ _ ht, upd_other _ _ hr]
          · intro t y hy hp
            by_cases ht : t = t0
            · subst ht
              by_cases hr : t = r
              · subst hr; simp at hy; exact markReplied_pending hy hp
              · simpa [upd_other _ _ hr] using hy
            · by_cases hr : t = r
              · subst hr; simp [upd_other _ _ ht] at hy; exact markReplied_pending hy hp
              · simpa [upd_other _ _ ht, upd_other _ _ hr] using hy
          · rfl
          · rfl
      · simp at hs

theorem reach_finv (P : Prog) {s : St} (h : Reach P s) : FInv s := by
  induction h with
  | init => exact finv_init
  | step l _ hs ih => exact finv_step P l _ _ ih hs

theorem reach_cinv (P : Prog) {s : St} (h : Reach P s) : CInv s := by
  induction h with
  | init => exact cinv_init
  | step l _ hs ih => exact cinv_step P l _ _ ih hs

end NexoVerif.Net
