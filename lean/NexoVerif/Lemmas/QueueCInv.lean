import NexoVerif.Model.QueueC
namespace NexoVerif.CQ
set_option linter.unusedSimpArgs false
set_option linter.unusedVariables false
set_option maxHeartbeats 1000000

/-- two positions of the same slot differ by at least the capacity -/
theorem cong_gap {a b c : Nat} (hc : 0 < c) (hlt : a < b) (hm : a % c = b % c) : a + c ≤ b := by
  have h1 : (b - a) % c = 0 := Nat.sub_mod_eq_zero_of_mod_eq hm.symm
  have h2 : c ∣ (b - a) := Nat.dvd_of_mod_eq_zero h1
  obtain ⟨k, hk⟩ := h2
  have hk0 : k ≠ 0 := by intro h; subst h; simp at hk; omega
  have : c ≤ c * k := Nat.le_mul_of_pos_right c (Nat.pos_of_ne_zero hk0)
  omega

theorem cong_eq {a b c : Nat} (hc : 0 < c) (hle : a ≤ b) (hlt : b < a + c) (hm : a % c = b % c) : a = b := by
  rcases Nat.lt_or_ge a b with h | h
  · have := cong_gap hc h hm; omega
  · omega

structure Inv (s : St) : Prop where
  capPos : 0 < s.cap
  de : s.d ≤ s.e
  bound : s.e ≤ s.dRel + s.cap
  borrow : ∀ q, s.cons = .borrowed q → q + 1 = s.d ∧ s.stamp (q % s.cap) = 2 * q + 1
  clen : s.claims.length = s.e
  unclaimed : ∀ p, s.e ≤ p → s.stamp (p % s.cap) ≤ 2 * p
  even : ∀ i p, i < s.cap → s.stamp i = 2 * p → p % s.cap = i ∧ p < s.dRel + s.cap ∧ s.dRel ≤ p
  odd : ∀ i p, i < s.cap → s.stamp i = 2 * p + 1 →
    p % s.cap = i ∧ p < s.e ∧ s.dRel ≤ p ∧ ∃ pr, s.claims[p]? = some (pr, s.val i)
  gotStamp : ∀ i v p st, s.prod i = .gotStamp v p st → st ≤ s.stamp (p % s.cap)
  claimed : ∀ i v p, s.prod i = .claimed v p → p < s.e ∧ s.stamp (p % s.cap) = 2 * p ∧ s.claims[p]? = some (i, v)
  wrote : ∀ i v p, s.prod i = .wrote v p →
    p < s.e ∧ s.stamp (p % s.cap) = 2 * p ∧ s.claims[p]? = some (i, v) ∧ s.val (p % s.cap) = v
  pops : s.popped = (s.claims.take s.d).map (·.2)
  popClosed : s.popClosed = true → s.closed = true ∧ s.d = s.e

theorem inv_init (cap : Nat) (hc : 0 < cap) : Inv { cap := cap } := by
  constructor <;> simp [St.dRel]
  · exact hc
  · intro p; have := Nat.mod_le p cap; omega
  · intro i p hi h; have : p = i := by omega
    subst this; exact ⟨Nat.mod_eq_of_lt hi, by omega⟩
  · intro i p hi h; omega

theorem dRel_le (s : St) (h : Inv s) : s.dRel ≤ s.d := by
  unfold St.dRel; split <;> omega

/-- `loadPos` only touches the producer's program counter and the result log -/
theorem inv_loadPos (s : St) (i v : Nat) (h : Inv s) (hi : ∀ v' p, s.prod i ≠ .claimed v' p ∧ s.prod i ≠ .wrote v' p) :
    Inv (loadPos s i v) := by
  obtain ⟨a1, a2, a3, a4, a5, a6, a7, a8, a9, a10, a11, a12, a13⟩ := h
  unfold loadPos
  split
  · refine ⟨a1, a2, a3, a4, a5, a6, a7, a8, ?_, ?_, ?_, a12, a13⟩
    · intro j v' p st hj
      by_cases hji : j = i
      · subst hji; simp at hj
      · simp only [upd_other _ _ hji] at hj; exact a9 j v' p st hj
    · intro j v' p hj
      by_cases hji : j = i
      · subst hji; simp at hj
      · simp only [upd_other _ _ hji] at hj; exact a10 j v' p hj
    · intro j v' p hj
      by_cases hji : j = i
      · subst hji; simp at hj
      · simp only [upd_other _ _ hji] at hj; exact a11 j v' p hj
  · refine ⟨a1, a2, a3, a4, a5, a6, a7, a8, ?_, ?_, ?_, a12, a13⟩
    · intro j v' p st hj
      by_cases hji : j = i
      · subst hji; simp at hj
      · simp only [upd_other _ _ hji] at hj; exact a9 j v' p st hj
    · intro j v' p hj
      by_cases hji : j = i
      · subst hji; simp at hj
      · simp only [upd_other _ _ hji] at hj; exact a10 j v' p hj
    · intro j v' p hj
      by_cases hji : j = i
      · subst hji; simp at hj
      · simp only [upd_other _ _ hji] at hj; exact a11 j v' p hj

end NexoVerif.CQ
