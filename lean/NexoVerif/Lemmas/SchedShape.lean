import NexoVerif.Lemmas.SchedLog
/-! Shape of the log appended by each phase: `s'.log = A ++ s.log` with every element of `A` of a given kind. -/
namespace NexoVerif.Sched
set_option linter.unusedSimpArgs false
set_option linter.unusedVariables false

/-- `s'` extends the log of `s` by observations all satisfying `P` -/
def LogExt (P : Obs → Prop) (l l' : List Obs) : Prop := ∃ A, l' = A ++ l ∧ ∀ o ∈ A, P o

theorem LogExt.refl (P : Obs → Prop) (l : List Obs) : LogExt P l l := ⟨[], rfl, by simp⟩

theorem LogExt.trans {P : Obs → Prop} {l1 l2 l3 : List Obs} (h1 : LogExt P l1 l2) (h2 : LogExt P l2 l3) :
    LogExt P l1 l3 := by
  obtain ⟨A, rfl, hA⟩ := h1
  obtain ⟨B, rfl, hB⟩ := h2
  exact ⟨B ++ A, by simp, fun o ho => by
    simp at ho; rcases ho with h | h
    · exact hB o h
    · exact hA o h⟩

theorem LogExt.cons {P : Obs → Prop} {l : List Obs} (o : Obs) (h : P o) : LogExt P l (o :: l) :=
  ⟨[o], rfl, by simpa using h⟩

theorem LogExt.mono {P Q : Obs → Prop} {l l' : List Obs} (h : LogExt P l l') (hpq : ∀ o, P o → Q o) :
    LogExt Q l l' := by
  obtain ⟨A, rfl, hA⟩ := h
  exact ⟨A, rfl, fun o ho => hpq o (hA o ho)⟩

def Obs.isDiscard : Obs → Prop | .discard _ => True | _ => False
def Obs.isExt : Obs → Prop | .ext _ _ => True | _ => False
def Obs.isRun : Obs → Prop | .fire .. => True | .skip .. => True | _ => False
def Obs.isSync : Obs → Prop | .sync _ => True | _ => False

theorem discard_go_ext (bound : Option Nat) (q : List Entry) (s : St) :
    LogExt Obs.isDiscard s.log (discardCancelled.go bound q s).log := by
  induction q generalizing s with
  | nil => exact LogExt.refl _ _
  | cons e es ih =>
    unfold discardCancelled.go
    split
    · exact (LogExt.cons (l := s.log) (.discard e.aid) trivial).trans (ih _)
    · exact LogExt.refl _ _

theorem discard_ext (bound : Option Nat) (s : St) :
    LogExt Obs.isDiscard s.log (discardCancelled bound s).log := discard_go_ext bound s.queue s

theorem pullAll_ext (bound : Option Nat) (t fuel : Nat) (s : St) (gs : List (List Entry)) :
    LogExt Obs.isDiscard s.log (pullAll bound t fuel s gs).1.log := by
  induction fuel generalizing s gs with
  | zero => exact LogExt.refl _ _
  | succ n ih =>
    unfold pullAll
    simp only
    split
    · exact discard_ext bound s
    · split
      · split
        · exact discard_ext bound s
        · rename_i e' s' hp
          obtain ⟨_, _, _, _, _, _, _, hlog, _⟩ := pullHead_spec hp
          have := ih s' (addToGroups e' gs)
          rw [hlog] at this
          exact (discard_ext bound s).trans this
      · exact discard_ext bound s

theorem execExt_ext (s : St) (rs : List SchedReq) : LogExt Obs.isExt s.log (execExt s rs).log := by
  induction rs generalizing s with
  | nil => exact LogExt.refl _ _
  | cons r rs ih =>
    simp only [execExt]
    have h1 : LogExt Obs.isExt s.log
        ({ (sched s r).1 with log := .ext r.aid ((sched s r).2 == .ok) :: (sched s r).1.log } : St).log := by
      simp only [sched_log]
      exact LogExt.cons _ trivial
    exact h1.trans (ih _)

theorem runFire_ext (prog : Prog) (s : St) (e : Entry) (m : Nat) :
    LogExt Obs.isRun s.log (runFire prog s e m).log := by
  unfold runFire
  split
  · exact LogExt.cons _ trivial
  · rw [execH_log]; exact LogExt.cons _ trivial

theorem runSeq_ext (prog : Prog) (fs : List (Entry × Nat)) (s : St) :
    LogExt Obs.isRun s.log (runSeq prog fs s).log := by
  induction fs generalizing s with
  | nil => exact LogExt.refl _ _
  | cons f r ih =>
    obtain ⟨e, m⟩ := f
    rw [runSeq]
    exact (runFire_ext prog s e m).trans (ih _)

/-- `doSync`: exactly one `sync t`, followed (on top) by the results of the foreign requests -/
theorem doSync_shape (prog : Prog) (t : Nat) (s : St) :
    LogExt Obs.isExt (.sync t :: s.log) (doSync prog t s).1.log := by
  unfold doSync
  exact execExt_ext _ _

end NexoVerif.Sched
