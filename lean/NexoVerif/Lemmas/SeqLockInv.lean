import NexoVerif.Model.SeqLock
/-! Memory invariant of M-SEQLOCK. -/
namespace NexoVerif.SeqLock

theorem getElem?_snoc {α} (l : List α) (x m : α) (i : Nat) (h : (l ++ [x])[i]? = some m) :
    l[i]? = some m ∨ (i = l.length ∧ m = x) := by
  by_cases hi : i < l.length
  · left; rwa [List.getElem?_append_left hi] at h
  · right
    have hi' : l.length ≤ i := Nat.le_of_not_lt hi
    rw [List.getElem?_append_right hi'] at h
    have : i - l.length = 0 := by
      cases hk : i - l.length with
      | zero => rfl
      | succ k => rw [hk] at h; simp at h
    rw [this] at h; simp at h
    exact ⟨by omega, h.symm⟩

def minimal (o : Ords) : Prop :=
  o.wFence.isRel = true ∧ o.wEven.isRel = true ∧ o.rFirst.isAcq = true ∧ o.rFence.isAcq = true

def dataPhase : WPc → Bool | .fenced | .d1Stored | .d2Stored => true | _ => false

structure Inv (o : Ords) (s : St) : Prop where
  -- memory shape
  seqVal : ∀ i (m : Msg), s.seqM[i]? = some m → m.val = i
  seqNe : 1 ≤ s.seqM.length
  shape :
    (s.wpc = .idle → s.seqM.length % 2 = 1 ∧ 2 * s.d1M.length = s.seqM.length + 1 ∧ s.d2M.length = s.d1M.length) ∧
    (s.wpc = .loaded → s.seqM.length % 2 = 1 ∧ 2 * s.d1M.length = s.seqM.length + 1 ∧ s.d2M.length = s.d1M.length ∧ s.ws + 1 = s.seqM.length) ∧
    (s.wpc = .oddStored ∨ s.wpc = .fenced → s.seqM.length % 2 = 0 ∧ 2 * s.d1M.length = s.seqM.length ∧ s.d2M.length = s.d1M.length ∧ s.ws + 2 = s.seqM.length) ∧
    (s.wpc = .d1Stored → s.seqM.length % 2 = 0 ∧ 2 * s.d1M.length = s.seqM.length + 2 ∧ s.d2M.length + 1 = s.d1M.length ∧ s.ws + 2 = s.seqM.length) ∧
    (s.wpc = .d2Stored → s.seqM.length % 2 = 0 ∧ 2 * s.d1M.length = s.seqM.length + 2 ∧ s.d2M.length = s.d1M.length ∧ s.ws + 2 = s.seqM.length)
  -- writer views
  wcurOk : s.wcur.seq + 1 = s.seqM.length ∧ s.wcur.d1 + 1 = s.d1M.length ∧ s.wcur.d2 + 1 = s.d2M.length
  wrelOk : o.wFence.isRel = true → dataPhase s.wpc = true → s.wrel.seq + 1 = s.seqM.length
  -- message views (these are what the orderings buy)
  evenView : o.wEven.isRel = true → ∀ i (m : Msg), s.seqM[i]? = some m → i % 2 = 0 → i ≤ 2 * m.view.d1 ∧ i ≤ 2 * m.view.d2
  d1View : o.wFence.isRel = true → ∀ j (m : Msg), s.d1M[j]? = some m → 1 ≤ j → 2 * j ≤ m.view.seq + 1
  d2View : o.wFence.isRel = true → ∀ j (m : Msg), s.d2M[j]? = some m → 1 ≤ j → 2 * j ≤ m.view.seq + 1

theorem inv_init (o : Ords) (a b : Nat) : Inv o (init a b) := by
  constructor <;> simp [init, dataPhase, View.zero]
  · intro i m h
    cases i with
    | zero => simp at h; subst h; rfl
    | succ n => simp at h
  · intro _ i m h hi
    cases i with
    | zero => simp
    | succ n => simp at h
  · intro _ j m h hj
    cases j with
    | zero => omega
    | succ n => simp at h
  · intro _ j m h hj
    cases j with
    | zero => omega
    | succ n => simp at h

end NexoVerif.SeqLock
