import NexoVerif.Lemmas.PoolStep1
namespace NexoVerif.Pool
set_option linter.unusedSimpArgs false
set_option linter.unusedVariables false
set_option maxHeartbeats 4000000


macro "pool_auto0" : tactic => `(tactic|
  (first
    | (intro v hv; grind [upd, WPc.quiet, WPc.needsActive, onlyActive, noneActive])
    | grind [upd, WPc.quiet, WPc.needsActive, onlyActive, noneActive]))

macro "pool_auto" w:ident : tactic => `(tactic|
  (first
    | (intro v hv; by_cases hvw : v = $w <;> grind [upd, WPc.quiet, WPc.needsActive, onlyActive, noneActive])
    | grind [upd, WPc.quiet, WPc.needsActive, onlyActive, noneActive]))

macro "pool_auto2" w:ident u:ident : tactic => `(tactic|
  (first
    | (intro x hx; by_cases hxw : x = $w <;> by_cases hxu : x = $u <;>
        grind [upd, WPc.quiet, WPc.needsActive, onlyActive, noneActive])
    | grind [upd, WPc.quiet, WPc.needsActive, onlyActive, noneActive]))

theorem quiet_of {p : WPc} (h : p = .deact ∨ p = .lastCheck ∨ p = .lastClear ∨ p = .lastUnpark ∨ p = .parked) : p.quiet = true := by
  rcases h with rfl | rfl | rfl | rfl | rfl <;> rfl

theorem inv_step (l : Label) (s s' : St) (h : Inv s) (hs : step l s = some s') : Inv s' := by
  have hff := h.ff
  cases l with
  | flush w =>
    simp only [step] at hs
    split at hs
    · rename_i hc
      obtain ⟨hw, hpc⟩ := hc
      simp only [hff, if_true, Option.some.injEq] at hs; subst hs
      -- count published, then the program counter moves
      obtain ⟨ff, i1, i2, i3, i4, i5, i6, i7, i8, i9, i10, i11⟩ := h
      have hloc : s.loc w = 0 := i3 w hw (Or.inr hpc)
      have hact : s.active w = true := i4 w hw (by rw [hpc]; rfl)
      refine ⟨rfl, ?_, ?_, ?_, ?_, ?_, ?_, i7, i8, ?_, ?_, ?_⟩
      · intro v hv ha
        have hvw : v ≠ w := by intro h; subst h; rw [hact] at ha; simp at ha
        simp only [upd_other _ _ hvw]; exact i1 v hv ha
      · intro v hv hq
        by_cases hvw : v = w
        · subst hvw; simp; exact hloc
        · simp only [upd_other _ _ hvw] at hq ⊢; exact i2 v hv hq
      · intro v hv hq
        by_cases hvw : v = w
        · subst hvw; exact hloc
        · simp only [upd_other _ _ hvw] at hq; exact i3 v hv hq
      · intro v hv hq
        by_cases hvw : v = w
        · subst hvw; exact hact
        · simp only [upd_other _ _ hvw] at hq; exact i4 v hv hq
      · intro v hv hq
        by_cases hvw : v = w
        · subst hvw; simp at hq
        · simp only [upd_other _ _ hvw] at hq; exact i5 v hv hq
      · intro v hv hq
        by_cases hvw : v = w
        · subst hvw; simp at hq
        · simp only [upd_other _ _ hvw] at hq; exact i6 v hv hq
      · intro v hv ht
        by_cases hvw : v = w
        · subst hvw; have := (i9 v hv ht).2; rw [hpc] at this; simp at this
        · simp only [upd_other _ _ hvw]; exact i9 v hv ht
      · intro v hv ha hp
        by_cases hvw : v = w
        · subst hvw; simp at hp
        · simp only [upd_other _ _ hvw] at hp; exact i10 v hv ha hp
      · intro v hv
        by_cases hvw : v = w
        · subst hvw; simp
        · simp only [upd_other _ _ hvw]; exact i11 v hv
    · simp at hs
  | deact w =>
    simp only [step] at hs
    split at hs
    · rename_i hc
      obtain ⟨hw, hpc⟩ := hc
      have hq := h.quietPc w hw (by rw [hpc]; rfl)
      have hact := h.activePc w hw (by rw [hpc]; rfl)
      split at hs
      · rename_i honly
        simp only [Option.some.injEq] at hs; subst hs
        exact inv_pc_move s w .lastCheck h hw (fun _ => hq) (by simp) (fun _ => hact) (fun _ => honly) (by simp)
          (fun ha => by rw [hact] at ha; simp at ha)
          (fun ht => by have := (h.tokActive w hw ht).2; rw [hpc] at this; simp at this) (by simp) (by simp)
      · rename_i hnot
        simp only [hff, if_true, Option.some.injEq] at hs; subst hs
        obtain ⟨ff, i1, i2, i3, i4, i5, i6, i7, i8, i9, i10, i11⟩ := h
        -- some other worker is active
        have hother : ∃ v, v < s.n ∧ v ≠ w ∧ s.active v = true := by
          unfold onlyActive at hnot
          apply Classical.byContradiction
          intro hno
          apply hnot
          intro v hv hvw
          cases hav : s.active v with
          | false => rfl
          | true => exact absurd ⟨v, hv, hvw, hav⟩ hno
        obtain ⟨u, hu, huw, hua⟩ := hother
        have htokw : s.tok w = false := by
          cases ht : s.tok w with
          | false => rfl
          | true => have := (i9 w hw ht).2; rw [hpc] at this; simp at this
        refine ⟨rfl, ?_, ?_, ?_, ?_, ?_, ?_, ?_, ?_, ?_, ?_, ?_⟩
        · intro v hv ha
          by_cases hvw : v = w
          · subst hvw; simp; exact hq
          · simp only [upd_other _ _ hvw] at ha ⊢; exact i1 v hv ha
        · intro v hv hq'
          by_cases hvw : v = w
          · subst hvw; exact hq
          · simp only [upd_other _ _ hvw] at hq'; exact i2 v hv hq'
        · intro v hv hq'
          by_cases hvw : v = w
          · subst hvw; simp at hq'
          · simp only [upd_other _ _ hvw] at hq'; exact i3 v hv hq'
        · intro v hv hq'
          by_cases hvw : v = w
          · subst hvw; simp [WPc.needsActive] at hq'
          · simp only [upd_other _ _ hvw] at hq' ⊢; exact i4 v hv hq'
        · intro v hv hq'
          by_cases hvw : v = w
          · subst hvw; simp at hq'
          · simp only [upd_other _ _ hvw] at hq'
            -- impossible: w was active and is not v
            have := i5 v hv hq' w hw (Ne.symm hvw)
            rw [hact] at this; simp at this
        · intro v hv hq'
          by_cases hvw : v = w
          · subst hvw; simp at hq'
          · simp only [upd_other _ _ hvw] at hq'; exact i6 v hv hq'
        · intro hi
          left; exact ⟨u, hu, by simp only [upd_other _ _ huw]; exact hua⟩
        · intro hm
          have := i8 hm w hw
          rw [hact] at this; simp at this
        · intro v hv ht
          by_cases hvw : v = w
          · subst hvw; rw [htokw] at ht; simp at ht
          · simp only [upd_other _ _ hvw]; exact i9 v hv ht
        · intro v hv ha hp
          by_cases hvw : v = w
          · subst hvw; simp at ha
          · simp only [upd_other _ _ hvw] at ha hp; exact i10 v hv ha hp
        · intro v hv
          by_cases hvw : v = w
          · subst hvw; simp
          · simp only [upd_other _ _ hvw]; exact i11 v hv
    · simp at hs
  | lateFlush w =>
    simp only [step] at hs
    split at hs
    · rename_i hc; exact absurd hc.2 (h.noLate w hc.1).1
    · simp at hs
  | lastFlush w =>
    simp only [step] at hs
    split at hs
    · rename_i hc; exact absurd hc.2 (h.noLate w hc.1).2
    · simp at hs
  | lastCheck w =>
    simp only [step] at hs
    split at hs
    · rename_i hc
      obtain ⟨hw, hpc⟩ := hc
      have hq := h.quietPc w hw (by rw [hpc]; rfl)
      have hact := h.activePc w hw (by rw [hpc]; rfl)
      have honly := h.last w hw (Or.inl hpc)
      have htok : s.tok w = true → False := fun ht => by have := (h.tokActive w hw ht).2; rw [hpc] at this; simp at this
      split at hs
      · rename_i hinj
        simp only [Option.some.injEq] at hs; subst hs
        exact inv_pc_move s w .lastClear h hw (fun _ => hq) (by simp) (fun _ => hact) (fun _ => honly) (fun _ => hinj)
          (fun ha => by rw [hact] at ha; simp at ha) (fun ht => absurd ht (by simpa using htok)) (by simp) (by simp)
      · simp only [Option.some.injEq] at hs; subst hs
        exact inv_congr (a := { s with wpc := upd s.wpc w .search }) ⟨rfl, rfl, rfl, rfl, rfl, rfl, rfl, rfl, rfl⟩
          (inv_pc_move s w .search h hw (by simp [WPc.quiet]) (fun _ => hq.1) (fun _ => hact) (by simp) (by simp)
            (fun ha => by rw [hact] at ha; simp at ha) (fun ht => absurd ht (by simpa using htok)) (by simp) (by simp))
    · simp at hs
  | lastClear w =>
    simp only [step] at hs
    split at hs
    · rename_i hc
      obtain ⟨hw, hpc⟩ := hc
      simp only [hff, if_true, Option.some.injEq] at hs; subst hs
      have honly := h.last w hw (Or.inr hpc)
      unfold onlyActive at honly
      obtain ⟨ff, i1, i2, i3, i4, i5, i6, i7, i8, i9, i10, i11⟩ := h
      refine ⟨rfl, ?_, ?_, ?_, ?_, ?_, ?_, ?_, ?_, ?_, ?_, ?_⟩
      all_goals pool_auto w
    · simp at hs
  | lastUnpark w =>
    simp only [step] at hs
    split at hs
    · rename_i hc
      obtain ⟨hw, hpc⟩ := hc
      simp only [Option.some.injEq] at hs; subst hs
      obtain ⟨ff, i1, i2, i3, i4, i5, i6, i7, i8, i9, i10, i11⟩ := h
      refine ⟨ff, ?_, ?_, ?_, ?_, ?_, ?_, ?_, ?_, ?_, ?_, ?_⟩
      all_goals pool_auto w
    · simp at hs
  | wake w =>
    simp only [step] at hs
    split at hs
    · rename_i hc
      obtain ⟨hw, hpc, htk⟩ := hc
      simp only [Option.some.injEq] at hs; subst hs
      obtain ⟨ff, i1, i2, i3, i4, i5, i6, i7, i8, i9, i10, i11⟩ := h
      refine ⟨ff, ?_, ?_, ?_, ?_, ?_, ?_, ?_, ?_, ?_, ?_, ?_⟩
      all_goals pool_auto w
    · simp at hs
  | takeInj w k =>
    simp only [step] at hs
    split at hs
    · rename_i hc
      obtain ⟨hw, hpc, hk, hki⟩ := hc
      simp only [Option.some.injEq] at hs; subst hs
      obtain ⟨ff, i1, i2, i3, i4, i5, i6, i7, i8, i9, i10, i11⟩ := h
      refine ⟨ff, ?_, ?_, ?_, ?_, ?_, ?_, ?_, ?_, ?_, ?_, ?_⟩
      all_goals pool_auto w
    · simp at hs
  | steal w v k =>
    simp only [step] at hs
    split at hs
    · rename_i hc
      obtain ⟨hw, hv, hvw, hpc, hav, hk, hkl⟩ := hc
      simp only [Option.some.injEq] at hs; subst hs
      obtain ⟨ff, i1, i2, i3, i4, i5, i6, i7, i8, i9, i10, i11⟩ := h
      refine ⟨ff, ?_, ?_, ?_, ?_, ?_, ?_, ?_, ?_, ?_, ?_, ?_⟩
      all_goals pool_auto2 w v
    · simp at hs
  | giveUp w =>
    simp only [step] at hs
    split at hs
    · rename_i hc
      obtain ⟨hw, hpc⟩ := hc
      simp only [Option.some.injEq] at hs; subst hs
      obtain ⟨ff, i1, i2, i3, i4, i5, i6, i7, i8, i9, i10, i11⟩ := h
      refine ⟨ff, ?_, ?_, ?_, ?_, ?_, ?_, ?_, ?_, ?_, ?_, ?_⟩
      all_goals pool_auto w
    · simp at hs
  | pop w =>
    simp only [step] at hs
    split at hs
    · rename_i hc
      obtain ⟨hw, hpc, hl⟩ := hc
      simp only [Option.some.injEq] at hs; subst hs
      obtain ⟨ff, i1, i2, i3, i4, i5, i6, i7, i8, i9, i10, i11⟩ := h
      refine ⟨ff, ?_, ?_, ?_, ?_, ?_, ?_, ?_, ?_, ?_, ?_, ?_⟩
      all_goals pool_auto w
    · simp at hs
  | idleLoop w =>
    simp only [step] at hs
    split at hs
    · rename_i hc
      obtain ⟨hw, hpc, hl⟩ := hc
      simp only [Option.some.injEq] at hs; subst hs
      obtain ⟨ff, i1, i2, i3, i4, i5, i6, i7, i8, i9, i10, i11⟩ := h
      refine ⟨ff, ?_, ?_, ?_, ?_, ?_, ?_, ?_, ?_, ?_, ?_, ?_⟩
      all_goals pool_auto w
    · simp at hs
  | push w k =>
    simp only [step] at hs
    split at hs
    · rename_i hc
      obtain ⟨hw, hpc⟩ := hc
      simp only [Option.some.injEq] at hs; subst hs
      obtain ⟨ff, i1, i2, i3, i4, i5, i6, i7, i8, i9, i10, i11⟩ := h
      refine ⟨ff, ?_, ?_, ?_, ?_, ?_, ?_, ?_, ?_, ?_, ?_, ?_⟩
      all_goals pool_auto w
    · simp at hs
  | finishTask w spawn delta =>
    simp only [step] at hs
    split at hs
    · rename_i hc
      obtain ⟨hw, hpc⟩ := hc
      simp only [Option.some.injEq] at hs; subst hs
      obtain ⟨ff, i1, i2, i3, i4, i5, i6, i7, i8, i9, i10, i11⟩ := h
      refine ⟨ff, ?_, ?_, ?_, ?_, ?_, ?_, ?_, ?_, ?_, ?_, ?_⟩
      all_goals pool_auto w
    · simp at hs
  | overflow w k =>
    simp only [step] at hs
    split at hs
    · rename_i hc
      obtain ⟨hw, hpc, hk⟩ := hc
      simp only [Option.some.injEq] at hs; subst hs
      have hactw := h.activePc w hw (by rw [hpc]; rfl)
      obtain ⟨ff, i1, i2, i3, i4, i5, i6, i7, i8, i9, i10, i11⟩ := h
      refine ⟨ff, ?_, ?_, ?_, ?_, ?_, ?_, ?_, ?_, ?_, ?_, ?_⟩
      all_goals pool_auto w
    · simp at hs
  | activate w v =>
    simp only [step] at hs
    split at hs
    · rename_i hc
      obtain ⟨hw, hv, hpc, hav⟩ := hc
      simp only [Option.some.injEq] at hs; subst hs
      have hactw := h.activePc w hw (by rw [hpc]; rfl)
      have hvw : v ≠ w := by intro e; subst e; rw [hactw] at hav; simp at hav
      have hinv := h.inactive v hv hav
      obtain ⟨ff, i1, i2, i3, i4, i5, i6, i7, i8, i9, i10, i11⟩ := h
      refine ⟨ff, ?_, ?_, ?_, ?_, ?_, ?_, fun _ => Or.inl ⟨v, hv, by simp⟩, ?_, ?_, ?_, ?_⟩
      all_goals pool_auto2 w v
    · simp at hs
  | mSpawn k =>
    simp only [step] at hs
    split at hs
    · rename_i hc
      simp only [Option.some.injEq] at hs; subst hs
      obtain ⟨ff, i1, i2, i3, i4, i5, i6, i7, i8, i9, i10, i11⟩ := h
      refine ⟨ff, ?_, ?_, ?_, ?_, ?_, ?_, ?_, ?_, ?_, ?_, ?_⟩
      all_goals pool_auto0
    · simp at hs
  | mRun v =>
    simp only [step] at hs
    split at hs
    · rename_i hc
      obtain ⟨hm, hv, hav⟩ := hc
      simp only [Option.some.injEq] at hs; subst hs
      have hinv := h.inactive v hv hav
      have hnone := h.outside hm
      unfold noneActive at hnone
      obtain ⟨ff, i1, i2, i3, i4, i5, i6, i7, i8, i9, i10, i11⟩ := h
      refine ⟨ff, ?_, ?_, ?_, ?_, ?_, ?_, fun _ => Or.inl ⟨v, hv, by simp⟩, ?_, ?_, ?_, ?_⟩
      all_goals pool_auto v
    · simp at hs
  | mCheck =>
    simp only [step] at hs
    split at hs
    · rename_i hc
      obtain ⟨hm, hnone⟩ := hc
      simp only [Option.some.injEq] at hs; subst hs
      unfold noneActive at hnone
      obtain ⟨ff, i1, i2, i3, i4, i5, i6, i7, i8, i9, i10, i11⟩ := h
      refine ⟨ff, ?_, ?_, ?_, ?_, ?_, ?_, ?_, ?_, ?_, ?_, ?_⟩
      all_goals pool_auto0
    · simp at hs
  | mCheckFail =>
    simp only [step] at hs
    split at hs
    · simp only [Option.some.injEq] at hs; subst hs
      obtain ⟨ff, i1, i2, i3, i4, i5, i6, i7, i8, i9, i10, i11⟩ := h
      rename_i hc
      have hna := hc.2
      refine ⟨ff, i1, i2, i3, i4, i5, i6, ?_, ?_, i9, i10, i11⟩
      · intro hi
        rcases i7 hi with h | h
        · exact Or.inl h
        · rw [hc.1] at h; cases h
      · intro hm; cases hm
    · simp at hs
  | mPark =>
    simp only [step] at hs
    split at hs
    · simp only [Option.some.injEq] at hs; subst hs
      obtain ⟨ff, i1, i2, i3, i4, i5, i6, i7, i8, i9, i10, i11⟩ := h
      rename_i hc
      refine ⟨ff, i1, i2, i3, i4, i5, i6, ?_, ?_, i9, i10, i11⟩
      · intro hi
        rcases i7 hi with h | h
        · exact Or.inl h
        · rw [hc.1] at h; cases h
      · intro hm; cases hm
    · simp at hs

theorem reach_inv {n : Nat} {s : St} (h : Reach n true s) : Inv s := by
  induction h with
  | init => exact inv_init n
  | step l _ hs ih => exact inv_step l _ _ ih hs

end NexoVerif.Pool
