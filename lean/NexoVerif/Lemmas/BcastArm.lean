import NexoVerif.Lemmas.BcastReach
/-! A `Pending` broadcast is armed: the next wake-up of a sub-task notifies the caller (M-BCAST). -/
namespace NexoVerif.Bcast
set_option linter.unusedSimpArgs false
set_option linter.unusedVariables false

/-- the task-set part of the state -/
structure TSFrame (s s' : St) : Prop where
  stack : s'.stack = s.stack
  countdown : s'.countdown = s.countdown
  registered : s'.registered = s.registered
  outerWakes : s'.outerWakes = s.outerWakes

theorem SubFrame.ts {s s' : St} (h : SubFrame s s') : TSFrame s s' := ⟨h.stack, h.countdown, h.registered, h.outerWakes⟩

theorem TSFrame.trans {a b c : St} (h1 : TSFrame a b) (h2 : TSFrame b c) : TSFrame a c :=
  ⟨h2.stack.trans h1.stack, h2.countdown.trans h1.countdown, h2.registered.trans h1.registered,
   h2.outerWakes.trans h1.outerWakes⟩

theorem pollSubs_ts (subs : List Nat) : ∀ (l : List Nat) (s : St) (pending : Nat),
    TSFrame s (pollSubs subs l s pending).1 := by
  intro l
  induction l with
  | nil => intro s p; exact ⟨rfl, rfl, rfl, rfl⟩
  | cons i r ih =>
    intro s p
    simp only [pollSubs]
    split
    · cases hci : subs[i]? with
      | none => exact ih s p
      | some c =>
        simp only
        have hsp := (subPoll_spec s c (.task i)).1.ts
        cases hres : subPoll s c (.task i) with
        | mk s1 res =>
          rw [hres] at hsp
          cases res with
          | ready v =>
            simp only
            have h2 : TSFrame s { s1 with outputs := s1.outputs.set i (some v) } :=
              ⟨hsp.stack, hsp.countdown, hsp.registered, hsp.outerWakes⟩
            exact h2.trans (ih _ _)
          | err => exact hsp
          | pending => exact hsp.trans (ih _ _)
    · exact ih s p

theorem finish_not_pending (s : St) (k c : Nat) : (finish s k c).2 ≠ .pending := by
  unfold finish; simp

/-- a `Pending` result of the polling loop leaves the task set empty, the countdown at one and the caller's waker
registered -/
theorem loopPoll_pending_armed (subs : List Nat) (consume : Nat) (s : St) (pending : Nat)
    (h : (loopPoll subs consume 2 s pending).2 = .pending) :
    (loopPoll subs consume 2 s pending).1.stack = [] ∧ (loopPoll subs consume 2 s pending).1.countdown = 1 ∧
    (loopPoll subs consume 2 s pending).1.registered = true := by
  have one : ∀ (s : St) (pending : Nat), s.stack = [] →
      (loopPoll subs consume 1 s pending).1.stack = [] ∧ (loopPoll subs consume 1 s pending).1.countdown = 1 ∧
      (loopPoll subs consume 1 s pending).1.registered = true := by
    intro s p hst
    simp only [loopPoll, hst, if_true]
    exact ⟨trivial, trivial, trivial⟩
  by_cases hst : s.stack = []
  · revert h
    simp only [loopPoll, hst, if_true]
    intro _
    exact ⟨trivial, trivial, trivial⟩
  · revert h
    simp only [loopPoll, hst, if_false]
    have hts := pollSubs_ts subs s.stack { s with stack := [], countdown := 0 } pending
    cases hres : pollSubs subs s.stack { s with stack := [], countdown := 0 } pending with
    | mk s1 r =>
      rw [hres] at hts
      cases r with
      | none => simp
      | some p' =>
        simp only
        by_cases hp0 : p' = 0
        · simp only [hp0, if_true]
          intro h; exact absurd h (finish_not_pending _ _ _)
        · simp only [hp0, if_false]
          intro _
          have hs1 : s1.stack = [] := hts.stack
          simp only [hs1, if_true]
          exact ⟨trivial, trivial, trivial⟩

/-- the first wake-up of a sub-task after a `Pending` poll notifies the caller's waker, exactly once -/
theorem armed_wake_notifies (s : St) (i : Nat) (h1 : s.stack = []) (h2 : s.countdown = 1) (h3 : s.registered = true) :
    (taskWake s i).outerWakes = s.outerWakes + 1 ∧ i ∈ (taskWake s i).stack ∧ (taskWake s i).countdown = 0 := by
  unfold taskWake notify
  simp [h1, h2, h3]

/-- further wake-ups before the next poll are remembered (the sub-task is on the stack) and do not notify again -/
theorem scheduled_wake_is_remembered (s : St) (i j : Nat) (h : i ∈ s.stack) : i ∈ (taskWake s j).stack := by
  unfold taskWake notify
  split
  · exact h
  · simp only
    split
    · split <;> simp [h]
    · simp [h]

end NexoVerif.Bcast
