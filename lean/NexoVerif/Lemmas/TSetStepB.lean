import NexoVerif.Lemmas.TSetStepA
namespace NexoVerif.TSet
set_option linter.unusedSimpArgs false
set_option linter.unusedVariables false
set_option maxHeartbeats 4000000

theorem not_pusher_of_pc {s : St} {w : Nat} (h1 : ∀ h, s.wpc w ≠ .push h) (h2 : ∀ h, s.wpc w ≠ .fixNext h) (i : Nat) :
    ¬ Pusher s w i := by
  rintro ⟨_, _, ⟨h, hp⟩ | ⟨h, hp⟩⟩
  · exact h1 h hp
  · exact h2 h hp

theorem inv_step_local (l : Label) (s s' : St) (h : Inv s) (hs : step l s = some s') :
    (match l with | .wBegin .. | .wLoadNext .. | .wLook .. | .wNotify .. => True | _ => False) → Inv s' := by
  intro hl
  cases l with
  | wBegin w i =>
    simp only [step] at hs
    split at hs
    · rename_i hc
      obtain ⟨hw, hi, hpc⟩ := hc
      simp only [Option.some.injEq] at hs; subst hs
      refine inv_waker_local s _ w h rfl rfl rfl rfl rfl rfl rfl rfl
        (fun w' hne => ⟨by simp [upd_other _ _ hne], by simp [upd_other _ _ hne]⟩)
        (not_pusher_of_pc (by simp [hpc]) (by simp [hpc])) (not_pusher_of_pc (by simp) (by simp))
        (fun _ _ => by simp; exact hi) (fun i hx => Or.inl hx)
    · simp at hs
  | wLoadNext w =>
    simp only [step] at hs
    split at hs
    · rename_i hc
      obtain ⟨hw, hpc⟩ := hc
      simp only [Option.some.injEq] at hs; subst hs
      refine inv_waker_local s _ w h rfl rfl rfl rfl rfl rfl rfl rfl
        (fun w' hne => ⟨by simp [upd_other _ _ hne], rfl⟩)
        (not_pusher_of_pc (by simp [hpc]) (by simp [hpc])) (not_pusher_of_pc (by simp) (by simp))
        (fun hw _ => h.wtBound w hw (by simp [hpc])) (fun i hx => Or.inl hx)
    · simp at hs
  | wLook w =>
    simp only [step] at hs
    split at hs
    · rename_i hw
      split at hs
      · rename_i hpc
        simp only [Option.some.injEq] at hs; subst hs
        refine inv_waker_local s _ w h rfl rfl rfl rfl rfl rfl rfl rfl
          (fun w' hne => ⟨by simp [upd_other _ _ hne], rfl⟩)
          (not_pusher_of_pc (by simp [hpc]) (by simp [hpc])) (not_pusher_of_pc (by simp) (by simp))
          (fun hw _ => h.wtBound w hw (by simp [hpc])) (fun i hx => Or.inl hx)
      · rename_i nx hnsl hpc
        split at hs
        · rename_i heq
          simp only [Option.some.injEq] at hs; subst hs
          refine inv_waker_local s _ w h rfl rfl rfl rfl rfl rfl rfl rfl
            (fun w' hne => ⟨by simp [upd_other _ _ hne], rfl⟩)
            (not_pusher_of_pc (by simp [hpc]) (by simp [hpc])) (not_pusher_of_pc (by simp) (by simp))
            (fun _ hp => by simp at hp) ?_
          intro i hx
          by_cases hi : i = s.wt w
          · subst hi
            right; rw [heq]
            intro e; exact hnsl e
          · left; simpa [upd_other _ _ hi] using hx
        · simp only [Option.some.injEq] at hs; subst hs
          refine inv_waker_local s _ w h rfl rfl rfl rfl rfl rfl rfl rfl
            (fun w' hne => ⟨by simp [upd_other _ _ hne], rfl⟩)
            (not_pusher_of_pc (by simp [hpc]) (by simp [hpc])) (not_pusher_of_pc (by simp) (by simp))
            (fun hw _ => h.wtBound w hw (by simp [hpc])) (fun i hx => Or.inl hx)
      · simp at hs
    · simp at hs
  | wNotify w =>
    simp only [step] at hs
    split at hs
    · rename_i hc
      obtain ⟨hw, hpc⟩ := hc
      simp only [Option.some.injEq] at hs; subst hs
      refine inv_waker_local s _ w h rfl rfl rfl rfl rfl rfl rfl rfl
        (fun w' hne => ⟨by simp [upd_other _ _ hne], rfl⟩)
        (not_pusher_of_pc (by simp [hpc]) (by simp [hpc])) (not_pusher_of_pc (by simp) (by simp))
        (fun _ hp => by simp at hp) (fun i hx => Or.inl hx)
    · simp at hs
  | _ => exact absurd hl (by simp)

end NexoVerif.TSet
