import NexoVerif.Lemmas.TSetOwnerInv
namespace NexoVerif.TSet
set_option linter.unusedSimpArgs false
set_option linter.unusedVariables false
set_option maxHeartbeats 4000000

/-- the push that sets `fired` leaves its thread about to notify -/
theorem fired_step (wl : Label) (t t' : St) (hs : step wl t = some t') (hf : t'.fired = true)
    (hnt : ∀ c, wl ≠ .take c) :
    t.fired = true ∨ ∃ w, w < t.m ∧ t'.wpc w = .notify := by
  cases wl with
  | take c => exact absurd rfl (hnt c)
  | wPush w =>
    simp only [step] at hs
    split at hs
    · rename_i hw
      split at hs
      · rename_i hd hpc
        split at hs
        · simp only [Option.some.injEq] at hs; subst hs
          simp only [Bool.or_eq_true, beq_iff_eq] at hf
          rcases hf with hf | hf
          · exact Or.inl hf
          · exact Or.inr ⟨w, hw, by simp [hf]⟩
        · simp only [Option.some.injEq] at hs; subst hs; exact Or.inl hf
      · simp at hs
    · simp at hs
  | iterNext | dropNext | wBegin w i | wLoadNext w | wLook w | wClaim w | wFixNext w | wNotify w =>
    simp only [step] at hs
    (repeat' split at hs) <;>
      first | (simp only [Option.some.injEq] at hs; subst hs; exact Or.inl hf) | (simp at hs)

structure OInv (o : OSt) : Prop where
  j1 : o.opc = .take false → o.t.head.ix.isSome = true
  j2 : (o.opc = .take true ∨ o.opc = .retPending ∨ o.opc = .idle) → o.preg = true ∨ o.willRun = true
  j3 : (o.opc = .retPending ∨ o.opc = .idle) → o.t.armed = 1 ∧ (o.t.pushes = 0 → o.t.stack = [])
  j4 : (o.opc = .retPending ∨ o.opc = .idle) → o.t.fired = true →
    (∃ w, w < o.t.m ∧ o.t.wpc w = .notify) ∨ o.willRun = true
  j5 : o.opc ≠ .iter → o.t.cur = none

theorem oinv_init (n m : Nat) : OInv (OSt.init n m) := by
  refine ⟨?_, ?_, ?_, ?_, fun _ => rfl⟩ <;> intro h <;> simp [OSt.init] at h

theorem oinv_step {n m : Nat} (l : OLabel) (o o' : OSt) (hr : OReach n m o) (h : OInv o) (hs : ostep l o = some o') :
    OInv o' := by
  have hti := reach_inv (oreach_reach hr)
  obtain ⟨j1, j2, j3, j4, j5⟩ := h
  cases l with
  | waker wl =>
    simp only [ostep] at hs
    split at hs
    · rename_i hwk
      split at hs
      · rename_i t' ht
        have fr := waker_frame wl hwk o.t t' ht
        have hnt : ∀ c, wl ≠ .take c := by intro c e; subst e; simp [Label.isWaker] at hwk
        -- the part of the invariant that does not look at `preg` / `willRun`
        have base : ∀ (pr wr : Bool), (o.willRun = true → wr = true) →
            ((o.preg = true ∨ o.willRun = true) → pr = true ∨ wr = true) →
            ((o.opc = .retPending ∨ o.opc = .idle) → ∀ w, o.t.wpc w = .notify → t'.wpc w = .notify ∨ wr = true) →
            OInv { o with t := t', preg := pr, willRun := wr } := by
          intro pr wr hwr hpw hkeep
          refine ⟨fun hp => fr.headSome (j1 hp), fun hp => hpw (j2 hp), ?_, ?_, fun hp => by rw [fr.cur]; exact j5 hp⟩
          · intro hp
            have := j3 hp
            exact ⟨by rw [fr.armed]; exact this.1, fr.pushes this.2⟩
          · intro hp hf
            rcases fired_step wl o.t t' ht hf hnt with hf0 | ⟨w, hw, hpc⟩
            · rcases j4 hp hf0 with ⟨w, hw, hpc⟩ | hwill
              · rcases hkeep hp w hpc with hk | hk
                · exact Or.inl ⟨w, by rw [fr.m]; exact hw, hk⟩
                · exact Or.inr hk
              · exact Or.inr (hwr hwill)
            · exact Or.inl ⟨w, by rw [fr.m]; exact hw, hpc⟩
        split at hs
        · -- `notify`
          rename_i w1
          split at hs
          · rename_i hpreg
            simp only [Option.some.injEq] at hs; subst hs
            exact base false true (fun _ => rfl) (fun _ => Or.inr rfl) (fun _ _ _ => Or.inr rfl)
          · rename_i hpreg
            simp only [Option.some.injEq] at hs; subst hs
            have hp0 : o.preg = false := by cases hb : o.preg <;> simp_all
            exact base o.preg o.willRun (fun x => x) (fun x => x) (fun hp w hpc => by
              -- in the states where the witness matters the parent's waker is registered or the parent will run
              rcases j2 (Or.inr hp) with hx | hx
              · rw [hp0] at hx; cases hx
              · exact Or.inr hx)
        · simp only [Option.some.injEq] at hs; subst hs
          rename_i hnn
          exact base o.preg o.willRun (fun x => x) (fun x => x) (fun _ w hpc =>
            Or.inl (notify_pc_kept _ o.t t' ht w hpc (fun w1 e => absurd e (hnn w1))))
      · simp at hs
    · simp at hs
  | oPoll =>
    simp only [ostep] at hs
    split at hs
    · rename_i hc
      simp only [Option.some.injEq] at hs; subst hs
      refine ⟨?_, ?_, ?_, ?_, ?_⟩
      · intro hp; simp at hp
      · intro hp; simp at hp
      · intro hp; simp at hp
      · intro hp; simp at hp
      · intro _
        exact j5 (by rcases hc with e | ⟨e, _⟩ <;> rw [e] <;> simp)
    · simp at hs
  | oHas =>
    simp only [ostep] at hs
    split at hs
    · rename_i hc
      split at hs
      · rename_i hsome
        simp only [Option.some.injEq] at hs; subst hs
        refine ⟨fun _ => hsome, ?_, ?_, ?_, fun _ => j5 (by rw [hc]; simp)⟩ <;> intro hp <;> simp at hp
      · simp only [Option.some.injEq] at hs; subst hs
        refine ⟨?_, ?_, ?_, ?_, fun _ => j5 (by rw [hc]; simp)⟩ <;> intro hp <;> simp at hp
    · simp at hs
  | oReg =>
    simp only [ostep] at hs
    split at hs
    · rename_i hc
      simp only [Option.some.injEq] at hs; subst hs
      refine ⟨?_, fun _ => Or.inl rfl, ?_, ?_, fun _ => j5 (by rw [hc]; simp)⟩ <;> intro hp <;> simp at hp
    · simp at hs
  | oTake =>
    simp only [ostep] at hs
    split at hs
    · rename_i via hc
      have hcur : o.t.cur = none := j5 (by rw [hc]; simp)
      split at hs
      · rename_i t' ht
        simp only [Option.some.injEq] at hs; subst hs
        -- what `take_scheduled(1)` does to the task set
        simp only [step, hcur, if_true] at ht
        cases hix : o.t.head.ix with
        | none =>
          simp only [hix] at ht
          simp only [Option.some.injEq] at ht; subst ht
          have hstack : o.t.stack = [] := by
            have := hti.headIx
            rw [hix] at this
            cases hst : o.t.stack with
            | nil => rfl
            | cons a l => rw [hst] at this; simp at this
          have hvia : via = true := by
            cases via with
            | true => rfl
            | false => have := j1 hc; rw [hix] at this; simp at this
          subst hvia
          refine ⟨?_, ?_, ?_, ?_, ?_⟩
          · intro hp; simp at hp
          · intro _; exact j2 (Or.inl hc)
          · intro _; exact ⟨rfl, fun _ => hstack⟩
          · intro _ hf; simp at hf
          · intro _; rfl
        | some k =>
          simp only [hix] at ht
          simp only [Option.some.injEq] at ht; subst ht
          refine ⟨?_, ?_, ?_, ?_, ?_⟩ <;> intro hp <;> simp at hp
      · simp at hs
    · simp at hs
  | oIter =>
    simp only [ostep] at hs
    split at hs
    · rename_i hc
      split at hs
      · split at hs
        · rename_i t' ht
          simp only [Option.some.injEq] at hs; subst hs
          refine ⟨?_, ?_, ?_, ?_, ?_⟩ <;> intro hp <;> simp [hc] at hp
        · simp at hs
      · rename_i hcur
        simp only [Option.some.injEq] at hs; subst hs
        refine ⟨?_, ?_, ?_, ?_, fun _ => hcur⟩ <;> intro hp <;> simp at hp
    · simp at hs
  | oRet =>
    simp only [ostep] at hs
    split at hs
    · rename_i hc
      simp only [Option.some.injEq] at hs; subst hs
      refine ⟨?_, fun _ => j2 (Or.inr (Or.inl hc)), fun _ => j3 (Or.inl hc), fun _ hf => j4 (Or.inl hc) hf,
        fun _ => j5 (by rw [hc]; simp)⟩
      intro hp; simp at hp
    · simp at hs

theorem oreach_oinv {n m : Nat} {o : OSt} (h : OReach n m o) : OInv o := by
  induction h with
  | init => exact oinv_init n m
  | step l hr hs ih => exact oinv_step l _ _ hr ih hs

/-- **the parent task does not sleep through a sub-task wake-up**: whenever the owner has returned `Pending`, no waker
thread is inside `wake_by_ref`, and no notification has reached the parent's registered waker since its last poll began
(so the executor will not poll it again on its own), no wake-up of a sub-task is outstanding: every wake-up that took
effect has been served by the iterator.  Equivalently: an outstanding wake-up always has a waker thread that still has a
step to take, or has already re-scheduled the parent. -/
theorem parent_does_not_sleep_through_a_wakeup {n m : Nat} {o : OSt} (hr : OReach n m o) (hidle : o.opc = .idle)
    (hnw : o.willRun = false) (hq : ∀ w, w < o.t.m → o.t.wpc w = .idle) (i : Nat) (hi : i < o.t.n) :
    o.t.need i = false := by
  have h := oreach_oinv hr
  have ht := oreach_reach hr
  cases hn : o.t.need i with
  | false => rfl
  | true =>
    exfalso
    have hcur : o.t.cur = none := h.j5 (by rw [hidle]; simp)
    have hmem := no_wake_is_lost ht ⟨hq, hcur⟩ i hi hn
    have h3 := h.j3 (Or.inr hidle)
    have hp : o.t.pushes ≠ 0 := by
      intro e
      rw [h3.2 e] at hmem; cases hmem
    have hf : o.t.fired = true := (reach_cinv ht).fired (by rw [h3.1]; omega) (by rw [h3.1]; omega)
    rcases h.j4 (Or.inr hidle) hf with ⟨w, hw, hpc⟩ | hwill
    · rw [hq w hw] at hpc; cases hpc
    · rw [hnw] at hwill; cases hwill

end NexoVerif.TSet
