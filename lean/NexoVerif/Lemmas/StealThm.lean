/- Kernel-only lemmas over M-STEAL (no `bv_decide`): the multiply-shift bound and the mask formula. -/
import NexoVerif.Model.Steal
namespace NexoVerif.Steal

theorem genBounded_lt (r b : Nat) (hr : r < 2 ^ 64) (hb : 0 < b) : genBounded r b < b := by
  unfold genBounded
  rw [Nat.shiftRight_eq_div_pow]
  apply (Nat.div_lt_iff_lt_mul (by decide)).2
  exact Nat.mul_comm b (2^64) ▸ Nat.mul_lt_mul_of_pos_right hr hb

theorem masks_are_formula : M0 = maskFormula 0 ∧ M1 = maskFormula 1 ∧ M2 = maskFormula 2 ∧ M3 = maskFormula 3 ∧
    M4 = maskFormula 4 ∧ M5 = maskFormula 5 := by decide

theorem findBit_rank_only (v : BitVec 64) (f : BitVec 64 → BitVec 64) :
    findBit v f = findBit v (fun _ => f (popCount v)) := rfl

end NexoVerif.Steal
