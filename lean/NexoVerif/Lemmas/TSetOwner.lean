import NexoVerif.Lemmas.TSetThm
/-!
M-TSET with its owner: the loop at the end of `BroadcastFuture::poll` (`if !has_scheduled() { wake_sink.register(waker) }`,
`take_scheduled(1)`, walk the iterator, repeat until `take_scheduled` finds nothing, then return `Pending`) and the parent
task's `DiatomicWaker` (`register` / `notify`), composed with the waker threads of M-TSET.  `willRun`: a notification has
reached the registered parent waker since the current poll began, i.e. the executor will poll the parent again.
-/
namespace NexoVerif.TSet

inductive OPc
  | start                    -- the broadcast has not been polled yet
  | has                      -- in `poll`: about to test `has_scheduled()`
  | reg                      -- it was false: about to register the parent's waker
  | take (viaReg : Bool)     -- about to `take_scheduled(1)`
  | iter                     -- walking the iterator
  | retPending               -- `take_scheduled` found nothing: about to return `Pending`
  | idle                     -- returned `Pending`
deriving Repr, DecidableEq, Inhabited

structure OSt where
  t : St
  opc : OPc := .start
  preg : Bool := false       -- the parent's waker is registered with the `DiatomicWaker`
  willRun : Bool := false

inductive OLabel
  | waker (l : Label)        -- a step of a waker thread (not `take`, not `iterNext`)
  | oPoll                    -- the executor polls the parent task
  | oHas
  | oReg
  | oTake
  | oIter
  | oRet
deriving Repr

def Label.isWaker : Label → Bool
  | .take _ | .iterNext | .dropNext => false
  | _ => true

def ostep (l : OLabel) (o : OSt) : Option OSt :=
  match l with
  | .waker wl =>
    if wl.isWaker then
      match step wl o.t with
      | some t' =>
        match wl with
        | .wNotify _ =>
          -- `notifier.notify()`: wakes the parent if its waker is registered (and unregisters it)
          if o.preg then some { o with t := t', preg := false, willRun := true } else some { o with t := t' }
        | _ => some { o with t := t' }
      | none => none
    else none
  | .oPoll =>
    if o.opc = .start ∨ (o.opc = .idle ∧ o.willRun = true) then some { o with opc := .has, willRun := false } else none
  | .oHas =>
    if o.opc = .has then
      if o.t.head.ix.isSome then some { o with opc := .take false } else some { o with opc := .reg }
    else none
  | .oReg => if o.opc = .reg then some { o with preg := true, opc := .take true } else none
  | .oTake =>
    match o.opc with
    | .take _ =>
      match step (.take 1) o.t with
      | some t' => some { o with t := t', opc := if o.t.head.ix.isSome then .iter else .retPending }
      | none => none
    | _ => none
  | .oIter =>
    if o.opc = .iter then
      match o.t.cur with
      | some _ => match step .iterNext o.t with
        | some t' => some { o with t := t' }
        | none => none
      | none => some { o with opc := .has }
    else none
  | .oRet => if o.opc = .retPending then some { o with opc := .idle } else none

def OSt.init (n m : Nat) : OSt := { t := St.init n m }

inductive OReach (n m : Nat) : OSt → Prop
  | init : OReach n m (OSt.init n m)
  | step {o o' : OSt} (l : OLabel) : OReach n m o → ostep l o = some o' → OReach n m o'

/-- the task-set part of a run with the owner is a run of M-TSET -/
theorem oreach_reach {n m : Nat} {o : OSt} (h : OReach n m o) : Reach n m o.t := by
  induction h with
  | init => exact Reach.init
  | step l _ hs ih =>
    cases l with
    | waker wl =>
      simp only [ostep] at hs
      split at hs
      · split at hs
        · rename_i t' ht
          have hr := Reach.step wl ih ht
          split at hs
          · split at hs <;> (simp only [Option.some.injEq] at hs; subst hs; exact hr)
          · simp only [Option.some.injEq] at hs; subst hs; exact hr
        · simp at hs
      · simp at hs
    | oPoll => simp only [ostep] at hs; split at hs <;> simp at hs; subst hs; exact ih
    | oHas =>
      simp only [ostep] at hs
      split at hs
      · split at hs <;> (simp only [Option.some.injEq] at hs; subst hs; exact ih)
      · simp at hs
    | oReg => simp only [ostep] at hs; split at hs <;> simp at hs; subst hs; exact ih
    | oTake =>
      simp only [ostep] at hs
      split at hs
      · split at hs
        · rename_i t' ht
          simp only [Option.some.injEq] at hs; subst hs
          exact Reach.step _ ih ht
        · simp at hs
      · simp at hs
    | oIter =>
      simp only [ostep] at hs
      split at hs
      · split at hs
        · split at hs
          · rename_i t' ht
            simp only [Option.some.injEq] at hs; subst hs
            exact Reach.step _ ih ht
          · simp at hs
        · simp only [Option.some.injEq] at hs; subst hs; exact ih
      · simp at hs
    | oRet => simp only [ostep] at hs; split at hs <;> simp at hs; subst hs; exact ih

end NexoVerif.TSet
