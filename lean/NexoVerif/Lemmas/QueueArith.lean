import NexoVerif.Model.Queue
/-! L0 of M-QUEUE: position arithmetic. -/
namespace NexoVerif.Queue
set_option linter.unusedSimpArgs false
set_option linter.unusedVariables false

theorem nextPow2_go_ge (n p fuel : Nat) (h : n ≤ p * 2 ^ fuel) : n ≤ nextPow2.go n p fuel := by
  induction fuel generalizing p with
  | zero => simpa [nextPow2.go] using h
  | succ f ih =>
    unfold nextPow2.go
    split
    · assumption
    · apply ih
      rw [Nat.pow_succ] at h
      calc n ≤ p * (2 ^ f * 2) := h
        _ = 2 * p * 2 ^ f := by rw [Nat.mul_comm (2 ^ f) 2, ← Nat.mul_assoc, Nat.mul_comm p 2]

/-- `next_power_of_two` is at least its argument -/
theorem nextPow2_ge (n : Nat) : n ≤ nextPow2 n := by
  unfold nextPow2
  apply nextPow2_go_ge
  simp
  exact Nat.le_of_lt Nat.lt_two_pow_self

/-- encoding of the n-th position of a queue of capacity `cap` with modulus `M` -/
def enc (cap M n : Nat) : Nat := (n / cap) * M + n % cap

theorem succ_div_mod (n cap : Nat) (hc : 0 < cap) :
    (n % cap + 1 < cap → (n + 1) / cap = n / cap ∧ (n + 1) % cap = n % cap + 1) ∧
    (¬ n % cap + 1 < cap → (n + 1) / cap = n / cap + 1 ∧ (n + 1) % cap = 0) := by
  have hdm := Nat.div_add_mod n cap
  have hlt := Nat.mod_lt n hc
  constructor
  · intro h
    apply (Nat.div_mod_unique hc).mpr
    constructor
    · generalize cap * (n / cap) = X at *; omega
    · exact h
  · intro h
    apply (Nat.div_mod_unique hc).mpr
    constructor
    · have : n % cap + 1 = cap := by omega
      rw [Nat.mul_add, Nat.mul_one]
      generalize cap * (n / cap) = X at *; omega
    · exact hc

section
variable (cap M : Nat) (hc : 0 < cap) (hM : cap < M)
include hc hM

theorem enc_mod (n : Nat) : enc cap M n % M = n % cap := by
  unfold enc
  rw [Nat.add_comm, Nat.add_mul_mod_self_right]
  exact Nat.mod_eq_of_lt (Nat.lt_trans (Nat.mod_lt n hc) hM)

theorem enc_div (n : Nat) : enc cap M n / M = n / cap := by
  unfold enc
  have hM0 : 0 < M := by omega
  rw [Nat.add_comm, Nat.add_mul_div_right _ _ hM0]
  rw [Nat.div_eq_of_lt (Nat.lt_trans (Nat.mod_lt n hc) hM)]
  simp

theorem enc_succ (n : Nat) :
    enc cap M (n + 1) = if n % cap + 1 < cap then enc cap M n + 1 else (n / cap) * M + M := by
  have h := succ_div_mod n cap hc
  unfold enc
  split
  · rename_i hlt
    rw [(h.1 hlt).1, (h.1 hlt).2]; omega
  · rename_i hlt
    rw [(h.2 hlt).1, (h.2 hlt).2, Nat.add_mul]; omega

theorem enc_lt_succ (n : Nat) : enc cap M n < enc cap M (n + 1) := by
  rw [enc_succ cap M hc hM]
  split
  · omega
  · unfold enc
    have := Nat.mod_lt n hc
    omega

theorem enc_mono {a b : Nat} (h : a ≤ b) : enc cap M a ≤ enc cap M b := by
  induction h with
  | refl => exact Nat.le_refl _
  | step _ ih => exact Nat.le_trans ih (Nat.le_of_lt (enc_lt_succ cap M hc hM _))

theorem enc_strict {a b : Nat} (h : a < b) : enc cap M a < enc cap M b :=
  Nat.lt_of_lt_of_le (enc_lt_succ cap M hc hM a) (enc_mono cap M hc hM h)

theorem enc_add_cap (n : Nat) : enc cap M (n + cap) = enc cap M n + M := by
  unfold enc
  rw [Nat.add_div_right _ hc, Nat.add_mod_right, Nat.add_mul]
  omega

end

/-- **nextPos on encoded positions**: `next_queue_pos(enc n) = enc (n+1)` -/
theorem nextPos_enc (q : Q) (hc : 0 < q.cap) (n : Nat) :
    q.nextPos (enc q.cap q.M n) = enc q.cap q.M (n + 1) := by
  have hC : q.cap ≤ q.C := nextPow2_ge q.cap
  have hM : q.cap < q.M := by unfold Q.M; omega
  unfold Q.nextPos
  rw [enc_succ q.cap q.M hc hM, enc_div q.cap q.M hc hM]
  have hmod := enc_mod q.cap q.M hc hM n
  have hlt := Nat.mod_lt n hc
  by_cases h : n % q.cap + 1 < q.cap
  · have : (enc q.cap q.M n + 1) % q.M = n % q.cap + 1 := by
      rw [Nat.add_mod, hmod]
      have h1 : 1 % q.M = 1 := Nat.mod_eq_of_lt (by omega)
      rw [h1]
      exact Nat.mod_eq_of_lt (by omega)
    simp [this, h]
  · have : (enc q.cap q.M n + 1) % q.M = n % q.cap + 1 := by
      rw [Nat.add_mod, hmod]
      have h1 : 1 % q.M = 1 := Nat.mod_eq_of_lt (by omega)
      rw [h1]
      exact Nat.mod_eq_of_lt (by omega)
    simp [this, h]

/-- an encoded position never carries the closed flag, and adding `C` sets it -/
theorem enc_not_closed (q : Q) (hc : 0 < q.cap) (n : Nat) :
    q.isClosedPos (enc q.cap q.M n) = false ∧ q.isClosedPos (enc q.cap q.M n + q.C) = true := by
  have hC : q.cap ≤ q.C := nextPow2_ge q.cap
  have hC0 : 0 < q.C := by omega
  have hlt := Nat.mod_lt n hc
  unfold Q.isClosedPos enc Q.M
  have e1 : (n / q.cap * (2 * q.C) + n % q.cap) / q.C = 2 * (n / q.cap) := by
    have : n / q.cap * (2 * q.C) = (2 * (n / q.cap)) * q.C := by
      rw [Nat.mul_left_comm, Nat.mul_assoc]
    rw [this, Nat.add_comm, Nat.add_mul_div_right _ _ hC0, Nat.div_eq_of_lt (by omega)]
    simp
  have e2 : (n / q.cap * (2 * q.C) + n % q.cap + q.C) / q.C = 2 * (n / q.cap) + 1 := by
    rw [Nat.add_div_right _ hC0, e1]
  rw [e1, e2]
  constructor
  · simp
  · simp [Nat.add_mod]

end NexoVerif.Queue
