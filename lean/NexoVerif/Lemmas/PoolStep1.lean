import NexoVerif.Lemmas.PoolInv
namespace NexoVerif.Pool
set_option linter.unusedSimpArgs false
set_option linter.unusedVariables false
set_option maxHeartbeats 4000000

/-- a step that only moves worker `w` from program counter `a` to `b` (nothing else changes) -/
theorem inv_pc_move (s : St) (w : Nat) (b : WPc) (h : Inv s) (hw : w < s.n)
    -- what the new program counter requires
    (hq : b.quiet = true → s.loc w = 0 ∧ s.tl w = 0)
    (hse : (b = .search ∨ b = .flush) → s.loc w = 0)
    (hact : b.needsActive = true → s.active w = true)
    (hlast : (b = .lastCheck ∨ b = .lastClear) → onlyActive s w)
    (hli : b = .lastClear → s.inj = 0)
    (hina : s.active w = false → b = .parked ∨ b = .lastUnpark)
    (htok : s.tok w = true → b = .parked ∨ b = .lastUnpark)
    (hpt : s.active w = true → (b = .parked ∨ b = .lastUnpark) → s.tok w = true)
    (hnl : b ≠ .lateFlush ∧ b ≠ .lastFlush) :
    Inv { s with wpc := upd s.wpc w b } := by
  obtain ⟨ff, i1, i2, i3, i4, i5, i6, i7, i8, i9, i10, i11⟩ := h
  refine ⟨ff, ?_, ?_, ?_, ?_, ?_, ?_, i7, i8, ?_, ?_, ?_⟩
  · intro v hv ha
    by_cases hvw : v = w
    · subst hvw; simp only [upd_same]
      exact ⟨(i1 v hv ha).1, (i1 v hv ha).2.1, hina ha⟩
    · simp only [upd_other _ _ hvw]; exact i1 v hv ha
  · intro v hv hq'
    by_cases hvw : v = w
    · subst hvw; simp only [upd_same] at hq'; exact hq hq'
    · simp only [upd_other _ _ hvw] at hq'; exact i2 v hv hq'
  · intro v hv hq'
    by_cases hvw : v = w
    · subst hvw; simp only [upd_same] at hq'; exact hse hq'
    · simp only [upd_other _ _ hvw] at hq'; exact i3 v hv hq'
  · intro v hv hq'
    by_cases hvw : v = w
    · subst hvw; simp only [upd_same] at hq'; exact hact hq'
    · simp only [upd_other _ _ hvw] at hq'; exact i4 v hv hq'
  · intro v hv hq'
    by_cases hvw : v = w
    · subst hvw; simp only [upd_same] at hq'; exact hlast hq'
    · simp only [upd_other _ _ hvw] at hq'; exact i5 v hv hq'
  · intro v hv hq'
    by_cases hvw : v = w
    · subst hvw; simp only [upd_same] at hq'; exact hli hq'
    · simp only [upd_other _ _ hvw] at hq'; exact i6 v hv hq'
  · intro v hv ht
    by_cases hvw : v = w
    · subst hvw; simp only [upd_same]; exact ⟨(i9 v hv ht).1, htok ht⟩
    · simp only [upd_other _ _ hvw]; exact i9 v hv ht
  · intro v hv ha hp
    by_cases hvw : v = w
    · subst hvw; simp only [upd_same] at hp; exact hpt ha hp
    · simp only [upd_other _ _ hvw] at hp; exact i10 v hv ha hp
  · intro v hv
    by_cases hvw : v = w
    · subst hvw; simp only [upd_same]; exact hnl
    · simp only [upd_other _ _ hvw]; exact i11 v hv

end NexoVerif.Pool

namespace NexoVerif.Pool
set_option linter.unusedSimpArgs false
set_option linter.unusedVariables false

/-- the invariant only looks at these components -/
structure SameCore (a b : St) : Prop where
  n : b.n = a.n
  ff : b.flushFirst = a.flushFirst
  active : b.active = a.active
  inj : b.inj = a.inj
  loc : b.loc = a.loc
  wpc : b.wpc = a.wpc
  tok : b.tok = a.tok
  tl : b.tl = a.tl
  mpc : b.mpc = a.mpc

theorem inv_congr {a b : St} (hc : SameCore a b) (h : Inv a) : Inv b := by
  obtain ⟨c1, c2, c3, c4, c5, c6, c7, c8, c9⟩ := hc
  obtain ⟨ff, i1, i2, i3, i4, i5, i6, i7, i8, i9, i10, i11⟩ := h
  refine ⟨by rw [c2]; exact ff, ?_, ?_, ?_, ?_, ?_, ?_, ?_, ?_, ?_, ?_, ?_⟩
  · intro w hw ha; rw [c1] at hw; rw [c3] at ha; rw [c5, c8, c6]; exact i1 w hw ha
  · intro w hw hq; rw [c1] at hw; rw [c6] at hq; rw [c5, c8]; exact i2 w hw hq
  · intro w hw hq; rw [c1] at hw; rw [c6] at hq; rw [c5]; exact i3 w hw hq
  · intro w hw hq; rw [c1] at hw; rw [c6] at hq; rw [c3]; exact i4 w hw hq
  · intro w hw hq; rw [c1] at hw; rw [c6] at hq
    intro v hv hvw; rw [c1] at hv; rw [c3]; exact i5 w hw hq v hv hvw
  · intro w hw hq; rw [c1] at hw; rw [c6] at hq; rw [c4]; exact i6 w hw hq
  · intro hi; rw [c4] at hi; rw [c1, c3, c9]; exact i7 hi
  · intro hm; rw [c9] at hm
    intro v hv; rw [c1] at hv; rw [c3]; exact i8 hm v hv
  · intro w hw ht; rw [c1] at hw; rw [c7] at ht; rw [c3, c6]; exact i9 w hw ht
  · intro w hw ha hp; rw [c1] at hw; rw [c3] at ha; rw [c6] at hp; rw [c7]; exact i10 w hw ha hp
  · intro w hw; rw [c1] at hw; rw [c6]; exact i11 w hw

end NexoVerif.Pool
