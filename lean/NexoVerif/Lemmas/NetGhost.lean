import NexoVerif.Lemmas.NetFrame

/-! ## Ghost state: event paths, invocation log, unfolding tree -/
namespace NexoVerif.Net
set_option linter.unusedSimpArgs false
set_option linter.unusedVariables false

structure G where
  hpath : Nat → List Nat := fun _ => []        -- path of the event (or root) the task is working on
  opIdx : Nat → Nat := fun _ => 0               -- number of port operations it has started
  ops : Nat → List Op := fun _ => []            -- the operations of its current invocation
  path : Nat → List Nat := fun _ => []          -- event id ↦ path
  dst : Nat → Dst := fun _ => .sink 0           -- event id ↦ destination
  pl : Nat → Nat := fun _ => 0                  -- event id ↦ payload
  spawns : Nat := 0
  roots : List (List Op) := []                  -- the operation lists of the driver's sending tasks, in spawn order
  inv : List (List Nat × List Op) := []         -- invocation log: (path, operations)
  sunk : List Nat := []                         -- event ids written to event sinks, in write order

def gstep (P : Prog) (l : Label) (s : St) (g : G) : G :=
  match l with
  | .init m =>
    { g with hpath := upd g.hpath m [0, m], opIdx := upd g.opIdx m 0, ops := upd g.ops m (P.initOps m),
             inv := g.inv ++ [([0, m], P.initOps m)] }
  | .spawn t ops =>
    { g with hpath := upd g.hpath t [1, g.spawns], opIdx := upd g.opIdx t 0, ops := upd g.ops t ops,
             spawns := g.spawns + 1, roots := g.roots ++ [ops], inv := g.inv ++ [([1, g.spawns], ops)] }
  | .start t =>
    match (s.task t).rest with
    | op :: _ =>
      let inNew (e : Nat) : Bool := decide (s.nextEid ≤ e ∧ e < s.nextEid + op.length)
      { g with
        path := fun e => if inNew e then g.hpath t ++ [g.opIdx t, e - s.nextEid] else g.path e,
        dst := fun e => if inNew e then (op.getD (e - s.nextEid) (.sink 0, 0, false)).1 else g.dst e,
        pl := fun e => if inNew e then (op.getD (e - s.nextEid) (.sink 0, 0, false)).2.1 else g.pl e,
        opIdx := upd g.opIdx t (g.opIdx t + 1) }
    | [] => g
  | .deliver m =>
    match s.mbox m with
    | p :: _ =>
      { g with hpath := upd g.hpath m (g.path p.eid), opIdx := upd g.opIdx m 0, ops := upd g.ops m (P.react m p.payload),
               inv := g.inv ++ [(g.path p.eid, P.react m p.payload)] }
    | [] => g
  | .push t i =>
    match (s.task t).cur[i]? with
    | some sub =>
      if sub.st = .toPush then
        match sub.dst with
        | .sink _ => { g with sunk := g.sunk ++ [sub.eid] }
        | _ => g
      else g
    | none => g
  | _ => g

def xstep (P : Prog) (l : Label) (x : St × G) : Option (St × G) :=
  match step P l x.1 with
  | some s' => some (s', gstep P l x.1 x.2)
  | none => none

inductive XReach (P : Prog) : St × G → Prop
  | init : XReach P (St.init, {})
  | step {x x' : St × G} (l : Label) : XReach P x → xstep P l x = some x' → XReach P x'

theorem xreach_reach (P : Prog) {x : St × G} (h : XReach P x) : Reach P x.1 := by
  induction h with
  | init => exact Reach.init
  | step l _ hs ih =>
    unfold xstep at hs
    split at hs
    · rename_i s' hst
      simp only [Option.some.injEq] at hs; subst hs
      exact Reach.step l ih hst
    · simp at hs

/-- every execution of M-NET carries a ghost execution: the ghost state never blocks a transition -/
theorem reach_xreach (P : Prog) {s : St} (h : Reach P s) : ∃ g, XReach P (s, g) := by
  induction h with
  | init => exact ⟨{}, XReach.init⟩
  | @step s0 s1 l _ hs ih =>
    obtain ⟨g, hg⟩ := ih
    exact ⟨gstep P l s0 g, XReach.step l hg (by simp [xstep, hs])⟩

/-- the unfolding tree of a program from its roots: which (path, model, payload) triples are *due* -/
inductive InTree (P : Prog) (roots : List (List Op)) : List Nat → Nat → Nat → Prop
  | spawn (i k j : Nat) (ops : List Op) (op : Op) (d p : Nat) (q : Bool) :
      roots[i]? = some ops → ops[k]? = some op → op[j]? = some (.box d, p, q) → InTree P roots [1, i, k, j] d p
  | init (m k j : Nat) (op : Op) (d p : Nat) (q : Bool) :
      P.isModel m = true → P.inSim m = true → (P.initOps m)[k]? = some op → op[j]? = some (.box d, p, q) →
      InTree P roots [0, m, k, j] d p
  | child (π : List Nat) (m p k j : Nat) (op : Op) (d p' : Nat) (q : Bool) :
      InTree P roots π m p → (P.react m p)[k]? = some op → op[j]? = some (.box d, p', q) →
      InTree P roots (π ++ [k, j]) d p'

/-- what is due at a path, whatever the kind of destination (mailbox, sink, dropped mailbox) -/
inductive Due (P : Prog) (roots : List (List Op)) : List Nat → Dst → Nat → Prop
  | spawn (i k j : Nat) (ops : List Op) (op : Op) (d : Dst) (p : Nat) (q : Bool) :
      roots[i]? = some ops → ops[k]? = some op → op[j]? = some (d, p, q) → Due P roots [1, i, k, j] d p
  | init (m k j : Nat) (op : Op) (d : Dst) (p : Nat) (q : Bool) :
      P.isModel m = true → P.inSim m = true → (P.initOps m)[k]? = some op → op[j]? = some (d, p, q) →
      Due P roots [0, m, k, j] d p
  | child (π : List Nat) (m p k j : Nat) (op : Op) (d : Dst) (p' : Nat) (q : Bool) :
      InTree P roots π m p → (P.react m p)[k]? = some op → op[j]? = some (d, p', q) →
      Due P roots (π ++ [k, j]) d p'

theorem Due.box {P : Prog} {roots : List (List Op)} {π : List Nat} {d p : Nat} (h : Due P roots π (.box d) p) :
    InTree P roots π d p := by
  cases h with
  | spawn i k j ops op d p q h1 h2 h3 => exact InTree.spawn i k j ops op _ _ q h1 h2 h3
  | init m k j op d p q h1 h2 h3 h4 => exact InTree.init m k j op _ _ q h1 h2 h3 h4
  | child π m p k j op d p' q h1 h2 h3 => exact InTree.child π m p k j op _ _ q h1 h2 h3

theorem InTree.due {P : Prog} {roots : List (List Op)} {π : List Nat} {d p : Nat} (h : InTree P roots π d p) :
    Due P roots π (.box d) p := by
  cases h with
  | spawn i k j ops op d p q h1 h2 h3 => exact Due.spawn i k j ops op _ _ q h1 h2 h3
  | init m k j op d p q h1 h2 h3 h4 => exact Due.init m k j op _ _ q h1 h2 h3 h4
  | child π m p k j op d p' q h1 h2 h3 => exact Due.child π m p k j op _ _ q h1 h2 h3

end NexoVerif.Net

/-! ## Bookkeeping invariants of the ghost state -/
namespace NexoVerif.Net
set_option linter.unusedSimpArgs false
set_option linter.unusedVariables false

theorem mem_mkSubs {e : Nat} {op : Op} {sub : Sub} (h : sub ∈ mkSubs e op) :
    ∃ j d p q, op[j]? = some (d, p, q) ∧ sub.eid = e + j ∧ sub.dst = d ∧ sub.payload = p ∧ sub.st = .toPush := by
  induction op generalizing e with
  | nil => simp [mkSubs] at h
  | cons x r ih =>
    obtain ⟨d, p, q⟩ := x
    simp [mkSubs] at h
    rcases h with rfl | h
    · exact ⟨0, d, p, q, by simp, by simp, rfl, rfl, rfl⟩
    · obtain ⟨j, d', p', q', h1, h2, h3, h4, h5⟩ := ih h
      exact ⟨j + 1, d', p', q', by simpa using h1, by omega, h3, h4, h5⟩

theorem mkSubs_nth {e : Nat} {op : Op} {j : Nat} {d : Dst} {p : Nat} {q : Bool} (h : op[j]? = some (d, p, q)) :
    ∃ sub ∈ mkSubs e op, sub.eid = e + j ∧ sub.dst = d ∧ sub.payload = p ∧ sub.st = .toPush := by
  induction op generalizing e j with
  | nil => simp at h
  | cons x r ih =>
    obtain ⟨d0, p0, q0⟩ := x
    cases j with
    | zero =>
      simp at h
      obtain ⟨rfl, rfl, rfl⟩ := h
      refine ⟨(mkSubs e ((d0, p0, q0) :: r)).head (by simp [mkSubs]), List.head_mem _, ?_, ?_, ?_, ?_⟩ <;> simp [mkSubs]
    | succ j =>
      simp at h
      obtain ⟨sub, hs, h1, h2, h3, h4⟩ := ih (e := e + 1) h
      exact ⟨sub, by simp [mkSubs, hs], by omega, h2, h3, h4⟩

/-- ghost frame: labels that do not touch the ghost state -/
theorem gstep_other (P : Prog) (s : St) (g : G) (l : Label)
    (h : (∃ t, l = .opDone t) ∨ (∃ t, l = .finish t)) : gstep P l s g = g := by
  rcases h with ⟨t, rfl⟩ | ⟨t, rfl⟩ <;> rfl

/-- a push changes at most the log of sink writes -/
theorem gstep_push_eq (P : Prog) (s : St) (g : G) (t i : Nat) : ∃ x, gstep P (.push t i) s g = { g with sunk := x } := by
  simp only [gstep]
  split
  · split
    · split
      · exact ⟨_, rfl⟩
      · exact ⟨g.sunk, rfl⟩
    · exact ⟨g.sunk, rfl⟩
  · exact ⟨g.sunk, rfl⟩


structure BInv (s : St) (g : G) : Prop where
  rest : ∀ t, (s.task t).phase = .busy → (s.task t).rest = (g.ops t).drop (g.opIdx t)
  subs : ∀ t sub, sub ∈ (s.task t).cur → sub.eid < s.nextEid ∧ g.dst sub.eid = sub.dst ∧ g.pl sub.eid = sub.payload
  boxes : ∀ m pk, pk ∈ s.mbox m → pk.eid < s.nextEid ∧ g.dst pk.eid = .box m ∧ g.pl pk.eid = pk.payload
  arr : ∀ d e, (d, e) ∈ s.arrLog → e < s.nextEid ∧ g.dst e = .box d
  hP : s.handledP = s.handled.map (fun x => (x.1, g.pl x.2))

theorem binv_init : BInv St.init {} := by
  constructor <;> simp [St.init]

theorem binv_sunk {s : St} {g : G} (x : List Nat) (h : BInv s g) : BInv s { g with sunk := x } :=
  ⟨h.rest, h.subs, h.boxes, h.arr, h.hP⟩

theorem mem_setSt_meta {l : List Sub} {i : Nat} {st : SubSt} {x : Sub} (h : x ∈ setSt l i st) :
    ∃ y ∈ l, y.eid = x.eid ∧ y.dst = x.dst ∧ y.payload = x.payload := by
  rcases mem_setSt h with h | ⟨y, hy, _, rfl⟩
  · exact ⟨x, h, rfl, rfl, rfl⟩
  · exact ⟨y, hy, rfl, rfl, rfl⟩

theorem binv_step (P : Prog) (l : Label) (s s' : St) (g : G) (hI : Inv s) (h : BInv s g) (hs : step P l s = some s') :
    BInv s' (gstep P l s g) := by
  obtain ⟨b1, b2, b3, b4, b5⟩ := h
  cases l with
  | init m =>
    obtain ⟨hph, _, _, htask, sla, slh, slhp, sln, slm, _, _⟩ := step_init_eq hs
    refine ⟨?_, ?_, ?_, ?_, ?_⟩
    · intro t hb
      simp only [gstep]
      by_cases ht : t = m
      · subst ht; rw [htask]; simp
      · rw [htask] at hb ⊢; simp only [upd_other _ _ ht] at hb ⊢; exact b1 t hb
    · intro t sub hsub
      simp only [gstep]; rw [sln]
      by_cases ht : t = m
      · subst ht; rw [htask] at hsub; simp at hsub; exact b2 t sub hsub
      · rw [htask] at hsub; simp only [upd_other _ _ ht] at hsub; exact b2 t sub hsub
    · intro m' pk hpk; simp only [gstep]; rw [sln]; rw [slm] at hpk; exact b3 m' pk hpk
    · intro d e he; simp only [gstep]; rw [sln]; rw [sla] at he; exact b4 d e he
    · simp only [gstep]; rw [slhp, slh]; exact b5
  | spawn t0 ops =>
    obtain ⟨_, hnb, hcur, htask, sl, _⟩ := step_spawn_eq hs
    refine ⟨?_, ?_, ?_, ?_, ?_⟩
    · intro t hb
      simp only [gstep]
      by_cases ht : t = t0
      · subst ht; rw [htask]; simp
      · rw [htask] at hb ⊢; simp only [upd_other _ _ ht] at hb ⊢; exact b1 t hb
    · intro t sub hsub
      simp only [gstep]; rw [sl.nextEid]
      by_cases ht : t = t0
      · subst ht; rw [htask] at hsub; simp at hsub; exact b2 t sub hsub
      · rw [htask] at hsub; simp only [upd_other _ _ ht] at hsub; exact b2 t sub hsub
    · intro m' pk hpk; simp only [gstep]; rw [sl.nextEid]; rw [sl.mbox] at hpk; exact b3 m' pk hpk
    · intro d e he; simp only [gstep]; rw [sl.nextEid]; rw [sl.arrLog] at he; exact b4 d e he
    · simp only [gstep]; rw [sl.handledP, sl.handled]; exact b5
  | start t0 =>
    obtain ⟨op, ops, hph, hcur, hrest, htask, hn, ha, hh, hhp, hmb, _, _⟩ := step_start_eq hs
    have hold : ∀ e, e < s.nextEid → decide (s.nextEid ≤ e ∧ e < s.nextEid + op.length) = false := by
      intro e he; simp; omega
    refine ⟨?_, ?_, ?_, ?_, ?_⟩
    · intro t hb
      simp only [gstep, hrest]
      by_cases ht : t = t0
      · subst ht
        rw [htask]; simp
        have := b1 t hph
        rw [hrest] at this
        -- ops.drop idx = op :: ops  →  ops.drop (idx+1) = ops
        rw [← List.drop_drop, ← this]; simp
      · rw [htask] at hb ⊢; simp only [upd_other _ _ ht] at hb ⊢; exact b1 t hb
    · intro t sub hsub
      simp only [gstep, hrest]; rw [hn]
      by_cases ht : t = t0
      · subst ht
        rw [htask] at hsub; simp at hsub
        obtain ⟨j, d, p, q, hj, he, hd, hp, _⟩ := mem_mkSubs hsub
        have hjl : j < op.length := by
          rcases Nat.lt_or_ge j op.length with h | h
          · exact h
          · rw [List.getElem?_eq_none h] at hj; simp at hj
        have hin : decide (s.nextEid ≤ sub.eid ∧ sub.eid < s.nextEid + op.length) = true := by simp; omega
        refine ⟨by omega, ?_, ?_⟩
        · simp only [hin, if_true]
          have : sub.eid - s.nextEid = j := by omega
          rw [this, List.getD_eq_getElem?_getD, hj]; simp [hd]
        · simp only [hin, if_true]
          have : sub.eid - s.nextEid = j := by omega
          rw [this, List.getD_eq_getElem?_getD, hj]; simp [hp]
      · rw [htask] at hsub; simp only [upd_other _ _ ht] at hsub
        obtain ⟨h1, h2, h3⟩ := b2 t sub hsub
        refine ⟨by omega, ?_, ?_⟩
        · simp only [hold _ h1]; exact h2
        · simp only [hold _ h1]; exact h3
    · intro m' pk hpk
      simp only [gstep, hrest]; rw [hn]; rw [hmb] at hpk
      obtain ⟨h1, h2, h3⟩ := b3 m' pk hpk
      refine ⟨by omega, ?_, ?_⟩
      · simp only [hold _ h1]; exact h2
      · simp only [hold _ h1]; exact h3
    · intro d e he
      simp only [gstep, hrest]; rw [hn]; rw [ha] at he
      obtain ⟨h1, h2⟩ := b4 d e he
      refine ⟨by omega, ?_⟩
      simp only [hold _ h1]; exact h2
    · simp only [gstep, hrest]; rw [hhp, hh, b5]
      apply List.map_congr_left
      intro x hx
      -- handled eids are old
      have hlt : x.2 < s.nextEid := (b4 x.1 x.2 (handled_arrived hI (by cases x; exact hx))).1
      simp only [hold _ hlt, Bool.false_eq_true, if_false]
  | push t0 i =>
    obtain ⟨xs, hxs⟩ := gstep_push_eq P s g t0 i
    rw [hxs]
    apply binv_sunk
    obtain ⟨sub, hsub, hst, hcase⟩ := step_push_eq hs
    have hsubm : sub ∈ (s.task t0).cur := List.mem_of_getElem? hsub
    have hcur : ∀ (tk : Nat → Task), tk = upd s.task t0 { s.task t0 with cur := setSt (s.task t0).cur i .pushed } →
        (∀ t, (tk t).phase = .busy → (tk t).rest = (g.ops t).drop (g.opIdx t)) ∧
        (∀ t x, x ∈ (tk t).cur → x.eid < s.nextEid ∧ g.dst x.eid = x.dst ∧ g.pl x.eid = x.payload) := by
      intro tk htk
      subst htk
      constructor
      · intro t hb
        by_cases ht : t = t0
        · subst ht; simp at hb ⊢; exact b1 t hb
        · simp only [upd_other _ _ ht] at hb ⊢; exact b1 t hb
      · intro t x hx
        by_cases ht : t = t0
        · subst ht; simp at hx
          obtain ⟨y, hy, e1, e2, e3⟩ := mem_setSt_meta hx
          have := b2 t y hy
          rw [e1, e2, e3] at this; exact this
        · simp only [upd_other _ _ ht] at hx; exact b2 t x hx
    rcases hcase with ⟨k, hk, htask, sl, _⟩ | ⟨k, hk, htask, sl, _⟩ | ⟨d, hd, hcap, htask, hmb, ha, hh, hhp, hn, _, _⟩
    · obtain ⟨c1, c2⟩ := hcur s'.task htask
      refine ⟨c1, ?_, ?_, ?_, ?_⟩
      · intro t x hx; rw [sl.nextEid]; exact c2 t x hx
      · intro m' pk hpk; rw [sl.nextEid]; rw [sl.mbox] at hpk; exact b3 m' pk hpk
      · intro d e he; rw [sl.nextEid]; rw [sl.arrLog] at he; exact b4 d e he
      · rw [sl.handledP, sl.handled]; exact b5
    · refine ⟨?_, ?_, ?_, ?_, ?_⟩
      · intro t hb; rw [htask] at hb ⊢; exact b1 t hb
      · intro t x hx; rw [sl.nextEid]; rw [htask] at hx; exact b2 t x hx
      · intro m' pk hpk; rw [sl.nextEid]; rw [sl.mbox] at hpk; exact b3 m' pk hpk
      · intro d e he; rw [sl.nextEid]; rw [sl.arrLog] at he; exact b4 d e he
      · rw [sl.handledP, sl.handled]; exact b5
    · obtain ⟨c1, c2⟩ := hcur s'.task htask
      have hsb := b2 t0 sub hsubm
      refine ⟨c1, ?_, ?_, ?_, ?_⟩
      · intro t x hx; rw [hn]; exact c2 t x hx
      · intro m' pk hpk
        rw [hn]; rw [hmb] at hpk
        by_cases hm : m' = d
        · subst hm
          simp at hpk
          rcases hpk with hpk | rfl
          · exact b3 m' pk hpk
          · exact ⟨hsb.1, by rw [hsb.2.1, hd], hsb.2.2⟩
        · simp only [upd_other _ _ hm] at hpk; exact b3 m' pk hpk
      · intro d' e he
        rw [hn]; rw [ha] at he
        simp at he
        rcases he with he | ⟨rfl, rfl⟩
        · exact b4 d' e he
        · exact ⟨hsb.1, by rw [hsb.2.1, hd]⟩
      · rw [hhp, hh]; exact b5
  | deliver m =>
    obtain ⟨p, ps, hph, hmb, htask, hmb', ha, hh, hhp, hn, _⟩ := step_deliver_eq hs
    have hp : p ∈ s.mbox m := by rw [hmb]; simp
    refine ⟨?_, ?_, ?_, ?_, ?_⟩
    · intro t hb
      simp only [gstep, hmb]
      by_cases ht : t = m
      · subst ht; rw [htask]; simp
      · rw [htask] at hb ⊢; simp only [upd_other _ _ ht] at hb ⊢; exact b1 t hb
    · intro t x hx
      simp only [gstep, hmb]; rw [hn]
      by_cases ht : t = m
      · subst ht; rw [htask] at hx; simp at hx; exact b2 t x hx
      · rw [htask] at hx; simp only [upd_other _ _ ht] at hx; exact b2 t x hx
    · intro m' pk hpk
      simp only [gstep, hmb]; rw [hn]; rw [hmb'] at hpk
      by_cases hm : m' = m
      · subst hm; simp at hpk; exact b3 m' pk (by rw [hmb]; simp [hpk])
      · simp only [upd_other _ _ hm] at hpk; exact b3 m' pk hpk
    · intro d e he; simp only [gstep, hmb]; rw [hn]; rw [ha] at he; exact b4 d e he
    · simp only [gstep, hmb]; rw [hhp, hh, b5]; simp [(b3 m p hp).2.2]
  | opDone t0 =>
    rw [gstep_other P s g _ (Or.inl ⟨t0, rfl⟩)]
    obtain ⟨hph, _, _, htask, sl, _⟩ := step_opDone_eq hs
    refine ⟨?_, ?_, ?_, ?_, ?_⟩
    · intro t hb
      by_cases ht : t = t0
      · subst ht; rw [htask] at hb ⊢; simp at hb ⊢; exact b1 t hb
      · rw [htask] at hb ⊢; simp only [upd_other _ _ ht] at hb ⊢; exact b1 t hb
    · intro t x hx; rw [sl.nextEid]
      by_cases ht : t = t0
      · subst ht; rw [htask] at hx; simp at hx
      · rw [htask] at hx; simp only [upd_other _ _ ht] at hx; exact b2 t x hx
    · intro m' pk hpk; rw [sl.nextEid]; rw [sl.mbox] at hpk; exact b3 m' pk hpk
    · intro d e he; rw [sl.nextEid]; rw [sl.arrLog] at he; exact b4 d e he
    · rw [sl.handledP, sl.handled]; exact b5
  | finish t0 =>
    rw [gstep_other P s g _ (Or.inr ⟨t0, rfl⟩)]
    obtain ⟨hph, hcur, hrest, hnb, hcur', hoth, sl, _⟩ := step_finish_eq hs
    refine ⟨?_, ?_, ?_, ?_, ?_⟩
    · intro t hb
      by_cases ht : t = t0
      · subst ht; exact absurd hb hnb
      · obtain ⟨o1, o2, _, _, _, _⟩ := hoth t ht
        rw [o1] at hb; rw [o2]; exact b1 t hb
    · intro t x hx; rw [sl.nextEid]
      by_cases ht : t = t0
      · subst ht; rw [hcur'] at hx; simp at hx
      · obtain ⟨_, _, _, o3, _, _⟩ := hoth t ht
        have : (x.eid, x.dst, x.payload) ∈ (s'.task t).cur.map (fun x => (x.eid, x.dst, x.payload)) :=
          List.mem_map_of_mem hx
        rw [o3] at this
        obtain ⟨y, hy, hye⟩ := List.mem_map.mp this
        simp at hye
        have := b2 t y hy
        rw [hye.1, hye.2.1, hye.2.2] at this; exact this
    · intro m' pk hpk; rw [sl.nextEid]; rw [sl.mbox] at hpk; exact b3 m' pk hpk
    · intro d e he; rw [sl.nextEid]; rw [sl.arrLog] at he; exact b4 d e he
    · rw [sl.handledP, sl.handled]; exact b5

end NexoVerif.Net
