import NexoVerif.Lemmas.SchedTop
/-! `step_until`, `process_event` and whole command sequences preserve the invariant (M-SCHED). -/
namespace NexoVerif.Sched
set_option linter.unusedSimpArgs false
set_option linter.unusedVariables false

theorem sched_frame (s : St) (r : SchedReq) :
    (sched s r).1.terminated = s.terminated ∧ (sched s r).1.tol = s.tol := by
  unfold sched; split
  · exact ⟨rfl, rfl⟩
  · split <;> exact ⟨rfl, rfl⟩

theorem execH_frame (s : St) (cs : List HCmd) :
    (execH s cs).terminated = s.terminated ∧ (execH s cs).tol = s.tol := by
  induction cs generalizing s with
  | nil => exact ⟨rfl, rfl⟩
  | cons c cs ih =>
    cases c with
    | sched r => rw [execH]; have := ih (sched s r).1; have h2 := sched_frame s r; exact ⟨this.1.trans h2.1, this.2.trans h2.2⟩
    | cancel k => rw [execH]; exact ih _

theorem runFire_frame (prog : Prog) (s : St) (e : Entry) (m : Nat) :
    (runFire prog s e m).terminated = s.terminated ∧ (runFire prog s e m).tol = s.tol := by
  unfold runFire; split
  · exact ⟨rfl, rfl⟩
  · exact execH_frame _ _

theorem runSeq_frame (prog : Prog) (fs : List (Entry × Nat)) (s : St) :
    (runSeq prog fs s).terminated = s.terminated ∧ (runSeq prog fs s).tol = s.tol := by
  induction fs generalizing s with
  | nil => exact ⟨rfl, rfl⟩
  | cons f r ih =>
    obtain ⟨e, m⟩ := f
    rw [runSeq]; have := ih (runFire prog s e m); have h2 := runFire_frame prog s e m
    exact ⟨this.1.trans h2.1, this.2.trans h2.2⟩

theorem pullAll_frame (bound : Option Nat) (t : Nat) (fuel : Nat) (s : St) (gs : List (List Entry)) :
    (pullAll bound t fuel s gs).1.terminated = s.terminated ∧ (pullAll bound t fuel s gs).1.tol = s.tol := by
  induction fuel generalizing s gs with
  | zero => exact ⟨rfl, rfl⟩
  | succ n ih =>
    unfold pullAll
    have hd := discard_spec bound s
    simp only
    split
    · exact ⟨hd.2.2.2.2.1, hd.2.2.2.2.2.1⟩
    · split
      · split
        · exact ⟨hd.2.2.2.2.1, hd.2.2.2.2.2.1⟩
        · rename_i e' s' hp
          obtain ⟨_, _, _, _, ht, htol, _⟩ := pullHead_spec hp
          have := ih s' (addToGroups e' gs)
          exact ⟨this.1.trans (ht.trans hd.2.2.2.2.1), this.2.trans (htol.trans hd.2.2.2.2.2.1)⟩
      · exact ⟨hd.2.2.2.2.1, hd.2.2.2.2.2.1⟩

theorem lockedPhase_frame (bound : Option Nat) (jump : Bool) (s : St) :
    (lockedPhase bound jump s).1.terminated = s.terminated ∧ (lockedPhase bound jump s).1.tol = s.tol := by
  unfold lockedPhase
  have hd := discard_spec bound s
  simp only
  split
  · cases jump <;> cases bound <;> simp [writeTime] <;> exact ⟨hd.2.2.2.2.1, hd.2.2.2.2.2.1⟩
  · split
    · cases jump <;> cases bound <;> simp [writeTime] <;> exact ⟨hd.2.2.2.2.1, hd.2.2.2.2.2.1⟩
    · rename_i e es hq hw
      have := pullAll_frame bound e.time (writeTime e.time (discardCancelled bound s)).queue.length
        (writeTime e.time (discardCancelled bound s)) []
      exact ⟨this.1.trans hd.2.2.2.2.1, this.2.trans hd.2.2.2.2.2.1⟩

/-- possible results of `step_to_next_bounded`, and what they say about the state -/
theorem stepNext_res (prog : Prog) (ord : Oracle) (bound : Option Nat) (jump : Bool) (s : St) :
    ((stepNext prog ord bound jump s).2.1 = .ok ∨ (stepNext prog ord bound jump s).2.1 = .terminated ∨
      ∃ l, (stepNext prog ord bound jump s).2.1 = .outOfSync l) ∧
    (s.terminated = false → (stepNext prog ord bound jump s).2.1 = .ok →
      (stepNext prog ord bound jump s).1.terminated = false) := by
  unfold stepNext
  split
  · rename_i ht; exact ⟨Or.inr (Or.inl rfl), fun h => by simp [ht] at h⟩
  · have hf := lockedPhase_frame bound jump s
    generalize lockedPhase bound jump s = r at hf
    obtain ⟨s1, o⟩ := r
    cases o with
    | none => exact ⟨Or.inl rfl, fun h _ => by rw [hf.1]; exact h⟩
    | some tg =>
      obtain ⟨t, gs⟩ := tg
      simp only at hf ⊢
      have hd := doSync_inv_frame prog t s1
      unfold afterLock
      simp only
      split
      · split
        · exact ⟨Or.inr (Or.inr ⟨_, rfl⟩), fun _ h => by simp at h⟩
        · refine ⟨Or.inl rfl, fun h _ => ?_⟩
          rw [(runSeq_frame prog _ _).1, hd.1, hf.1]; exact h
      · refine ⟨Or.inl rfl, fun h _ => ?_⟩
        rw [(runSeq_frame prog _ _).1, hd.1, hf.1]; exact h

theorem stepNext_none_jump (prog : Prog) (ord : Oracle) (target : Nat) (s : St) (h : Inv s)
    (hle : s.now ≤ target) :
    (s.terminated = false → (stepNext prog ord (some target) true s).2.1 = .ok →
      (stepNext prog ord (some target) true s).2.2 = none → (stepNext prog ord (some target) true s).1.now = target) ∧
    (s.terminated = false → (stepNext prog ord (some target) true s).2.1 = .ok →
      (stepNext prog ord (some target) true s).1.terminated = false) ∧
    ((stepNext prog ord (some target) true s).2.1 = .diverged → False) := by
  have hres := stepNext_res prog ord (some target) true s
  refine ⟨?_, hres.2, ?_⟩
  · intro hterm hok hnone
    unfold stepNext at hok hnone ⊢
    simp [hterm] at hok hnone ⊢
    have hl := lockedPhase_inv (some target) true s h (by intro b hb; simp at hb; omega)
    generalize lockedPhase (some target) true s = r at hl hok hnone
    obtain ⟨s1, o⟩ := r
    cases o with
    | none => exact hl.2.2.1 target rfl rfl
    | some tg =>
      obtain ⟨t, gs⟩ := tg
      simp only at hok hnone
      exfalso
      unfold afterLock at hok hnone
      simp only at hok hnone
      split at hnone
      · split at hnone
        · simp_all
        · simp at hnone
      · simp at hnone
  · intro hd
    rcases hres.1 with h1 | h1 | ⟨l, h1⟩ <;> rw [h1] at hd <;> simp at hd

theorem stepUntilLoop_not_invalidDeadline (prog : Prog) (ord : Oracle) (target : Nat) (fuel : Nat) (s : St)
    (h : (stepUntilLoop prog ord target fuel s).2 = .invalidDeadline) : False := by
  induction fuel generalizing s with
  | zero => simp [stepUntilLoop] at h
  | succ n ih =>
    unfold stepUntilLoop at h
    have hres := (stepNext_res prog ord (some target) true s).1
    generalize stepNext prog ord (some target) true s = r at h hres
    obtain ⟨s1, res, ot⟩ := r
    simp only at hres
    rcases hres with h1 | h1 | ⟨l, h1⟩
    · subst h1
      cases ot with
      | some t =>
        simp only at h
        split at h
        · simp at h
        · exact ih s1 h
      | none => simp at h
    · subst h1; simp at h
    · subst h1; simp at h

/-- the loop of `step_until_unchecked`: invariant, monotone time, never beyond the target, and — with
enough fuel — it returns (`≠ diverged`) and, when it returns `ok`, the time equals the target. -/
theorem stepUntilLoop_spec (prog : Prog) (ord : Oracle) (target : Nat) (fuel : Nat) (s : St)
    (h : Inv s) (hle : s.now ≤ target) (hfuel : target - s.now < fuel) :
    Inv (stepUntilLoop prog ord target fuel s).1 ∧
    s.now ≤ (stepUntilLoop prog ord target fuel s).1.now ∧
    (stepUntilLoop prog ord target fuel s).1.now ≤ target ∧
    (stepUntilLoop prog ord target fuel s).2 ≠ .diverged ∧
    ((stepUntilLoop prog ord target fuel s).2 = .ok → s.terminated = false →
      (stepUntilLoop prog ord target fuel s).1.now = target) := by
  induction fuel generalizing s with
  | zero => omega
  | succ n ih =>
    unfold stepUntilLoop
    have hs := stepNext_inv prog ord (some target) true s h (by intro b hb; simp at hb; omega)
    have hnone := stepNext_none_jump prog ord target s h hle
    generalize stepNext prog ord (some target) true s = r at hs hnone
    obtain ⟨s1, res, ot⟩ := r
    simp only at hs hnone
    obtain ⟨hi, hmono, hbnd, hsome⟩ := hs
    have hb := hbnd target rfl
    cases res with
    | ok =>
      cases ot with
      | some t =>
        simp only
        have ht := hsome t rfl
        by_cases heq : t = target
        · simp [heq]
          exact ⟨hi, hmono, hb, fun _ => by rw [ht.1]; exact heq⟩
        · simp [heq]
          have := ih s1 hi hb (by omega)
          refine ⟨this.1, by omega, this.2.2.1, this.2.2.2.1, ?_⟩
          intro hok hterm
          exact this.2.2.2.2 hok (hnone.2.1 hterm rfl)
      | none =>
        simp only
        have hd := doSync_inv prog target s1 hi
        refine ⟨hd.1, by rw [hd.2.1]; exact hmono, by rw [hd.2.1]; exact hb, by simp, ?_⟩
        intro _ hterm
        rw [hd.2.1]
        exact hnone.1 hterm rfl rfl
    | invalidTime => simp; exact ⟨hi, hmono, hb⟩
    | nullPeriod => simp; exact ⟨hi, hmono, hb⟩
    | terminated => simp; exact ⟨hi, hmono, hb⟩
    | invalidDeadline => simp; exact ⟨hi, hmono, hb⟩
    | outOfSync l => simp; exact ⟨hi, hmono, hb⟩
    | diverged =>
      exfalso
      exact hnone.2.2 rfl

theorem stepUntil_spec (prog : Prog) (ord : Oracle) (target : Nat) (s : St) (h : Inv s) :
    Inv (stepUntil prog ord target s).1 ∧ s.now ≤ (stepUntil prog ord target s).1.now ∧
    (stepUntil prog ord target s).2 ≠ .diverged ∧
    ((stepUntil prog ord target s).2 = .ok → (stepUntil prog ord target s).1.now = target) ∧
    ((stepUntil prog ord target s).2 = .invalidDeadline → (stepUntil prog ord target s).1 = s ∧ target < s.now) := by
  unfold stepUntil
  split
  · simp; exact h
  · rename_i hterm
    split
    · rename_i hlt; simp; exact ⟨h, hlt⟩
    · rename_i hge
      have := stepUntilLoop_spec prog ord target (target - s.now + 1) s h (by omega) (by omega)
      refine ⟨this.1, this.2.1, this.2.2.2.1, fun hok => this.2.2.2.2 hok (by simpa using hterm), ?_⟩
      intro hid
      exfalso
      exact stepUntilLoop_not_invalidDeadline prog ord target _ s hid

theorem processEvent_inv (prog : Prog) (aid m : Nat) (s : St) (h : Inv s) :
    Inv (processEvent prog aid m s).1 ∧ (processEvent prog aid m s).1.now = s.now := by
  unfold processEvent
  split
  · exact ⟨h, rfl⟩
  · have h' : Inv { s with log := Obs.fire aid m s.now s.now :: s.log } := ⟨h.sorted, h.future, h.period, h.epoch⟩
    have := execH_inv _ (prog.handler aid m s.now) h'
    exact ⟨this.1, this.2⟩

theorem step_inv (prog : Prog) (ord : Oracle) (s : St) (h : Inv s) :
    Inv (step prog ord s).1 ∧ s.now ≤ (step prog ord s).1.now := by
  have := stepNext_inv prog ord none false s h (by intro b hb; simp at hb)
  exact ⟨this.1, this.2.1⟩

theorem exec_inv (prog : Prog) (ord : Oracle) (s : St) (c : Cmd) (h : Inv s) :
    Inv (exec prog ord s c).1 ∧ s.now ≤ (exec prog ord s c).1.now := by
  cases c with
  | sched r => exact ⟨sched_inv s r h, by rw [exec, sched_now]; exact Nat.le_refl _⟩
  | cancel k => exact ⟨⟨h.sorted, h.future, h.period, h.epoch⟩, Nat.le_refl _⟩
  | step => exact step_inv prog ord s h
  | stepUntil t => have := stepUntil_spec prog ord t s h; exact ⟨this.1, this.2.1⟩
  | process a m => have := processEvent_inv prog a m s h; exact ⟨this.1, by rw [exec, this.2]; exact Nat.le_refl _⟩

theorem run_inv (prog : Prog) (ord : Oracle) (s : St) (cmds : List Cmd) (h : Inv s) :
    Inv (run prog ord s cmds) ∧ s.now ≤ (run prog ord s cmds).now := by
  induction cmds generalizing s with
  | nil => exact ⟨h, Nat.le_refl _⟩
  | cons c cs ih =>
    have h1 := exec_inv prog ord s c h
    have := ih _ h1.1
    simp only [run, List.foldl_cons] at this ⊢
    exact ⟨this.1, by omega⟩

theorem execH_log' (s : St) (cs : List HCmd) : (execH s cs).log = s.log := by
  induction cs generalizing s with
  | nil => rfl
  | cons c cs ih =>
    cases c with
    | sched r =>
      simp only [execH]; rw [ih]
      unfold sched; split
      · rfl
      · split <;> rfl
    | cancel k => simp only [execH]; rw [ih]; rfl

theorem runInits_inv (prog : Prog) (k : Nat) (s : St) (h : Inv s) :
    Inv (runInits prog k s) ∧ (runInits prog k s).now = s.now ∧ (runInits prog k s).log = s.log := by
  induction k with
  | zero => exact ⟨h, rfl, rfl⟩
  | succ k ih =>
    simp only [runInits]
    have := execH_inv (runInits prog k s) (prog.handler (initAid k) k (runInits prog k s).now) ih.1
    exact ⟨this.1, this.2.trans ih.2.1, (execH_log' _ _).trans ih.2.2⟩

theorem init_inv (prog : Prog) (t0 : Nat) (tol : Option Nat) : Inv (initSim prog t0 tol) := by
  unfold initSim
  have h0 : Inv (writeTime t0 (St.init t0 tol)) := by
    refine ⟨?_, ?_, ?_, ?_⟩ <;> simp [writeTime, St.init, Sorted]
  exact (runInits_inv prog _ _ (doSync_inv prog t0 _ h0).1).1

theorem init_now (prog : Prog) (t0 : Nat) (tol : Option Nat) : (initSim prog t0 tol).now = t0 := by
  unfold initSim
  have h0 : Inv (writeTime t0 (St.init t0 tol)) := by
    refine ⟨?_, ?_, ?_, ?_⟩ <;> simp [writeTime, St.init, Sorted]
  rw [(runInits_inv prog _ _ (doSync_inv prog t0 _ h0).1).2.1, (doSync_inv prog t0 _ h0).2.1]; rfl

end NexoVerif.Sched
