import NexoVerif.Model.Heap
/-! Helper lemmas for M-HEAP: reads and writes of the two arrays. -/
namespace NexoVerif.Heap

@[simp] theorem size_wr {α : Type} (a : Array α) (i : Nat) (v : α) : (wr a i v).size = a.size := by
  simp [wr]

variable {α : Type} [Inhabited α]

theorem rd_wr_same (a : Array α) (i : Nat) (v : α) (h : i < a.size) : rd (wr a i v) i = v := by
  simp [rd, wr, h]

theorem rd_wr_other (a : Array α) (i j : Nat) (v : α) (h : i ≠ j) : rd (wr a i v) j = rd a j := by
  simp [rd, wr, h]

theorem rd_push_lt (a : Array α) (v : α) (i : Nat) (h : i < a.size) : rd (a.push v) i = rd a i := by
  simp [rd, Array.getElem?_push, Nat.ne_of_lt h]

theorem rd_push_eq (a : Array α) (v : α) : rd (a.push v) a.size = v := by
  simp [rd]

theorem rd_pop (a : Array α) (i : Nat) (h : i < a.size - 1) : rd a.pop i = rd a i := by
  have h2 : i < a.size := by omega
  simp [rd, h, h2]

@[simp] theorem size_setH (s : Array SNode) (j i : Nat) : (setH s j i).size = s.size := by
  unfold setH; split <;> simp

theorem rd_setH_other (s : Array SNode) (j i j' : Nat) (h : j ≠ j') : rd (setH s j i) j' = rd s j' := by
  unfold setH; split
  · exact rd_wr_other _ _ _ _ h
  · rfl

theorem rd_setH_same (s : Array SNode) (j i v x : Nat) (hj : j < s.size) (h : rd s j = .used v x) :
    rd (setH s j i) j = .used v i := by
  unfold setH; rw [h]; exact rd_wr_same _ _ _ hj

end NexoVerif.Heap
