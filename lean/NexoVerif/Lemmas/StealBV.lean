/-
Lemmas over M-STEAL that are bit-vector facts about all 2^64 (or 2^128) inputs.  This is the ONLY file of the
project in which `bv_decide` is used: each call bit-blasts the goal, has the bundled SAT solver (CaDiCaL) refute
it, and re-checks the solver's LRAT certificate with a checker that is run through the Lean compiler — so the three
theorems below depend, besides `propext`/`Classical.choice`/`Quot.sound`, on `Lean.ofReduceBool` and
`Lean.trustCompiler` (the `._native.bv_decide.ax_*` axioms that `#print axioms` shows).  That is accepted for these
theorems only, recorded in the evidence of C04 and in DESIGN.md 3 / 10.9; `check.py` allows those axioms for
exactly the theorems whose proofs go through this file.
-/
import NexoVerif.Model.Steal
import Std.Tactic.BVDecide
namespace NexoVerif.Steal

/-- the bit count as the sum of the 64 single bits -/
def popNaive (v : BitVec 64) : BitVec 64 :=
  (List.range 64).foldl (fun a i => a + ((v >>> i) &&& 1#64)) 0#64

/-- the tree of adders computes the number of set bits -/
theorem popCount_eq (v : BitVec 64) : popCount v = popNaive v := by
  simp only [popCount, sums, popNaive, List.range, List.range.loop, List.foldl, M0, M1, M2, M3, M4, M5]
  bv_decide (config := { timeout := 900 })

theorem popCount_le (v : BitVec 64) : popCount v ≤ 64#64 := by
  simp only [popCount, sums, M0, M1, M2, M3, M4, M5]
  bv_decide (config := { timeout := 900 })

theorem popCount_ne_zero (v : BitVec 64) (h : v ≠ 0#64) : 1#64 ≤ popCount v := by
  simp only [popCount, sums, M0, M1, M2, M3, M4, M5]
  bv_decide (config := { timeout := 900 })

/-- `find_bit` with a rank between 1 and the bit count: the position is below 64, the bit there is set, and exactly
`rank - 1` set bits lie below it. -/
theorem findBit_spec (v r : BitVec 64) (h1 : 1#64 ≤ r) (h2 : r ≤ popCount v) :
    findBit v (fun _ => r) < 64#64 ∧
    (v >>> findBit v (fun _ => r)) &&& 1#64 = 1#64 ∧
    popCount (v &&& ((1#64 <<< findBit v (fun _ => r)) - 1#64)) + 1#64 = r := by
  simp only [popCount, findBit, searchStep, sums, M0, M1, M2, M3, M4, M5] at *
  bv_decide (config := { timeout := 900 })

/-- the rotation of `ShuffledStealers::new` (up to 63 workers): the first candidate becomes the LSB and the rotated
set stays within the `n` low bits -/
theorem rotate_spec (c pos n : BitVec 64) (hn : n ≤ 63#64) (hpos : pos < n) (hc : c >>> n = 0#64)
    (hbit : (c >>> pos) &&& 1#64 = 1#64) :
    (rotate c pos n) &&& 1#64 = 1#64 ∧ (rotate c pos n) >>> n = 0#64 := by
  simp only [rotate] at *
  bv_decide (config := { timeout := 900 })

end NexoVerif.Steal
