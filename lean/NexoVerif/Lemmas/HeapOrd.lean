import NexoVerif.Lemmas.HeapCross
/-! M-HEAP: the heap order, with and without a vacant spot, through `sift_up` and `sift_down`. -/
namespace NexoVerif.Heap

/-- `a ≤ b` in the order of `UniqueKey` -/
def HItem.le (a b : HItem) : Prop := ¬ b.lt a

theorem le_of_lt {a b : HItem} (h : a.lt b) : a.le b := by
  unfold HItem.le HItem.lt at *; omega

theorem le_trans' {a b c : HItem} (h1 : a.le b) (h2 : b.le c) : a.le c := by
  unfold HItem.le HItem.lt at *; omega

theorem lt_le_trans {a b c : HItem} (h1 : a.lt b) (h2 : b.le c) : a.le c := by
  unfold HItem.le HItem.lt at *; omega

theorem le_refl' (a : HItem) : a.le a := by
  unfold HItem.le HItem.lt; omega

/-- every element is at least its parent -/
def Ordered (h : Array HItem) : Prop :=
  ∀ j, 0 < j → j < h.size → (rd h ((j - 1) / 2)).le (rd h j)

/-- the same for the pairs that do not involve the vacant spot -/
def OrdEx (h : Array HItem) (hole : Nat) : Prop :=
  ∀ j, 0 < j → j < h.size → j ≠ hole → (j - 1) / 2 ≠ hole → (rd h ((j - 1) / 2)).le (rd h j)

/-- what `sift_up` needs of the heap with the vacant spot `i` and the item kept aside -/
structure UpPre (h : Array HItem) (i : Nat) (item : HItem) : Prop where
  ord : OrdEx h i
  kids : ∀ j, 0 < j → j < h.size → (j - 1) / 2 = i → item.le (rd h j)
  gkids : i ≠ 0 → ∀ j, 0 < j → j < h.size → (j - 1) / 2 = i → (rd h ((i - 1) / 2)).le (rd h j)
  holeIn : i < h.size

theorem UpPre.placed {h i item} (x : UpPre h i item) (hp : i = 0 ∨ (rd h ((i - 1) / 2)).le item) :
    Ordered (wr h i item) := by
  intro j j0 js
  simp only [size_wr] at js
  have hh := x.holeIn
  by_cases e : j = i
  · subst e
    rw [rd_wr_same _ _ _ hh, rd_wr_other _ _ _ _ (by omega)]
    rcases hp with hp | hp
    · omega
    · exact hp
  · by_cases e2 : (j - 1) / 2 = i
    · rw [e2, rd_wr_same _ _ _ hh, rd_wr_other _ _ _ _ (Ne.symm e)]
      exact x.kids j j0 js e2
    · rw [rd_wr_other _ _ _ _ (Ne.symm e), rd_wr_other _ _ _ _ (Ne.symm e2)]
      exact x.ord j j0 js e e2

theorem UpPre.moved {h i item} (x : UpPre h i item) (i0 : i ≠ 0) (hlt : item.lt (rd h ((i - 1) / 2))) :
    UpPre (wr h i (rd h ((i - 1) / 2))) ((i - 1) / 2) item := by
  have hh := x.holeIn
  have pi : (i - 1) / 2 < i := by omega
  -- the order between the parent and its own parent, and between the parent and its other child
  constructor
  · intro j j0 js jp jpp
    simp only [size_wr] at js
    by_cases e : j = i
    · subst e; exact absurd rfl jpp
    · by_cases e2 : (j - 1) / 2 = i
      · rw [e2, rd_wr_same _ _ _ hh, rd_wr_other _ _ _ _ (Ne.symm e)]
        exact x.gkids i0 j j0 js e2
      · rw [rd_wr_other _ _ _ _ (Ne.symm e), rd_wr_other _ _ _ _ (Ne.symm e2)]
        exact x.ord j j0 js e e2
  · intro j j0 js jp
    simp only [size_wr] at js
    by_cases e : j = i
    · subst e; rw [rd_wr_same _ _ _ hh]; exact le_of_lt hlt
    · rw [rd_wr_other _ _ _ _ (Ne.symm e)]
      have := x.ord j j0 js e (by omega)
      rw [jp] at this
      exact lt_le_trans hlt this
  · intro p0 j j0 js jp
    simp only [size_wr] at js
    have hpp : (rd h (((i - 1) / 2 - 1) / 2)).le (rd h ((i - 1) / 2)) :=
      x.ord ((i - 1) / 2) (by omega) (by omega) (by omega) (by omega)
    rw [rd_wr_other _ _ _ _ (by omega)]
    by_cases e : j = i
    · subst e; rw [rd_wr_same _ _ _ hh]; exact hpp
    · rw [rd_wr_other _ _ _ _ (Ne.symm e)]
      have := x.ord j j0 js e (by omega)
      rw [jp] at this
      exact le_trans' hpp this
  · simp only [size_wr]; omega

theorem siftUp_ord (h s) (item : HItem) (i) (x : UpPre h i item) : Ordered (siftUp h s item i).1 := by
  fun_induction siftUp h s item i with
  | case1 h s => exact x.placed (Or.inl rfl)
  | case2 h s i h0 p hlt => exact x.placed (Or.inr hlt)
  | case3 h s i h0 p hlt h' s' hlt2 =>
    rw [show rd h' p = rd h p from rd_wr_other _ _ _ _ (by omega)] at hlt2
    exact absurd hlt2 hlt
  | case4 h s i h0 p hlt h' s' hlt2 ih =>
    exact ih (x.moved h0 (Classical.not_not.mp hlt))

/-- what `sift_down` needs of the heap with the vacant spot `p` and the item kept aside -/
structure DownPre (h : Array HItem) (p : Nat) (item : HItem) : Prop where
  ord : OrdEx h p
  up : p ≠ 0 → (rd h ((p - 1) / 2)).le item
  gkids : p ≠ 0 → ∀ j, 0 < j → j < h.size → (j - 1) / 2 = p → (rd h ((p - 1) / 2)).le (rd h j)
  holeIn : p < h.size

theorem DownPre.placed {h p item} (x : DownPre h p item)
    (hk : ∀ j, 0 < j → j < h.size → (j - 1) / 2 = p → item.le (rd h j)) : Ordered (wr h p item) := by
  intro j j0 js
  simp only [size_wr] at js
  have hh := x.holeIn
  by_cases e : j = p
  · subst e
    rw [rd_wr_same _ _ _ hh, rd_wr_other _ _ _ _ (by omega)]
    exact x.up (by omega)
  · by_cases e2 : (j - 1) / 2 = p
    · rw [e2, rd_wr_same _ _ _ hh, rd_wr_other _ _ _ _ (Ne.symm e)]
      exact hk j j0 js e2
    · rw [rd_wr_other _ _ _ _ (Ne.symm e), rd_wr_other _ _ _ _ (Ne.symm e2)]
      exact x.ord j j0 js e e2

/-- the chosen child is a child, inside the heap, and not above its sibling -/
theorem pickChild_spec (h : Array HItem) (p : Nat) (hc : 2 * p + 1 < h.size) :
    let c := pickChild h (2 * p + 1)
    c < h.size ∧ 0 < c ∧ (c - 1) / 2 = p ∧
      ∀ j, 0 < j → j < h.size → (j - 1) / 2 = p → (rd h c).le (rd h j) := by
  intro c
  have hj : ∀ j, 0 < j → (j - 1) / 2 = p → j = 2 * p + 1 ∨ j = 2 * p + 2 := by intro j _ _; omega
  simp only [c, pickChild]
  split
  · rename_i hh
    refine ⟨hh.1, by omega, by omega, ?_⟩
    intro j j0 js jp
    rcases hj j j0 jp with e | e
    · subst e; exact le_of_lt hh.2
    · subst e; exact le_refl' _
  · rename_i hh
    refine ⟨hc, by omega, by omega, ?_⟩
    intro j j0 js jp
    rcases hj j j0 jp with e | e
    · subst e; exact le_refl' _
    · subst e
      have : ¬ (rd h (2 * p + 1 + 1)).lt (rd h (2 * p + 1)) := fun q => hh ⟨js, q⟩
      exact this

theorem DownPre.moved {h p item} (x : DownPre h p item) (hc : 2 * p + 1 < h.size)
    (hlt : (rd h (pickChild h (2 * p + 1))).lt item) :
    DownPre (wr h p (rd h (pickChild h (2 * p + 1)))) (pickChild h (2 * p + 1)) item := by
  obtain ⟨cs, c0, cp, cmin⟩ := pickChild_spec h p hc
  generalize pickChild h (2 * p + 1) = c at *
  have hh := x.holeIn
  have pc : p < c := by omega
  constructor
  · intro j j0 js jc jpc
    simp only [size_wr] at js
    by_cases e : j = p
    · subst e
      rw [rd_wr_same _ _ _ hh, rd_wr_other _ _ _ _ (by omega)]
      exact x.gkids (by omega) c c0 cs cp
    · by_cases e2 : (j - 1) / 2 = p
      · rw [e2, rd_wr_same _ _ _ hh, rd_wr_other _ _ _ _ (Ne.symm e)]
        exact cmin j j0 js e2
      · rw [rd_wr_other _ _ _ _ (Ne.symm e), rd_wr_other _ _ _ _ (Ne.symm e2)]
        exact x.ord j j0 js e e2
  · intro _
    rw [cp, rd_wr_same _ _ _ hh]
    exact le_of_lt hlt
  · intro _ j j0 js jc
    simp only [size_wr] at js
    rw [cp, rd_wr_same _ _ _ hh, rd_wr_other _ _ _ _ (by omega)]
    have := x.ord j j0 js (by omega) (by omega)
    rw [jc] at this
    exact this
  · simpa using cs

theorem siftDown_ord (h s) (item : HItem) (p) (x : DownPre h p item) : Ordered (siftDown h s item p).1 := by
  fun_induction siftDown h s item p with
  | case1 h s p hc c hlt =>
    obtain ⟨cs, c0, cp, cmin⟩ := pickChild_spec h p hc
    exact x.placed (fun j j0 js jp => le_trans' hlt (cmin j j0 js jp))
  | case2 h s p hc c hlt ih => exact ih (x.moved hc (Classical.not_not.mp hlt))
  | case3 h s p hc =>
    exact x.placed (fun j j0 js jp => by omega)

/-- in an ordered heap the root is a least element -/
theorem Ordered.root_le {h : Array HItem} (o : Ordered h) : ∀ k, k < h.size → (rd h 0).le (rd h k) := by
  intro k
  induction k using Nat.strongRecOn with
  | _ k ih =>
    intro hk
    by_cases k0 : k = 0
    · subst k0; exact le_refl' _
    · exact le_trans' (ih ((k - 1) / 2) (by omega) (by omega)) (o k (by omega) hk)

end NexoVerif.Heap
