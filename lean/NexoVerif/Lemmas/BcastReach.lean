import NexoVerif.Lemmas.BcastPoll
/-! Every reachable broadcaster state is well-formed; the `Ready` contract of `poll` (M-BCAST). -/
namespace NexoVerif.Bcast
set_option linter.unusedSimpArgs false
set_option linter.unusedVariables false

theorem accepted_single_true (sd : Sender) (arg : Nat) (h : sd.accepts arg = true) : accepted [sd] arg = [0] := by
  unfold accepted; simp [List.range_succ, h]

theorem accepted_single_false (sd : Sender) (arg : Nat) (h : ¬ sd.accepts arg = true) : accepted [sd] arg = [] := by
  unfold accepted; simp [List.range_succ, h]

theorem filled_nil (s : St) : Filled [] s 0 := by
  refine ⟨by simp, by simp [unfilled], ?_⟩
  intro i v hi; simp at hi

theorem start_spec (s : St) (consume : Nat) (hc0 : Core s) (hg : s.got = []) :
    WF (startBc s s.bcArg consume).1 ∧ (startBc s s.bcArg consume).1.senders = s.senders ∧
    (startBc s s.bcArg consume).1.bcArg = s.bcArg ∧
    (∀ vals, (startBc s s.bcArg consume).2 = .ready vals →
      ReadyOK (accepted s.senders s.bcArg) consume (startBc s s.bcArg consume).1 vals ∧
      (startBc s s.bcArg consume).1.fut = none) := by
  unfold startBc
  obtain ⟨snd, hsn⟩ : ∃ l, s.senders = l := ⟨_, rfl⟩
  split
  · rename_i hnil
    obtain ⟨a, b, c, d, e, vals, hv, hok⟩ := finish_spec [] s consume (filled_nil _) hc0
    simp only [List.length_nil] at a b c d e hv hok
    refine ⟨⟨a, by rw [b]; trivial⟩, c, d, ?_⟩
    intro vals' hv'
    rw [hv] at hv'; simp at hv'; subst hv'
    refine ⟨?_, b⟩
    have : accepted s.senders s.bcArg = [] := by rw [hnil]; simp [accepted]
    rw [this]; exact hok
  · rename_i sd hone
    by_cases hacc : sd.accepts s.bcArg = true
    · rw [if_pos hacc]
      obtain ⟨r1, r2, r3, r4, r5, r6⟩ := recordRequests_core s.bcArg [0] s hc0
      have hacc1 : accepted (recordRequests s s.bcArg [0]).senders (recordRequests s s.bcArg [0]).bcArg = [0] := by
        rw [r2, r5, hone]; exact accepted_single_true sd _ hacc
      obtain ⟨a, b, c', d⟩ := pollDirect_spec _ 0 consume r1 hacc1
      refine ⟨a, by rw [b, r2], by rw [c', r5], ?_⟩
      intro vals hv
      obtain ⟨h1, h2⟩ := d vals hv
      refine ⟨?_, h2⟩
      rw [hone, accepted_single_true sd _ hacc]; exact h1
    · rw [if_neg hacc]
      obtain ⟨a, b, c, d, e, vals, hv, hok⟩ := finish_spec [] s consume (filled_nil _) hc0
      simp only [List.length_nil] at a b c d e hv hok
      refine ⟨⟨a, by rw [b]; trivial⟩, c, d, ?_⟩
      intro vals' hv'
      rw [hv] at hv'; simp at hv'; subst hv'
      refine ⟨?_, b⟩
      rw [hone, accepted_single_false sd _ hacc]; exact hok
  · simp only
    obtain ⟨r1, r2, r3, r4, r5, r6⟩ := recordRequests_core s.bcArg (accepted s.senders s.bcArg) s hc0
    generalize hsr : recordRequests s s.bcArg (accepted s.senders s.bcArg) = sr at r1 r2 r3 r4 r5 r6
    split
    · rename_i hacc
      obtain ⟨a, b, c, d, e, vals, hv, hok⟩ := finish_spec [] sr consume (filled_nil _) r1
      simp only [List.length_nil] at a b c d e hv hok
      refine ⟨⟨a, by rw [b]; trivial⟩, by rw [c, r2], by rw [d, r5], ?_⟩
      intro vals' hv'
      rw [hv] at hv'; simp at hv'; subst hv'
      exact ⟨by rw [hacc]; exact hok, b⟩
    · rename_i c1 hacc
      have hacc1 : accepted sr.senders sr.bcArg = [c1] := by rw [r2, r5]; exact hacc
      obtain ⟨a, b, c', d⟩ := pollDirect_spec sr c1 consume r1 hacc1
      refine ⟨a, by rw [b, r2], by rw [c', r5], ?_⟩
      intro vals hv
      obtain ⟨h1, h2⟩ := d vals hv
      exact ⟨by rw [hacc]; exact h1, h2⟩
    · have hk : (accepted s.senders s.bcArg).length ≤ sr.outputs.length := by
        rw [r3, hc0.2.1]; exact accepted_length_le _ _
      have hc2 : Core { sr with taskCount := (accepted s.senders s.bcArg).length,
                                taskLen := max sr.taskLen (accepted s.senders s.bcArg).length,
                                outputs := List.replicate (min (accepted s.senders s.bcArg).length sr.outputs.length) none
                                            ++ sr.outputs.drop (accepted s.senders s.bcArg).length } := by
        refine ⟨r1.1, ?_, r1.2.2⟩
        simp only [List.length_append, List.length_replicate, List.length_drop]
        rw [← r1.2.1]; omega
      obtain ⟨a, b, c', d⟩ := pollMulti_uninit_spec _ (accepted s.senders s.bcArg) consume hc2 rfl
        (by simp only [List.length_append, List.length_replicate, List.length_drop]; omega)
        (by
          intro j hj
          simp only
          rw [List.getElem?_append_left (by simp; omega)]
          rw [List.getElem?_replicate]
          split <;> rfl)
        (by simp only; rw [r4]; exact hg) (by simp only; rw [r2, r5])
      refine ⟨a, by rw [b]; exact r2, by rw [c']; exact r5, ?_⟩
      intro vals hv
      obtain ⟨h1, h2⟩ := d vals hv
      exact ⟨h1, h2⟩

/-- the contract of one `poll` -/
theorem poll_spec (s : St) (hw : WF s) :
    WF (poll s).1 ∧ (poll s).1.senders = s.senders ∧ (poll s).1.bcArg = s.bcArg ∧
    (∀ vals, (poll s).2 = .ready vals → ∃ f, s.fut = some f ∧
      ReadyOK (accepted s.senders s.bcArg) f.consume (poll s).1 vals ∧ (poll s).1.fut = none) := by
  obtain ⟨hc, hfut⟩ := hw
  unfold poll
  cases hf : s.fut with
  | none => simp only; exact ⟨⟨hc, by rw [hf]; trivial⟩, trivial, trivial, by intro vals h; simp at h⟩
  | some f =>
    rw [hf] at hfut
    cases f with
    | direct c consume =>
      simp only at hfut ⊢
      obtain ⟨a, b, c', d⟩ := pollDirect_spec s c consume hc hfut
      refine ⟨a, b, c', ?_⟩
      intro vals hv
      obtain ⟨h1, h2⟩ := d vals hv
      exact ⟨_, rfl, by rw [hfut]; exact h1, h2⟩
    | multi subs pending uninit consume =>
      simp only at hfut ⊢
      obtain ⟨hu, htc, hF, hacc, hpos⟩ := hfut
      subst hu
      unfold pollMulti
      simp only [Bool.false_eq_true, if_false]
      obtain ⟨a, b, c', d⟩ := loopPoll_spec subs consume 2 s pending hc htc hF hacc hpos
      refine ⟨a, b, c', ?_⟩
      intro vals hv
      obtain ⟨h1, h2⟩ := d vals hv
      exact ⟨_, rfl, by rw [← hacc]; exact h1, h2⟩
    | lazy arg consume =>
      simp only at hfut ⊢
      subst hfut
      have hc0 : Core { s with got := [], fut := some (Fut.lazy s.bcArg consume) } :=
        ⟨hc.1, hc.2.1, hc.2.2.1, by intro x hx; simp at hx⟩
      obtain ⟨a, b, c', d⟩ := start_spec { s with got := [], fut := some (Fut.lazy s.bcArg consume) } consume hc0 rfl
      refine ⟨a, b, c', ?_⟩
      intro vals hv
      obtain ⟨h1, h2⟩ := d vals hv
      exact ⟨_, rfl, h1, h2⟩

end NexoVerif.Bcast

namespace NexoVerif.Bcast
set_option linter.unusedSimpArgs false
set_option linter.unusedVariables false

theorem wf_of_same {s s' : St} (h : WF s) (hc : Core s') (hf : s'.fut = s.fut) (htc : s'.taskCount = s.taskCount)
    (ho : s'.outputs = s.outputs) (hg : s'.got = s.got) (hs : s'.senders = s.senders) (hb : s'.bcArg = s.bcArg) :
    WF s' := by
  refine ⟨hc, ?_⟩
  have := h.futOk
  rw [hf]
  cases hfs : s.fut with
  | none => trivial
  | some f =>
    rw [hfs] at this
    cases f with
    | lazy arg c => simp only at this ⊢; rw [hb]; exact this
    | direct c k => simp only at this ⊢; rw [hs, hb]; exact this
    | multi subs pending uninit k =>
      simp only at this ⊢
      obtain ⟨a, b, c, d, e⟩ := this
      exact ⟨a, htc.trans b, ⟨ho ▸ c.len, ho ▸ c.cnt, by intro i v hi hv; rw [ho] at hv; rw [hg]; exact c.src i v hi hv⟩,
        by rw [hs, hb]; exact d, e⟩

theorem modSlot_core (s : St) (c : Nat) (f : Slot → Slot) (hc : Core s)
    (hr : ∀ sl, (f sl).reply = sl.reply ∨ (f sl).reply = none) : Core (modSlot s c f) := by
  unfold modSlot
  cases hsl : s.slots[c]? with
  | none => exact hc
  | some sl =>
    simp only
    have hlt : c < s.slots.length := by
      rcases Nat.lt_or_ge c s.slots.length with h | h
      · exact h
      · rw [List.getElem?_eq_none h] at hsl; simp at hsl
    refine ⟨by simp; exact hc.1, hc.2.1, ?_, hc.2.2.2⟩
    intro c' x v hx hv
    simp only at hx
    by_cases hcc : c' = c
    · subst hcc
      rw [List.getElem?_set_self hlt] at hx
      simp at hx; subst hx
      rcases hr sl with h | h
      · exact hc.2.2.1 c' sl v hsl (h ▸ hv)
      · rw [h] at hv; simp at hv
    · rw [List.getElem?_set_ne (Ne.symm hcc)] at hx
      exact hc.2.2.1 c' x v hx hv

theorem modSlot_same (s : St) (c : Nat) (f : Slot → Slot) :
    (modSlot s c f).fut = s.fut ∧ (modSlot s c f).taskCount = s.taskCount ∧ (modSlot s c f).outputs = s.outputs ∧
    (modSlot s c f).got = s.got ∧ (modSlot s c f).senders = s.senders ∧ (modSlot s c f).bcArg = s.bcArg ∧
    (modSlot s c f).handed = s.handed ∧ (modSlot s c f).slots.length = s.slots.length := by
  unfold modSlot
  split <;> simp

theorem taskWake_frame (s : St) (i : Nat) :
    (taskWake s i).slots = s.slots ∧ (taskWake s i).senders = s.senders ∧ (taskWake s i).outputs = s.outputs ∧
    (taskWake s i).got = s.got ∧ (taskWake s i).handed = s.handed ∧ (taskWake s i).fut = s.fut ∧
    (taskWake s i).taskCount = s.taskCount ∧ (taskWake s i).bcArg = s.bcArg := by
  unfold taskWake notify
  split
  · simp
  · simp only
    split
    · split <;> simp
    · simp

theorem wake_frame (s : St) (c : Nat) :
    (wake s c).slots = s.slots ∧ (wake s c).senders = s.senders ∧ (wake s c).outputs = s.outputs ∧
    (wake s c).got = s.got ∧ (wake s c).handed = s.handed ∧ (wake s c).fut = s.fut ∧
    (wake s c).taskCount = s.taskCount ∧ (wake s c).bcArg = s.bcArg := by
  unfold wake
  split
  · split
    · split
      · exact taskWake_frame s _
      · simp
    · simp
    · simp
  · simp

theorem wf_init : WF {} := by
  refine ⟨⟨rfl, rfl, ?_, ?_⟩, trivial⟩
  · intro c sl v h; simp at h
  · intro x h; simp at h

theorem wf_step (s : St) (op : Op) (h : WF s) : WF (step s op).1 := by
  cases op with
  | add a fm fr =>
    simp only [step]
    split
    · exact h
    · rename_i hnf
      have hfn : s.fut = none := by
        cases hf : s.fut with
        | none => rfl
        | some _ => simp [hf] at hnf
      refine ⟨⟨by simp; exact h.core.1, by simp; exact h.core.2.1, ?_, h.core.2.2.2⟩, by simp only [hfn]⟩
      intro c sl v hx hv
      simp only at hx
      by_cases hc : c < s.slots.length
      · rw [List.getElem?_append_left hc] at hx
        exact h.core.2.2.1 c sl v hx hv
      · rw [List.getElem?_append_right (by omega)] at hx
        have : sl = {} := by
          cases hi : c - s.slots.length with
          | zero => rw [hi] at hx; simpa using hx.symm
          | succ n => rw [hi] at hx; simp at hx
        subst this; simp at hv
  | bc arg consume =>
    simp only [step]
    split
    · exact h
    · exact ⟨h.core, by simp only⟩
  | poll => simp only [step]; exact (poll_spec s h).1
  | drop => simp only [step]; exact ⟨h.core, by simp only⟩
  | reply c v =>
    simp only [step]
    obtain ⟨a1, a2, a3, a4, a5, a6, a7, a8⟩ := modSlot_same s c (fun sl => { sl with reply := some v })
    refine wf_of_same (s' := { modSlot s c (fun sl => { sl with reply := some v }) with handed := s.handed ++ [(c, v)] }) h ?_ a1 a2 a3 a4 a5 a6
    refine ⟨by simp only; rw [a8, a5]; exact h.core.1, by simp only; rw [a3, a5]; exact h.core.2.1, ?_, ?_⟩
    · intro c' sl w hx hw
      simp only at hx ⊢
      unfold modSlot at hx
      cases hsl : s.slots[c]? with
      | none =>
        rw [hsl] at hx; simp only at hx
        simp; left; exact h.core.2.2.1 c' sl w hx hw
      | some sl0 =>
        rw [hsl] at hx; simp only at hx
        have hlt : c < s.slots.length := by
          rcases Nat.lt_or_ge c s.slots.length with h' | h'
          · exact h'
          · rw [List.getElem?_eq_none h'] at hsl; simp at hsl
        by_cases hcc : c' = c
        · subst hcc
          rw [List.getElem?_set_self hlt] at hx
          simp at hx; subst hx
          simp at hw; subst hw
          simp
        · rw [List.getElem?_set_ne (Ne.symm hcc)] at hx
          simp; left; exact h.core.2.2.1 c' sl w hx hw
    · intro x hx
      simp only at hx ⊢
      rw [a4] at hx
      simp; left; exact h.core.2.2.2 x hx
  | wake c =>
    simp only [step]
    have key : Core (wake s c) ∧ (wake s c).fut = s.fut ∧ (wake s c).taskCount = s.taskCount ∧
        (wake s c).outputs = s.outputs ∧ (wake s c).got = s.got ∧ (wake s c).senders = s.senders ∧
        (wake s c).bcArg = s.bcArg := by
      obtain ⟨f1, f2, f3, f4, f5, f6, f7, f8⟩ := wake_frame s c
      exact ⟨⟨by rw [f1, f2]; exact h.core.1, by rw [f3, f2]; exact h.core.2.1,
        by intro c' sl v hx hv; rw [f1] at hx; rw [f5]; exact h.core.2.2.1 c' sl v hx hv,
        by intro x hx; rw [f4] at hx; rw [f5]; exact h.core.2.2.2 x hx⟩, f6, f7, f3, f4, f2, f8⟩
    exact wf_of_same h key.1 key.2.1 key.2.2.1 key.2.2.2.1 key.2.2.2.2.1 key.2.2.2.2.2.1 key.2.2.2.2.2.2
  | failNext c =>
    simp only [step]
    obtain ⟨a1, a2, a3, a4, a5, a6, a7, a8⟩ := modSlot_same s c (fun sl => { sl with fail := true })
    exact wf_of_same h (modSlot_core s c _ h.core (fun sl => Or.inl rfl)) a1 a2 a3 a4 a5 a6

/-- states reachable by any sequence of operations -/
inductive Reach : St → Prop
  | init : Reach {}
  | step {s : St} (op : Op) : Reach s → Reach (step s op).1

theorem reach_wf {s : St} (h : Reach s) : WF s := by
  induction h with
  | init => exact wf_init
  | step op _ ih => exact wf_step _ op ih

end NexoVerif.Bcast
