import NexoVerif.Lemmas.NetInv
/-! Causal pasts: every event in a recorded past arrived earlier (M-NET). -/
namespace NexoVerif.Net
set_option linter.unusedSimpArgs false
set_option linter.unusedVariables false

/-- event ids that have arrived in some mailbox -/
def arrE (s : St) : List Nat := s.arrLog.map (·.2)

/-- `x` occurs in `l` strictly before (an occurrence of) `y` -/
def BeforeL {α} (l : List α) (x y : α) : Prop := ∃ pre post, l = pre ++ y :: post ∧ x ∈ pre

theorem BeforeL.append {α} {l : List α} {x y : α} (h : BeforeL l x y) (r : List α) : BeforeL (l ++ r) x y := by
  obtain ⟨pre, post, rfl, hx⟩ := h
  exact ⟨pre, post ++ r, by simp, hx⟩

theorem BeforeL.snoc {α} (l : List α) (x y : α) (hx : x ∈ l) : BeforeL (l ++ [y]) x y :=
  ⟨l, [], by simp, hx⟩

theorem nodup_map_inj {α β} (f : α → β) {l : List α} (hn : (l.map f).Nodup) {x y : α} (hx : x ∈ l) (hy : y ∈ l)
    (hxy : f x = f y) : x = y := by
  induction l with
  | nil => simp at hx
  | cons a r ih =>
    simp only [List.map_cons, List.nodup_cons] at hn
    simp at hx hy
    rcases hx with rfl | hx <;> rcases hy with rfl | hy
    · rfl
    · exact absurd (hxy ▸ List.mem_map_of_mem hy) hn.1
    · exact absurd (hxy ▸ List.mem_map_of_mem hx) hn.1
    · exact ih hn.2 hx hy

theorem split_unique {α} {p1 p2 q1 q2 : List α} {a : α} (h : p1 ++ a :: q1 = p2 ++ a :: q2)
    (h1 : a ∉ p1) (h2 : a ∉ p2) : p1 = p2 := by
  induction p1 generalizing p2 with
  | nil =>
    cases p2 with
    | nil => rfl
    | cons b r => simp at h; simp at h2; exact absurd h.1 h2.1
  | cons c r ih =>
    cases p2 with
    | nil => simp at h; simp at h1; exact absurd h.1.symm h1.1
    | cons b r2 =>
      simp at h h1 h2
      rw [h.1, ih h.2 h1.2 h2.2]

/-- a sub-send that completed towards a mailbox has arrived -/
def SubArrived (s : St) (sub : Sub) : Prop :=
  ∀ d, sub.dst = .box d → sub.st ≠ .toPush → sub.eid ∈ arrE s

structure CInv (s : St) : Prop where
  taskPast : ∀ t e, e ∈ (s.task t).past → e ∈ arrE s
  boxPast : ∀ m p, p ∈ s.mbox m → ∀ e ∈ p.past, e ∈ arrE s
  curArr : ∀ t sub, sub ∈ (s.task t).cur → SubArrived s sub
  pastsBefore : ∀ e' ps, (e', ps) ∈ s.pasts → ∀ e ∈ ps, BeforeL (arrE s) e e'

theorem cinv_init : CInv St.init := by
  constructor <;> simp [St.init, arrE, SubArrived]

theorem mem_setSt {l : List Sub} {i : Nat} {st : SubSt} {x : Sub} (h : x ∈ setSt l i st) :
    x ∈ l ∨ ∃ y ∈ l, l[i]? = some y ∧ x = { y with st := st } := by
  induction l generalizing i with
  | nil => simp [setSt] at h
  | cons a r ih =>
    cases i with
    | zero =>
      simp [setSt] at h
      rcases h with rfl | h
      · exact Or.inr ⟨a, by simp, by simp, rfl⟩
      · exact Or.inl (by simp [h])
    | succ i =>
      simp [setSt] at h
      rcases h with rfl | h
      · exact Or.inl (by simp)
      · rcases ih h with h1 | ⟨y, hy, hi, rfl⟩
        · exact Or.inl (by simp [h1])
        · exact Or.inr ⟨y, by simp [hy], by simpa using hi, rfl⟩

theorem mem_boxEids {l : List Sub} {e : Nat} (h : e ∈ boxEids l) : ∃ sub ∈ l, ∃ d, sub.dst = .box d ∧ sub.eid = e := by
  unfold boxEids at h
  simp only [List.mem_filterMap] at h
  obtain ⟨sub, hs, hm⟩ := h
  cases hd : sub.dst with
  | box d => simp [hd] at hm; exact ⟨sub, hs, d, hd, hm⟩
  | sink k => simp [hd] at hm
  | dead k => simp [hd] at hm

theorem mkSubs_toPush (e : Nat) (op : Op) : ∀ sub ∈ mkSubs e op, sub.st = .toPush := by
  induction op generalizing e with
  | nil => simp [mkSubs]
  | cons x r ih =>
    obtain ⟨d, p, q⟩ := x
    intro sub hs
    simp [mkSubs] at hs
    rcases hs with rfl | hs
    · rfl
    · exact ih _ sub hs

theorem cinv_step (P : Prog) (l : Label) (s s' : St) (h : CInv s) (hs : step P l s = some s') : CInv s' := by
  obtain ⟨h1, h2, h3, h4⟩ := h
  unfold step at hs
  split at hs
  · simp at hs
  · cases l with
    | init m =>
      simp only at hs
      split at hs
      · simp only [Option.some.injEq] at hs; subst hs
        refine ⟨?_, h2, ?_, h4⟩
        · intro t e he
          by_cases ht : t = m
          · subst ht; simp at he; exact h1 t e he
          · simp [upd_other _ _ ht] at he; exact h1 t e he
        · intro t sub hsub
          by_cases ht : t = m
          · subst ht; simp at hsub; exact h3 t sub hsub
          · simp [upd_other _ _ ht] at hsub; exact h3 t sub hsub
      · simp at hs
    | spawn t0 ops =>
      simp only at hs
      split at hs
      · simp only [Option.some.injEq] at hs; subst hs
        refine ⟨?_, h2, ?_, h4⟩
        · intro t e he
          by_cases ht : t = t0
          · subst ht; simp at he; exact h1 t e he
          · simp [upd_other _ _ ht] at he; exact h1 t e he
        · intro t sub hsub
          by_cases ht : t = t0
          · subst ht; simp at hsub; exact h3 t sub hsub
          · simp [upd_other _ _ ht] at hsub; exact h3 t sub hsub
      · simp at hs
    | start t0 =>
      simp only at hs
      split at hs
      · rename_i op ops hph hcur hrest
        simp only [Option.some.injEq] at hs; subst hs
        refine ⟨?_, h2, ?_, h4⟩
        · intro t e he
          by_cases ht : t = t0
          · subst ht; simp at he; exact h1 t e he
          · simp [upd_other _ _ ht] at he; exact h1 t e he
        · intro t sub hsub
          by_cases ht : t = t0
          · subst ht
            simp at hsub
            intro d _ hne
            exact absurd (mkSubs_toPush _ _ sub hsub) hne
          · simp [upd_other _ _ ht] at hsub; exact h3 t sub hsub
      · simp at hs
    | push t0 i =>
      simp only at hs
      split at hs
      · rename_i sub hsub
        have hsubmem : sub ∈ (s.task t0).cur := List.mem_of_getElem? hsub
        split at hs
        · rename_i hst
          split at hs
          · -- sink
            simp only [Option.some.injEq] at hs; subst hs
            refine ⟨?_, h2, ?_, h4⟩
            · intro t e he
              by_cases ht : t = t0
              · subst ht; simp at he; exact h1 t e he
              · simp [upd_other _ _ ht] at he; exact h1 t e he
            · intro t x hx
              by_cases ht : t = t0
              · subst ht
                simp at hx
                rcases mem_setSt hx with hx | ⟨y, hy, hi, rfl⟩
                · exact h3 t x hx
                · rw [hsub] at hi; simp at hi; subst hi
                  intro d hd; rename_i k hk; simp [hk] at hd
              · simp [upd_other _ _ ht] at hx; exact h3 t x hx
          · -- dead
            simp only [Option.some.injEq] at hs; subst hs
            exact ⟨h1, h2, h3, h4⟩
          · rename_i d hd
            split at hs
            · simp only [Option.some.injEq] at hs; subst hs
              have hmono : ∀ e, e ∈ arrE s → e ∈ arrE { s with arrLog := s.arrLog ++ [(d, sub.eid)] } := by
                intro e he; simp [arrE] at he ⊢; exact Or.inl he
              refine ⟨?_, ?_, ?_, ?_⟩
              · intro t e he
                simp only [arrE, List.map_append, List.mem_append]
                left
                by_cases ht : t = t0
                · subst ht; simp at he; exact h1 t e he
                · simp [upd_other _ _ ht] at he; exact h1 t e he
              · intro m p hp e he
                simp only [arrE, List.map_append, List.mem_append, List.map_cons, List.map_nil, List.mem_singleton]
                by_cases hm : m = d
                · subst hm
                  simp at hp
                  rcases hp with hp | rfl
                  · left; exact h2 m p hp e he
                  · simp at he
                    rcases he with rfl | he
                    · right; rfl
                    · left; exact h1 t0 e he
                · simp [upd_other _ _ hm] at hp
                  left; exact h2 m p hp e he
              · intro t x hx
                by_cases ht : t = t0
                · subst ht
                  simp at hx
                  rcases mem_setSt hx with hx | ⟨y, hy, hi, rfl⟩
                  · intro d' hd' hne
                    simp only [arrE, List.map_append, List.mem_append]
                    left; exact h3 t x hx d' hd' hne
                  · rw [hsub] at hi; simp at hi; subst hi
                    intro d' _ _
                    simp [arrE]
                · simp [upd_other _ _ ht] at hx
                  intro d' hd' hne
                  simp only [arrE, List.map_append, List.mem_append]
                  left; exact h3 t x hx d' hd' hne
              · intro e' ps hmem e he
                simp only [List.mem_append, List.mem_singleton, Prod.mk.injEq] at hmem
                simp only [arrE, List.map_append, List.map_cons, List.map_nil]
                rcases hmem with hmem | ⟨rfl, rfl⟩
                · exact (h4 e' ps hmem e he).append _
                · exact BeforeL.snoc _ _ _ (h1 t0 e he)
            · simp at hs
        · simp at hs
      · simp at hs
    | deliver m =>
      simp only at hs
      split at hs
      · rename_i p ps hph hmb
        simp only [Option.some.injEq] at hs; subst hs
        have hp : p ∈ s.mbox m := by rw [hmb]; simp
        refine ⟨?_, ?_, ?_, h4⟩
        · intro t e he
          by_cases ht : t = m
          · subst ht
            simp at he
            rcases mem_pjoin.mp he with he | he
            · exact h2 t p hp e he
            · exact h1 t e he
          · simp [upd_other _ _ ht] at he; exact h1 t e he
        · intro m' q hq e he
          by_cases hm : m' = m
          · subst hm; simp at hq; exact h2 m' q (by rw [hmb]; simp [hq]) e he
          · simp [upd_other _ _ hm] at hq; exact h2 m' q hq e he
        · intro t x hx
          by_cases ht : t = m
          · subst ht; simp at hx; exact h3 t x hx
          · simp [upd_other _ _ ht] at hx; exact h3 t x hx
      · simp at hs
    | opDone t0 =>
      simp only at hs
      split at hs
      · rename_i hcond
        simp only [Option.some.injEq] at hs; subst hs
        refine ⟨?_, h2, ?_, h4⟩
        · intro t e he
          by_cases ht : t = t0
          · subst ht
            simp at he
            rcases mem_pjoin.mp he with he | he
            · obtain ⟨sub, hsub, d, hd, rfl⟩ := mem_boxEids he
              have hdone := (List.all_eq_true.mp hcond.2.2) sub hsub
              apply h3 t sub hsub d hd
              intro hst
              simp [Sub.done, hst] at hdone
            · exact h1 t e he
          · simp [upd_other _ _ ht] at he; exact h1 t e he
        · intro t x hx
          by_cases ht : t = t0
          · subst ht; simp at hx
          · simp [upd_other _ _ ht] at hx; exact h3 t x hx
      · simp at hs
    | finish t0 =>
      simp only at hs
      split at hs
      · split at hs
        · simp only [Option.some.injEq] at hs; subst hs
          refine ⟨?_, h2, ?_, h4⟩
          · intro t e he
            by_cases ht : t = t0
            · subst ht; simp at he; exact h1 t e he
            · simp [upd_other _ _ ht] at he; exact h1 t e he
          · intro t x hx
            by_cases ht : t = t0
            · subst ht; simp at hx; exact h3 t x hx
            · simp [upd_other _ _ ht] at hx; exact h3 t x hx
        · rename_i r e hserv
          simp only [Option.some.injEq] at hs; subst hs
          refine ⟨?_, h2, ?_, h4⟩
          · intro t e' he
            by_cases ht : t = t0
            · subst ht
              simp at he
              by_cases hr : t = r
              · subst hr
                simp at he
                rcases mem_pjoin.mp he with he | he
                · exact h1 t e' he
                · exact h1 t e' he
              · simp [upd_other _ _ hr] at he; exact h1 t e' he
            · simp [upd_other _ _ ht] at he
              by_cases hr : t = r
              · subst hr
                simp at he
                rcases mem_pjoin.mp he with he | he
                · exact h1 t0 e' he
                · exact h1 t e' he
              · simp [upd_other _ _ hr] at he; exact h1 t e' he
          · intro t x hx
            have key : ∀ y ∈ markReplied (s.task r).cur e (P.reply t0 (s.task t0).handling), SubArrived s y := by
              intro y hy
              unfold markReplied at hy
              simp only [List.mem_map] at hy
              obtain ⟨z, hz, rfl⟩ := hy
              split
              · rename_i hc
                intro d hd hne
                exact h3 r z hz d hd (by rw [hc.2]; simp)
              · exact h3 r z hz
            by_cases ht : t = t0
            · subst ht
              simp at hx
              by_cases hr : t = r
              · subst hr; simp at hx; exact key x hx
              · simp [upd_other _ _ hr] at hx; exact h3 t x hx
            · simp [upd_other _ _ ht] at hx
              by_cases hr : t = r
              · subst hr; simp at hx; exact key x hx
              · simp [upd_other _ _ hr] at hx; exact h3 t x hx
      · simp at hs

end NexoVerif.Net
