import NexoVerif.Lemmas.SchedStep
/-! Invariant preservation by the run phase, the whole step, `step_until`, `process_event` (M-SCHED). -/
namespace NexoVerif.Sched
set_option linter.unusedSimpArgs false
set_option linter.unusedVariables false

theorem runFire_inv (prog : Prog) (s : St) (e : Entry) (m : Nat) (h : Inv s) :
    Inv (runFire prog s e m) ∧ (runFire prog s e m).now = s.now := by
  unfold runFire
  split
  · exact ⟨⟨h.sorted, h.future, h.period, h.epoch⟩, rfl⟩
  · have h' : Inv { s with log := Obs.fire e.aid m e.time s.now :: s.log } := ⟨h.sorted, h.future, h.period, h.epoch⟩
    have := execH_inv _ (prog.handler e.aid m s.now) h'
    exact ⟨this.1, this.2⟩

theorem runSeq_inv (prog : Prog) (fs : List (Entry × Nat)) (s : St) (h : Inv s) :
    Inv (runSeq prog fs s) ∧ (runSeq prog fs s).now = s.now := by
  induction fs generalizing s with
  | nil => exact ⟨h, rfl⟩
  | cons f r ih =>
    obtain ⟨e, m⟩ := f
    have hm := runFire_inv prog s e m h
    have := ih _ hm.1
    exact ⟨this.1, by rw [runSeq, this.2, hm.2]⟩

theorem execExt_inv (s : St) (rs : List SchedReq) (h : Inv s) :
    Inv (execExt s rs) ∧ (execExt s rs).now = s.now ∧ (execExt s rs).tol = s.tol ∧
    (execExt s rs).terminated = s.terminated := by
  induction rs generalizing s with
  | nil => exact ⟨h, rfl, rfl, rfl⟩
  | cons r rs ih =>
    have h1 := sched_inv s r h
    have h2 := sched_now s r
    have h3 : (sched s r).1.tol = s.tol ∧ (sched s r).1.terminated = s.terminated := by
      unfold sched; split
      · exact ⟨rfl, rfl⟩
      · split <;> exact ⟨rfl, rfl⟩
    have := ih { (sched s r).1 with log := .ext r.aid ((sched s r).2 == .ok) :: (sched s r).1.log }
      ⟨h1.sorted, h1.future, h1.period, h1.epoch⟩
    simp only [execExt]
    exact ⟨this.1, by rw [this.2.1]; exact h2, by rw [this.2.2.1]; exact h3.1, by rw [this.2.2.2]; exact h3.2⟩

theorem doSync_inv (prog : Prog) (t : Nat) (s : St) (h : Inv s) :
    Inv (doSync prog t s).1 ∧ (doSync prog t s).1.now = s.now ∧ (doSync prog t s).1.tol = s.tol ∧
    (doSync prog t s).1.terminated = s.terminated := by
  unfold doSync
  exact execExt_inv _ _ ⟨h.sorted, h.future, h.period, h.epoch⟩

theorem doSync_inv_frame (prog : Prog) (t : Nat) (s : St) :
    (doSync prog t s).1.terminated = s.terminated ∧ (doSync prog t s).1.tol = s.tol := by
  unfold doSync
  generalize hs0 : ({ s with syncCalls := s.syncCalls + 1, log := Obs.sync t :: s.log } : St) = s0
  have h0 : s0.terminated = s.terminated ∧ s0.tol = s.tol := by subst hs0; exact ⟨rfl, rfl⟩
  generalize prog.ext s.syncCalls = rs
  clear hs0
  induction rs generalizing s0 with
  | nil => exact h0
  | cons r rs ih =>
    simp only [execExt]
    apply ih
    have : (sched s0 r).1.terminated = s0.terminated ∧ (sched s0 r).1.tol = s0.tol := by
      unfold sched; split
      · exact ⟨rfl, rfl⟩
      · split <;> exact ⟨rfl, rfl⟩
    exact ⟨this.1.trans h0.1, this.2.trans h0.2⟩

theorem all_future_of_head {t : Nat} {q : List Entry} (hs : Sorted q) (hge : ∀ e ∈ q, t ≤ e.time)
    (hh : ∀ e ∈ q.head?, e.time ≠ t) : ∀ e ∈ q, t < e.time := by
  intro e he
  cases q with
  | nil => simp at he
  | cons x xs =>
    have hx : t < x.time := by
      have := hge x (by simp); have := hh x (by simp); omega
    simp only [List.mem_cons] at he
    rcases he with rfl | he
    · exact hx
    · have := Entry.lt_time ((List.pairwise_cons.mp hs).1 e he); omega

theorem cnt_le_length (t : Nat) (q : List Entry) : cnt t q ≤ q.length := List.length_filter_le _ _

theorem writeTime_invW (s : St) (e : Entry) (es : List Entry) (h : Inv s) (hq : s.queue = e :: es) :
    InvW e.time (writeTime e.time s) := by
  refine ⟨h.sorted, ?_, h.period, h.epoch⟩
  intro x hx
  have hx' : x ∈ s.queue := hx
  rw [hq] at hx'
  simp only [List.mem_cons] at hx'
  rcases hx' with rfl | hx'
  · exact Nat.le_refl _
  · have := h.sorted; rw [hq] at this
    exact Entry.lt_time ((List.pairwise_cons.mp this).1 x hx')

/-- the final jump of `step_until`, made under the lock: nothing pending is at or before the bound -/
theorem jump_inv (s : St) (b : Nat) (h : Inv s) (hb : s.now ≤ b)
    (hhead : ∀ e ∈ s.queue.head?, b < e.time) : Inv (writeTime b s) := by
  refine ⟨h.sorted, ?_, h.period, h.epoch⟩
  intro e he
  have he' : e ∈ s.queue := he
  show b < e.time
  cases hq : s.queue with
  | nil => rw [hq] at he'; simp at he'
  | cons x xs =>
    have hx := hhead x (by rw [hq]; simp)
    rw [hq] at he'
    simp only [List.mem_cons] at he'
    rcases he' with rfl | he'
    · exact hx
    · have := h.sorted; rw [hq] at this
      have := Entry.lt_time ((List.pairwise_cons.mp this).1 e he'); omega

/-- The locked phase re-establishes the full invariant at the new time; time does not decrease. -/
theorem lockedPhase_inv (bound : Option Nat) (jump : Bool) (s : St) (h : Inv s)
    (hb : ∀ b, bound = some b → s.now ≤ b) :
    Inv (lockedPhase bound jump s).1 ∧ s.now ≤ (lockedPhase bound jump s).1.now ∧
    (match (lockedPhase bound jump s).2 with
     | none => (∀ b, jump = true → bound = some b → (lockedPhase bound jump s).1.now = b) ∧
               (jump = false → (lockedPhase bound jump s).1.now = s.now)
     | some (t, _) => (lockedPhase bound jump s).1.now = t ∧ s.now < t ∧ within t bound = true) := by
  unfold lockedPhase
  have hd := discard_inv bound s h
  have hnow := (discard_spec bound s).2.1
  simp only
  split
  · rename_i hq
    cases jump <;> cases bound with
    | none => simp; exact ⟨hd, by omega⟩
    | some b =>
      first
      | (simp; exact ⟨hd, by omega, by omega⟩)
      | (simp
         have := hb b rfl
         refine ⟨jump_inv _ b hd (by omega) (by rw [hq]; simp), ?_, ?_⟩
         · simp [writeTime]; omega
         · simp [writeTime])
  · rename_i e es hq
    split
    · rename_i hw
      cases jump <;> cases bound with
      | none => simp [within] at hw
      | some b =>
        first
        | (simp; exact ⟨hd, by omega, by omega⟩)
        | (simp
           have := hb b rfl
           simp [within] at hw
           refine ⟨jump_inv _ b hd (by omega) (by rw [hq]; simpa using hw), ?_, ?_⟩
           · simp [writeTime]; omega
           · simp [writeTime])
    · rename_i hw
      have het : s.now < e.time := by
        have := hd.future e (by rw [hq]; simp); rw [hnow] at this; exact this
      have hW := writeTime_invW _ e es hd hq
      have hpa := pullAll_invW bound e.time (writeTime e.time (discardCancelled bound s)).queue.length _ [] hW
      have hdone := pullAll_done bound e.time (writeTime e.time (discardCancelled bound s)).queue.length _ [] hW
        (cnt_le_length _ _)
      have hwn : (writeTime e.time (discardCancelled bound s)).now = e.time := rfl
      refine ⟨⟨hpa.1.sorted, ?_, hpa.1.period, hpa.1.epoch⟩, ?_, ?_, het, by simpa using hw⟩
      · rw [hpa.2, hwn]
        exact all_future_of_head hpa.1.sorted hpa.1.future hdone
      · rw [hpa.2, hwn]; omega
      · rw [hpa.2, hwn]

theorem afterLock_inv (prog : Prog) (ord : Oracle) (t : Nat) (gs : List (List Entry)) (s : St) (h : Inv s) :
    Inv (afterLock prog ord t gs s).1 ∧ (afterLock prog ord t gs s).1.now = s.now := by
  unfold afterLock
  have hsync : Inv (doSync prog t s).1 ∧ (doSync prog t s).1.now = s.now :=
    ⟨(doSync_inv prog t s h).1, (doSync_inv prog t s h).2.1⟩
  simp only
  split
  · split
    · exact ⟨⟨hsync.1.sorted, hsync.1.future, hsync.1.period, hsync.1.epoch⟩, hsync.2⟩
    · have := runSeq_inv prog (ord gs) _ hsync.1
      exact ⟨this.1, by rw [this.2, hsync.2]⟩
  · have := runSeq_inv prog (ord gs) _ hsync.1
    exact ⟨this.1, by rw [this.2, hsync.2]⟩

theorem afterLock_some (prog : Prog) (ord : Oracle) (t : Nat) (gs : List (List Entry)) (s : St) (t' : Nat)
    (h : (afterLock prog ord t gs s).2.2 = some t') : t' = t := by
  unfold afterLock at h
  simp only at h
  split at h
  · split at h <;> simp at h
    exact h.symm
  · simp at h; exact h.symm

/-- C01 core: the invariant (every pending deadline strictly in the future) survives a step, and
time never decreases. -/
theorem stepNext_inv (prog : Prog) (ord : Oracle) (bound : Option Nat) (jump : Bool) (s : St) (h : Inv s)
    (hb : ∀ b, bound = some b → s.now ≤ b) :
    Inv (stepNext prog ord bound jump s).1 ∧ s.now ≤ (stepNext prog ord bound jump s).1.now ∧
    (∀ b, bound = some b → (stepNext prog ord bound jump s).1.now ≤ b) ∧
    (∀ t, (stepNext prog ord bound jump s).2.2 = some t → (stepNext prog ord bound jump s).1.now = t ∧ s.now < t) := by
  unfold stepNext
  split
  · exact ⟨h, Nat.le_refl _, hb, by simp⟩
  · have hl := lockedPhase_inv bound jump s h hb
    generalize lockedPhase bound jump s = r at hl
    obtain ⟨s1, o⟩ := r
    cases o with
    | none =>
      simp only at hl ⊢
      refine ⟨hl.1, hl.2.1, ?_, by simp⟩
      intro b hbb
      cases jump with
      | true => rw [hl.2.2.1 b rfl hbb]; exact Nat.le_refl _
      | false => rw [hl.2.2.2 rfl]; exact hb b hbb
    | some tg =>
      obtain ⟨t, gs⟩ := tg
      simp only at hl ⊢
      have := afterLock_inv prog ord t gs s1 hl.1
      refine ⟨this.1, by rw [this.2, hl.2.2.1]; omega, ?_, ?_⟩
      · intro b hbb
        rw [this.2, hl.2.2.1]
        have := hl.2.2.2.2; rw [hbb] at this; simpa [within] using this
      · intro t' ht'
        have := afterLock_some prog ord t gs s1 t' ht'
        subst this
        exact ⟨by rw [this.2, hl.2.2.1], hl.2.2.2.1⟩

/-- C11 latch on the stepping path: a terminated simulation is not touched. -/
theorem stepNext_terminated (prog : Prog) (ord : Oracle) (bound : Option Nat) (jump : Bool) (s : St)
    (h : s.terminated = true) : stepNext prog ord bound jump s = (s, .terminated, none) := by
  unfold stepNext; simp [h]

end NexoVerif.Sched
