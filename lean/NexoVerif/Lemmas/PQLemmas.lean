import NexoVerif.Model.PQ
/-! Helper lemmas for C20 (M-PQ). -/
namespace NexoVerif.PQ
set_option linter.unusedSimpArgs false
set_option linter.unusedVariables false

/-- strict lexicographic order on (key, epoch) -/
def lexLt (a b : Item) : Prop := a.key < b.key ∨ (a.key = b.key ∧ a.epoch < b.epoch)

theorem lexLe_iff (a b : Item) : a.lexLe b = true ↔ (a.key < b.key ∨ (a.key = b.key ∧ a.epoch ≤ b.epoch)) := by
  simp [Item.lexLe]

theorem geHeap_iff_lexLe (a b : Item) : a.geHeap b = a.lexLe b := by
  rw [Bool.eq_iff_iff]
  unfold Item.geHeap Item.cmp Item.lexLe
  cases h1 : compare a.key b.key <;> cases h2 : compare a.epoch b.epoch <;>
    simp only [Nat.compare_eq_lt, Nat.compare_eq_eq, Nat.compare_eq_gt] at h1 h2 <;>
    simp [Ordering.then, Ordering.swap] <;> omega

theorem lexLe_total (a b : Item) : a.lexLe b = true ∨ b.lexLe a = true := by
  simp [lexLe_iff]; omega

theorem lexLe_trans (a b c : Item) (h1 : a.lexLe b = true) (h2 : b.lexLe c = true) : a.lexLe c = true := by
  simp [lexLe_iff] at *; omega

theorem maxItem_none (l : List Item) : maxItem l = none ↔ l = [] := by
  cases l with
  | nil => simp [maxItem]
  | cons a r =>
    simp [maxItem]
    cases h : maxItem r <;> simp
    split <;> simp

theorem maxItem_spec : ∀ (l : List Item) (m : Item), maxItem l = some m →
    m ∈ l ∧ ∀ x ∈ l, m.lexLe x = true
  | [], m, h => by simp [maxItem] at h
  | a :: l, m, h => by
    unfold maxItem at h
    cases hm : maxItem l with
    | none =>
      simp [hm] at h
      subst h
      have : l = [] := (maxItem_none l).mp hm
      subst this
      simp [lexLe_iff]
    | some m' =>
      simp [hm] at h
      have ih := maxItem_spec l m' hm
      by_cases hg : a.geHeap m' = true
      · simp [hg] at h; subst h
        rw [geHeap_iff_lexLe] at hg
        refine ⟨by simp, ?_⟩
        intro x hx
        simp at hx
        rcases hx with rfl | hx
        · simp [lexLe_iff]
        · exact lexLe_trans _ _ _ hg (ih.2 x hx)
      · simp [hg] at h; subst h
        rw [geHeap_iff_lexLe] at hg
        refine ⟨by simp [ih.1], ?_⟩
        intro x hx
        simp at hx
        rcases hx with rfl | hx
        · exact (lexLe_total _ _).resolve_right hg
        · exact ih.2 x hx

/-! stable insertion keeps the list sorted by (key, epoch) when epochs arrive in increasing order -/

theorem insStable_perm (l : List Item) (x : Item) : (insStable l x).Perm (x :: l) := by
  induction l with
  | nil => simp [insStable]
  | cons a r ih =>
    unfold insStable
    split
    · exact (List.Perm.cons a ih).trans (List.Perm.swap x a r)
    · exact List.Perm.refl _

theorem insStable_sorted (l : List Item) (x : Item) (hs : l.Pairwise lexLt)
    (he : ∀ y ∈ l, y.epoch < x.epoch) : (insStable l x).Pairwise lexLt := by
  induction l with
  | nil => simp [insStable]
  | cons a r ih =>
    unfold insStable
    have hs' := List.pairwise_cons.mp hs
    split
    · rename_i hk
      refine List.pairwise_cons.mpr ⟨?_, ih hs'.2 (fun y hy => he y (by simp [hy]))⟩
      intro y hy
      have := (insStable_perm r x).subset hy
      simp at this
      rcases this with rfl | hy
      · have := he a (by simp)
        unfold lexLt; omega
      · exact hs'.1 y hy
    · rename_i hk
      refine List.pairwise_cons.mpr ⟨?_, hs⟩
      intro y hy
      simp at hy
      rcases hy with rfl | hy
      · unfold lexLt; omega
      · have := hs'.1 y hy
        unfold lexLt at *; omega

def epochsInc (l : List Item) : Prop := l.Pairwise (fun a b => a.epoch < b.epoch)

theorem foldl_insStable (l acc : List Item) (hacc : acc.Pairwise lexLt) (hl : epochsInc l)
    (hlt : ∀ a ∈ acc, ∀ b ∈ l, a.epoch < b.epoch) :
    (l.foldl insStable acc).Pairwise lexLt ∧ (l.foldl insStable acc).Perm (acc ++ l) := by
  induction l generalizing acc with
  | nil => simp [hacc]
  | cons x r ih =>
    simp only [List.foldl_cons]
    have hl' := List.pairwise_cons.mp hl
    have h1 := insStable_sorted acc x hacc (fun y hy => hlt y hy x (by simp))
    have hp := insStable_perm acc x
    have := ih (insStable acc x) h1 hl'.2 (by
      intro a ha b hb
      have := hp.subset ha
      simp at this
      rcases this with rfl | ha'
      · exact hl'.1 b hb
      · exact hlt a ha' b (by simp [hb]))
    refine ⟨this.1, this.2.trans ?_⟩
    have : (insStable acc x ++ r).Perm ((x :: acc) ++ r) := List.Perm.append_right r hp
    refine this.trans ?_
    simp
    exact (List.perm_middle (l₁ := acc) (a := x) (l₂ := r)).symm

theorem sortedOf_spec (l : List Item) (hl : epochsInc l) :
    (sortedOf l).Pairwise lexLt ∧ (sortedOf l).Perm l := by
  have := foldl_insStable l [] (by simp) hl (by simp)
  simpa [sortedOf] using this

theorem lexLt_antisymm (a b : Item) (h1 : lexLt a b) (h2 : lexLt b a) : a = b := by
  unfold lexLt at *; omega



def PQ.Inv (q : PQ) : Prop := epochsInc q.heap ∧ ∀ x ∈ q.heap, x.epoch < q.nextEpoch

theorem pq_inv_new : PQ.new.Inv := by simp [PQ.Inv, PQ.new, epochsInc]

theorem pq_inv_insert (q : PQ) (k v : Nat) (h : q.Inv) : (q.insert k v).Inv := by
  obtain ⟨h1, h2⟩ := h
  refine ⟨?_, ?_⟩
  · simp only [PQ.insert, epochsInc]
    rw [List.pairwise_append]
    refine ⟨h1, by simp, ?_⟩
    intro a ha b hb
    simp at hb; subst hb
    exact h2 a ha
  · intro x hx
    simp [PQ.insert] at hx ⊢
    rcases hx with hx | rfl
    · have := h2 x hx; omega
    · simp

theorem pq_inv_pull (q : PQ) (h : q.Inv) : (q.pull).1.Inv := by
  unfold PQ.pull
  split
  · exact h
  · rename_i m hm
    obtain ⟨h1, h2⟩ := h
    exact ⟨List.Pairwise.sublist List.erase_sublist h1, fun x hx => h2 x (List.mem_of_mem_erase hx)⟩

theorem pull_refines_aux (l : List Item) (m : Item) (hl : epochsInc l) (hm : maxItem l = some m) :
    sortedOf l = m :: sortedOf (l.erase m) := by
  obtain ⟨hmem, hmin⟩ := maxItem_spec l m hm
  obtain ⟨hs, hp⟩ := sortedOf_spec l hl
  have hl' : epochsInc (l.erase m) := List.Pairwise.sublist List.erase_sublist hl
  obtain ⟨hs', hp'⟩ := sortedOf_spec (l.erase m) hl'
  cases hS : sortedOf l with
  | nil =>
    rw [hS] at hp
    have := hp.symm.subset hmem
    simp at this
  | cons h t =>
    rw [hS] at hs hp
    have hsc := List.pairwise_cons.mp hs
    have hmS : m ∈ h :: t := hp.symm.subset hmem
    have hh : h = m := by
      simp at hmS
      rcases hmS with rfl | hmt
      · rfl
      · have h1 := hsc.1 m hmt
        have h2 := hmin h (hp.subset (by simp))
        rw [lexLe_iff] at h2
        unfold lexLt at h1
        exfalso; omega
    subst hh
    congr 1
    have hpt : t.Perm (l.erase h) := by
      have : (h :: t).Perm (h :: l.erase h) := hp.trans (List.perm_cons_erase hmem)
      exact List.Perm.cons_inv this
    exact List.Perm.eq_of_pairwise (le := lexLt)
      (fun a b _ _ h1 h2 => lexLt_antisymm a b h1 h2) hsc.2 hs' (hpt.trans hp'.symm)

/-! IPQ -/
theorem minUsed_spec : ∀ (slab : List Node) (off j : Nat) (m : Item), minUsed slab off = some (j, m) →
    off ≤ j ∧ slab[j - off]? = some (.used m) ∧ ∀ (i : Nat) (it : Item), slab[i]? = some (Node.used it) → m.lexLe it = true
  | [], off, j, m, h => by simp [minUsed] at h
  | .free nx :: r, off, j, m, h => by
    simp only [minUsed] at h
    obtain ⟨h1, h2, h3⟩ := minUsed_spec r (off + 1) j m h
    refine ⟨by omega, ?_, ?_⟩
    · have : j - off = (j - (off + 1)) + 1 := by omega
      rw [this]; simpa using h2
    · intro i it hi
      cases i with
      | zero => simp at hi
      | succ i => exact h3 i it (by simpa using hi)
  | .used a :: r, off, j, m, h => by
    simp only [minUsed] at h
    cases hr : minUsed r (off + 1) with
    | none =>
      simp [hr] at h
      obtain ⟨rfl, rfl⟩ := h
      refine ⟨by omega, by simp, ?_⟩
      intro i it hi
      cases i with
      | zero => simp at hi; subst hi; simp [lexLe_iff]
      | succ i =>
        exfalso
        -- r has no used node
        have : ∀ (r : List Node) (o : Nat), minUsed r o = none → ∀ (i : Nat) (it : Item), r[i]? ≠ some (Node.used it) := by
          intro r
          induction r with
          | nil => intro o _ i it; simp
          | cons n r ih =>
            intro o hn i it
            cases n with
            | free nx =>
              simp only [minUsed] at hn
              cases i with
              | zero => simp
              | succ i => simpa using ih (o + 1) hn i it
            | used b =>
              simp only [minUsed] at hn
              cases h2 : minUsed r (o + 1) <;> simp [h2] at hn
              split at hn <;> simp at hn
        exact this r (off + 1) hr i it (by simpa using hi)
    | some p =>
      obtain ⟨j', m'⟩ := p
      simp [hr] at h
      obtain ⟨h1, h2, h3⟩ := minUsed_spec r (off + 1) j' m' hr
      by_cases hle : a.lexLe m' = true
      · simp [hle] at h
        obtain ⟨rfl, rfl⟩ := h
        refine ⟨by omega, by simp, ?_⟩
        intro i it hi
        cases i with
        | zero => simp at hi; subst hi; simp [lexLe_iff]
        | succ i => exact lexLe_trans _ _ _ hle (h3 i it (by simpa using hi))
      · simp [hle] at h
        obtain ⟨rfl, rfl⟩ := h
        refine ⟨by omega, ?_, ?_⟩
        · have : j' - off = (j' - (off + 1)) + 1 := by omega
          rw [this]; simpa using h2
        · intro i it hi
          cases i with
          | zero =>
            simp at hi; subst hi
            exact (lexLe_total _ _).resolve_right hle
          | succ i => exact h3 i it (by simpa using hi)



/-- Ownership invariant of an issued key `(i, e)` for the entry `(k, v)`: the epoch is spent, and any
used node carrying epoch `e` sits in slot `i` and is exactly that entry. -/
def Owns (q : IPQ) (i e k v : Nat) : Prop :=
  e < q.nextEpoch ∧ ∀ (j : Nat) (it : Item), q.slab[j]? = some (Node.used it) → it.epoch = e →
    j = i ∧ it = { key := k, epoch := e, val := v }

theorem getElem?_set_used {slab : List Node} {i j : Nat} {n : Node} {it : Item}
    (h : (slab.set i n)[j]? = some (Node.used it)) :
    (j = i ∧ n = Node.used it) ∨ (j ≠ i ∧ slab[j]? = some (Node.used it)) := by
  rw [List.getElem?_set] at h
  split at h
  · rename_i hij
    split at h
    · left; simp at h; exact ⟨hij.symm, h⟩
    · simp at h
  · rename_i hij; right; exact ⟨fun hh => hij hh.symm, h⟩

theorem owns_insert (q : IPQ) (i e k v k' v' : Nat) (h : Owns q i e k v) : Owns (q.insert k' v').1 i e k v := by
  obtain ⟨h1, h2⟩ := h
  unfold IPQ.insert
  cases hff : q.firstFree with
  | none =>
    simp only [hff]
    refine ⟨by simp; omega, ?_⟩
    intro j it hj he
    simp only at hj
    rw [List.getElem?_append] at hj
    split at hj
    · exact h2 j it hj he
    · rename_i hlt
      have : j - q.slab.length = 0 ∨ j - q.slab.length ≠ 0 := by omega
      rcases this with h0 | h0
      · simp [h0] at hj; subst hj; simp at he; omega
      · have : ([Node.used { key := k', epoch := q.nextEpoch, val := v' }] : List Node)[j - q.slab.length]? = none := by
          simp; omega
        rw [this] at hj; simp at hj
  | some idx =>
    simp only [hff]
    cases hs : q.slab[idx]? with
    | none => simp [hs]; exact ⟨h1, h2⟩
    | some n =>
      cases n with
      | used b => simp [hs]; exact ⟨h1, h2⟩
      | free nx =>
        simp only [hs]
        refine ⟨by simp; omega, ?_⟩
        intro j it hj he
        rcases getElem?_set_used hj with ⟨_, hn⟩ | ⟨_, hj'⟩
        · simp at hn; subst hn; simp at he; omega
        · exact h2 j it hj' he

theorem owns_pull (q : IPQ) (i e k v : Nat) (h : Owns q i e k v) : Owns q.pull.1 i e k v := by
  obtain ⟨h1, h2⟩ := h
  unfold IPQ.pull
  split
  · exact ⟨h1, h2⟩
  · refine ⟨h1, ?_⟩
    intro j it hj he
    rcases getElem?_set_used hj with ⟨_, hn⟩ | ⟨_, hj'⟩
    · simp at hn
    · exact h2 j it hj' he

theorem owns_extract (q : IPQ) (i e k v i' e' : Nat) (h : Owns q i e k v) : Owns (q.extract i' e').1 i e k v := by
  obtain ⟨h1, h2⟩ := h
  unfold IPQ.extract
  split
  · split
    · exact ⟨h1, h2⟩
    · refine ⟨h1, ?_⟩
      intro j it hj he
      rcases getElem?_set_used hj with ⟨_, hn⟩ | ⟨_, hj'⟩
      · simp at hn
      · exact h2 j it hj' he
  · exact ⟨h1, h2⟩

theorem owns_runOps (q : IPQ) (ops : List IOp) (i e k v : Nat) (h : Owns q i e k v) :
    Owns (q.runOps ops) i e k v := by
  induction ops generalizing q with
  | nil => exact h
  | cons op ops ih =>
    simp only [IPQ.runOps, List.foldl_cons]
    apply ih
    cases op with
    | ins k' v' => exact owns_insert q i e k v k' v' h
    | pull => exact owns_pull q i e k v h
    | ext i' e' => exact owns_extract q i e k v i' e' h

/-- all used epochs are below nextEpoch -/
def EpochsBelow (q : IPQ) : Prop := ∀ (j : Nat) (it : Item), q.slab[j]? = some (Node.used it) → it.epoch < q.nextEpoch

theorem owns_after_insert (q : IPQ) (k v : Nat) (hb : EpochsBelow q) (hne : (q.insert k v).1.err = false) :
    Owns (q.insert k v).1 (q.insert k v).2.1 (q.insert k v).2.2 k v := by
  unfold IPQ.insert at *
  cases hff : q.firstFree with
  | none =>
    simp only [hff]
    refine ⟨by simp, ?_⟩
    intro j it hj he
    simp only at hj
    rw [List.getElem?_append] at hj
    split at hj
    · have := hb j it hj; omega
    · rename_i hlt
      have : j - q.slab.length = 0 ∨ j - q.slab.length ≠ 0 := by omega
      rcases this with h0 | h0
      · simp [h0] at hj; subst hj; exact ⟨by omega, rfl⟩
      · have : ([Node.used { key := k, epoch := q.nextEpoch, val := v }] : List Node)[j - q.slab.length]? = none := by
          simp; omega
        rw [this] at hj; simp at hj
  | some idx =>
    simp only [hff] at hne ⊢
    cases hs : q.slab[idx]? with
    | none => simp [hs] at hne
    | some n =>
      cases n with
      | used b => simp [hs] at hne
      | free nx =>
        simp only [hs]
        refine ⟨by simp, ?_⟩
        intro j it hj he
        rcases getElem?_set_used hj with ⟨hji, hn⟩ | ⟨_, hj'⟩
        · simp at hn; subst hn; exact ⟨hji, rfl⟩
        · have := hb j it hj'; omega

theorem epochsBelow_step (q : IPQ) (op : IOp) (hb : EpochsBelow q) : EpochsBelow (q.stepOp op) := by
  cases op with
  | ins k v =>
    simp only [IPQ.stepOp]
    unfold IPQ.insert
    cases hff : q.firstFree with
    | none =>
      simp only [hff]
      intro j it hj
      simp only at hj ⊢
      rw [List.getElem?_append] at hj
      split at hj
      · have := hb j it hj; omega
      · have : j - q.slab.length = 0 ∨ j - q.slab.length ≠ 0 := by omega
        rcases this with h0 | h0
        · simp [h0] at hj; subst hj; simp
        · have : ([Node.used { key := k, epoch := q.nextEpoch, val := v }] : List Node)[j - q.slab.length]? = none := by
            simp; omega
          rw [this] at hj; simp at hj
    | some idx =>
      simp only [hff]
      cases hs : q.slab[idx]? with
      | none => simp only [hs]; exact hb
      | some n =>
        cases n with
        | used b => simp only [hs]; exact hb
        | free nx =>
          simp only [hs]
          intro j it hj
          rcases getElem?_set_used hj with ⟨_, hn⟩ | ⟨_, hj'⟩
          · simp at hn; subst hn; simp
          · have := hb j it hj'; simp; omega
  | pull =>
    simp only [IPQ.stepOp]
    unfold IPQ.pull
    split
    · exact hb
    · intro j it hj
      rcases getElem?_set_used hj with ⟨_, hn⟩ | ⟨_, hj'⟩
      · simp at hn
      · exact hb j it hj'
  | ext i e =>
    simp only [IPQ.stepOp]
    unfold IPQ.extract
    split
    · split
      · exact hb
      · intro j it hj
        rcases getElem?_set_used hj with ⟨_, hn⟩ | ⟨_, hj'⟩
        · simp at hn
        · exact hb j it hj'
    · exact hb


end NexoVerif.PQ
