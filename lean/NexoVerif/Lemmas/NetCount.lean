import NexoVerif.Lemmas.NetFresh
/-! The message counter equals the number of queued messages; sent ⊇ arrived ⊇ handled (M-NET). -/
namespace NexoVerif.Net
set_option linter.unusedSimpArgs false
set_option linter.unusedVariables false

theorem sum_map_zero {α} (l : List α) (f : α → Nat) (h : ∀ x ∈ l, f x = 0) : (l.map f).sum = 0 := by
  induction l with
  | nil => simp
  | cons a r ih =>
    simp only [List.map_cons, List.sum_cons]
    rw [h a (by simp), ih (fun x hx => h x (by simp [hx]))]

theorem sum_map_add {α} (l : List α) (f g : α → Nat) : (l.map (fun m => f m + g m)).sum = (l.map f).sum + (l.map g).sum := by
  induction l with
  | nil => simp
  | cons b bs ihb => simp only [List.map_cons, List.sum_cons, ihb]; omega

theorem sum_indicator (boxes : List Nat) (a : Nat) (hn : boxes.Nodup) (ha : a ∈ boxes) :
    (boxes.map (fun m => if a = m then 1 else 0)).sum = 1 := by
  induction boxes with
  | nil => simp at ha
  | cons b r ih =>
    simp only [List.nodup_cons] at hn
    simp only [List.map_cons, List.sum_cons]
    by_cases hab : a = b
    · subst hab
      have : (r.map (fun m => if a = m then 1 else 0)).sum = 0 := by
        apply sum_map_zero
        intro m hm
        have : a ≠ m := fun h => hn.1 (h ▸ hm)
        simp [this]
      rw [this]; simp
    · have har : a ∈ r := by
        simp at ha; rcases ha with h | h
        · exact absurd h hab
        · exact h
      rw [ih hn.2 har]; simp [hab]

theorem sum_filter_len (l : List (Nat × Nat)) (boxes : List Nat) (hn : boxes.Nodup) (hc : ∀ x ∈ l, x.1 ∈ boxes) :
    (boxes.map (fun m => (l.filter (fun x => x.1 == m)).length)).sum = l.length := by
  induction l with
  | nil => simp only [List.filter_nil, List.length_nil]; exact sum_map_zero _ _ (fun _ _ => rfl)
  | cons x r ih =>
    have hr : ∀ y ∈ r, y.1 ∈ boxes := fun y hy => hc y (by simp [hy])
    have hx : x.1 ∈ boxes := hc x (by simp)
    have e : ∀ m, ((x :: r).filter (fun y => y.1 == m)).length
        = (if x.1 = m then 1 else 0) + (r.filter (fun y => y.1 == m)).length := by
      intro m
      by_cases h : x.1 = m <;> simp [List.filter_cons, h] <;> omega
    simp only [e]
    rw [sum_map_add, ih hr, sum_indicator boxes x.1 hn hx]
    simp; omega

/-- handled events of a mailbox form a prefix of its arrivals -/
theorem handled_prefix {s : St} (h : Inv s) (m : Nat) : handledBy s m <+: arrivals s m :=
  ⟨(s.mbox m).map (·.eid), (h.fifo m).symm⟩

theorem mem_handledBy {s : St} {m e : Nat} : e ∈ handledBy s m ↔ (m, e) ∈ s.handled := by
  unfold handledBy
  simp only [List.mem_map, List.mem_filter, beq_iff_eq]
  constructor
  · rintro ⟨⟨a, b⟩, ⟨h1, h2⟩, h3⟩; simp at h2 h3; subst h2; subst h3; exact h1
  · intro h; exact ⟨(m, e), ⟨h, rfl⟩, rfl⟩

theorem mem_arrivals {s : St} {m e : Nat} : e ∈ arrivals s m ↔ (m, e) ∈ s.arrLog := by
  unfold arrivals
  simp only [List.mem_map, List.mem_filter, beq_iff_eq]
  constructor
  · rintro ⟨⟨a, b⟩, ⟨h1, h2⟩, h3⟩; simp at h2 h3; subst h2; subst h3; exact h1
  · intro h; exact ⟨(m, e), ⟨h, rfl⟩, rfl⟩

theorem handled_arrived {s : St} (h : Inv s) {m e : Nat} (hh : (m, e) ∈ s.handled) : (m, e) ∈ s.arrLog :=
  mem_arrivals.mp ((handled_prefix h m).subset (mem_handledBy.mpr hh))

/-- the counter is the total number of messages sitting in mailboxes -/
theorem count_eq_queued {s : St} (h : Inv s) (boxes : List Nat) (hn : boxes.Nodup)
    (hc : ∀ x ∈ s.arrLog, x.1 ∈ boxes) :
    s.count = ((boxes.map (fun m => (s.mbox m).length)).sum : Nat) := by
  have hch : ∀ x ∈ s.handled, x.1 ∈ boxes := by
    intro x hx
    exact hc x (handled_arrived h (by cases x; exact hx))
  have e1 := sum_filter_len s.arrLog boxes hn hc
  have e2 := sum_filter_len s.handled boxes hn hch
  have e3 : ∀ m, (s.arrLog.filter (fun x => x.1 == m)).length
      = (s.handled.filter (fun x => x.1 == m)).length + (s.mbox m).length := by
    intro m
    have := congrArg List.length (h.fifo m)
    simpa [arrivals, handledBy] using this
  have e4 : (boxes.map (fun m => (s.arrLog.filter (fun x => x.1 == m)).length)).sum
      = (boxes.map (fun m => (s.handled.filter (fun x => x.1 == m)).length)).sum
        + (boxes.map (fun m => (s.mbox m).length)).sum := by
    simp only [e3]
    exact sum_map_add _ _ _
  have := h.count
  omega

def dedupNat : List Nat → List Nat
  | [] => []
  | a :: r => if a ∈ dedupNat r then dedupNat r else a :: dedupNat r

theorem mem_dedupNat {l : List Nat} {a : Nat} : a ∈ dedupNat l ↔ a ∈ l := by
  induction l with
  | nil => simp [dedupNat]
  | cons b r ih =>
    simp only [dedupNat]
    split
    · rename_i hb
      simp only [List.mem_cons, ih]
      constructor
      · intro h; exact Or.inr h
      · rintro (rfl | h)
        · exact ih.mp hb
        · exact h
    · simp only [List.mem_cons, ih]

theorem nodup_dedupNat (l : List Nat) : (dedupNat l).Nodup := by
  induction l with
  | nil => simp [dedupNat]
  | cons b r ih =>
    simp only [dedupNat]
    split
    · exact ih
    · rename_i hb; exact List.nodup_cons.mpr ⟨hb, ih⟩

theorem sum_zero_all {α} (bs : List α) (f : α → Nat) (hz : (bs.map f).sum = 0) : ∀ b ∈ bs, f b = 0 := by
  induction bs with
  | nil => simp
  | cons b r ih =>
    intro x hx
    simp only [List.map_cons, List.sum_cons] at hz
    simp at hx
    rcases hx with rfl | hx
    · omega
    · exact ih (by omega) x hx

/-- a mailbox that never received anything is empty -/
theorem never_arrived_empty {s : St} (h : Inv s) (m : Nat) (hm : ∀ x ∈ s.arrLog, x.1 ≠ m) : s.mbox m = [] := by
  have ha : arrivals s m = [] := by
    unfold arrivals
    simp only [List.map_eq_nil_iff, List.filter_eq_nil_iff, beq_iff_eq]
    intro x hx hxm; exact hm x hx hxm
  have := h.fifo m
  rw [ha] at this
  have h2 := congrArg List.length this
  simp at h2
  exact List.eq_nil_of_length_eq_zero (by omega)

/-- the counter is zero exactly when every mailbox is empty -/
theorem count_zero_iff {s : St} (h : Inv s) : s.count = 0 ↔ ∀ m, s.mbox m = [] := by
  have hc := count_eq_queued h (dedupNat (s.arrLog.map (·.1))) (nodup_dedupNat _)
    (by intro x hx; rw [mem_dedupNat]; simp; exact ⟨x.2, hx⟩)
  constructor
  · intro h0 m
    rw [h0] at hc
    have hz : ((dedupNat (s.arrLog.map (·.1))).map (fun m => (s.mbox m).length)).sum = 0 := by omega
    by_cases hm : m ∈ s.arrLog.map (·.1)
    · exact List.eq_nil_of_length_eq_zero (sum_zero_all _ _ hz m (mem_dedupNat.mpr hm))
    · apply never_arrived_empty h m
      intro x hx hxm; exact hm (by simp; exact ⟨x.2, hxm ▸ hx⟩)
  · intro hall
    rw [hc]
    have : ((dedupNat (s.arrLog.map (·.1))).map (fun m => (s.mbox m).length)).sum = 0 :=
      sum_map_zero _ _ (fun m _ => by simp [hall m])
    omega

/-! ### everything that arrived was sent there -/

structure SInv (s : St) : Prop where
  cur : ∀ t sub, sub ∈ (s.task t).cur → (sub.dst, sub.eid) ∈ s.sent
  arr : ∀ d e, (d, e) ∈ s.arrLog → (Dst.box d, e) ∈ s.sent

theorem sinv_init : SInv St.init := by constructor <;> simp [St.init]

theorem setSt_dst {l : List Sub} {i : Nat} {st : SubSt} {x : Sub} (h : x ∈ setSt l i st) :
    ∃ y ∈ l, y.dst = x.dst ∧ y.eid = x.eid := by
  rcases mem_setSt h with h | ⟨y, hy, _, rfl⟩
  · exact ⟨x, h, rfl, rfl⟩
  · exact ⟨y, hy, rfl, rfl⟩

theorem markReplied_dst {l : List Sub} {e v : Nat} {x : Sub} (h : x ∈ markReplied l e v) :
    ∃ y ∈ l, y.dst = x.dst ∧ y.eid = x.eid := by
  unfold markReplied at h
  simp only [List.mem_map] at h
  obtain ⟨z, hz, rfl⟩ := h
  refine ⟨z, hz, ?_, ?_⟩ <;> split <;> rfl

theorem sinv_step (P : Prog) (l : Label) (s s' : St) (h : SInv s) (hs : step P l s = some s') : SInv s' := by
  obtain ⟨h1, h2⟩ := h
  unfold step at hs
  split at hs
  · simp at hs
  · cases l with
    | init m =>
      simp only at hs
      split at hs
      · simp only [Option.some.injEq] at hs; subst hs
        refine ⟨?_, h2⟩
        intro t sub hsub
        by_cases ht : t = m
        · subst ht; simp at hsub; exact h1 t sub hsub
        · simp [upd_other _ _ ht] at hsub; exact h1 t sub hsub
      · simp at hs
    | spawn t0 ops =>
      simp only at hs
      split at hs
      · simp only [Option.some.injEq] at hs; subst hs
        refine ⟨?_, h2⟩
        intro t sub hsub
        by_cases ht : t = t0
        · subst ht; simp at hsub; exact h1 t sub hsub
        · simp [upd_other _ _ ht] at hsub; exact h1 t sub hsub
      · simp at hs
    | start t0 =>
      simp only at hs
      split at hs
      · simp only [Option.some.injEq] at hs; subst hs
        refine ⟨?_, ?_⟩
        · intro t sub hsub
          simp only [List.mem_append, List.mem_map]
          by_cases ht : t = t0
          · subst ht; simp at hsub; right; exact ⟨sub, hsub, rfl⟩
          · simp [upd_other _ _ ht] at hsub; left; exact h1 t sub hsub
        · intro d e he
          simp only [List.mem_append]; left; exact h2 d e he
      · simp at hs
    | push t0 i =>
      simp only at hs
      split at hs
      · rename_i sub hsub
        have hsubmem : sub ∈ (s.task t0).cur := List.mem_of_getElem? hsub
        split at hs
        · split at hs
          · simp only [Option.some.injEq] at hs; subst hs
            refine ⟨?_, h2⟩
            intro t x hx
            by_cases ht : t = t0
            · subst ht; simp at hx
              obtain ⟨y, hy, e1, e2⟩ := setSt_dst hx
              rw [← e1, ← e2]; exact h1 t y hy
            · simp [upd_other _ _ ht] at hx; exact h1 t x hx
          · simp only [Option.some.injEq] at hs; subst hs
            exact ⟨h1, h2⟩
          · rename_i d hd
            split at hs
            · simp only [Option.some.injEq] at hs; subst hs
              refine ⟨?_, ?_⟩
              · intro t x hx
                by_cases ht : t = t0
                · subst ht; simp at hx
                  obtain ⟨y, hy, e1, e2⟩ := setSt_dst hx
                  rw [← e1, ← e2]; exact h1 t y hy
                · simp [upd_other _ _ ht] at hx; exact h1 t x hx
              · intro d' e he
                simp only [List.mem_append, List.mem_singleton, Prod.mk.injEq] at he
                rcases he with he | ⟨rfl, rfl⟩
                · exact h2 d' e he
                · have := h1 t0 sub hsubmem
                  rw [hd] at this; exact this
            · simp at hs
        · simp at hs
      · simp at hs
    | deliver m =>
      simp only at hs
      split at hs
      · simp only [Option.some.injEq] at hs; subst hs
        refine ⟨?_, h2⟩
        intro t sub hsub
        by_cases ht : t = m
        · subst ht; simp at hsub; exact h1 t sub hsub
        · simp [upd_other _ _ ht] at hsub; exact h1 t sub hsub
      · simp at hs
    | opDone t0 =>
      simp only at hs
      split at hs
      · simp only [Option.some.injEq] at hs; subst hs
        refine ⟨?_, h2⟩
        intro t sub hsub
        by_cases ht : t = t0
        · subst ht; simp at hsub
        · simp [upd_other _ _ ht] at hsub; exact h1 t sub hsub
      · simp at hs
    | finish t0 =>
      simp only at hs
      split at hs
      · split at hs
        · simp only [Option.some.injEq] at hs; subst hs
          refine ⟨?_, h2⟩
          intro t sub hsub
          by_cases ht : t = t0
          · subst ht; simp at hsub; exact h1 t sub hsub
          · simp [upd_other _ _ ht] at hsub; exact h1 t sub hsub
        · rename_i r e hserv
          simp only [Option.some.injEq] at hs; subst hs
          refine ⟨?_, h2⟩
          intro t x hx
          have key : ∀ y ∈ markReplied (s.task r).cur e (P.reply t0 (s.task t0).handling), (y.dst, y.eid) ∈ s.sent := by
            intro y hy
            obtain ⟨z, hz, e1, e2⟩ := markReplied_dst hy
            rw [← e1, ← e2]; exact h1 r z hz
          by_cases ht : t = t0
          · subst ht
            simp at hx
            by_cases hr : t = r
            · subst hr; simp at hx; exact key x hx
            · simp [upd_other _ _ hr] at hx; exact h1 t x hx
          · simp [upd_other _ _ ht] at hx
            by_cases hr : t = r
            · subst hr; simp at hx; exact key x hx
            · simp [upd_other _ _ hr] at hx; exact h1 t x hx
      · simp at hs

theorem reach_sinv (P : Prog) {s : St} (h : Reach P s) : SInv s := by
  induction h with
  | init => exact sinv_init
  | step l _ hs ih => exact sinv_step P l _ _ ih hs

end NexoVerif.Net
