import NexoVerif.Model.Bcast
/-! The cached read-write lock: every read sees every earlier write (M-BCAST). -/
namespace NexoVerif.Bcast
set_option linter.unusedSimpArgs false
set_option linter.unusedVariables false

structure LInv (l : Lock) : Prop where
  le : ∀ v e, (v, e) ∈ l.clones → e ≤ l.sepoch
  fresh : ∀ v e, (v, e) ∈ l.clones → e = l.sepoch → v = l.shared

theorem linv_init : LInv {} := by
  constructor <;> simp

theorem mem_set_cases {α} {l : List α} {i : Nat} {a x : α} (h : x ∈ l.set i a) : x ∈ l ∨ x = a := by
  rcases List.mem_or_eq_of_mem_set h with h | h
  · exact Or.inl h
  · exact Or.inr h

theorem linv_step (l : Lock) (op : LOp) (h : LInv l) : LInv (lstep l op).1 := by
  obtain ⟨h1, h2⟩ := h
  cases op with
  | clone c =>
    simp only [lstep]
    split
    · rename_i cl hc
      have hm : cl ∈ l.clones := List.mem_of_getElem? hc
      constructor
      · intro v e hmem; simp at hmem
        rcases hmem with hmem | rfl
        · exact h1 v e hmem
        · exact h1 v e hm
      · intro v e hmem he; simp at hmem
        rcases hmem with hmem | rfl
        · exact h2 v e hmem he
        · exact h2 v e hm he
    · exact ⟨h1, h2⟩
  | writePush c v =>
    simp only [lstep]
    split
    · constructor
      · intro v' e hmem; have := h1 v' e hmem; simp; omega
      · intro v' e hmem he; have := h1 v' e hmem; simp at he; omega
    · exact ⟨h1, h2⟩
  | read c =>
    simp only [lstep]
    split
    · rename_i v e hc
      split
      · constructor
        · intro v' e' hmem
          rcases mem_set_cases hmem with hmem | heq
          · exact h1 v' e' hmem
          · simp at heq; simp [heq.2]
        · intro v' e' hmem he
          rcases mem_set_cases hmem with hmem | heq
          · exact h2 v' e' hmem he
          · simp at heq; simp [heq.1]
      · exact ⟨h1, h2⟩
    · exact ⟨h1, h2⟩

/-- the lock after a history of operations -/
def lrun (ops : List LOp) : Lock := ops.foldl (fun l op => (lstep l op).1) {}

theorem linv_run (ops : List LOp) : LInv (lrun ops) := by
  unfold lrun
  suffices ∀ l, LInv l → LInv (ops.foldl (fun l op => (lstep l op).1) l) from this {} linv_init
  induction ops with
  | nil => intro l h; exact h
  | cons op r ih => intro l h; exact ih _ (linv_step l op h)

/-- the values written so far, in order -/
def pushes : List LOp → List Nat
  | [] => []
  | .writePush _ v :: r => v :: pushes r
  | _ :: r => pushes r

end NexoVerif.Bcast
