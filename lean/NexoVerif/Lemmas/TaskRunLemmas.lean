import NexoVerif.Lemmas.TaskThm
import NexoVerif.Model.TaskRun
/-! The handle-level operations of TaskRun.lean stay inside the transition system of M-TASK. -/
namespace NexoVerif.TaskM
set_option maxHeartbeats 2000000
set_option linter.unusedSimpArgs false
set_option linter.unusedVariables false

attribute [local grind] S.oops S.wakeCore finOfOld S.hasWakerRef S.rex

theorem step_bad_mono (l : Label) (x x' : S) (h : step l x = some x') (hb : x.bad = true) : x'.bad = true := by
  unfold step at h
  split at h
  · simp at h
  · cases l <;> simp only at h
    all_goals
      first
        | (unfold stepWClone at h; grind)
        | (unfold stepWWakeRef at h; grind)
        | (unfold stepWWakeVal at h; grind)
        | (unfold stepWDrop at h; grind)
        | (unfold stepRStart at h; grind)
        | (unfold stepRPollBegin at h; grind)
        | (unfold stepRPollPending at h; grind)
        | (unfold stepRPollReady at h; grind)
        | (unfold stepRPollPanic at h; grind)
        | (unfold stepRReadyA at h; grind)
        | (unfold stepRReadyB at h; grind)
        | (unfold stepRReadyC at h; grind)
        | (unfold stepRReadyD at h; grind)
        | (unfold stepRPend at h; grind)
        | (unfold stepRDropQueued at h; grind)
        | (unfold stepRCancelA at h; grind)
        | (unfold stepRCancelB at h; grind)
        | (unfold stepTCancel at h; grind)
        | (unfold stepTDropFut at h; grind)
        | (unfold stepTDecRef at h; grind)
        | (unfold stepTDrop at h; grind)
        | (unfold stepPPoll at h; grind)
        | (unfold stepPTake at h; grind)
        | (unfold stepPDrop at h; grind)
        | (unfold stepFin at h; grind)

/-- a state the sequential driver may be in: either flagged bad, or reachable in the transition system -/
def R (s : S) : Prop := s.bad = true ∨ Reach s

theorem R_applyL (l : Label) (x : S) (h : R x) : R (applyL l x) := by
  unfold applyL
  cases hst : step l x with
  | none => exact Or.inl rfl
  | some x' =>
    rcases h with hb | hr
    · exact Or.inl (step_bad_mono l x x' hst hb)
    · exact Or.inr (Reach.step l hr hst)

theorem R_setBad (x : S) : R { x with bad := true } := Or.inl rfl

theorem R_applyAct (x : S) (a : PAct) (h : R x) : R (applyAct x a) := by
  cases a <;> simp only [applyAct]
  · exact R_applyL _ _ h
  · exact R_applyL _ _ h
  · split
    · exact h
    · exact R_applyL _ _ h
  · split
    · exact h
    · exact R_applyL _ _ h
  · split
    · exact h
    · exact R_applyL _ _ h
  · split
    · exact h
    · split
      · exact R_applyL _ _ (R_applyL _ _ (R_applyL _ _ h))
      · exact R_applyL _ _ h

theorem R_foldActs (acts : List PAct) (x : S) (h : R x) : R (acts.foldl applyAct x) := by
  induction acts generalizing x with
  | nil => exact h
  | cons a r ih => exact ih _ (R_applyAct x a h)

theorem R_dropFut (hk : Hooks) (l : Label) (x : S) (h : R x) : R (dropFut hk l x) :=
  R_foldActs _ _ (R_applyL l x h)
theorem R_dropOut (hk : Hooks) (l : Label) (x : S) (h : R x) : R (dropOut hk l x) :=
  R_foldActs _ _ (R_applyL l x h)

theorem R_settle (hk : Hooks) (x : S) (h : R x) : R (settle hk x) := by
  unfold settle
  simp only
  have f : ∀ y, R y → R (if (y.fin != Fin.none && y.live) = true then
      (match y.fin with
       | .dropFutThenFree => dropFut hk .finStep y
       | .dropOutThenFree => dropOut hk .finStep y
       | _ => applyL .finStep y) else y) := by
    intro y hy; split
    · split
      · exact R_dropFut _ _ _ hy
      · exact R_dropOut _ _ _ hy
      · exact R_applyL _ _ hy
    · exact hy
  exact f _ (f _ (f _ h))

theorem R_doPolls (hk : Hooks) (script : Script) (fuel k : Nat) (x : S) (h : R x) : R (doPolls hk script fuel k x).1 := by
  induction fuel generalizing k x with
  | zero => exact R_setBad x
  | succ n ih =>
    unfold doPolls
    simp only
    generalize hsc : script.getD k ([], false) = sc
    obtain ⟨acts, ready⟩ := sc
    simp only
    have h1 := R_foldActs acts _ (R_applyL .rPollBegin x h)
    cases ready with
    | true =>
      simp only [ite_true]
      have h2 := R_applyL .rReadyB _ (R_dropFut hk .rReadyA _ (R_applyL .rPollReady _ h1))
      split
      · exact R_settle _ _ (R_applyL .rReadyD _ (R_dropOut hk .rReadyC _ h2))
      · exact h2
    | false =>
      simp only [Bool.false_eq_true, ite_false]
      have h2 := R_applyL .rPend _ (R_applyL .rPollPending _ h1)
      split
      · exact ih _ _ h2
      · exact R_settle _ _ (R_applyL .rCancelB _ (R_dropFut hk .rCancelA _ h2))
      · exact R_settle _ _ h2

theorem R_opRun (hk : Hooks) (script : Script) (k : Nat) (x : S) (h : R x) : R (opRun hk script k x).1 := by
  unfold opRun
  simp only
  have h1 := R_applyL .rStart x h
  split
  · exact R_settle _ _ (R_applyL .rCancelB _ (R_dropFut hk .rCancelA _ h1))
  · exact R_doPolls _ _ _ _ _ h1
  · exact R_setBad _

theorem R_opCancel (hk : Hooks) (x : S) (h : R x) : R (opCancel hk x) := by
  unfold opCancel
  simp only
  have h1 := R_applyL .tCancel x h
  split
  · exact R_settle _ _ (R_applyL .tDecRef _ (R_dropFut hk .tDropFut _ h1))
  · exact R_settle _ _ h1

theorem R_opPromisePoll (hk : Hooks) (x : S) (h : R x) : R (opPromisePoll hk x).1 := by
  unfold opPromisePoll
  simp only
  have h1 := R_applyL .pPoll x h
  split
  · exact R_dropOut _ _ _ h1
  · split <;> exact h1

theorem R_simple (hk : Hooks) (x : S) (h : R x) :
    R (opDropRunnable hk x) ∧ R (opDropToken hk x) ∧ R (opDropPromise hk x) ∧ R (opWakeRef x) ∧ R (opWakeVal hk x) ∧
    R (opClone x) ∧ R (opDropWaker hk x) := by
  refine ⟨?_, ?_, ?_, ?_, ?_, ?_, ?_⟩
  · exact R_settle _ _ (R_applyL _ _ (R_dropFut _ _ _ (R_applyL _ _ h)))
  · exact R_settle _ _ (R_applyL _ _ h)
  · exact R_settle _ _ (R_applyL _ _ h)
  · exact R_applyL _ _ h
  · exact R_settle _ _ (R_applyL _ _ h)
  · exact R_applyL _ _ h
  · exact R_settle _ _ (R_applyL _ _ h)

end NexoVerif.TaskM
