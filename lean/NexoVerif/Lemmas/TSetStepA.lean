import NexoVerif.Lemmas.TSetInv
namespace NexoVerif.TSet
set_option linter.unusedSimpArgs false
set_option linter.unusedVariables false
set_option maxHeartbeats 4000000

theorem pusher_frame (s s' : St) (w : Nat) (hm : s'.m = s.m)
    (hw : ∀ w', w' ≠ w → s'.wpc w' = s.wpc w' ∧ s'.wt w' = s.wt w') (w' i : Nat) (hne : w' ≠ w) :
    Pusher s' w' i ↔ Pusher s w' i := by
  unfold Pusher
  rw [hm, (hw w' hne).1, (hw w' hne).2]

/-- a step of waker `w` that changes only its own program counter (and `need`), where `w` is a pusher neither before
nor after -/
theorem inv_waker_local (s s' : St) (w : Nat) (h : Inv s)
    (hn : s'.n = s.n) (hm : s'.m = s.m) (hnext : s'.next = s.next) (hhead : s'.head = s.head)
    (hcur : s'.cur = s.cur) (herr : s'.err = s.err) (hstack : s'.stack = s.stack) (hiter : s'.iter = s.iter)
    (hw : ∀ w', w' ≠ w → s'.wpc w' = s.wpc w' ∧ s'.wt w' = s.wt w')
    (hnp : ∀ i, ¬ Pusher s w i) (hnp' : ∀ i, ¬ Pusher s' w i)
    (hwt : w < s.m → s'.wpc w ≠ .idle → s'.wt w < s.n)
    (hneed : ∀ i, s'.need i = true → s.need i = true ∨ s.next i ≠ .sleeping) : Inv s' := by
  have pf : ∀ w' i, Pusher s' w' i ↔ Pusher s w' i := by
    intro w' i
    by_cases hne : w' = w
    · subst hne; exact ⟨fun x => absurd x (hnp' i), fun x => absurd x (hnp i)⟩
    · exact pusher_frame s s' w hm hw w' i hne
  obtain ⟨i1, i2, i3, i4, i5, i6, i7, i8, i9, i10, i11, i12⟩ := h
  refine ⟨by rw [hhead, hstack]; exact i1, by rw [hcur, hiter]; exact i2, by rw [hnext, hstack]; exact i3,
    by rw [hnext, hiter]; exact i4, by rw [hstack, hiter]; exact i5, by rw [hstack, hiter, hn]; exact i6, ?_, ?_, ?_, ?_, ?_,
    by rw [herr]; exact i12⟩
  · intro w' hw' hp
    rw [hm] at hw'; rw [hn]
    by_cases hne : w' = w
    · subst hne; exact hwt hw' hp
    · rw [(hw w' hne).1] at hp; rw [(hw w' hne).2]; exact i7 w' hw' hp
  · intro i hi hx
    rw [hn] at hi; rw [hnext] at hx; rw [hstack, hiter]
    rcases i8 i hi hx with a | a | ⟨w', a⟩
    · exact Or.inl a
    · exact Or.inr (Or.inl a)
    · exact Or.inr (Or.inr ⟨w', (pf w' i).mpr a⟩)
  · intro w' i hp
    have hp0 := (pf w' i).mp hp
    have := i9 w' i hp0
    rw [hstack, hiter, hnext]
    refine ⟨this.1, this.2.1, this.2.2.1, ?_⟩
    intro hh hpc
    have hne : w' ≠ w := by intro e; subst e; exact hnp i hp0
    rw [(hw w' hne).1] at hpc
    exact this.2.2.2 hh hpc
  · intro w' w'' i a b
    exact i10 w' w'' i ((pf w' i).mp a) ((pf w'' i).mp b)
  · intro i hx
    rw [hnext]
    rcases hneed i hx with a | a
    · exact i11 i a
    · exact a

end NexoVerif.TSet
