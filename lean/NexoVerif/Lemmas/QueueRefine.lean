import NexoVerif.Lemmas.QueueArith
/-! L1 of M-QUEUE: the sequential queue refines the bounded-FIFO specification. -/
namespace NexoVerif.Queue
set_option linter.unusedSimpArgs false
set_option linter.unusedVariables false

/-- ghost description of a queue state: `e` pushes and `d` pops so far, `b`: the last popped message is still borrowed -/
structure G where
  e : Nat
  d : Nat
  b : Bool
  closed : Bool
  items : List Nat
deriving Repr

def G.bb (g : G) : Nat := g.b.toNat
def G.lo (g : G) : Nat := g.d - g.bb

structure Inv (q : Q) (g : G) : Prop where
  hc : 0 < q.cap
  lenS : q.stamps.length = q.cap
  lenL : q.slots.length = q.cap
  enq : q.enq = enc q.cap q.M g.e + (if g.closed then q.C else 0)
  deq : q.deq = enc q.cap q.M g.d
  ord1 : g.bb ≤ g.d
  ord2 : g.d ≤ g.e
  ord3 : g.e + g.bb ≤ g.d + q.cap
  nitems : g.items.length = g.e - g.d
  st : ∀ k, g.lo ≤ k → k < g.lo + q.cap →
        q.stamps[k % q.cap]? = some (if k < g.e then enc q.cap q.M k + 1 else enc q.cap q.M k)
  sl : ∀ k, g.d ≤ k → k < g.e → q.slots[k % q.cap]? = some (g.items[k - g.d]?)
  bor : q.borrowed = if g.b then some ((g.d - 1) % q.cap, enc q.cap q.M (g.d - 1) + 1 + (q.M - 1)) else none

def abs (q : Q) (g : G) : Spec := { cap := q.cap, items := g.items, borrowed := g.b, closed := g.closed }

theorem window_distinct (cap lo k k' : Nat) (hc : 0 < cap) (h1 : lo ≤ k) (h2 : k < lo + cap) (h3 : lo ≤ k')
    (h4 : k' < lo + cap) (hm : k % cap = k' % cap) : k = k' := by
  rcases Nat.le_total k k' with hle | hle
  · have := Nat.sub_mod_eq_zero_of_mod_eq hm.symm
    have hlt : k' - k < cap := by omega
    rw [Nat.mod_eq_of_lt hlt] at this
    omega
  · have := Nat.sub_mod_eq_zero_of_mod_eq hm
    have hlt : k - k' < cap := by omega
    rw [Nat.mod_eq_of_lt hlt] at this
    omega

theorem inv_new (cap : Nat) (hc : 0 < cap) : Inv (Q.new cap) ⟨0, 0, false, false, []⟩ := by
  have hM : cap < (Q.new cap).M := by
    have : cap ≤ (Q.new cap).C := nextPow2_ge cap
    unfold Q.M; omega
  refine ⟨hc, by simp [Q.new], by simp [Q.new], by simp [Q.new, enc], by simp [Q.new, enc], by simp [G.bb],
    Nat.le_refl _, by simp [G.bb], by simp, ?_, ?_, by simp [Q.new]⟩
  · intro k h1 h2
    simp [G.lo, G.bb] at h1 h2
    have hk : k % cap = k := Nat.mod_eq_of_lt (show k < cap from h2)
    simp only [Q.new, hk]
    have h2' : k < cap := h2
    have hr : (List.range cap)[k]? = some k := by
      rw [List.getElem?_eq_getElem (by simpa using h2')]; simp
    rw [hr]
    have hdiv : k / cap = 0 := Nat.div_eq_of_lt h2'
    simp [enc, hdiv, hk]
  · intro k h1 h2; simp at h2

section
variable {q : Q} {g : G} (h : Inv q g)
include h

theorem Inv.hM : q.cap < q.M := by
  have : q.cap ≤ q.C := nextPow2_ge q.cap
  unfold Q.M; have := h.hc; omega

theorem Inv.idx (n : Nat) : enc q.cap q.M n % q.M = n % q.cap := enc_mod q.cap q.M h.hc h.hM n

end

/-- **len** — without looking at `borrowed`: `len()` = pushes − pops -/
theorem len_eq (q : Q) (g : G) (h : Inv q g) : q.len = g.e - g.d := by
  have hc := h.hc
  have hC : q.cap ≤ q.C := nextPow2_ge q.cap
  have hC0 : 0 < q.C := by omega
  have hM := h.hM
  unfold Q.len
  simp only
  have hre := Nat.mod_lt g.e hc
  have hrd := Nat.mod_lt g.d hc
  -- enq % C = e % cap, enq / M = e / cap
  have e1 : q.enq % q.C = g.e % q.cap := by
    rw [h.enq]; unfold enc Q.M
    have : g.e / q.cap * (2 * q.C) = (2 * (g.e / q.cap)) * q.C := by rw [Nat.mul_left_comm, Nat.mul_assoc]
    rw [this]
    split
    · rw [Nat.add_assoc, Nat.add_comm, Nat.add_mul_mod_self_right, Nat.add_mod_right]
      exact Nat.mod_eq_of_lt (by omega)
    · rw [Nat.add_zero, Nat.add_comm, Nat.add_mul_mod_self_right]
      exact Nat.mod_eq_of_lt (by omega)
  have e2 : q.enq / q.M = g.e / q.cap := by
    rw [h.enq]
    have hM0 : 0 < q.M := by omega
    unfold enc
    split
    · rw [Nat.add_assoc, Nat.add_comm, Nat.add_mul_div_right _ _ hM0, Nat.div_eq_of_lt (by unfold Q.M; omega)]
      simp
    · rw [Nat.add_zero, Nat.add_comm, Nat.add_mul_div_right _ _ hM0, Nat.div_eq_of_lt (by omega)]
      simp
  have d1 : q.deq % q.C = g.d % q.cap := by
    rw [h.deq]; unfold enc Q.M
    have : g.d / q.cap * (2 * q.C) = (2 * (g.d / q.cap)) * q.C := by rw [Nat.mul_left_comm, Nat.mul_assoc]
    rw [this, Nat.add_comm, Nat.add_mul_mod_self_right]
    exact Nat.mod_eq_of_lt (by omega)
  have d2 : q.deq / q.M = g.d / q.cap := by rw [h.deq]; exact enc_div q.cap q.M hc hM g.d
  rw [e1, e2, d1, d2]
  have he := Nat.div_add_mod g.e q.cap
  have hd := Nat.div_add_mod g.d q.cap
  have o2 := h.ord2
  have o3 := h.ord3
  by_cases hq : g.e / q.cap = g.d / q.cap
  · simp [hq]
    rw [hq] at he
    generalize q.cap * (g.d / q.cap) = X at *
    omega
  · simp [hq]
    -- quotients differ by exactly one
    have hq1 : g.e / q.cap = g.d / q.cap + 1 := by
      have h1 : g.d / q.cap ≤ g.e / q.cap := Nat.div_le_div_right o2
      have h2 : g.e / q.cap ≤ (g.d + q.cap) / q.cap := Nat.div_le_div_right (by have := g.bb; omega)
      rw [Nat.add_div_right _ hc] at h2
      omega
    rw [hq1, Nat.mul_add, Nat.mul_one] at he
    generalize q.cap * (g.d / q.cap) = X at *
    omega



theorem getD_of_getElem? {α} (l : List α) (i : Nat) (d x : α) (h : l[i]? = some x) : l.getD i d = x := by
  simp [List.getD, h]

/-- `close` -/
theorem close_refines (q : Q) (g : G) (h : Inv q g) :
    Inv q.close { g with closed := true } ∧ abs q.close { g with closed := true } = (abs q g).close := by
  have hcl := enc_not_closed q h.hc g.e
  have hcap : q.close.cap = q.cap := by unfold Q.close; split <;> rfl
  constructor
  · unfold Q.close
    cases hc : g.closed
    · have : q.isClosedPos q.enq = false := by rw [h.enq]; simp [hc]; exact hcl.1
      simp only [this]
      exact { h with enq := by simp [h.enq, hc]; rfl }
    · have : q.isClosedPos q.enq = true := by rw [h.enq]; simp [hc]; exact hcl.2
      simp only [this, ite_true]
      exact { h with enq := by simp [h.enq, hc] }
  · simp [abs, Spec.close, hcap]

/-- `release` -/
theorem release_refines (q : Q) (g : G) (h : Inv q g) :
    Inv q.release { g with b := false } ∧ abs q.release { g with b := false } = (abs q g).release := by
  have hc := h.hc
  have hM := h.hM
  unfold Q.release
  cases hb : g.b
  · -- nothing borrowed
    have : q.borrowed = none := by rw [h.bor]; simp [hb]
    simp only [this]
    refine ⟨?_, by simp [abs, Spec.release]⟩
    have hg : ({ g with b := false } : G) = g := by cases g; simp_all
    rw [hg]; exact h
  · have hbor : q.borrowed = some ((g.d - 1) % q.cap, enc q.cap q.M (g.d - 1) + 1 + (q.M - 1)) := by
      rw [h.bor]; simp [hb]
    simp only [hbor]
    refine ⟨?_, by simp [abs, Spec.release]⟩
    have hbb : g.bb = 1 := by simp [G.bb, hb]
    have o1 := h.ord1; have o2 := h.ord2; have o3 := h.ord3
    rw [hbb] at o1 o3
    refine ⟨hc, by simp [h.lenS], h.lenL, h.enq, h.deq, by simp [G.bb], o2, by simp [G.bb]; omega, h.nitems, ?_, h.sl,
      by simp⟩
    intro k hk1 hk2
    simp only [G.lo, G.bb] at hk1 hk2
    simp at hk1 hk2
    simp only
    rw [List.getElem?_set]
    by_cases hidx : (g.d - 1) % q.cap = k % q.cap
    · -- the released slot: k = d - 1 + cap
      have hk : k = g.d - 1 + q.cap := by
        have : (g.d - 1 + q.cap) % q.cap = k % q.cap := by rw [Nat.add_mod_right]; exact hidx
        exact (window_distinct q.cap g.d _ _ hc (by omega) (by omega) hk1 hk2 this).symm
      have hlen : (g.d - 1) % q.cap < q.stamps.length := by rw [h.lenS]; exact Nat.mod_lt _ hc
      simp [hidx, hlen]
      rw [← hidx] at *
      subst hk
      have : ¬ (g.d - 1 + q.cap < g.e) := by omega
      simp [this]
      refine ⟨hlen, ?_⟩
      show enc q.cap q.M (g.d - 1) + 1 + (q.M - 1) = enc q.cap q.M (g.d - 1 + q.cap)
      rw [enc_add_cap q.cap q.M hc hM]
      omega
    · simp [hidx]
      have := h.st k (by simp [G.lo, hbb]; omega) (by
        simp [G.lo, hbb]
        -- k < d + cap and k ≠ d - 1 + cap
        have : k ≠ g.d - 1 + q.cap := by
          intro hk; apply hidx; rw [hk, Nat.add_mod_right]
        omega)
      exact this




/-- `push` -/
theorem push_refines (q : Q) (g : G) (h : Inv q g) (v : Nat) :
    (q.push v).2 = ((abs q g).push v).2 ∧
    ∃ g', Inv (q.push v).1 g' ∧ abs (q.push v).1 g' = ((abs q g).push v).1 := by
  have hc := h.hc
  have hM := h.hM
  have hcl := enc_not_closed q hc g.e
  have o1 := h.ord1; have o2 := h.ord2; have o3 := h.ord3
  unfold Q.push Spec.push
  simp only [abs]
  by_cases hclosed' : g.closed = true
  case neg =>
    have hclosed : g.closed = false := by simpa using hclosed'
    -- open
    have hpos : q.enq = enc q.cap q.M g.e := by rw [h.enq]; simp [hclosed]
    have hnc : q.isClosedPos q.enq = false := by rw [hpos]; exact hcl.1
    simp only [hpos, hcl.1, Bool.false_eq_true, ite_false, h.idx, hclosed]
    by_cases hfull : g.e < g.lo + q.cap
    · -- room: the slot's stamp equals the position
      have hst := h.st g.e (by unfold G.lo; omega) hfull
      simp at hst
      have hgd := getD_of_getElem? q.stamps (g.e % q.cap) 0 _ hst
      rw [hgd]
      have hlo' : g.lo = g.d - g.bb := rfl
      have hroom : g.items.length + g.b.toNat < q.cap := by
        rw [h.nitems]; show g.e - g.d + g.bb < q.cap; omega
      rw [if_pos rfl, if_pos hroom]
      refine ⟨rfl, { g with e := g.e + 1, items := g.items ++ [v] }, ?_, by simp [hclosed]⟩
      have hidxlt : g.e % q.cap < q.cap := Nat.mod_lt _ hc
      refine ⟨hc, by simp [h.lenS], by simp [h.lenL], ?_, h.deq, o1, by simp; omega,
        by show g.e + 1 + g.bb ≤ g.d + q.cap; omega,
        by simp [h.nitems]; omega, ?_, ?_, h.bor⟩
      · simp only [hclosed, Bool.false_eq_true, ite_false, Nat.add_zero]
        exact nextPos_enc q hc g.e
      · intro k hk1 hk2
        simp only [G.lo, G.bb] at hk1 hk2
        simp only
        rw [List.getElem?_set]
        by_cases hidx : g.e % q.cap = k % q.cap
        · have hk : k = g.e :=
            (window_distinct q.cap g.lo _ _ hc (by unfold G.lo G.bb; omega) hfull hk1 hk2 hidx).symm
          subst hk
          have : g.e % q.cap < q.stamps.length := by rw [h.lenS]; exact hidxlt
          simp [this]
          rfl
        · simp only [hidx, ite_false]
          have hne : k ≠ g.e := by intro hk; apply hidx; rw [hk]
          have := h.st k hk1 hk2
          rw [this]
          by_cases hlt : k < g.e
          · have : k < g.e + 1 := by omega
            simp [hlt, this]; rfl
          · have : ¬ k < g.e + 1 := by omega
            simp [hlt, this]; rfl
      · intro k hk1 hk2
        simp only at hk1 hk2 ⊢
        rw [List.getElem?_set]
        by_cases hidx : g.e % q.cap = k % q.cap
        · have hk : k = g.e :=
            (window_distinct q.cap g.lo _ _ hc (by unfold G.lo G.bb; omega) hfull
              (by unfold G.lo G.bb; omega) (by unfold G.lo G.bb at hfull ⊢; omega) hidx).symm
          subst hk
          have : g.e % q.cap < q.slots.length := by rw [h.lenL]; exact hidxlt
          simp [this]
          rw [List.getElem?_append_right (by rw [h.nitems]; omega)]
          simp [h.nitems]
        · simp only [hidx, ite_false]
          have hne : k ≠ g.e := by intro hk; apply hidx; rw [hk]
          have := h.sl k hk1 (by omega)
          rw [this]
          rw [List.getElem?_append_left (by rw [h.nitems]; omega)]
    · -- full: the slot still carries the stamp of the previous lap
      have hlo' : g.lo = g.d - g.bb := rfl
      have hlo : g.e = g.lo + q.cap := by omega
      have hst := h.st g.lo (Nat.le_refl _) (by omega)
      have hlt : g.lo < g.e := by omega
      simp only [hlt, ite_true] at hst
      have hidx : g.e % q.cap = g.lo % q.cap := by rw [hlo, Nat.add_mod_right]
      rw [hidx, getD_of_getElem? q.stamps _ 0 _ hst]
      have hcmp : enc q.cap q.M g.lo + 1 < enc q.cap q.M g.e := by
        rw [hlo, enc_add_cap q.cap q.M hc hM]; omega
      have h1 : ¬ (enc q.cap q.M g.lo + 1 = enc q.cap q.M g.e) := by omega
      have hroom : ¬ (g.items.length + g.b.toNat < q.cap) := by
        rw [h.nitems]; show ¬ (g.e - g.d + g.bb < q.cap); omega
      rw [if_neg h1, if_pos hcmp, if_neg hroom]
      exact ⟨rfl, g, h, by simp [hclosed]⟩
  case pos =>
    have hclosed := hclosed'
    -- closed
    have hpos : q.enq = enc q.cap q.M g.e + q.C := by rw [h.enq]; simp [hclosed]
    have hnc : q.isClosedPos q.enq = true := by rw [hpos]; exact hcl.2
    simp only [hnc, ite_true, hclosed]
    exact ⟨trivial, g, h, by simp [hclosed]⟩





/-- `pop` -/
theorem pop_refines (q : Q) (g : G) (h : Inv q g) :
    q.pop.2 = (abs q g).pop.2 ∧ ∃ g', Inv q.pop.1 g' ∧ abs q.pop.1 g' = (abs q g).pop.1 := by
  have hc := h.hc
  have hM := h.hM
  have o1 := h.ord1; have o2 := h.ord2; have o3 := h.ord3
  unfold Q.pop Spec.pop
  simp only [abs]
  by_cases hb : g.b = true
  · -- a message is still borrowed
    have : q.borrowed.isSome = true := by rw [h.bor]; simp [hb]
    simp only [this, ite_true, hb]
    exact ⟨trivial, g, h, by simp [hb]⟩
  · have hb' : g.b = false := by simpa using hb
    have hbor : q.borrowed = none := by rw [h.bor]; simp [hb']
    have hbb : g.bb = 0 := by simp [G.bb, hb']
    have hlo : g.lo = g.d := by simp [G.lo, hbb]
    simp only [hbor, Option.isSome_none, Bool.false_eq_true, ite_false, hb', h.deq, h.idx]
    have hst := h.st g.d (by omega) (by omega)
    rw [getD_of_getElem? q.stamps _ 0 _ hst]
    by_cases hne : g.d < g.e
    · -- something to pop
      simp only [hne, ite_true]
      have hneq : enc q.cap q.M g.d ≠ enc q.cap q.M g.d + 1 := by omega
      rw [if_pos hneq]
      have hsl := h.sl g.d (Nat.le_refl _) hne
      simp only [Nat.sub_self] at hsl
      cases hit : g.items with
      | nil => have := h.nitems; rw [hit] at this; simp at this; omega
      | cons v r =>
        rw [hit] at hsl
        simp only [List.getElem?_cons_zero] at hsl
        have hgd : q.slots.getD (g.d % q.cap) none = some v := by simp [List.getD, hsl]
        rw [hgd]
        simp only
        refine ⟨trivial, { g with d := g.d + 1, b := true, items := r }, ?_, by simp [abs]⟩
        have hidxlt : g.d % q.cap < q.cap := Nat.mod_lt _ hc
        refine ⟨hc, h.lenS, by simp [h.lenL], h.enq, ?_, by simp [G.bb], by simp; omega, by simp [G.bb]; omega, ?_, ?_, ?_, ?_⟩
        · show q.nextPos (enc q.cap q.M g.d) = enc q.cap q.M (g.d + 1)
          exact nextPos_enc q hc g.d
        · have := h.nitems; rw [hit] at this; simp at this ⊢; omega
        · intro k hk1 hk2
          simp only [G.lo, G.bb, Bool.toNat_true, Nat.add_sub_cancel] at hk1 hk2
          exact h.st k (by omega) (by omega)
        · intro k hk1 hk2
          simp only at hk1 hk2 ⊢
          rw [List.getElem?_set]
          have hidx : g.d % q.cap ≠ k % q.cap := by
            intro hm
            have := window_distinct q.cap g.d g.d k hc (Nat.le_refl _) (by omega) (by omega) (by omega) hm
            omega
          simp only [hidx, ite_false]
          rw [h.sl k (by omega) hk2, hit]
          have : k - g.d = (k - (g.d + 1)) + 1 := by omega
          rw [this, List.getElem?_cons_succ]
        · simp
          rfl
    · -- nothing to pop: empty or closed
      have hed : g.e = g.d := by omega
      simp only [hne, ite_false]
      rw [if_neg (by simp)]
      have hit : g.items = [] := by
        have := h.nitems; rw [hed] at this; simp at this; exact this
      rw [hit]
      simp only
      by_cases hcl : g.closed = true
      · have : q.enq = enc q.cap q.M g.d + q.C := by rw [h.enq, hed]; simp [hcl]
        rw [if_pos this]
        exact ⟨by simp [hcl], g, h, by simp [hit, hb']⟩
      · have hcl' : g.closed = false := by simpa using hcl
        have : q.enq ≠ enc q.cap q.M g.d + q.C := by
          rw [h.enq, hed]; simp [hcl']
          have : q.cap ≤ q.C := nextPow2_ge q.cap
          omega
        rw [if_neg this]
        exact ⟨by simp [hcl'], g, h, by simp [hit, hb']⟩



end NexoVerif.Queue
