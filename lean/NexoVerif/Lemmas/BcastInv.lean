import NexoVerif.Model.Bcast
/-! Invariant of the broadcast future: reply slots, pending count and the replies consumed (M-BCAST). -/
namespace NexoVerif.Bcast
set_option linter.unusedSimpArgs false
set_option linter.unusedVariables false

/-- number of empty slots among the first `k` -/
def unfilled (o : List (Option Nat)) (k : Nat) : Nat := (o.take k).countP Option.isNone

/-- frame of a sub-future poll: only the slots and the ghost log change -/
structure SubFrame (s s' : St) : Prop where
  senders : s'.senders = s.senders
  outputs : s'.outputs = s.outputs
  stack : s'.stack = s.stack
  countdown : s'.countdown = s.countdown
  taskLen : s'.taskLen = s.taskLen
  taskCount : s'.taskCount = s.taskCount
  registered : s'.registered = s.registered
  outerWakes : s'.outerWakes = s.outerWakes
  fut : s'.fut = s.fut
  bcArg : s'.bcArg = s.bcArg
  handed : s'.handed = s.handed
  slotsLen : s'.slots.length = s.slots.length

theorem SubFrame.refl (s : St) : SubFrame s s := by constructor <;> rfl

theorem SubFrame.trans {a b c : St} (h1 : SubFrame a b) (h2 : SubFrame b c) : SubFrame a c := by
  constructor
  · rw [h2.senders, h1.senders]
  · rw [h2.outputs, h1.outputs]
  · rw [h2.stack, h1.stack]
  · rw [h2.countdown, h1.countdown]
  · rw [h2.taskLen, h1.taskLen]
  · rw [h2.taskCount, h1.taskCount]
  · rw [h2.registered, h1.registered]
  · rw [h2.outerWakes, h1.outerWakes]
  · rw [h2.fut, h1.fut]
  · rw [h2.bcArg, h1.bcArg]
  · rw [h2.handed, h1.handed]
  · rw [h2.slotsLen, h1.slotsLen]

/-- a reply slot holds `some v` only if `v` is a reply that was made available for that connection -/
def SlotsHanded (s : St) : Prop := ∀ c sl v, s.slots[c]? = some sl → sl.reply = some v → (c, v) ∈ s.handed

theorem subPoll_spec (s : St) (c : Nat) (wk : WK) :
    SubFrame s (subPoll s c wk).1 ∧
    (∀ v, (subPoll s c wk).2 = .ready v →
        (subPoll s c wk).1.got = s.got ++ [(c, v)] ∧ ∃ sl, s.slots[c]? = some sl ∧ sl.reply = some v ∧ sl.fail = false) ∧
    ((∀ v, (subPoll s c wk).2 ≠ .ready v) → (subPoll s c wk).1.got = s.got) ∧
    (SlotsHanded s → SlotsHanded (subPoll s c wk).1) := by
  unfold subPoll
  cases hsl : s.slots[c]? with
  | none => simp only; exact ⟨SubFrame.refl s, by simp, by simp, fun h => h⟩
  | some sl =>
    have hc : c < s.slots.length := by
      rcases Nat.lt_or_ge c s.slots.length with h | h
      · exact h
      · rw [List.getElem?_eq_none h] at hsl; simp at hsl
    have keep : ∀ (s' : St) (sl' : Slot), s'.slots = s.slots.set c sl' → s'.handed = s.handed →
        (sl'.reply = sl.reply ∨ sl'.reply = none) → SlotsHanded s → SlotsHanded s' := by
      intro s' sl' hsl' hh' hr hS c' x v hx hv
      rw [hsl'] at hx
      rw [hh']
      by_cases hcc : c' = c
      · subst hcc
        rw [List.getElem?_set_self hc] at hx
        simp at hx; subst hx
        rcases hr with hr | hr
        · exact hS c' sl v hsl (hr ▸ hv)
        · rw [hr] at hv; simp at hv
      · rw [List.getElem?_set_ne (Ne.symm hcc)] at hx
        exact hS c' x v hx hv
    simp only
    cases hfb : sl.fail with
    | true =>
      simp only [if_true]
      refine ⟨by constructor <;> simp, by simp, by simp, ?_⟩
      exact keep _ _ rfl rfl (Or.inl rfl)
    | false =>
      simp only [Bool.false_eq_true, if_false]
      cases hr : sl.reply with
      | some r =>
        simp only
        refine ⟨by constructor <;> simp, ?_, by simp, ?_⟩
        · intro v hv; simp at hv; subst hv
          exact ⟨rfl, sl, rfl, hr, hfb⟩
        · intro hS
          exact keep _ _ rfl rfl (Or.inr rfl) hS
      | none =>
        simp only
        refine ⟨by constructor <;> simp, by simp, by simp, ?_⟩
        exact keep _ _ rfl rfl (Or.inl (by simp [hr]))

/-- every reply consumed so far was made available for that connection -/
def GotHanded (s : St) : Prop := ∀ x, x ∈ s.got → x ∈ s.handed

def SH (s : St) : Prop := SlotsHanded s ∧ GotHanded s

theorem subPoll_SH (s : St) (c : Nat) (wk : WK) (h : SH s) : SH (subPoll s c wk).1 := by
  have hsp := subPoll_spec s c wk
  refine ⟨hsp.2.2.2 h.1, ?_⟩
  intro x hx
  rw [hsp.1.handed]
  cases hr : (subPoll s c wk).2 with
  | ready v =>
    obtain ⟨hg, sl, hsl, hrep, _⟩ := hsp.2.1 v hr
    rw [hg] at hx
    simp at hx
    rcases hx with hx | rfl
    · exact h.2 x hx
    · exact h.1 c sl v hsl hrep
  | err => rw [hsp.2.2.1 (by intro v; rw [hr]; simp)] at hx; exact h.2 x hx
  | pending => rw [hsp.2.2.1 (by intro v; rw [hr]; simp)] at hx; exact h.2 x hx

/-- what the pass loops maintain -/
structure Filled (subs : List Nat) (s : St) (pending : Nat) : Prop where
  len : subs.length ≤ s.outputs.length
  cnt : pending = unfilled s.outputs subs.length
  src : ∀ i v, i < subs.length → s.outputs[i]? = some (some v) → ∃ c, subs[i]? = some c ∧ (c, v) ∈ s.got

theorem unfilled_set_some (o : List (Option Nat)) (k i v : Nat) (hi : i < k) (hk : k ≤ o.length)
    (hnone : (o[i]?).join = none) : unfilled (o.set i (some v)) k + 1 = unfilled o k := by
  unfold unfilled
  rw [List.take_set]
  have hlt : i < (o.take k).length := by simp; omega
  rw [List.countP_set hlt]
  have hoi : (o.take k)[i] = none := by
    have : i < o.length := by omega
    simp [List.getElem_take]
    rw [List.getElem?_eq_getElem this] at hnone
    simpa using hnone
  have hpos : 0 < (o.take k).countP Option.isNone := by
    apply List.countP_pos_iff.mpr
    exact ⟨none, by rw [← hoi]; exact List.getElem_mem hlt, rfl⟩
  simp [hoi]
  omega

theorem filled_set (subs : List Nat) (s s' : St) (pending i c v : Nat) (hF : Filled subs s pending)
    (ho : s'.outputs = s.outputs) (hg : s'.got = s.got ++ [(c, v)]) (hi : i < subs.length) (hc : subs[i]? = some c)
    (hnone : (s.outputs[i]?).join = none) :
    Filled subs { s' with outputs := s'.outputs.set i (some v) } (pending - 1) := by
  obtain ⟨h1, h2, h3⟩ := hF
  refine ⟨by simp [ho]; exact h1, ?_, ?_⟩
  · simp only [ho]
    have := unfilled_set_some s.outputs subs.length i v hi h1 hnone
    omega
  · intro j w hj hw
    simp only [ho] at hw
    by_cases hji : j = i
    · subst hji
      rw [List.getElem?_set_self (by omega)] at hw
      simp at hw; subst hw
      exact ⟨c, hc, by simp [hg]⟩
    · rw [List.getElem?_set_ne (Ne.symm hji)] at hw
      obtain ⟨c', hc', hm⟩ := h3 j w hj hw
      exact ⟨c', hc', by simp [hg]; exact Or.inl hm⟩

theorem filled_frame (subs : List Nat) (s s' : St) (pending : Nat) (hF : Filled subs s pending)
    (ho : s'.outputs = s.outputs) (hg : ∃ x, s'.got = s.got ++ x) : Filled subs s' pending := by
  obtain ⟨h1, h2, h3⟩ := hF
  obtain ⟨x, hx⟩ := hg
  refine ⟨ho ▸ h1, ho ▸ h2, ?_⟩
  intro j w hj hw
  rw [ho] at hw
  obtain ⟨c', hc', hm⟩ := h3 j w hj hw
  exact ⟨c', hc', by rw [hx]; simp; exact Or.inl hm⟩

/-- frame of a whole pass: like `SubFrame` but the outputs may change (their number does not) -/
structure PassFrame (s s' : St) : Prop where
  senders : s'.senders = s.senders
  outLen : s'.outputs.length = s.outputs.length
  taskCount : s'.taskCount = s.taskCount
  bcArg : s'.bcArg = s.bcArg
  handed : s'.handed = s.handed
  slotsLen : s'.slots.length = s.slots.length
  gotExt : ∃ x, s'.got = s.got ++ x

theorem PassFrame.refl (s : St) : PassFrame s s := ⟨rfl, rfl, rfl, rfl, rfl, rfl, ⟨[], by simp⟩⟩

theorem PassFrame.trans {a b c : St} (h1 : PassFrame a b) (h2 : PassFrame b c) : PassFrame a c := by
  obtain ⟨x, hx⟩ := h1.gotExt
  obtain ⟨y, hy⟩ := h2.gotExt
  exact ⟨h2.senders.trans h1.senders, h2.outLen.trans h1.outLen, h2.taskCount.trans h1.taskCount,
    h2.bcArg.trans h1.bcArg, h2.handed.trans h1.handed, h2.slotsLen.trans h1.slotsLen, ⟨x ++ y, by rw [hy, hx]; simp⟩⟩

theorem SubFrame.toPass {s s' : St} (h : SubFrame s s') (hg : ∃ x, s'.got = s.got ++ x) : PassFrame s s' :=
  ⟨h.senders, by rw [h.outputs], h.taskCount, h.bcArg, h.handed, h.slotsLen, hg⟩

theorem subPoll_got_ext (s : St) (c : Nat) (wk : WK) : ∃ x, (subPoll s c wk).1.got = s.got ++ x := by
  have h := subPoll_spec s c wk
  cases hr : (subPoll s c wk).2 with
  | ready v => exact ⟨[(c, v)], (h.2.1 v hr).1⟩
  | err => exact ⟨[], by rw [h.2.2.1 (by intro v; rw [hr]; simp)]; simp⟩
  | pending => exact ⟨[], by rw [h.2.2.1 (by intro v; rw [hr]; simp)]; simp⟩

theorem firstPass_spec (subs : List Nat) :
    ∀ (cs : List Nat) (i : Nat) (s : St) (pending : Nat),
      (∀ j, j < cs.length → subs[i + j]? = cs[j]?) → i + cs.length = subs.length →
      (∀ j, i ≤ j → j < subs.length → (s.outputs[j]?).join = none) →
      Filled subs s pending → SH s →
      PassFrame s (firstPass i cs s pending).1 ∧ SH (firstPass i cs s pending).1 ∧
      (∀ p, (firstPass i cs s pending).2 = some p → Filled subs (firstPass i cs s pending).1 p) := by
  intro cs
  induction cs with
  | nil =>
    intro i s pending _ _ _ hF hS
    simp only [firstPass]
    exact ⟨PassFrame.refl s, hS, fun p hp => by simp at hp; subst hp; exact hF⟩
  | cons c r ih =>
    intro i s pending hcs hlen hnone hF hS
    have hci : subs[i]? = some c := by simpa using hcs 0 (by simp)
    have hi : i < subs.length := by simp at hlen; omega
    have hsp := subPoll_spec s c (.task i)
    have hext := subPoll_got_ext s c (.task i)
    have hcs' : ∀ j, j < r.length → subs[i + 1 + j]? = r[j]? := by
      intro j hj
      have := hcs (j + 1) (by simp; omega)
      simpa [Nat.add_assoc, Nat.add_comm 1 j] using this
    have hlen' : i + 1 + r.length = subs.length := by simp at hlen; omega
    simp only [firstPass]
    cases hres : subPoll s c (.task i) with
    | mk s1 res =>
      rw [hres] at hsp hext
      simp only at hsp hext
      cases res with
      | ready v =>
        simp only
        have hg := (hsp.2.1 v rfl).1
        have hF1 := filled_set subs s s1 pending i c v hF hsp.1.outputs hg hi hci (hnone i (Nat.le_refl _) hi)
        have hS1 : SH { s1 with outputs := s1.outputs.set i (some v) } := (by have := subPoll_SH s c (.task i) hS; rw [hres] at this; exact this)
        have hnone1 : ∀ j, i + 1 ≤ j → j < subs.length →
            (({ s1 with outputs := s1.outputs.set i (some v) } : St).outputs[j]?).join = none := by
          intro j hj1 hj2
          simp only [hsp.1.outputs]
          rw [List.getElem?_set_ne (by omega)]
          exact hnone j (by omega) hj2
        obtain ⟨f, hs2, hp2⟩ := ih (i + 1) _ (pending - 1) hcs' hlen' hnone1 hF1 hS1
        refine ⟨?_, hs2, hp2⟩
        have hpf : PassFrame s { s1 with outputs := s1.outputs.set i (some v) } :=
          ⟨hsp.1.senders, by simp [hsp.1.outputs], hsp.1.taskCount, hsp.1.bcArg, hsp.1.handed, hsp.1.slotsLen, hext⟩
        exact hpf.trans f
      | err =>
        simp only
        exact ⟨hsp.1.toPass hext, (by have := subPoll_SH s c (.task i) hS; rw [hres] at this; exact this), fun p hp => by simp at hp⟩
      | pending =>
        simp only
        have hF1 := filled_frame subs s s1 pending hF hsp.1.outputs hext
        have hnone1 : ∀ j, i + 1 ≤ j → j < subs.length → (s1.outputs[j]?).join = none := by
          intro j hj1 hj2; rw [hsp.1.outputs]; exact hnone j (by omega) hj2
        obtain ⟨f, hs2, hp2⟩ := ih (i + 1) s1 pending hcs' hlen' hnone1 hF1 ((by have := subPoll_SH s c (.task i) hS; rw [hres] at this; exact this))
        exact ⟨(hsp.1.toPass hext).trans f, hs2, hp2⟩

theorem pollSubs_spec (subs : List Nat) :
    ∀ (l : List Nat) (s : St) (pending : Nat), s.taskCount = subs.length →
      Filled subs s pending → SH s →
      PassFrame s (pollSubs subs l s pending).1 ∧ SH (pollSubs subs l s pending).1 ∧
      (∀ p, (pollSubs subs l s pending).2 = some p → Filled subs (pollSubs subs l s pending).1 p) := by
  intro l
  induction l with
  | nil =>
    intro s pending _ hF hS
    simp only [pollSubs]
    exact ⟨PassFrame.refl s, hS, fun p hp => by simp at hp; subst hp; exact hF⟩
  | cons i r ih =>
    intro s pending htc hF hS
    simp only [pollSubs]
    split
    · rename_i hcond
      cases hci : subs[i]? with
      | none => simp only; exact ih s pending htc hF hS
      | some c =>
        simp only
        have hi : i < subs.length := by rw [← htc]; exact hcond.1
        have hsp := subPoll_spec s c (.task i)
        have hext := subPoll_got_ext s c (.task i)
        cases hres : subPoll s c (.task i) with
        | mk s1 res =>
          rw [hres] at hsp hext
          simp only at hsp hext
          cases res with
          | ready v =>
            simp only
            have hg := (hsp.2.1 v rfl).1
            have hF1 := filled_set subs s s1 pending i c v hF hsp.1.outputs hg hi hci hcond.2
            have hS1 : SH { s1 with outputs := s1.outputs.set i (some v) } := (by have := subPoll_SH s c (.task i) hS; rw [hres] at this; exact this)
            obtain ⟨f, hs2, hp2⟩ := ih { s1 with outputs := s1.outputs.set i (some v) } (pending - 1)
              (by simp [hsp.1.taskCount, htc]) hF1 hS1
            have hpf : PassFrame s { s1 with outputs := s1.outputs.set i (some v) } :=
              ⟨hsp.1.senders, by simp [hsp.1.outputs], hsp.1.taskCount, hsp.1.bcArg, hsp.1.handed, hsp.1.slotsLen, hext⟩
            exact ⟨hpf.trans f, hs2, hp2⟩
          | err =>
            simp only
            exact ⟨hsp.1.toPass hext, (by have := subPoll_SH s c (.task i) hS; rw [hres] at this; exact this), fun p hp => by simp at hp⟩
          | pending =>
            simp only
            have hF1 := filled_frame subs s s1 pending hF hsp.1.outputs hext
            obtain ⟨f, hs2, hp2⟩ := ih s1 pending (by rw [hsp.1.taskCount, htc]) hF1 ((by have := subPoll_SH s c (.task i) hS; rw [hres] at this; exact this))
            exact ⟨(hsp.1.toPass hext).trans f, hs2, hp2⟩
    · exact ih s pending htc hF hS

end NexoVerif.Bcast
