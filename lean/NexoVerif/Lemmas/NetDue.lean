import NexoVerif.Lemmas.NetPaths
/-! Completeness: every invocation creates all its children, and what is created ends up pushed. -/
namespace NexoVerif.Net
set_option linter.unusedSimpArgs false
set_option linter.unusedVariables false
set_option maxHeartbeats 1000000

structure DInv (P : Prog) (s : St) (g : G) : Prop where
  invNodup : (g.inv.map (·.1)).Nodup
  invStarted : ∀ π ops, (π, ops) ∈ g.inv → Started s g π
  busyInv : ∀ t, (s.task t).phase = .busy → (g.hpath t, g.ops t) ∈ g.inv
  created : ∀ π ops, (π, ops) ∈ g.inv → ∀ k op j dd pp qq, ops[k]? = some op → op[j]? = some (dd, pp, qq) →
    (∀ t, (s.task t).phase = .busy → g.hpath t = π → k < g.opIdx t) →
    ∃ e, e < s.nextEid ∧ g.path e = π ++ [k, j] ∧ g.dst e = dd ∧ g.pl e = pp
  pending : ∀ e d, e < s.nextEid → g.dst e = .box d →
    (∃ t sub, sub ∈ (s.task t).cur ∧ sub.eid = e ∧ sub.st = .toPush) ∨ (d, e) ∈ s.arrLog
  invHandled : ∀ m e0, (m, e0) ∈ s.handled → (g.path e0, P.react m (g.pl e0)) ∈ g.inv
  invInit : ∀ m, m ∈ s.inits → ([0, m], P.initOps m) ∈ g.inv
  invSpawn : ∀ i ops, g.roots[i]? = some ops → ([1, i], ops) ∈ g.inv

theorem dinv_init (P : Prog) : DInv P St.init {} := by
  constructor <;> simp [St.init]

theorem started_sunk {s : St} {g : G} {π : List Nat} (x : List Nat) (h : Started s g π) : Started s { g with sunk := x } π := h

theorem dinv_sunk {P : Prog} {s : St} {g : G} (x : List Nat) (h : DInv P s g) : DInv P s { g with sunk := x } :=
  ⟨h.invNodup, h.invStarted, h.busyInv, h.created, h.pending, h.invHandled, h.invInit, h.invSpawn⟩

theorem inv_unique {g : G} (hn : (g.inv.map (·.1)).Nodup) {π : List Nat} {o1 o2 : List Op}
    (h1 : (π, o1) ∈ g.inv) (h2 : (π, o2) ∈ g.inv) : o1 = o2 := by
  have := nodup_map_inj (·.1) hn h1 h2 rfl
  simpa using this

theorem mem_setSt_of_ne {l : List Sub} {i : Nat} {st : SubSt} {x y : Sub} (hx : x ∈ l) (hy : l[i]? = some y)
    (hne : x.eid ≠ y.eid) : x ∈ setSt l i st := by
  induction l generalizing i with
  | nil => simp at hx
  | cons a r ih =>
    cases i with
    | zero =>
      simp at hy; subst hy
      simp at hx
      rcases hx with rfl | hx
      · exact absurd rfl hne
      · simp [setSt, hx]
    | succ i =>
      simp at hy
      simp at hx
      rcases hx with rfl | hx
      · simp [setSt]
      · simp [setSt]; right; exact ih hx hy

/-- steps that leave the ghost state, `nextEid`, `handled`, `inits` alone and do not make any task busy -/
theorem dinv_quiet {P : Prog} {s s' : St} {g : G} (hB : BInv s g) (h : DInv P s g)
    (hn : s'.nextEid = s.nextEid) (hh : s'.handled = s.handled) (hi : s'.inits = s.inits)
    (hb : ∀ t, (s'.task t).phase = .busy → (s.task t).phase = .busy)
    -- a task that stops being busy has no operation left
    (hdone : ∀ t, (s.task t).phase = .busy → (s'.task t).phase ≠ .busy → (s.task t).rest = [])
    (hpend : ∀ e d, e < s.nextEid → g.dst e = .box d →
      ((∃ t sub, sub ∈ (s.task t).cur ∧ sub.eid = e ∧ sub.st = .toPush) ∨ (d, e) ∈ s.arrLog) →
      ((∃ t sub, sub ∈ (s'.task t).cur ∧ sub.eid = e ∧ sub.st = .toPush) ∨ (d, e) ∈ s'.arrLog)) :
    DInv P s' g := by
  obtain ⟨d1, d2, d3, d4, d5, d6, d7, d8⟩ := h
  refine ⟨d1, ?_, ?_, ?_, ?_, ?_, ?_, d8⟩
  · intro π ops hin
    exact started_mono (d2 π ops hin) (fun m hm => hi ▸ hm) (Nat.le_refl _) (fun m e0 h0 => ⟨hh ▸ h0, rfl⟩)
  · intro t ht; exact d3 t (hb t ht)
  · intro π ops hin k op j dd pp qq hk hj hprem
    rw [hn]
    apply d4 π ops hin k op j dd pp qq hk hj
    intro t ht hp
    by_cases hb' : (s'.task t).phase = .busy
    · exact hprem t hb' hp
    · -- t has just finished: all its operations were started
      have hr := hdone t ht hb'
      have hops : ops = g.ops t := inv_unique d1 hin (hp ▸ d3 t ht)
      have hrest := hB.rest t ht
      rw [hr] at hrest
      have hlen : (g.ops t).length ≤ g.opIdx t := by
        have := congrArg List.length hrest
        simp at this; omega
      have hkl : k < ops.length := by
        rcases Nat.lt_or_ge k ops.length with h | h
        · exact h
        · rw [List.getElem?_eq_none h] at hk; simp at hk
      rw [hops] at hkl; omega
  · intro e d he hd; rw [hn] at he; exact hpend e d he hd (d5 e d he hd)
  · intro m e0 h0; rw [hh] at h0; exact d6 m e0 h0
  · intro m hm; rw [hi] at hm; exact d7 m hm

end NexoVerif.Net

namespace NexoVerif.Net
set_option linter.unusedSimpArgs false
set_option linter.unusedVariables false
set_option maxHeartbeats 2000000

theorem dinv_step (P : Prog) (l : Label) (s s' : St) (g : G) (hI : Inv s) (hF : FInv s) (hN : IInv P s)
    (hB : BInv s g) (hU : UInv P s g) (h : DInv P s g) (hs : step P l s = some s') : DInv P s' (gstep P l s g) := by
  cases l with
  | push t0 i =>
    obtain ⟨sunk', hsunk'⟩ := gstep_push_eq P s g t0 i
    rw [hsunk']
    apply dinv_sunk
    obtain ⟨sub, hsub, hst, hcase⟩ := step_push_eq hs
    have hsubm : sub ∈ (s.task t0).cur := List.mem_of_getElem? hsub
    have hsb := hB.subs t0 sub hsubm
    -- pending sub-sends other than the pushed one stay pending
    have keep : ∀ (tk : Nat → Task), tk = upd s.task t0 { s.task t0 with cur := setSt (s.task t0).cur i .pushed } →
        ∀ e, e ≠ sub.eid → (∃ t x, x ∈ (s.task t).cur ∧ x.eid = e ∧ x.st = .toPush) →
        (∃ t x, x ∈ (tk t).cur ∧ x.eid = e ∧ x.st = .toPush) := by
      intro tk htk e hne ⟨t, x, hx, hxe, hxs⟩
      subst htk
      by_cases ht : t = t0
      · subst ht
        exact ⟨t, x, by simp; exact mem_setSt_of_ne hx hsub (by rw [hxe]; exact hne), hxe, hxs⟩
      · exact ⟨t, x, by simp only [upd_other _ _ ht]; exact hx, hxe, hxs⟩
    rcases hcase with ⟨k, hk, htask, sl, _⟩ | ⟨k, hk, htask, sl, _⟩ | ⟨d, hd, hcap, htask, hmb, ha, hh, hhp, hn, hin, _⟩
    · apply dinv_quiet hB h sl.nextEid sl.handled sl.inits
      · intro t ht; rw [htask] at ht
        by_cases htt : t = t0
        · subst htt; simpa using ht
        · simpa only [upd_other _ _ htt] using ht
      · intro t ht hnb; rw [htask] at hnb
        by_cases htt : t = t0
        · subst htt; simp at hnb; exact absurd ht hnb
        · simp only [upd_other _ _ htt] at hnb; exact absurd ht hnb
      · intro e d he hd hor
        rcases hor with hl | hr
        · by_cases hee : e = sub.eid
          · subst hee; rw [hsb.2.1, hk] at hd; simp at hd
          · exact Or.inl (keep s'.task htask e hee hl)
        · exact Or.inr (sl.arrLog ▸ hr)
    · apply dinv_quiet hB h sl.nextEid sl.handled sl.inits
      · intro t ht; rw [htask] at ht; exact ht
      · intro t ht hnb; rw [htask] at hnb; exact absurd ht hnb
      · intro e d he hd hor
        rcases hor with ⟨t, x, hx, hxe, hxs⟩ | hr
        · exact Or.inl ⟨t, x, by rw [htask]; exact hx, hxe, hxs⟩
        · exact Or.inr (sl.arrLog ▸ hr)
    · apply dinv_quiet hB h hn hh hin
      · intro t ht; rw [htask] at ht
        by_cases htt : t = t0
        · subst htt; simpa using ht
        · simpa only [upd_other _ _ htt] using ht
      · intro t ht hnb; rw [htask] at hnb
        by_cases htt : t = t0
        · subst htt; simp at hnb; exact absurd ht hnb
        · simp only [upd_other _ _ htt] at hnb; exact absurd ht hnb
      · intro e d' he hd' hor
        by_cases hee : e = sub.eid
        · subst hee
          rw [hsb.2.1, hd] at hd'; simp at hd'; subst hd'
          exact Or.inr (by rw [ha]; simp)
        · rcases hor with hl | hr
          · exact Or.inl (keep s'.task htask e hee hl)
          · exact Or.inr (by rw [ha]; simp [hr])
  | opDone t0 =>
    rw [gstep_other P s g _ (Or.inl ⟨t0, rfl⟩)]
    obtain ⟨hph, hne, hall, htask, sl, _⟩ := step_opDone_eq hs
    apply dinv_quiet hB h sl.nextEid sl.handled sl.inits
    · intro t ht; rw [htask] at ht
      by_cases htt : t = t0
      · subst htt; simpa using ht
      · simpa only [upd_other _ _ htt] using ht
    · intro t ht hnb; rw [htask] at hnb
      by_cases htt : t = t0
      · subst htt; simp at hnb; exact absurd ht hnb
      · simp only [upd_other _ _ htt] at hnb; exact absurd ht hnb
    · intro e d he hd hor
      rcases hor with ⟨t, x, hx, hxe, hxs⟩ | hr
      · by_cases htt : t = t0
        · subst htt
          have := (List.all_eq_true.mp hall) x hx
          unfold Sub.done at this
          rw [hxs] at this
          split at this <;> simp at this
        · exact Or.inl ⟨t, x, by rw [htask]; simp only [upd_other _ _ htt]; exact hx, hxe, hxs⟩
      · exact Or.inr (sl.arrLog ▸ hr)
  | finish t0 =>
    rw [gstep_other P s g _ (Or.inr ⟨t0, rfl⟩)]
    obtain ⟨hph, hcur, hrest, hnb, hcur', hoth, sl, _⟩ := step_finish_eq hs
    apply dinv_quiet hB h sl.nextEid sl.handled sl.inits
    · intro t ht
      by_cases htt : t = t0
      · subst htt; exact absurd ht hnb
      · rw [(hoth t htt).1] at ht; exact ht
    · intro t ht hnb'
      by_cases htt : t = t0
      · subst htt; exact hrest
      · rw [(hoth t htt).1] at hnb'; exact absurd ht hnb'
    · intro e d he hd hor
      rcases hor with ⟨t, x, hx, hxe, hxs⟩ | hr
      · by_cases htt : t = t0
        · subst htt; rw [hcur] at hx; simp at hx
        · exact Or.inl ⟨t, x, (hoth t htt).2.2.2.2.2 x hx hxs, hxe, hxs⟩
      · exact Or.inr (sl.arrLog ▸ hr)
  | init m =>
    obtain ⟨hph, hmod, hsim, htask, sla, slh, slhp, sln, slm, sli, _⟩ := step_init_eq hs
    obtain ⟨d1, d2, d3, d4, d5, d6, d7, d8⟩ := h
    have hnotin : m ∉ s.inits := fun hin => ((hN.started m hmod).mp hin) hph
    have hbusy : ∀ t, t ≠ m → ((s'.task t).phase = .busy ↔ (s.task t).phase = .busy) := by
      intro t htm; rw [htask]; simp only [upd_other _ _ htm]
    have hnew : ∀ ops, ([0, m], ops) ∉ g.inv := by
      intro ops hin
      rcases d2 _ _ hin with ⟨m', h1, h2⟩ | ⟨i, _, h2⟩ | ⟨m', e0, h1, h2⟩
      · simp at h2; subst h2; exact hnotin h1
      · simp at h2
      · have := hU.len e0 (hB.arr m' e0 (handled_arrived hI h1)).1
        rw [h2] at this; simp at this
    have hst : ∀ π, Started s g π → Started s' (gstep P (.init m) s g) π := fun π hπ =>
      started_mono hπ (fun x hx => by rw [sli]; simp [hx]) (Nat.le_refl _) (fun a b hab => ⟨slh ▸ hab, rfl⟩)
    refine ⟨?_, ?_, ?_, ?_, ?_, ?_, ?_, ?_⟩
    · simp only [gstep, List.map_append, List.map_cons, List.map_nil]
      rw [List.nodup_append]
      refine ⟨d1, by simp, ?_⟩
      intro a ha b hb; simp at hb; subst hb
      intro hab; subst hab
      obtain ⟨x, hx, hxe⟩ := List.mem_map.mp ha
      obtain ⟨π, ops⟩ := x
      simp at hxe; subst hxe
      exact hnew ops hx
    · intro π ops hin
      simp only [gstep, List.mem_append, List.mem_singleton] at hin
      rcases hin with hin | heq
      · exact hst π (d2 π ops hin)
      · simp at heq; rw [heq.1]; exact Or.inl ⟨m, by rw [sli]; simp, rfl⟩
    · intro t ht
      simp only [gstep]
      by_cases htm : t = m
      · subst htm; simp
      · simp only [upd_other _ _ htm]; simp; left; exact d3 t ((hbusy t htm).mp ht)
    · intro π ops hin k op j dd pp qq hk hj hprem
      simp only [gstep, List.mem_append, List.mem_singleton] at hin
      rw [sln]
      rcases hin with hin | heq
      · apply d4 π ops hin k op j dd pp qq hk hj
        intro t ht hp
        have htm : t ≠ m := by intro h; subst h; rw [hph] at ht; simp at ht
        have := hprem t ((hbusy t htm).mpr ht) (by simp only [gstep, upd_other _ _ htm]; exact hp)
        simpa only [gstep, upd_other _ _ htm] using this
      · simp at heq
        have := hprem m (by rw [htask]; simp) (by simp [gstep, heq.1])
        simp [gstep] at this
    · intro e d he hd
      rw [sln] at he
      rcases d5 e d he hd with ⟨t, x, hx, hxe, hxs⟩ | hr
      · refine Or.inl ⟨t, x, ?_, hxe, hxs⟩
        rw [htask]
        by_cases htm : t = m
        · subst htm; simpa using hx
        · simp only [upd_other _ _ htm]; exact hx
      · exact Or.inr (sla ▸ hr)
    · intro m' e0 h0; rw [slh] at h0; simp only [gstep]; rw [List.mem_append]; left; exact d6 m' e0 h0
    · intro m' hm'
      rw [sli] at hm'
      simp only [gstep]
      simp at hm' ⊢
      rcases hm' with h | h
      · left; exact d7 m' h
      · right; subst h; exact ⟨rfl, rfl⟩
    · intro i ops hr; simp only [gstep] at hr ⊢; rw [List.mem_append]; left; exact d8 i ops hr
  | spawn t0 ops0 =>
    obtain ⟨hnm, hnb, hcur, htask, sl, _⟩ := step_spawn_eq hs
    obtain ⟨d1, d2, d3, d4, d5, d6, d7, d8⟩ := h
    have hbusy : ∀ t, t ≠ t0 → ((s'.task t).phase = .busy ↔ (s.task t).phase = .busy) := by
      intro t htm; rw [htask]; simp only [upd_other _ _ htm]
    have hnew : ∀ ops, ([1, g.spawns], ops) ∉ g.inv := by
      intro ops hin
      rcases d2 _ _ hin with ⟨m', _, h2⟩ | ⟨i, h1, h2⟩ | ⟨m', e0, h1, h2⟩
      · simp at h2
      · simp at h2; omega
      · have := hU.len e0 (hB.arr m' e0 (handled_arrived hI h1)).1
        rw [h2] at this; simp at this
    have hst : ∀ π, Started s g π → Started s' (gstep P (.spawn t0 ops0) s g) π := fun π hπ =>
      started_mono hπ (fun x hx => by rw [sl.inits]; exact hx) (by simp [gstep]) (fun a b hab => ⟨sl.handled ▸ hab, rfl⟩)
    refine ⟨?_, ?_, ?_, ?_, ?_, ?_, ?_, ?_⟩
    · simp only [gstep, List.map_append, List.map_cons, List.map_nil]
      rw [List.nodup_append]
      refine ⟨d1, by simp, ?_⟩
      intro a ha b hb; simp at hb; subst hb
      intro hab; subst hab
      obtain ⟨x, hx, hxe⟩ := List.mem_map.mp ha
      obtain ⟨π, ops⟩ := x
      simp at hxe; subst hxe
      exact hnew ops hx
    · intro π ops hin
      simp only [gstep, List.mem_append, List.mem_singleton] at hin
      rcases hin with hin | heq
      · exact hst π (d2 π ops hin)
      · simp at heq; rw [heq.1]; exact Or.inr (Or.inl ⟨g.spawns, by simp [gstep], rfl⟩)
    · intro t ht
      simp only [gstep]
      by_cases htm : t = t0
      · subst htm; simp
      · simp only [upd_other _ _ htm]; simp; left; exact d3 t ((hbusy t htm).mp ht)
    · intro π ops hin k op j dd pp qq hk hj hprem
      simp only [gstep, List.mem_append, List.mem_singleton] at hin
      rw [sl.nextEid]
      rcases hin with hin | heq
      · apply d4 π ops hin k op j dd pp qq hk hj
        intro t ht hp
        have htm : t ≠ t0 := by intro h; subst h; exact hnb ht
        have := hprem t ((hbusy t htm).mpr ht) (by simp only [gstep, upd_other _ _ htm]; exact hp)
        simpa only [gstep, upd_other _ _ htm] using this
      · simp at heq
        have := hprem t0 (by rw [htask]; simp) (by simp [gstep, heq.1])
        simp [gstep] at this
    · intro e d he hd
      rw [sl.nextEid] at he
      rcases d5 e d he hd with ⟨t, x, hx, hxe, hxs⟩ | hr
      · refine Or.inl ⟨t, x, ?_, hxe, hxs⟩
        rw [htask]
        by_cases htm : t = t0
        · subst htm; simpa using hx
        · simp only [upd_other _ _ htm]; exact hx
      · exact Or.inr (sl.arrLog ▸ hr)
    · intro m' e0 h0; rw [sl.handled] at h0; simp only [gstep]; rw [List.mem_append]; left; exact d6 m' e0 h0
    · intro m' hm'; rw [sl.inits] at hm'; simp only [gstep]; rw [List.mem_append]; left; exact d7 m' hm'
    · intro i ops hr
      simp only [gstep] at hr ⊢
      by_cases hi : i < g.roots.length
      · rw [List.getElem?_append_left hi] at hr
        simp; left; exact d8 i ops hr
      · rw [List.getElem?_append_right (by omega)] at hr
        cases hx : i - g.roots.length with
        | zero =>
          rw [hx] at hr; simp at hr; subst hr
          have : i = g.spawns := by rw [← hU.rootsLen]; omega
          subst this; simp
        | succ n => rw [hx] at hr; simp at hr
  | start t0 =>
    obtain ⟨op, ops, hph, hcur, hrest, htask, hn, ha, hh, hhp, hmb, hin, _⟩ := step_start_eq hs
    obtain ⟨d1, d2, d3, d4, d5, d6, d7, d8⟩ := h
    have hbusy : ∀ t, ((s'.task t).phase = .busy ↔ (s.task t).phase = .busy) := by
      intro t; rw [htask]
      by_cases htt : t = t0
      · subst htt; simp
      · simp only [upd_other _ _ htt]
    have hold : ∀ e, e < s.nextEid → decide (s.nextEid ≤ e ∧ e < s.nextEid + op.length) = false := by
      intro e he; simp; omega
    have hnew : ∀ e, s.nextEid ≤ e → e < s.nextEid + op.length → decide (s.nextEid ≤ e ∧ e < s.nextEid + op.length) = true := by
      intro e h1 h2; simp; omega
    have gpath_old : ∀ e, e < s.nextEid → (gstep P (.start t0) s g).path e = g.path e := by
      intro e he; simp only [gstep, hrest, hold e he, Bool.false_eq_true, if_false]
    have gdst_old : ∀ e, e < s.nextEid → (gstep P (.start t0) s g).dst e = g.dst e := by
      intro e he; simp only [gstep, hrest, hold e he, Bool.false_eq_true, if_false]
    have gpl_old : ∀ e, e < s.nextEid → (gstep P (.start t0) s g).pl e = g.pl e := by
      intro e he; simp only [gstep, hrest, hold e he, Bool.false_eq_true, if_false]
    have ghp : (gstep P (.start t0) s g).hpath = g.hpath := by simp only [gstep, hrest]
    have gops : (gstep P (.start t0) s g).ops = g.ops := by simp only [gstep, hrest]
    have groots : (gstep P (.start t0) s g).roots = g.roots := by simp only [gstep, hrest]
    have gsp : (gstep P (.start t0) s g).spawns = g.spawns := by simp only [gstep, hrest]
    have ginv : (gstep P (.start t0) s g).inv = g.inv := by simp only [gstep, hrest]
    have gidx : (gstep P (.start t0) s g).opIdx = upd g.opIdx t0 (g.opIdx t0 + 1) := by simp only [gstep, hrest]
    have hhandled_old : ∀ a b, (a, b) ∈ s.handled → b < s.nextEid := fun a b hab => (hB.arr a b (handled_arrived hI hab)).1
    have hopk : (g.ops t0)[g.opIdx t0]? = some op := by
      have := hB.rest t0 hph
      rw [hrest] at this
      exact drop_cons_getElem? this.symm
    refine ⟨by rw [ginv]; exact d1, ?_, ?_, ?_, ?_, ?_, ?_, ?_⟩
    · intro π o hino; rw [ginv] at hino
      exact started_mono (d2 π o hino) (fun x hx => by rw [hin]; exact hx) (by rw [gsp]; exact Nat.le_refl _)
        (fun a b hab => ⟨hh ▸ hab, gpath_old b (hhandled_old a b hab)⟩)
    · intro t ht; rw [ghp, gops, ginv]; exact d3 t ((hbusy t).mp ht)
    · intro π o hino k opk j dd pp qq hk hj hprem
      rw [ginv] at hino
      rw [hn]
      -- is this the operation that has just been started?
      by_cases hthis : π = g.hpath t0 ∧ k = g.opIdx t0
      · obtain ⟨h1, h2⟩ := hthis
        subst h1; subst h2
        have ho : o = g.ops t0 := inv_unique d1 hino (d3 t0 hph)
        subst ho
        rw [hopk] at hk; simp at hk; subst hk
        have hjl : j < op.length := by
          rcases Nat.lt_or_ge j op.length with h | h
          · exact h
          · rw [List.getElem?_eq_none h] at hj; simp at hj
        refine ⟨s.nextEid + j, by omega, ?_, ?_, ?_⟩
        · simp only [gstep, hrest, hnew (s.nextEid + j) (by omega) (by omega), if_true]; simp
        · simp only [gstep, hrest, hnew (s.nextEid + j) (by omega) (by omega), if_true]
          rw [List.getD_eq_getElem?_getD]; simp [hj]
        · simp only [gstep, hrest, hnew (s.nextEid + j) (by omega) (by omega), if_true]
          rw [List.getD_eq_getElem?_getD]; simp [hj]
      · obtain ⟨e, he, h1, h2, h3⟩ := d4 π o hino k opk j dd pp qq hk hj (by
          intro t ht hp
          have := hprem t ((hbusy t).mpr ht) (by rw [ghp]; exact hp)
          rw [gidx] at this
          by_cases htt : t = t0
          · subst htt
            simp at this
            have : k ≠ g.opIdx t := fun hk' => hthis ⟨hp.symm, hk'⟩
            omega
          · simpa only [upd_other _ _ htt] using this)
        exact ⟨e, by omega, by rw [gpath_old e he]; exact h1, by rw [gdst_old e he]; exact h2, by rw [gpl_old e he]; exact h3⟩
    · intro e d he hd
      rw [hn] at he
      by_cases o1 : e < s.nextEid
      · rw [gdst_old e o1] at hd
        rcases d5 e d o1 hd with ⟨t, x, hx, hxe, hxs⟩ | hr
        · have htt : t ≠ t0 := by intro h; subst h; rw [hcur] at hx; simp at hx
          exact Or.inl ⟨t, x, by rw [htask]; simp only [upd_other _ _ htt]; exact hx, hxe, hxs⟩
        · exact Or.inr (ha ▸ hr)
      · -- a new event: it is one of the sub-sends just created
        have hjl : e - s.nextEid < op.length := by omega
        obtain ⟨⟨dd, pp, qq⟩, hget⟩ : ∃ x, op[e - s.nextEid]? = some x := ⟨_, List.getElem?_eq_getElem hjl⟩
        obtain ⟨sub, hsubm, h1, _, _, h4⟩ := mkSubs_nth (e := s.nextEid) hget
        exact Or.inl ⟨t0, sub, by rw [htask]; simp; exact hsubm, by omega, h4⟩
    · intro m' e0 h0; rw [hh] at h0
      have := hhandled_old m' e0 h0
      rw [gpath_old e0 this, gpl_old e0 this, ginv]; exact d6 m' e0 h0
    · intro m' hm'; rw [hin] at hm'; rw [ginv]; exact d7 m' hm'
    · intro i o hr; rw [groots] at hr; rw [ginv]; exact d8 i o hr
  | deliver m =>
    obtain ⟨p, ps, hph, hmb, htask, hmb', ha, hh, hhp, hn, hin⟩ := step_deliver_eq hs
    obtain ⟨d1, d2, d3, d4, d5, d6, d7, d8⟩ := h
    have hp : p ∈ s.mbox m := by rw [hmb]; simp
    obtain ⟨hpe, hpd, hpp⟩ := hB.boxes m p hp
    have hbusy : ∀ t, t ≠ m → ((s'.task t).phase = .busy ↔ (s.task t).phase = .busy) := by
      intro t htm; rw [htask]; simp only [upd_other _ _ htm]
    have gpath : (gstep P (.deliver m) s g).path = g.path := by simp only [gstep, hmb]
    have gdst : (gstep P (.deliver m) s g).dst = g.dst := by simp only [gstep, hmb]
    have gpl : (gstep P (.deliver m) s g).pl = g.pl := by simp only [gstep, hmb]
    have groots : (gstep P (.deliver m) s g).roots = g.roots := by simp only [gstep, hmb]
    have gsp : (gstep P (.deliver m) s g).spawns = g.spawns := by simp only [gstep, hmb]
    have ghp : (gstep P (.deliver m) s g).hpath = upd g.hpath m (g.path p.eid) := by simp only [gstep, hmb]
    have gops : (gstep P (.deliver m) s g).ops = upd g.ops m (P.react m p.payload) := by simp only [gstep, hmb]
    have gidx : (gstep P (.deliver m) s g).opIdx = upd g.opIdx m 0 := by simp only [gstep, hmb]
    have ginv : (gstep P (.deliver m) s g).inv = g.inv ++ [(g.path p.eid, P.react m p.payload)] := by simp only [gstep, hmb]
    have hnoth : ∀ m', (m', p.eid) ∉ s.handled := queued_not_handled hI hF hp
    have hnotstarted : ¬ Started s g (g.path p.eid) := by
      rintro (⟨m', _, h2⟩ | ⟨i, _, h2⟩ | ⟨m', e0, h1, h2⟩)
      · have := hU.len p.eid hpe; rw [h2] at this; simp at this
      · have := hU.len p.eid hpe; rw [h2] at this; simp at this
      · have he0 := (hB.arr m' e0 (handled_arrived hI h1)).1
        have := hU.inj e0 p.eid he0 hpe h2
        subst this; exact hnoth m' h1
    have hst : ∀ π, Started s g π → Started s' (gstep P (.deliver m) s g) π := fun π hπ =>
      started_mono hπ (fun x hx => by rw [hin]; exact hx) (by rw [gsp]; exact Nat.le_refl _)
        (fun a b hab => ⟨by rw [hh]; simp [hab], by rw [gpath]⟩)
    refine ⟨?_, ?_, ?_, ?_, ?_, ?_, ?_, ?_⟩
    · rw [ginv]
      simp only [List.map_append, List.map_cons, List.map_nil]
      rw [List.nodup_append]
      refine ⟨d1, by simp, ?_⟩
      intro a ha' b hb; simp at hb; subst hb
      intro hab; subst hab
      obtain ⟨x, hx, hxe⟩ := List.mem_map.mp ha'
      obtain ⟨π, o⟩ := x
      simp at hxe; subst hxe
      exact hnotstarted (d2 _ _ hx)
    · intro π o hino
      rw [ginv] at hino
      simp only [List.mem_append, List.mem_singleton] at hino
      rcases hino with hino | heq
      · exact hst π (d2 π o hino)
      · simp at heq; rw [heq.1]
        exact Or.inr (Or.inr ⟨m, p.eid, by rw [hh]; simp, by rw [gpath]⟩)
    · intro t ht
      rw [ghp, gops, ginv]
      by_cases htm : t = m
      · subst htm; simp
      · simp only [upd_other _ _ htm]; rw [List.mem_append]; left; exact d3 t ((hbusy t htm).mp ht)
    · intro π o hino k opk j dd pp qq hk hj hprem
      rw [ginv] at hino
      simp only [List.mem_append, List.mem_singleton] at hino
      rw [hn, gpath, gdst, gpl]
      rcases hino with hino | heq
      · apply d4 π o hino k opk j dd pp qq hk hj
        intro t ht hpp'
        have htm : t ≠ m := by intro h; subst h; rw [hph] at ht; simp at ht
        have := hprem t ((hbusy t htm).mpr ht) (by rw [ghp]; simp only [upd_other _ _ htm]; exact hpp')
        rw [gidx] at this
        simpa only [upd_other _ _ htm] using this
      · simp at heq
        have := hprem m (by rw [htask]; simp) (by rw [ghp]; simp [heq.1])
        rw [gidx] at this; simp at this
    · intro e d he hd
      rw [hn] at he; rw [gdst] at hd
      rcases d5 e d he hd with ⟨t, x, hx, hxe, hxs⟩ | hr
      · refine Or.inl ⟨t, x, ?_, hxe, hxs⟩
        rw [htask]
        by_cases htm : t = m
        · subst htm; simpa using hx
        · simp only [upd_other _ _ htm]; exact hx
      · exact Or.inr (ha ▸ hr)
    · intro m' e0 h0
      rw [hh] at h0
      rw [gpath, gpl, ginv]
      simp only [List.mem_append, List.mem_singleton] at h0 ⊢
      rcases h0 with h0 | heq
      · left; exact d6 m' e0 h0
      · simp at heq; right; rw [heq.1, heq.2, hpp]
    · intro m' hm'; rw [hin] at hm'; rw [ginv, List.mem_append]; left; exact d7 m' hm'
    · intro i o hr; rw [groots] at hr; rw [ginv, List.mem_append]; left; exact d8 i o hr

end NexoVerif.Net
