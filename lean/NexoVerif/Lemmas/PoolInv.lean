import NexoVerif.Model.Pool
namespace NexoVerif.Pool
set_option linter.unusedSimpArgs false
set_option linter.unusedVariables false
set_option maxHeartbeats 4000000

/-- program counters at which a worker holds no task and has published its message count -/
def WPc.quiet : WPc → Bool
  | .deact | .lastCheck | .lastClear | .lastUnpark | .parked => true
  | _ => false

/-- program counters at which a worker is necessarily marked active -/
def WPc.needsActive : WPc → Bool
  | .flush | .deact | .lastCheck | .lastClear | .search | .runLoop | .running => true
  | _ => false

structure Inv (s : St) : Prop where
  ff : s.flushFirst = true
  inactive : ∀ w, w < s.n → s.active w = false →
    s.loc w = 0 ∧ s.tl w = 0 ∧ (s.wpc w = .parked ∨ s.wpc w = .lastUnpark)
  quietPc : ∀ w, w < s.n → (s.wpc w).quiet = true → s.loc w = 0 ∧ s.tl w = 0
  searchEmpty : ∀ w, w < s.n → (s.wpc w = .search ∨ s.wpc w = .flush) → s.loc w = 0
  activePc : ∀ w, w < s.n → (s.wpc w).needsActive = true → s.active w = true
  last : ∀ w, w < s.n → (s.wpc w = .lastCheck ∨ s.wpc w = .lastClear) → onlyActive s w
  lastInj : ∀ w, w < s.n → s.wpc w = .lastClear → s.inj = 0
  injCovered : 0 < s.inj → (∃ w, w < s.n ∧ s.active w = true) ∨ s.mpc = .outside
  outside : s.mpc = .outside → noneActive s
  tokActive : ∀ w, w < s.n → s.tok w = true → s.active w = true ∧ (s.wpc w = .parked ∨ s.wpc w = .lastUnpark)
  parkedTok : ∀ w, w < s.n → s.active w = true → (s.wpc w = .parked ∨ s.wpc w = .lastUnpark) → s.tok w = true
  noLate : ∀ w, w < s.n → s.wpc w ≠ .lateFlush ∧ s.wpc w ≠ .lastFlush

theorem inv_init (n : Nat) : Inv (St.init n true) := by
  constructor
  · rfl
  · intro w hw ha; have hw' : w < n := hw; simp [St.init, hw'] at ha
  · intro w hw hq; simp [St.init, WPc.quiet] at hq
  · intro w hw _; simp [St.init]
  · intro w hw _; have hw' : w < n := hw; simp [St.init, hw']
  · intro w hw h; simp [St.init] at h
  · intro w hw h; simp [St.init] at h
  · intro h; simp [St.init] at h
  · intro h; simp [St.init] at h
  · intro w hw h; simp [St.init] at h
  · intro w hw _ h; simp [St.init] at h
  · intro w hw; simp [St.init]

end NexoVerif.Pool
