import NexoVerif.Lemmas.BcastInv
/-! Well-formedness of every reachable broadcaster state and what a `Ready` poll returns (M-BCAST). -/
namespace NexoVerif.Bcast
set_option linter.unusedSimpArgs false
set_option linter.unusedVariables false

def Fut.consume : Fut → Nat
  | .lazy _ c => c
  | .direct _ c => c
  | .multi _ _ _ c => c

def Core (s : St) : Prop := s.slots.length = s.senders.length ∧ s.outputs.length = s.senders.length ∧ SH s

structure WF (s : St) : Prop where
  core : Core s
  futOk : match s.fut with
    | some (.multi subs pending uninit _) =>
        uninit = false ∧ s.taskCount = subs.length ∧ Filled subs s pending ∧ subs = accepted s.senders s.bcArg ∧ pending ≠ 0
    | some (.direct c _) => accepted s.senders s.bcArg = [c]
    | some (.lazy arg _) => arg = s.bcArg
    | none => True

/-- what a `Ready` poll returns: one value per accepting connection, in connection order, truncated to what the
caller reads, each of them consumed from the corresponding replier during this broadcast -/
def ReadyOK (acc : List Nat) (consume : Nat) (s' : St) (vals : List (Option Nat)) : Prop :=
  ∃ full : List Nat, full.length = acc.length ∧ vals = (full.map some).take consume ∧
    (∀ i c v : Nat, acc[i]? = some c → full[i]? = some v → (c, v) ∈ s'.got)

theorem allSome_eq_map (l : List (Option Nat)) (h : l.countP Option.isNone = 0) :
    l = (l.filterMap id).map some ∧ (l.filterMap id).length = l.length := by
  induction l with
  | nil => simp
  | cons a r ih =>
    cases a with
    | none =>
      rw [List.countP_cons] at h
      simp at h
    | some v =>
      rw [List.countP_cons] at h
      have h' : List.countP Option.isNone r = 0 := by simpa using h
      have := ih h'
      constructor
      · simp only [List.filterMap_cons, id, List.map_cons]
        rw [← this.1]
      · simp only [List.filterMap_cons, id, List.length_cons]
        rw [this.2]

theorem accepted_lt (senders : List Sender) (arg c : Nat) (h : c ∈ accepted senders arg) : c < senders.length := by
  unfold accepted at h
  simp at h
  exact h.1

theorem accepted_length_le (senders : List Sender) (arg : Nat) : (accepted senders arg).length ≤ senders.length := by
  unfold accepted
  exact Nat.le_trans (List.length_filter_le _ _) (by simp)

theorem finish_spec (subs : List Nat) (s : St) (consume : Nat) (hF : Filled subs s 0) (hc : Core s) :
    Core (finish s subs.length consume).1 ∧ (finish s subs.length consume).1.fut = none ∧
    (finish s subs.length consume).1.senders = s.senders ∧ (finish s subs.length consume).1.bcArg = s.bcArg ∧
    (finish s subs.length consume).1.got = s.got ∧
    ∃ vals, (finish s subs.length consume).2 = .ready vals ∧ ReadyOK subs consume (finish s subs.length consume).1 vals := by
  obtain ⟨h1, h2, h3⟩ := hF
  unfold finish
  simp only
  have hn : min subs.length consume ≤ s.outputs.length := by omega
  refine ⟨⟨hc.1, ?_, hc.2.2⟩, trivial, trivial, trivial, trivial, _, rfl, ?_⟩
  · simp; rw [← hc.2.1]; omega
  · have hz : (s.outputs.take subs.length).countP Option.isNone = 0 := by unfold unfilled at h2; omega
    obtain ⟨e1, e2⟩ := allSome_eq_map _ hz
    refine ⟨(s.outputs.take subs.length).filterMap id, ?_, ?_, ?_⟩
    · rw [e2]; simp; omega
    · rw [← e1, List.take_take, Nat.min_comm]
    · intro i c v hc hv
      have hi : i < subs.length := by
        rcases Nat.lt_or_ge i subs.length with h | h
        · exact h
        · rw [List.getElem?_eq_none h] at hc; simp at hc
      have hoi : s.outputs[i]? = some (some v) := by
        have : ((s.outputs.take subs.length).filterMap id).map some = s.outputs.take subs.length := e1.symm
        have h4 : (s.outputs.take subs.length)[i]? = some (some v) := by
          rw [← this]; simp [hv]
        rw [List.getElem?_take] at h4
        simpa [hi] using h4
      obtain ⟨c', hc', hm⟩ := h3 i v hi hoi
      rw [hc] at hc'; simp at hc'; subst hc'
      exact hm

theorem loopPoll_spec (subs : List Nat) (consume : Nat) :
    ∀ (fuel : Nat) (s : St) (pending : Nat), Core s → s.taskCount = subs.length → Filled subs s pending →
      subs = accepted s.senders s.bcArg → pending ≠ 0 →
      WF (loopPoll subs consume fuel s pending).1 ∧
      (loopPoll subs consume fuel s pending).1.senders = s.senders ∧
      (loopPoll subs consume fuel s pending).1.bcArg = s.bcArg ∧
      (∀ vals, (loopPoll subs consume fuel s pending).2 = .ready vals →
        ReadyOK subs consume (loopPoll subs consume fuel s pending).1 vals ∧ (loopPoll subs consume fuel s pending).1.fut = none) := by
  intro fuel
  induction fuel with
  | zero =>
    intro s pending hc htc hF hacc hpos
    simp only [loopPoll]
    exact ⟨⟨hc, ⟨rfl, htc, ⟨hF.len, hF.cnt, hF.src⟩, hacc, hpos⟩⟩, trivial, trivial, by intro vals h; simp at h⟩
  | succ fuel ih =>
    intro s pending hc htc hF hacc hpos
    simp only [loopPoll]
    by_cases hst : s.stack = []
    · simp only [hst, if_true]
      exact ⟨⟨hc, ⟨rfl, htc, ⟨hF.len, hF.cnt, hF.src⟩, hacc, hpos⟩⟩, trivial, trivial, by intro vals h; simp at h⟩
    · simp only [hst, if_false]
      have hps := pollSubs_spec subs s.stack { s with stack := [], countdown := 0 } pending htc
        ⟨hF.len, hF.cnt, hF.src⟩ hc.2.2
      cases hres : pollSubs subs s.stack { s with stack := [], countdown := 0 } pending with
      | mk s1 r =>
        rw [hres] at hps
        simp only at hps
        obtain ⟨pf, hsh, hfl⟩ := hps
        have hc1 : Core s1 := ⟨by rw [pf.slotsLen, pf.senders]; exact hc.1, by rw [pf.outLen, pf.senders]; exact hc.2.1, hsh⟩
        cases r with
        | none =>
          simp only
          exact ⟨⟨hc1, trivial⟩, pf.senders, pf.bcArg, by intro vals h; simp at h⟩
        | some p' =>
          simp only
          have hF1 := hfl p' rfl
          by_cases hp0 : p' = 0
          · simp only [hp0, if_true]
            subst hp0
            obtain ⟨a, b, c, d, e, vals, hv, hok⟩ := finish_spec subs s1 consume hF1 hc1
            refine ⟨⟨a, by rw [b]; trivial⟩, c.trans pf.senders, d.trans pf.bcArg, ?_⟩
            intro vals' hv'
            rw [hv] at hv'; simp at hv'; subst hv'
            exact ⟨hok, b⟩
          · simp only [hp0, if_false]
            obtain ⟨w, x, y, z⟩ := ih s1 p' hc1 (by rw [pf.taskCount]; exact htc) hF1
              (by rw [pf.senders, pf.bcArg]; exact hacc) hp0
            exact ⟨w, x.trans pf.senders, y.trans pf.bcArg, z⟩

end NexoVerif.Bcast
