import NexoVerif.Model.DropM
/-! Dropping an executor drops every future exactly once (M-DROP). -/
namespace NexoVerif.DropM
set_option linter.unusedSimpArgs false
set_option linter.unusedVariables false

/-- what may happen to a task while *other* tasks are being dropped inside a worker context: it can get scheduled -/
def TMono (a b : Task) : Prop :=
  b.fut = a.fut ∧ b.futDrops = a.futDrops ∧ b.token = a.token ∧ b.closed = a.closed ∧
  b.wakesOnDrop = a.wakesOnDrop ∧ b.exec = a.exec ∧ b.key = a.key ∧
  (b.loc = a.loc ∨ (a.loc = .none ∧ b.loc = .mainLocal ∧ a.closed = false ∧ a.fut = true))

def Mono (s s' : St) : Prop := s'.n = s.n ∧ s'.panicked = s.panicked ∧ ∀ v, TMono (s.task v) (s'.task v)

theorem TMono.refl (a : Task) : TMono a a := ⟨rfl, rfl, rfl, rfl, rfl, rfl, rfl, Or.inl rfl⟩

theorem TMono.trans {a b c : Task} (h1 : TMono a b) (h2 : TMono b c) : TMono a c := by
  obtain ⟨a1, a2, a3, a4, a5, a6, a7, a8⟩ := h1
  obtain ⟨b1, b2, b3, b4, b5, b6, b7, b8⟩ := h2
  refine ⟨b1.trans a1, b2.trans a2, b3.trans a3, b4.trans a4, b5.trans a5, b6.trans a6, b7.trans a7, ?_⟩
  rcases a8 with h | ⟨h1, h2, h3, h4⟩
  · rcases b8 with h' | ⟨h1', h2', h3', h4'⟩
    · exact Or.inl (h'.trans h)
    · exact Or.inr ⟨h ▸ h1', h2', a4 ▸ h3', a1 ▸ h4'⟩
  · rcases b8 with h' | ⟨h1', _, _, _⟩
    · exact Or.inr ⟨h1, h'.trans h2, h3, h4⟩
    · rw [h2] at h1'; simp at h1'

theorem Mono.refl (s : St) : Mono s s := ⟨rfl, rfl, fun v => TMono.refl _⟩

theorem Mono.trans {a b c : St} (h1 : Mono a b) (h2 : Mono b c) : Mono a c :=
  ⟨h2.1.trans h1.1, h2.2.1.trans h1.2.1, fun v => (h1.2.2 v).trans (h2.2.2 v)⟩

theorem wake_mono (s : St) (u : Nat) : Mono s (wake true s u) := by
  unfold wake
  simp only
  split
  · exact Mono.refl s
  · rename_i hc
    simp only [if_true]
    refine ⟨rfl, rfl, ?_⟩
    intro v
    by_cases hv : v = u
    · subst hv
      simp only [upd_same]
      refine ⟨rfl, rfl, rfl, rfl, rfl, rfl, rfl, Or.inr ?_⟩
      simp only [not_or, Decidable.not_not] at hc
      exact ⟨hc.2.2, rfl, by simpa using hc.1, by simpa using hc.2.1⟩
    · simp only [upd_other _ _ hv]; exact TMono.refl _

theorem wakes_mono (l : List Nat) (s : St) : Mono s (l.foldl (wake true) s) := by
  induction l generalizing s with
  | nil => exact Mono.refl s
  | cons u r ih => exact (wake_mono s u).trans (ih _)

/-- a wake-up of a task that is closed or whose future is gone does nothing -/
theorem wake_quiet (inCtx : Bool) (s : St) (u : Nat) (h : (s.task u).closed = true ∨ (s.task u).fut = false) :
    wake inCtx s u = s := by
  unfold wake
  simp only
  rcases h with h | h
  · simp [h]
  · simp [h]

theorem wakes_quiet (inCtx : Bool) (l : List Nat) (s : St)
    (h : ∀ u ∈ l, (s.task u).closed = true ∨ (s.task u).fut = false) : l.foldl (wake inCtx) s = s := by
  induction l generalizing s with
  | nil => rfl
  | cons u r ih =>
    simp only [List.foldl_cons]
    rw [wake_quiet inCtx s u (h u (by simp))]
    exact ih s (fun v hv => h v (by simp [hv]))

/-- `dropFuture` inside a worker context, with `ACTIVE_TASKS` unset -/
theorem dropFuture_spec (s : St) (t : Nat) (hf : (s.task t).fut = true) :
    ∃ s1 : St, s1.n = s.n ∧ s1.panicked = s.panicked ∧
      s1.task = upd s.task t { s.task t with fut := false, futDrops := (s.task t).futDrops + 1 } ∧
      Mono s1 (dropFuture true none s t) := by
  unfold dropFuture
  simp only [hf, if_true, stealToken]
  exact ⟨{ s with task := upd s.task t { s.task t with fut := false, futDrops := (s.task t).futDrops + 1 } },
    rfl, rfl, rfl, wakes_mono _ _⟩

theorem dropFuture_dead (inCtx : Bool) (ctx : Option Nat) (s : St) (t : Nat) (hf : (s.task t).fut = false) :
    dropFuture inCtx ctx s t = s := by
  unfold dropFuture; simp [hf]

end NexoVerif.DropM
