import NexoVerif.Lemmas.TSetStepC
namespace NexoVerif.TSet
set_option linter.unusedSimpArgs false
set_option linter.unusedVariables false
set_option maxHeartbeats 4000000

/-- pushers after `w` stopped being one (its program counter moved to `p`, not a pusher state) -/
theorem pusher_released (s s' : St) (w : Nat) (p : WPc) (hm : s'.m = s.m) (hwt : s'.wt = s.wt)
    (hpc' : s'.wpc = upd s.wpc w p) (hp1 : ∀ h, p ≠ .push h) (hp2 : ∀ h, p ≠ .fixNext h) (w' i : Nat) :
    Pusher s' w' i ↔ (Pusher s w' i ∧ w' ≠ w) := by
  unfold Pusher
  rw [hm, hwt, hpc']
  by_cases hne : w' = w
  · subst hne
    simp only [upd_same]
    constructor
    · rintro ⟨_, _, ⟨h, e⟩ | ⟨h, e⟩⟩
      · exact absurd e (hp1 h)
      · exact absurd e (hp2 h)
    · rintro ⟨_, e⟩; exact absurd rfl e
  · simp only [upd_other _ _ hne]
    exact ⟨fun x => ⟨x, hne⟩, fun x => x.1⟩

/-- pushers when `w` stays one -/
theorem pusher_kept (s s' : St) (w : Nat) (p : WPc) (hm : s'.m = s.m) (hwt : s'.wt = s.wt)
    (hpc' : s'.wpc = upd s.wpc w p) (hw0 : (∃ h, s.wpc w = .push h) ∨ (∃ h, s.wpc w = .fixNext h))
    (hp : (∃ h, p = .push h) ∨ (∃ h, p = .fixNext h)) (w' i : Nat) :
    Pusher s' w' i ↔ Pusher s w' i := by
  unfold Pusher
  rw [hm, hwt, hpc']
  by_cases hne : w' = w
  · subst hne
    simp only [upd_same]
    exact ⟨fun ⟨a, b, _⟩ => ⟨a, b, hw0⟩, fun ⟨a, b, _⟩ => ⟨a, b, hp⟩⟩
  · simp only [upd_other _ _ hne]

theorem inv_push (w : Nat) (s s' : St) (h : Inv s) (hs : step (.wPush w) s = some s') : Inv s' := by
  simp only [step] at hs
  split at hs
  · rename_i hw
    split at hs
    · rename_i hd hpc
      have hP : Pusher s w (s.wt w) := ⟨hw, rfl, Or.inl ⟨hd, hpc⟩⟩
      split at hs
      · -- the CAS on the head succeeds: the task is on top of the stack
        rename_i hhead
        simp only [Option.some.injEq] at hs
        have en : s'.n = s.n := by rw [← hs]
        have em : s'.m = s.m := by rw [← hs]
        have enext : s'.next = s.next := by rw [← hs]
        have ehead : s'.head = { cd := hd.cd - 1, ix := some (s.wt w) } := by rw [← hs]
        have ewpc : s'.wpc = upd s.wpc w (if hd.cd = 1 then .notify else .idle) := by rw [← hs]
        have ewt : s'.wt = s.wt := by rw [← hs]
        have ecur : s'.cur = s.cur := by rw [← hs]
        have eerr : s'.err = s.err := by rw [← hs]
        have estack : s'.stack = s.wt w :: s.stack := by rw [← hs]
        have eiter : s'.iter = s.iter := by rw [← hs]
        have eneed : s'.need = s.need := by rw [← hs]
        clear hs
        obtain ⟨i1, i2, i3, i4, i5, i6, i7, i8, i9, i10, i11, i12⟩ := h
        have hi : s.wt w < s.n := i7 w hw (by simp [hpc])
        have hp9 := i9 w _ hP
        have pf := pusher_released s s' w _ em ewt ewpc (by intro h; split <;> simp) (by intro h; split <;> simp)
        refine ⟨by rw [ehead, estack]; rfl, by rw [ecur, eiter]; exact i2, ?_, by rw [enext, eiter]; exact i4, ?_, ?_, ?_, ?_,
          ?_, ?_, by rw [eneed, enext]; exact i11, by rw [eerr]; exact i12⟩
        · rw [enext, estack]
          refine ⟨?_, i3⟩
          rw [hp9.2.2.2 hd hpc, ← hhead, i1]
        · rw [estack, eiter]
          simp only [List.cons_append, List.nodup_cons, List.mem_append, not_or]
          exact ⟨⟨hp9.1, hp9.2.1⟩, i5⟩
        · rw [estack, eiter, en]
          intro i hin
          simp only [List.cons_append, List.mem_cons] at hin
          rcases hin with rfl | hin
          · exact hi
          · exact i6 i hin
        · intro w' hw' hp
          rw [em] at hw'; rw [ewpc] at hp; rw [ewt, en]
          by_cases hne : w' = w
          · subst hne; exact hi
          · simp only [upd_other _ _ hne] at hp; exact i7 w' hw' hp
        · intro i hin hx
          rw [en] at hin; rw [enext] at hx; rw [estack, eiter]
          rcases i8 i hin hx with a | a | ⟨w', a⟩
          · exact Or.inl (List.mem_cons_of_mem _ a)
          · exact Or.inr (Or.inl a)
          · by_cases hne : w' = w
            · subst hne
              have : i = s.wt w' := a.2.1.symm
              subst this; exact Or.inl List.mem_cons_self
            · exact Or.inr (Or.inr ⟨w', (pf w' i).mpr ⟨a, hne⟩⟩)
        · intro w' i hp
          obtain ⟨hp0, hne⟩ := (pf w' i).mp hp
          have := i9 w' i hp0
          have hiw : i ≠ s.wt w := by
            intro e; subst e; exact hne (i10 w' w _ hp0 hP)
          rw [estack, eiter, enext, ewpc]
          refine ⟨?_, this.2.1, this.2.2.1, ?_⟩
          · simp only [List.mem_cons, not_or]; exact ⟨hiw, this.1⟩
          · intro hh hpc'
            simp only [upd_other _ _ hne] at hpc'
            exact this.2.2.2 hh hpc'
        · intro w' w'' i a b
          exact i10 w' w'' i ((pf w' i).mp a).1 ((pf w'' i).mp b).1
      · -- the CAS fails and hands back the current head
        simp only [Option.some.injEq] at hs
        have en : s'.n = s.n := by rw [← hs]
        have em : s'.m = s.m := by rw [← hs]
        have enext : s'.next = s.next := by rw [← hs]
        have ehead : s'.head = s.head := by rw [← hs]
        have ewpc : s'.wpc = upd s.wpc w (.fixNext s.head) := by rw [← hs]
        have ewt : s'.wt = s.wt := by rw [← hs]
        have ecur : s'.cur = s.cur := by rw [← hs]
        have eerr : s'.err = s.err := by rw [← hs]
        have estack : s'.stack = s.stack := by rw [← hs]
        have eiter : s'.iter = s.iter := by rw [← hs]
        have eneed : s'.need = s.need := by rw [← hs]
        clear hs
        obtain ⟨i1, i2, i3, i4, i5, i6, i7, i8, i9, i10, i11, i12⟩ := h
        have pf := pusher_kept s s' w _ em ewt ewpc (Or.inl ⟨hd, hpc⟩) (Or.inr ⟨s.head, rfl⟩)
        refine ⟨by rw [ehead, estack]; exact i1, by rw [ecur, eiter]; exact i2, by rw [enext, estack]; exact i3,
          by rw [enext, eiter]; exact i4, by rw [estack, eiter]; exact i5, by rw [estack, eiter, en]; exact i6, ?_, ?_, ?_, ?_,
          by rw [eneed, enext]; exact i11, by rw [eerr]; exact i12⟩
        · intro w' hw' hp
          rw [em] at hw'; rw [ewt, en]
          by_cases hne : w' = w
          · subst hne; exact i7 w' hw' (by simp [hpc])
          · rw [ewpc] at hp; simp only [upd_other _ _ hne] at hp; exact i7 w' hw' hp
        · intro i hin hx
          rw [en] at hin; rw [enext] at hx; rw [estack, eiter]
          rcases i8 i hin hx with a | a | ⟨w', a⟩
          · exact Or.inl a
          · exact Or.inr (Or.inl a)
          · exact Or.inr (Or.inr ⟨w', (pf w' i).mpr a⟩)
        · intro w' i hp
          have hp0 := (pf w' i).mp hp
          have := i9 w' i hp0
          rw [estack, eiter, enext, ewpc]
          refine ⟨this.1, this.2.1, this.2.2.1, ?_⟩
          intro hh hpc'
          by_cases hne : w' = w
          · subst hne; simp at hpc'
          · simp only [upd_other _ _ hne] at hpc'; exact this.2.2.2 hh hpc'
        · intro w' w'' i a b
          exact i10 w' w'' i ((pf w' i).mp a) ((pf w'' i).mp b)
    · simp at hs
  · simp at hs

theorem inv_fixNext (w : Nat) (s s' : St) (h : Inv s) (hs : step (.wFixNext w) s = some s') : Inv s' := by
  simp only [step] at hs
  split at hs
  · rename_i hw
    split at hs
    · rename_i hd hpc
      have hP : Pusher s w (s.wt w) := ⟨hw, rfl, Or.inr ⟨hd, hpc⟩⟩
      simp only [Option.some.injEq] at hs
      have en : s'.n = s.n := by rw [← hs]
      have em : s'.m = s.m := by rw [← hs]
      have enext : s'.next = upd s.next (s.wt w) (ofIx hd.ix) := by rw [← hs]
      have ehead : s'.head = s.head := by rw [← hs]
      have ewpc : s'.wpc = upd s.wpc w (.push hd) := by rw [← hs]
      have ewt : s'.wt = s.wt := by rw [← hs]
      have ecur : s'.cur = s.cur := by rw [← hs]
      have eerr : s'.err = s.err := by rw [← hs]
      have estack : s'.stack = s.stack := by rw [← hs]
      have eiter : s'.iter = s.iter := by rw [← hs]
      have eneed : s'.need = s.need := by rw [← hs]
      clear hs
      obtain ⟨i1, i2, i3, i4, i5, i6, i7, i8, i9, i10, i11, i12⟩ := h
      have hp9 := i9 w _ hP
      have pf := pusher_kept s s' w _ em ewt ewpc (Or.inr ⟨hd, hpc⟩) (Or.inl ⟨hd, rfl⟩)
      refine ⟨by rw [ehead, estack]; exact i1, by rw [ecur, eiter]; exact i2,
        by rw [enext, estack]; exact linked_upd _ _ _ _ hp9.1 i3, by rw [enext, eiter]; exact linked_upd _ _ _ _ hp9.2.1 i4,
        by rw [estack, eiter]; exact i5, by rw [estack, eiter, en]; exact i6, ?_, ?_, ?_, ?_, ?_, by rw [eerr]; exact i12⟩
      · intro w' hw' hp
        rw [em] at hw'; rw [ewt, en]
        by_cases hne : w' = w
        · subst hne; exact i7 w' hw' (by simp [hpc])
        · rw [ewpc] at hp; simp only [upd_other _ _ hne] at hp; exact i7 w' hw' hp
      · intro i hin hx
        rw [en] at hin; rw [estack, eiter]
        by_cases hiw : i = s.wt w
        · subst hiw; exact Or.inr (Or.inr ⟨w, (pf w _).mpr hP⟩)
        · rw [enext] at hx; simp only [upd_other _ _ hiw] at hx
          rcases i8 i hin hx with a | a | ⟨w', a⟩
          · exact Or.inl a
          · exact Or.inr (Or.inl a)
          · exact Or.inr (Or.inr ⟨w', (pf w' i).mpr a⟩)
      · intro w' i hp
        have hp0 := (pf w' i).mp hp
        have := i9 w' i hp0
        rw [estack, eiter, enext, ewpc]
        by_cases hiw : i = s.wt w
        · subst hiw
          have hww : w' = w := i10 w' w _ hp0 hP
          subst hww
          refine ⟨this.1, this.2.1, by simp only [upd_same]; exact ofIx_ne_sleeping _, ?_⟩
          intro hh hpc'
          simp only [upd_same] at hpc'
          injection hpc' with e; subst e; simp
        · have hne : w' ≠ w := by intro e; subst e; exact hiw hp0.2.1.symm
          refine ⟨this.1, this.2.1, by simp only [upd_other _ _ hiw]; exact this.2.2.1, ?_⟩
          intro hh hpc'
          simp only [upd_other _ _ hne] at hpc'
          simp only [upd_other _ _ hiw]; exact this.2.2.2 hh hpc'
      · intro w' w'' i a b
        exact i10 w' w'' i ((pf w' i).mp a) ((pf w'' i).mp b)
      · intro i hx
        rw [eneed] at hx; rw [enext]
        by_cases hiw : i = s.wt w
        · subst hiw; simp only [upd_same]; exact ofIx_ne_sleeping _
        · simp only [upd_other _ _ hiw]; exact i11 i hx
    · simp at hs
  · simp at hs

end NexoVerif.TSet
