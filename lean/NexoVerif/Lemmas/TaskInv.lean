import NexoVerif.Model.Task
/-! Invariant of M-TASK. -/
namespace NexoVerif.TaskM

def PPc.n : PPc → Nat | .none => 0 | _ => 1
def TPc.n : TPc → Nat | .none => 0 | _ => 1
def RPc.n : RPc → Nat | .none => 0 | _ => 1

def S.handles (s : S) : Nat := s.wakers + s.promise.n + s.token.n

def expectedCore (s : S) : Core :=
  match s.fin with
  | .dropFutThenFree => .fut
  | .dropOutThenFree => .out
  | .free => .gone
  | .none =>
    if s.polling then
      match s.run with
      | .readyB => .out
      | .readyC => .out
      | .readyD => .gone
      | .cancelB => .gone
      | _ => .fut
    else if !s.closed then .out
    else if s.token = .dropFut then .fut
    else if s.promise = .taking then .out
    else .gone

def usesWc : RPc → Bool | .loaded => true | .polling => true | .pend => true | _ => false

/-- all invariants hold of live states; a freed task has nothing left -/
structure Inv (s : S) : Prop where
  nobad : s.bad = false
  refcount : s.live = true → s.ref = s.handles
  rexIff : s.live = true → ((s.run = .none) ↔ s.rex = false)
  wcOk : usesWc s.run = true → 1 ≤ s.wc ∧ s.wc ≤ s.wake
  finExcl : s.fin ≠ .none → s.ref = 0 ∧ s.run = .none ∧ s.handles = 0 ∧ s.live = true
  coreOk : s.live = true → s.core = expectedCore s
  tokPhase : (s.token = .dropFut ∨ s.token = .decRef) → s.closed = true ∧ s.polling = false
  promPhase : s.promise = .taking → s.closed = true ∧ s.polling = false
  excl : ¬ (s.token = .dropFut ∧ s.promise = .taking)
  rcFail : (s.run = .readyC ∨ s.run = .readyD) → s.closed = true ∨ s.ref = 0
  cntFut : s.futDrops + (if s.core = .fut then 1 else 0) = 1
  cntOut : s.outDrops + (if s.core = .out then 1 else 0) = s.outMade ∧ s.outMade ≤ s.futDrops
  cntFree : s.frees + (if s.live then 1 else 0) = 1
  progress : s.live = true → s.fin = .none → 0 < s.handles + s.run.n
  dead : s.live = false → s.handles = 0 ∧ s.run = .none ∧ s.fin = .none ∧ s.core = .gone

theorem inv_spawn : Inv spawn := by
  constructor <;> simp [spawn, S.handles, PPc.n, TPc.n, RPc.n, S.rex, expectedCore, usesWc]

theorem inv_spawnAndForget : Inv spawnAndForget := by
  constructor <;> simp [spawnAndForget, spawn, S.handles, PPc.n, TPc.n, RPc.n, S.rex, expectedCore, usesWc]

end NexoVerif.TaskM
