import NexoVerif.Model.Sched
/-! Invariant of the scheduler queue and its preservation by scheduling requests (M-SCHED). -/
namespace NexoVerif.Sched

theorem Entry.lt_iff (a b : Entry) :
    a.lt b = true ↔ a.time < b.time ∨ (a.time = b.time ∧ (a.origin < b.origin ∨ (a.origin = b.origin ∧ a.epoch < b.epoch))) := by
  simp [Entry.lt]

theorem Entry.lt_trans {a b c : Entry} (h1 : a.lt b = true) (h2 : b.lt c = true) : a.lt c = true := by
  rw [Entry.lt_iff] at *; omega

theorem Entry.lt_irrefl (a : Entry) : a.lt a = false := by
  cases h : a.lt a
  · rfl
  · rw [Entry.lt_iff] at h; omega

theorem Entry.lt_total {a b : Entry} (h : a.epoch ≠ b.epoch) : a.lt b = true ∨ b.lt a = true := by
  rw [Entry.lt_iff, Entry.lt_iff]; omega

theorem Entry.lt_time {a b : Entry} (h : a.lt b = true) : a.time ≤ b.time := by
  rw [Entry.lt_iff] at h; omega

def Sorted (l : List Entry) : Prop := l.Pairwise (fun a b => a.lt b = true)

theorem mem_insert {e x : Entry} {l : List Entry} : x ∈ insert e l ↔ x = e ∨ x ∈ l := by
  induction l with
  | nil => simp [insert]
  | cons y ys ih =>
    unfold insert
    split
    · simp
    · simp [ih]; constructor <;> (intro h; rcases h with h | h | h <;> simp [h])

theorem sorted_insert {e : Entry} {l : List Entry} (hs : Sorted l) (hne : ∀ x ∈ l, x.epoch ≠ e.epoch) :
    Sorted (insert e l) := by
  induction l with
  | nil => simp [insert, Sorted]
  | cons y ys ih =>
    unfold insert
    have hsy : Sorted ys := (List.pairwise_cons.mp hs).2
    have hy : ∀ z ∈ ys, y.lt z = true := (List.pairwise_cons.mp hs).1
    split
    · rename_i hlt
      refine List.pairwise_cons.mpr ⟨?_, hs⟩
      intro z hz
      simp only [List.mem_cons] at hz
      rcases hz with rfl | hz
      · exact hlt
      · exact Entry.lt_trans hlt (hy z hz)
    · rename_i hnlt
      have hye : y.lt e = true := by
        have := Entry.lt_total (a := e) (b := y) (by
          have := hne y (by simp); exact fun h => this h.symm)
        rcases this with h | h
        · exact absurd h hnlt
        · exact h
      refine List.pairwise_cons.mpr ⟨?_, ih hsy (fun x hx => hne x (by simp [hx]))⟩
      intro z hz
      rcases mem_insert.mp hz with rfl | hz
      · exact hye
      · exact hy z hz

structure Inv (s : St) : Prop where
  sorted : Sorted s.queue
  future : ∀ e ∈ s.queue, s.now < e.time
  period : ∀ e ∈ s.queue, e.period ≠ some 0
  epoch  : ∀ e ∈ s.queue, e.epoch < s.nextEpoch

theorem sched_inv (s : St) (r : SchedReq) (h : Inv s) : Inv (sched s r).1 := by
  unfold sched
  split
  · exact h
  · rename_i hp
    split
    · exact h
    · rename_i ht
      refine ⟨?_, ?_, ?_, ?_⟩
      · apply sorted_insert h.sorted
        intro x hx; have := h.epoch x hx; simp only; omega
      · intro e he
        rcases mem_insert.mp he with rfl | he
        · simp only; omega
        · exact h.future e he
      · intro e he
        rcases mem_insert.mp he with rfl | he
        · exact hp
        · exact h.period e he
      · intro e he
        rcases mem_insert.mp he with rfl | he
        · simp only; omega
        · have := h.epoch e he; simp only; omega

theorem sched_now (s : St) (r : SchedReq) : (sched s r).1.now = s.now := by
  unfold sched
  split
  · rfl
  · split <;> rfl

theorem sched_ok_iff (s : St) (r : SchedReq) :
    (sched s r).2 = .ok ↔ s.now < r.time s.now ∧ r.period ≠ some 0 := by
  unfold sched
  split
  · rename_i h; simp [h]
  · rename_i h
    split
    · rename_i h2; simp; omega
    · rename_i h2; simp [h]; omega

theorem sched_reject_noop (s : St) (r : SchedReq) (h : (sched s r).2 ≠ .ok) : (sched s r).1 = s := by
  unfold sched at *
  split
  · rfl
  · split
    · rfl
    · rename_i h1 h2; simp [h1, h2] at h

theorem execH_inv (s : St) (cs : List HCmd) (h : Inv s) : Inv (execH s cs) ∧ (execH s cs).now = s.now := by
  induction cs generalizing s with
  | nil => exact ⟨h, rfl⟩
  | cons c cs ih =>
    cases c with
    | sched r =>
      have := ih (sched s r).1 (sched_inv s r h)
      exact ⟨this.1, by rw [execH, this.2, sched_now]⟩
    | cancel k =>
      have h' : Inv (cancelKey s k) := ⟨h.sorted, h.future, h.period, h.epoch⟩
      have := ih _ h'
      exact ⟨this.1, by rw [execH, this.2]; rfl⟩

end NexoVerif.Sched
