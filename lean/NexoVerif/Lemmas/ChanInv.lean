import NexoVerif.Model.Chan
namespace NexoVerif.Chan
set_option linter.unusedSimpArgs false
set_option linter.unusedVariables false
set_option maxHeartbeats 4000000

def total (n : Nat) (f : Nat → Nat) : Nat := ((List.range n).map f).sum

theorem total_succ (n : Nat) (f : Nat → Nat) : total (n + 1) f = total n f + f n := by
  simp [total, List.range_succ]

theorem total_congr (n : Nat) (f g : Nat → Nat) (h : ∀ j, j < n → g j = f j) : total n g = total n f := by
  induction n with
  | zero => rfl
  | succ m ih => rw [total_succ, total_succ, ih (fun j hj => h j (by omega)), h m (by omega)]

theorem total_zero (n : Nat) (f : Nat → Nat) (h : ∀ j, j < n → f j = 0) : total n f = 0 := by
  induction n with
  | zero => rfl
  | succ m ih => rw [total_succ, ih (fun j hj => h j (by omega)), h m (by omega)]

/-- changing the summand at one index -/
theorem total_upd1 (n : Nat) (f g : Nat → Nat) (i : Nat) (hi : i < n) (h : ∀ j, j < n → j ≠ i → g j = f j) :
    total n g + f i = total n f + g i := by
  induction n with
  | zero => omega
  | succ m ih =>
    rw [total_succ, total_succ]
    by_cases him : i = m
    · subst him
      rw [total_congr i f g (fun j hj => h j (by omega) (by omega))]; omega
    · have := ih (by omega) (fun j hj hji => h j (by omega) hji)
      rw [h m (by omega) (Ne.symm him)]; omega

/-- changing the summand at two different indices -/
theorem total_upd2 (n : Nat) (f g : Nat → Nat) (i k : Nat) (hi : i < n) (hk : k < n) (hik : i ≠ k)
    (h : ∀ j, j < n → j ≠ i → j ≠ k → g j = f j) : total n g + f i + f k = total n f + g i + g k := by
  -- go through the function that agrees with `g` at `i` and with `f` elsewhere
  let m : Nat → Nat := fun j => if j = i then g i else f j
  have h1 : total n m + f i = total n f + m i := total_upd1 n f m i hi (fun j _ hji => by simp [m, hji])
  have h2 : total n g + m k = total n m + g k :=
    total_upd1 n m g k hk (fun j hj hjk => by
      by_cases hji : j = i
      · subst hji; simp [m]
      · simp [m, hji]; exact h j hj hji hjk)
  have hmi : m i = g i := by simp [m]
  have hmk : m k = f k := by simp [m, Ne.symm hik]
  omega

theorem total_pos (n : Nat) (f : Nat → Nat) (h : 0 < total n f) : ∃ j, j < n ∧ 0 < f j := by
  apply Classical.byContradiction
  intro hno
  have : total n f = 0 := total_zero n f (fun j hj => by
    cases hf : f j with
    | zero => rfl
    | succ x => exact absurd ⟨j, hj, by omega⟩ hno)
  omega

/-- a sender that holds a notification (or is on its first attempt): it is not in the wait set and will evaluate the
predicate, or pass the notification on, before it sleeps -/
def holder (p : SPc) (b : Bool) : Nat :=
  if b = false ∧ (p = .rm ∨ p = .try1 ∨ p = .try2 ∨ p = .cancel ∨ p = .pending ∨ p = .cancelErr) then 1 else 0

/-- a sender that has pushed and not yet notified the receiver -/
def pusher (p : SPc) : Nat := if p = .cancel ∨ p = .notifyRecv then 1 else 0

def holders (s : St) : Nat := total s.n (fun j => holder (s.spc j) (s.inset j))
def pushers (s : St) : Nat := total s.n (fun j => pusher (s.spc j))
def rtoken (s : St) : Nat := if s.rpc = .notify then 1 else 0
/-- the closing thread is about to wake every sender: worth as many notifications as there are slots -/
def ctoken (s : St) : Nat := if s.cpc = true then s.cap else 0
/-- the receiver holds a popped message whose slot is not yet released -/
def rborrow (s : St) : Nat := if s.rpc = .release ∨ s.rpc = .unreg then 1 else 0

structure Inv (s : St) : Prop where
  occLe : s.occ ≤ s.cap
  msgsLe : s.msgs + rborrow s ≤ s.occ
  notInset : ∀ i, i < s.n → (s.spc i = .idle ∨ s.spc i = .try1 ∨ s.spc i = .ins ∨ s.spc i = .notifyRecv) →
    s.inset i = false
  /-- while a sender sleeps, every free slot is matched by a notification in flight -/
  senders : (∃ i, Sleeping s i) → s.cap ≤ s.occ + rtoken s + ctoken s + holders s
  /-- while the receiver sleeps, every message is matched by a sender that is about to notify it -/
  receiver : RSleeping s → s.msgs ≤ pushers s
  cpcClosed : s.cpc = true → s.closed = true
  /-- once the closing thread has notified everybody, no sender sleeps any more -/
  noSleepAfterClose : s.closed = true → s.cpc = false → ∀ i, ¬ Sleeping s i

theorem inv_init (n cap : Nat) (a : Bool) : Inv (St.init n cap a) := by
  refine ⟨Nat.zero_le _, by simp [St.init, rborrow], fun _ _ _ => rfl, ?_, ?_, ?_, ?_⟩
  · rintro ⟨i, _, h, _⟩; simp [St.init] at h
  · rintro ⟨h, _⟩; simp [St.init] at h
  · intro h; simp [St.init] at h
  · intro h; simp [St.init] at h

end NexoVerif.Chan
