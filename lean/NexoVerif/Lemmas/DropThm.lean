import NexoVerif.Lemmas.DropPhases
/-! Dropping an executor: the whole sequence (M-DROP). -/
namespace NexoVerif.DropM
set_option linter.unusedSimpArgs false
set_option linter.unusedVariables false

theorem cancel_fold (e : Nat) : ∀ (l : List Nat) (s : St), Q e s → (∀ t ∈ l, t < s.n ∧ (s.task t).exec = e) →
    Q e (l.foldl (cancel none) s) ∧ Dec s (l.foldl (cancel none) s) ∧
    ∀ t ∈ l, ((l.foldl (cancel none) s).task t).token = false := by
  intro l
  induction l with
  | nil => intro s hq _; exact ⟨hq, Dec.refl s, by simp⟩
  | cons t r ih =>
    intro s hq hl
    simp only [List.foldl_cons]
    obtain ⟨h1, h2, h3⟩ := cancel_spec e s t hq (hl t (by simp)).1 (hl t (by simp)).2
    obtain ⟨i1, i2, i3⟩ := ih (cancel none s t) h1 (by
      intro t' ht'
      have := hl t' (by simp [ht'])
      exact ⟨by rw [h2.1]; exact this.1, by rw [(h2.2.2 t').1]; exact this.2⟩)
    refine ⟨i1, h2.trans i2, ?_⟩
    intro t' ht'
    simp at ht'
    rcases ht' with rfl | ht'
    · cases htok : ((List.foldl (cancel none) (cancel none s t') r).task t').token with
      | false => rfl
      | true => have := (i2.2.2 t').2.2.2.2.1 htok; rw [h3] at this; simp at this
    · exact i3 t' ht'

/-- invariant of the last phase: every future still alive is closed and has a `Runnable` in a queue -/
structure P2 (e : Nat) (s : St) : Prop where
  quiet : ∀ v, v < s.n → (s.task v).exec = e → (s.task v).fut = true →
    (s.task v).closed = true ∧ (s.task v).loc ≠ .none
  targets : ∀ v u, v < s.n → (s.task v).exec = e → u ∈ (s.task v).wakesOnDrop → u < s.n ∧ (s.task u).exec = e

theorem dropFuture_quiet (s : St) (t : Nat) (hf : (s.task t).fut = true)
    (hq : ∀ u ∈ (s.task t).wakesOnDrop, u ≠ t → (s.task u).closed = true ∨ (s.task u).fut = false) :
    dropFuture true none s t =
      { s with task := upd s.task t { s.task t with fut := false, futDrops := (s.task t).futDrops + 1 } } := by
  unfold dropFuture
  simp only [hf, if_true, stealToken]
  apply wakes_quiet
  intro u hu
  by_cases hut : u = t
  · subst hut; right; simp
  · simp only [upd_other _ _ hut]; exact hq u hu hut

theorem dropQueued_spec (e : Nat) (s : St) (t : Nat) (hp : P2 e s) (ht : t < s.n) (he : (s.task t).exec = e) :
    P2 e (dropQueued none s t) ∧ Dec s (dropQueued none s t) ∧
    ((dropQueued none s t).task t).fut = false ∧ ((dropQueued none s t).task t).loc = .none ∧
    (∀ v, (s.task v).loc = .none → ((dropQueued none s t).task v).loc = .none) := by
  unfold dropQueued
  by_cases hl : (s.task t).loc ≠ .none
  · rw [if_pos hl]
    unfold dropRunnable
    -- the final state: task t with its Runnable gone, closed, its future dropped (if it was alive)
    have key : ∀ (tk' : Task) (s' : St), s'.n = s.n → s'.panicked = s.panicked → s'.task = upd s.task t tk' →
        tk'.exec = (s.task t).exec → tk'.key = (s.task t).key → tk'.wakesOnDrop = (s.task t).wakesOnDrop →
        tk'.fut = false → tk'.loc = .none → tk'.closed = true → tk'.token = (s.task t).token →
        credit tk' = credit (s.task t) →
        P2 e s' ∧ Dec s s' ∧ (s'.task t).fut = false ∧ (s'.task t).loc = .none ∧
        (∀ v, (s.task v).loc = .none → (s'.task v).loc = .none) := by
      intro tk' s' hn hpn htk h1 h2 h3 h4 h5 h6 h7 h8
      refine ⟨?_, ?_, by rw [htk]; simp [h4], by rw [htk]; simp [h5], ?_⟩
      · constructor
        · intro v hv hev hfv
          rw [htk] at hev hfv ⊢
          by_cases hvt : v = t
          · subst hvt; simp [h4] at hfv
          · simp only [upd_other _ _ hvt] at hev hfv ⊢; exact hp.quiet v (hn ▸ hv) hev hfv
        · intro v u hv hev hu
          rw [htk] at hev hu
          have : u < s.n ∧ (s.task u).exec = e := by
            by_cases hvt : v = t
            · subst hvt; simp only [upd_same] at hev hu; rw [h3] at hu; exact hp.targets v u ht he hu
            · simp only [upd_other _ _ hvt] at hev hu; exact hp.targets v u (hn ▸ hv) hev hu
          refine ⟨hn ▸ this.1, ?_⟩
          rw [htk]
          by_cases hut : u = t
          · subst hut; simp only [upd_same]; rw [h1]; exact he
          · simp only [upd_other _ _ hut]; exact this.2
      · refine ⟨hn, hpn, ?_⟩
        intro v
        rw [htk]
        by_cases hv : v = t
        · subst hv; simp only [upd_same]
          exact ⟨h1, h2, h3, h8, fun h => h7 ▸ h, by simp [h4], fun _ => h6⟩
        · simp only [upd_other _ _ hv]; exact ⟨rfl, rfl, rfl, rfl, id, id, id⟩
      · intro v hv
        rw [htk]
        by_cases hvt : v = t
        · subst hvt; simp [h5]
        · simp only [upd_other _ _ hvt]; exact hv
    by_cases hf : (s.task t).fut = true
    · rw [dropFuture_quiet _ t (by simp [hf]) (by
        intro u hu hut
        simp only [upd_same] at hu
        simp only [upd_other _ _ hut]
        obtain ⟨hun, hue⟩ := hp.targets t u ht he hu
        cases hfu : (s.task u).fut with
        | false => exact Or.inr rfl
        | true => exact Or.inl (hp.quiet u hun hue hfu).1)]
      refine key { s.task t with loc := .none, closed := true, fut := false, futDrops := (s.task t).futDrops + 1 } _ rfl rfl ?_
        rfl rfl rfl rfl rfl rfl rfl (by simp [credit, hf])
      funext v
      by_cases hv : v = t
      · subst hv; simp
      · simp [upd_other _ _ hv]
    · have hf' : (s.task t).fut = false := by simpa using hf
      rw [dropFuture_dead _ _ _ _ (by simp [hf'])]
      exact key { s.task t with loc := .none, closed := true } _ rfl rfl rfl rfl rfl rfl hf' rfl rfl rfl (by simp [credit])
  · rw [if_neg hl]
    have hl' : (s.task t).loc = .none := by simpa using hl
    refine ⟨hp, Dec.refl s, ?_, hl', fun v hv => hv⟩
    cases hf : (s.task t).fut with
    | false => rfl
    | true => exact absurd hl' (hp.quiet t ht he hf).2

theorem dropQueued_fold (e : Nat) : ∀ (l : List Nat) (s : St), P2 e s → (∀ t ∈ l, t < s.n ∧ (s.task t).exec = e) →
    Dec s (l.foldl (dropQueued none) s) ∧
    (∀ v, (s.task v).loc = .none → ((l.foldl (dropQueued none) s).task v).loc = .none) ∧
    ∀ t ∈ l, ((l.foldl (dropQueued none) s).task t).fut = false ∧ ((l.foldl (dropQueued none) s).task t).loc = .none := by
  intro l
  induction l with
  | nil => intro s _ _; exact ⟨Dec.refl s, fun v hv => hv, by simp⟩
  | cons t r ih =>
    intro s hp hl
    simp only [List.foldl_cons]
    obtain ⟨h1, h2, h3, h4, h5⟩ := dropQueued_spec e s t hp (hl t (by simp)).1 (hl t (by simp)).2
    obtain ⟨i1, i2, i3⟩ := ih (dropQueued none s t) h1 (by
      intro t' ht'
      have := hl t' (by simp [ht'])
      exact ⟨by rw [h2.1]; exact this.1, by rw [(h2.2.2 t').1]; exact this.2⟩)
    refine ⟨h2.trans i1, fun v hv => i2 v (h5 v hv), ?_⟩
    intro t' ht'
    simp at ht'
    rcases ht' with rfl | ht'
    · refine ⟨?_, i2 t' h4⟩
      cases hf : ((List.foldl (dropQueued none) (dropQueued none s t') r).task t').fut with
      | false => rfl
      | true => have := (i1.2.2 t').2.2.2.2.2.1 hf; rw [h3] at this; simp at this
    · exact i3 t' ht'

/-- an exiting worker that hands over what it holds only re-labels where the `Runnable`s are -/
theorem workerExit_spec (cfg : Cfg) (hf : cfg.handFast = true) (hl : cfg.handLocal = true) (e : Nat) (s : St) (t : Nat)
    (hq : Q e s) : Q e (workerExit cfg s t) ∧ Dec s (workerExit cfg s t) := by
  have key : ∀ s' : St, s'.n = s.n → s'.panicked = s.panicked →
      s'.task = upd s.task t { s.task t with loc := .injector } → (s.task t).loc ≠ .none → Q e s' ∧ Dec s s' := by
    intro s' hn hp htk hne
    constructor
    · constructor
      · intro v hv hev hfv
        rw [htk] at hev hfv ⊢
        by_cases hvt : v = t
        · subst hvt; simp only [upd_same] at hev hfv ⊢
          rcases hq.alive v (hn ▸ hv) hev hfv with h | ⟨h1, h2⟩
          · exact Or.inl h
          · exact Or.inr ⟨h1, by simp⟩
        · simp only [upd_other _ _ hvt] at hev hfv ⊢; exact hq.alive v (hn ▸ hv) hev hfv
      · intro v hv hev hcv
        rw [htk] at hev hcv ⊢
        by_cases hvt : v = t
        · subst hvt; simp only [upd_same]; exact Or.inr (by simp)
        · simp only [upd_other _ _ hvt] at hev hcv ⊢; exact hq.closedOk v (hn ▸ hv) hev hcv
      · intro v u hv hev hu
        rw [htk] at hev hu
        have : u < s.n ∧ (s.task u).exec = e := by
          by_cases hvt : v = t
          · subst hvt; simp only [upd_same] at hev hu; exact hq.targets v u (hn ▸ hv) hev hu
          · simp only [upd_other _ _ hvt] at hev hu; exact hq.targets v u (hn ▸ hv) hev hu
        refine ⟨hn ▸ this.1, ?_⟩
        rw [htk]
        by_cases hut : u = t
        · subst hut; simp only [upd_same]; exact this.2
        · simp only [upd_other _ _ hut]; exact this.2
    · refine ⟨hn, hp, ?_⟩
      intro v
      rw [htk]
      by_cases hv : v = t
      · subst hv; simp only [upd_same]; exact ⟨rfl, rfl, rfl, rfl, id, id, id⟩
      · simp only [upd_other _ _ hv]; exact ⟨rfl, rfl, rfl, rfl, id, id, id⟩
  unfold workerExit
  split
  · rename_i w hw
    rw [if_pos hf]
    exact key _ rfl rfl rfl (by rw [hw]; simp)
  · rename_i w hw
    rw [if_pos hl]
    exact key _ rfl rfl rfl (by rw [hw]; simp)
  · exact ⟨hq, Dec.refl s⟩

theorem workerExit_fold (cfg : Cfg) (hf : cfg.handFast = true) (hl : cfg.handLocal = true) (e : Nat) :
    ∀ (l : List Nat) (s : St), Q e s → Q e (l.foldl (workerExit cfg) s) ∧ Dec s (l.foldl (workerExit cfg) s) := by
  intro l
  induction l with
  | nil => intro s hq; exact ⟨hq, Dec.refl s⟩
  | cons t r ih =>
    intro s hq
    simp only [List.foldl_cons]
    obtain ⟨h1, h2⟩ := workerExit_spec cfg hf hl e s t hq
    obtain ⟨i1, i2⟩ := ih _ h1
    exact ⟨i1, h2.trans i2⟩

theorem mem_tasksOf (s : St) (e t : Nat) : t ∈ tasksOf s e ↔ t < s.n ∧ (s.task t).exec = e := by
  unfold tasksOf; simp

/-- **the drop sequence releases everything exactly once** -/
theorem dropExecutor_spec (cfg : Cfg) (hf : cfg.handFast = true) (hl : cfg.handLocal = true)
    (hu : cfg.unsetActive = true) (e : Nat) (outer : Option Nat) (s : St) (hq : Q e s) :
    (dropExecutor cfg e outer s).panicked = s.panicked ∧
    ∀ t, t < s.n → (s.task t).exec = e →
      ((dropExecutor cfg e outer s).task t).fut = false ∧
      ((dropExecutor cfg e outer s).task t).token = false ∧
      ((dropExecutor cfg e outer s).task t).loc = .none ∧
      ((dropExecutor cfg e outer s).task t).futDrops = (s.task t).futDrops + (if (s.task t).fut then 1 else 0) := by
  unfold dropExecutor
  simp only [hu, if_true]
  have hmem : ∀ t ∈ tasksOf s e, t < s.n ∧ (s.task t).exec = e := fun t ht => (mem_tasksOf s e t).mp ht
  obtain ⟨q0, d0⟩ := workerExit_fold cfg hf hl e (tasksOf s e) s hq
  generalize hs0 : (tasksOf s e).foldl (workerExit cfg) s = s0 at q0 d0
  have hmem0 : ∀ t ∈ tasksOf s e, t < s0.n ∧ (s0.task t).exec = e := by
    intro t ht; have := hmem t ht
    exact ⟨by rw [d0.1]; exact this.1, by rw [(d0.2.2 t).1]; exact this.2⟩
  obtain ⟨q1, d1, tok1⟩ := cancel_fold e (tasksOf s e) s0 q0 hmem0
  generalize hs1 : (tasksOf s e).foldl (cancel none) s0 = s1 at q1 d1 tok1
  have hmem1 : ∀ t ∈ tasksOf s e, t < s1.n ∧ (s1.task t).exec = e := by
    intro t ht; have := hmem0 t ht
    exact ⟨by rw [d1.1]; exact this.1, by rw [(d1.2.2 t).1]; exact this.2⟩
  have p2 : P2 e s1 := by
    constructor
    · intro v hv hev hfv
      have hvin : v ∈ tasksOf s e := by
        rw [mem_tasksOf]
        exact ⟨by rw [← d0.1, ← d1.1]; exact hv, by rw [← (d0.2.2 v).1, ← (d1.2.2 v).1]; exact hev⟩
      rcases q1.alive v hv hev hfv with h | h
      · rw [tok1 v hvin] at h; simp at h
      · exact h
    · exact q1.targets
  obtain ⟨d2, _, fin⟩ := dropQueued_fold e (tasksOf s e) s1 p2 hmem1
  generalize hs2 : (tasksOf s e).foldl (dropQueued none) s1 = s2 at d2 fin
  have dall : Dec s s2 := (d0.trans d1).trans d2
  refine ⟨dall.2.1, ?_⟩
  intro t ht he
  have htin : t ∈ tasksOf s e := (mem_tasksOf s e t).mpr ⟨ht, he⟩
  obtain ⟨f1, f2⟩ := fin t htin
  refine ⟨f1, ?_, f2, ?_⟩
  · cases htok : (s2.task t).token with
    | false => rfl
    | true => have := (d2.2.2 t).2.2.2.2.1 htok; rw [tok1 t htin] at this; simp at this
  · have hc := (dall.2.2 t).2.2.2.1
    unfold credit at hc
    rw [f1] at hc
    simpa using hc

end NexoVerif.DropM
