import NexoVerif.Lemmas.TaskStep
/-! Reachability and the safety theorems of M-TASK. -/
namespace NexoVerif.TaskM

theorem inv_step (l : Label) (s s' : S) (h : Inv s) (hs : step l s = some s') : Inv s' := by
  unfold step at hs
  split at hs
  · simp at hs
  · rename_i hl
    have hl : s.live = true := by simpa using hl
    cases l <;> simp only at hs
    · exact inv_stepWClone s s' h hl hs
    · exact inv_stepWWakeRef s s' h hl hs
    · exact inv_stepWWakeVal s s' h hl hs
    · exact inv_stepWDrop s s' h hl hs
    · exact inv_stepRStart s s' h hl hs
    · exact inv_stepRPollBegin s s' h hl hs
    · exact inv_stepRPollPending s s' h hl hs
    · exact inv_stepRPollReady s s' h hl hs
    · exact inv_stepRPollPanic s s' h hl hs
    · exact inv_stepRReadyA s s' h hl hs
    · exact inv_stepRReadyB s s' h hl hs
    · exact inv_stepRReadyC s s' h hl hs
    · exact inv_stepRReadyD s s' h hl hs
    · exact inv_stepRPend s s' h hl hs
    · exact inv_stepRDropQueued s s' h hl hs
    · exact inv_stepRCancelA s s' h hl hs
    · exact inv_stepRCancelB s s' h hl hs
    · exact inv_stepTCancel s s' h hl hs
    · exact inv_stepTDropFut s s' h hl hs
    · exact inv_stepTDecRef s s' h hl hs
    · exact inv_stepTDrop s s' h hl hs
    · exact inv_stepPPoll s s' h hl hs
    · exact inv_stepPTake s s' h hl hs
    · exact inv_stepPDrop s s' h hl hs
    · exact inv_stepFin s s' h hl hs

theorem reach_inv {s : S} (h : Reach s) : Inv s := by
  induction h with
  | spawn => exact inv_spawn
  | spawnAndForget => exact inv_spawnAndForget
  | step l _ hs ih => exact inv_step l _ _ ih hs

/-- C13 (safety part): for every interleaving of every handle operation at atomic-RMW granularity —
no protocol assumption of the code is ever violated (no poll of a missing future, no second Runnable,
no drop of an absent future/output), the future is dropped at most once, the output is released at
most once, the memory is freed at most once. -/
theorem task_safe {s : S} (h : Reach s) :
    s.bad = false ∧ s.futDrops ≤ 1 ∧ s.outDrops ≤ 1 ∧ s.frees ≤ 1 := by
  have i := reach_inv h
  refine ⟨i.nobad, ?_, ?_, ?_⟩
  · have := i.cntFut; split at this <;> omega
  · have := i.cntOut; have := i.cntFut; split at this <;> omega
  · have := i.cntFree; split at this <;> omega

/-- C13/C19 (no leak, exactly once): when every handle is gone and nobody is mid-operation, the
memory has been freed exactly once, the future dropped exactly once and the output, if one was
produced, released exactly once. -/
theorem released_once {s : S} (h : Reach s)
    (hn : s.wakers = 0 ∧ s.promise = .none ∧ s.token = .none ∧ s.run = .none ∧ s.fin = .none) :
    s.live = false ∧ s.frees = 1 ∧ s.futDrops = 1 ∧ s.outDrops = s.outMade := by
  have i := reach_inv h
  obtain ⟨h1, h2, h3, h4, h5⟩ := hn
  have hdead : s.live = false := by
    cases hl : s.live
    · rfl
    · have := i.progress hl h5
      simp [S.handles, h1, h2, h3, h4, PPc.n, TPc.n, RPc.n] at this
  have hd := i.dead hdead
  have c1 := i.cntFut; have c2 := i.cntOut; have c3 := i.cntFree
  simp [hd.2.2.2, hdead] at c1 c2 c3
  exact ⟨hdead, c3, c1, c2.1⟩

/-- C05/C13: at most one poll at a time — the poller is the unique Runnable, and a Runnable exists
exactly when the state word says so. -/
theorem runnable_iff_word {s : S} (h : Reach s) (hl : s.live = true) : (s.run = .none ↔ s.rex = false) :=
  (reach_inv h).rexIff hl

end NexoVerif.TaskM
