import NexoVerif.Lemmas.NetConfluence
/-! Sink outputs of a completed run are schedule independent as well. -/
namespace NexoVerif.Net
set_option linter.unusedSimpArgs false
set_option linter.unusedVariables false
set_option maxHeartbeats 1000000

def sinkOf : Dst → Nat
  | .sink k => k
  | _ => 0

/-- what a step does to the sink log -/
theorem step_sinks_eq {P : Prog} {l : Label} {s s' : St} (h : step P l s = some s') :
    s'.sinks = s.sinks ∨
    ∃ t i sub k, l = .push t i ∧ (s.task t).cur[i]? = some sub ∧ sub.st = .toPush ∧ sub.dst = .sink k ∧
      s'.sinks = s.sinks ++ [(k, sub.payload)] := by
  unfold step at h
  split at h
  · simp at h
  · cases l with
    | init m => simp only at h; split at h <;> first | (simp only [Option.some.injEq] at h; subst h; exact Or.inl rfl) | (simp at h)
    | spawn t ops => simp only at h; split at h <;> first | (simp only [Option.some.injEq] at h; subst h; exact Or.inl rfl) | (simp at h)
    | start t => simp only at h; split at h <;> first | (simp only [Option.some.injEq] at h; subst h; exact Or.inl rfl) | (simp at h)
    | push t i =>
      simp only at h
      split at h
      · rename_i sub hsub
        split at h
        · rename_i hst
          split at h
          · rename_i k hk
            simp only [Option.some.injEq] at h; subst h
            exact Or.inr ⟨t, i, sub, k, rfl, hsub, hst, hk, rfl⟩
          · simp only [Option.some.injEq] at h; subst h; exact Or.inl rfl
          · split at h
            · simp only [Option.some.injEq] at h; subst h; exact Or.inl rfl
            · simp at h
        · simp at h
      · simp at h
    | deliver m => simp only at h; split at h <;> first | (simp only [Option.some.injEq] at h; subst h; exact Or.inl rfl) | (simp at h)
    | opDone t => simp only at h; split at h <;> first | (simp only [Option.some.injEq] at h; subst h; exact Or.inl rfl) | (simp at h)
    | finish t =>
      simp only at h
      split at h
      · split at h <;> (simp only [Option.some.injEq] at h; subst h; exact Or.inl rfl)
      · simp at h

end NexoVerif.Net

namespace NexoVerif.Net
set_option linter.unusedSimpArgs false
set_option linter.unusedVariables false
set_option maxHeartbeats 2000000

structure KInv (s : St) (g : G) : Prop where
  log : s.sinks = g.sunk.map (fun e => (sinkOf (g.dst e), g.pl e))
  isSink : ∀ e, e ∈ g.sunk → e < s.nextEid ∧ ∃ k, g.dst e = .sink k
  nodup : g.sunk.Nodup
  notPending : ∀ e, e ∈ g.sunk → ∀ t sub, sub ∈ (s.task t).cur → sub.eid = e → sub.st ≠ .toPush
  pendingS : ∀ e k, e < s.nextEid → g.dst e = .sink k →
    (∃ t sub, sub ∈ (s.task t).cur ∧ sub.eid = e ∧ sub.st = .toPush) ∨ e ∈ g.sunk

theorem kinv_init : KInv St.init {} := by
  constructor <;> simp [St.init]

/-- steps that write to no sink, create no event and keep every pending sub-send pending -/
theorem kinv_quiet {s s' : St} {g g' : G} (h : KInv s g) (hsk : s'.sinks = s.sinks) (hsu : g'.sunk = g.sunk)
    (hn : s'.nextEid = s.nextEid) (hd : ∀ e, e < s.nextEid → g'.dst e = g.dst e ∧ g'.pl e = g.pl e)
    (hback : ∀ t y, y ∈ (s'.task t).cur → y.st = .toPush → y ∈ (s.task t).cur)
    (hfwd : ∀ e k, e < s.nextEid → g.dst e = .sink k → ∀ t y, y ∈ (s.task t).cur → y.eid = e → y.st = .toPush →
      ∃ t' y', y' ∈ (s'.task t').cur ∧ y'.eid = e ∧ y'.st = .toPush) : KInv s' g' := by
  obtain ⟨k1, k2, k3, k4, k5⟩ := h
  refine ⟨?_, ?_, by rw [hsu]; exact k3, ?_, ?_⟩
  · rw [hsk, hsu, k1]
    apply List.map_congr_left
    intro e he
    obtain ⟨h1, h2⟩ := hd e (k2 e he).1
    rw [h1, h2]
  · intro e he; rw [hsu] at he
    obtain ⟨h1, k, hk⟩ := k2 e he
    exact ⟨by rw [hn]; exact h1, k, by rw [(hd e h1).1]; exact hk⟩
  · intro e he t y hy hye hst; rw [hsu] at he
    exact k4 e he t y (hback t y hy hst) hye hst
  · intro e k he hk
    rw [hn] at he
    rw [(hd e he).1] at hk
    rcases k5 e k he hk with ⟨t, y, hy, hye, hys⟩ | hr
    · exact Or.inl (hfwd e k he hk t y hy hye hys)
    · exact Or.inr (by rw [hsu]; exact hr)

theorem gstep_sunk_same (P : Prog) (l : Label) (s : St) (g : G) (h : ∀ t i, l ≠ .push t i) : (gstep P l s g).sunk = g.sunk := by
  cases l with
  | init m => rfl
  | spawn t ops => rfl
  | start t => simp only [gstep]; split <;> rfl
  | push t i => exact absurd rfl (h t i)
  | deliver m => simp only [gstep]; split <;> rfl
  | opDone t => rfl
  | finish t => rfl

theorem gstep_meta_same (P : Prog) (l : Label) (s : St) (g : G) (h : ∀ t, l ≠ .start t) :
    (gstep P l s g).dst = g.dst ∧ (gstep P l s g).pl = g.pl := by
  cases l with
  | init m => exact ⟨rfl, rfl⟩
  | spawn t ops => exact ⟨rfl, rfl⟩
  | start t => exact absurd rfl (h t)
  | push t i =>
    obtain ⟨x, hx⟩ := gstep_push_eq P s g t i
    rw [hx]; exact ⟨rfl, rfl⟩
  | deliver m => simp only [gstep]; split <;> exact ⟨rfl, rfl⟩
  | opDone t => exact ⟨rfl, rfl⟩
  | finish t => exact ⟨rfl, rfl⟩

theorem kinv_step (P : Prog) (l : Label) (s s' : St) (g : G) (hF : FInv s) (hB : BInv s g) (h : KInv s g)
    (hs : step P l s = some s') : KInv s' (gstep P l s g) := by
  cases l with
  | init m =>
    obtain ⟨_, _, _, htask, _, _, _, hn, _, _, _⟩ := step_init_eq hs
    have hsk : s'.sinks = s.sinks := by rcases step_sinks_eq hs with h | ⟨_, _, _, _, h, _⟩; exact h; simp at h
    have hcur : ∀ t, (s'.task t).cur = (s.task t).cur := by
      intro t; rw [htask]; by_cases ht : t = m
      · subst ht; simp
      · simp [upd_other _ _ ht]
    exact kinv_quiet h hsk (gstep_sunk_same P _ s g (by simp)) hn (fun e _ => by
        obtain ⟨a, b⟩ := gstep_meta_same P (.init m) s g (by simp); rw [a, b]; exact ⟨rfl, rfl⟩)
      (fun t y hy _ => hcur t ▸ hy) (fun e k _ _ t y hy hye hys => ⟨t, y, (hcur t).symm ▸ hy, hye, hys⟩)
  | spawn t0 ops =>
    obtain ⟨_, _, _, htask, sl, _⟩ := step_spawn_eq hs
    have hsk : s'.sinks = s.sinks := by rcases step_sinks_eq hs with h | ⟨_, _, _, _, h, _⟩; exact h; simp at h
    have hcur : ∀ t, (s'.task t).cur = (s.task t).cur := by
      intro t; rw [htask]; by_cases ht : t = t0
      · subst ht; simp
      · simp [upd_other _ _ ht]
    exact kinv_quiet h hsk (gstep_sunk_same P _ s g (by simp)) sl.nextEid (fun e _ => by
        obtain ⟨a, b⟩ := gstep_meta_same P (.spawn t0 ops) s g (by simp); rw [a, b]; exact ⟨rfl, rfl⟩)
      (fun t y hy _ => hcur t ▸ hy) (fun e k _ _ t y hy hye hys => ⟨t, y, (hcur t).symm ▸ hy, hye, hys⟩)
  | deliver m =>
    obtain ⟨p, ps, _, hmb, htask, _, _, _, _, hn, _⟩ := step_deliver_eq hs
    have hsk : s'.sinks = s.sinks := by rcases step_sinks_eq hs with h | ⟨_, _, _, _, h, _⟩; exact h; simp at h
    have hcur : ∀ t, (s'.task t).cur = (s.task t).cur := by
      intro t; rw [htask]; by_cases ht : t = m
      · subst ht; simp
      · simp [upd_other _ _ ht]
    exact kinv_quiet h hsk (gstep_sunk_same P _ s g (by simp)) hn (fun e _ => by
        obtain ⟨a, b⟩ := gstep_meta_same P (.deliver m) s g (by simp); rw [a, b]; exact ⟨rfl, rfl⟩)
      (fun t y hy _ => hcur t ▸ hy) (fun e k _ _ t y hy hye hys => ⟨t, y, (hcur t).symm ▸ hy, hye, hys⟩)
  | opDone t0 =>
    obtain ⟨_, _, hall, htask, sl, _⟩ := step_opDone_eq hs
    have hsk : s'.sinks = s.sinks := by rcases step_sinks_eq hs with h | ⟨_, _, _, _, h, _⟩; exact h; simp at h
    refine kinv_quiet h hsk (gstep_sunk_same P _ s g (by simp)) sl.nextEid (fun e _ => by
        obtain ⟨a, b⟩ := gstep_meta_same P (.opDone t0) s g (by simp); rw [a, b]; exact ⟨rfl, rfl⟩) ?_ ?_
    · intro t y hy _; rw [htask] at hy
      by_cases ht : t = t0
      · subst ht; simp at hy
      · simpa only [upd_other _ _ ht] using hy
    · intro e k _ _ t y hy hye hys
      by_cases ht : t = t0
      · subst ht
        have := (List.all_eq_true.mp hall) y hy
        unfold Sub.done at this; rw [hys] at this
        split at this <;> simp at this
      · exact ⟨t, y, by rw [htask]; simp only [upd_other _ _ ht]; exact hy, hye, hys⟩
  | finish t0 =>
    obtain ⟨_, hcur, _, _, hcur', hoth, sl, _⟩ := step_finish_eq hs
    have hsk : s'.sinks = s.sinks := by rcases step_sinks_eq hs with h | ⟨_, _, _, _, h, _⟩; exact h; simp at h
    refine kinv_quiet h hsk (gstep_sunk_same P _ s g (by simp)) sl.nextEid (fun e _ => by
        obtain ⟨a, b⟩ := gstep_meta_same P (.finish t0) s g (by simp); rw [a, b]; exact ⟨rfl, rfl⟩) ?_ ?_
    · intro t y hy hst
      by_cases ht : t = t0
      · subst ht; rw [hcur'] at hy; simp at hy
      · exact (hoth t ht).2.2.2.2.1 y hy hst
    · intro e k _ _ t y hy hye hys
      by_cases ht : t = t0
      · subst ht; rw [hcur] at hy; simp at hy
      · exact ⟨t, y, (hoth t ht).2.2.2.2.2 y hy hys, hye, hys⟩
  | start t0 =>
    obtain ⟨op, ops, _, hcur, hrest, htask, hn, _, _, _, _, _, _⟩ := step_start_eq hs
    obtain ⟨k1, k2, k3, k4, k5⟩ := h
    have hsk : s'.sinks = s.sinks := by rcases step_sinks_eq hs with h | ⟨_, _, _, _, h, _⟩; exact h; simp at h
    have hsu : (gstep P (.start t0) s g).sunk = g.sunk := gstep_sunk_same P _ s g (by simp)
    have hold : ∀ e, e < s.nextEid → decide (s.nextEid ≤ e ∧ e < s.nextEid + op.length) = false := by
      intro e he; simp; omega
    have hnew : ∀ e, s.nextEid ≤ e → e < s.nextEid + op.length → decide (s.nextEid ≤ e ∧ e < s.nextEid + op.length) = true := by
      intro e h1 h2; simp; omega
    have gdst_old : ∀ e, e < s.nextEid → (gstep P (.start t0) s g).dst e = g.dst e := by
      intro e he; simp only [gstep, hrest, hold e he, Bool.false_eq_true, if_false]
    have gpl_old : ∀ e, e < s.nextEid → (gstep P (.start t0) s g).pl e = g.pl e := by
      intro e he; simp only [gstep, hrest, hold e he, Bool.false_eq_true, if_false]
    refine ⟨?_, ?_, by rw [hsu]; exact k3, ?_, ?_⟩
    · rw [hsk, hsu, k1]
      apply List.map_congr_left
      intro e he
      rw [gdst_old e (k2 e he).1, gpl_old e (k2 e he).1]
    · intro e he; rw [hsu] at he
      obtain ⟨h1, k, hk⟩ := k2 e he
      exact ⟨by omega, k, by rw [gdst_old e h1]; exact hk⟩
    · intro e he t y hy hye hst
      rw [hsu] at he
      rw [htask] at hy
      by_cases ht : t = t0
      · subst ht
        simp at hy
        obtain ⟨j, _, _, _, _, hje, _⟩ := mem_mkSubs hy
        have := (k2 e he).1
        omega
      · simp only [upd_other _ _ ht] at hy; exact k4 e he t y hy hye hst
    · intro e k he hk
      rw [hn] at he
      by_cases o1 : e < s.nextEid
      · rw [gdst_old e o1] at hk
        rcases k5 e k o1 hk with ⟨t, y, hy, hye, hys⟩ | hr
        · have ht : t ≠ t0 := by intro h; subst h; rw [hcur] at hy; simp at hy
          exact Or.inl ⟨t, y, by rw [htask]; simp only [upd_other _ _ ht]; exact hy, hye, hys⟩
        · exact Or.inr (by rw [hsu]; exact hr)
      · have hjl : e - s.nextEid < op.length := by omega
        obtain ⟨⟨dd, pp, qq⟩, hget⟩ : ∃ x, op[e - s.nextEid]? = some x := ⟨_, List.getElem?_eq_getElem hjl⟩
        obtain ⟨sub, hsubm, h1, _, _, h4⟩ := mkSubs_nth (e := s.nextEid) hget
        exact Or.inl ⟨t0, sub, by rw [htask]; simp; exact hsubm, by omega, h4⟩
  | push t0 i =>
    obtain ⟨sub, hsub, hst, hcase⟩ := step_push_eq hs
    have hsubm : sub ∈ (s.task t0).cur := List.mem_of_getElem? hsub
    have hsb := hB.subs t0 sub hsubm
    have hmeta := gstep_meta_same P (.push t0 i) s g (by simp)
    -- the task table after a push that succeeds
    have after : ∀ (tk : Nat → Task), tk = upd s.task t0 { s.task t0 with cur := setSt (s.task t0).cur i .pushed } →
        (∀ t y, y ∈ (tk t).cur → y.st = .toPush → y ∈ (s.task t).cur ∧ y.eid ≠ sub.eid) ∧
        (∀ t y, y ∈ (s.task t).cur → y.eid ≠ sub.eid → y.st = .toPush → ∃ y', y' ∈ (tk t).cur ∧ y'.eid = y.eid ∧ y'.st = .toPush) := by
      intro tk htk; subst htk
      constructor
      · intro t y hy hys
        by_cases ht : t = t0
        · subst ht; simp at hy
          exact setSt_pending hsub (hF.nodup t) hy (by simp) hys
        · simp only [upd_other _ _ ht] at hy
          refine ⟨hy, ?_⟩
          intro heq
          have h1 : y.eid ∈ eids s t := List.mem_map_of_mem hy
          have h2 : sub.eid ∈ eids s t0 := List.mem_map_of_mem hsubm
          rw [heq] at h1
          exact ht (hF.disj t t0 _ h1 h2)
      · intro t y hy hne hys
        by_cases ht : t = t0
        · subst ht
          exact ⟨y, by simp; exact mem_setSt_of_ne hy hsub hne, rfl, hys⟩
        · exact ⟨y, by simp only [upd_other _ _ ht]; exact hy, rfl, hys⟩
    obtain ⟨k1, k2, k3, k4, k5⟩ := h
    rcases hcase with ⟨k, hk, htask, sl, _⟩ | ⟨k, hk, htask, sl, _⟩ | ⟨d, hd, hcap, htask, hmb, ha, hh, hhp, hn, hin, _⟩
    · -- a write to sink k
      obtain ⟨a1, a2⟩ := after s'.task htask
      have hsk : s'.sinks = s.sinks ++ [(k, sub.payload)] := by
        rcases step_sinks_eq hs with h | ⟨t, i', sub', k', hl, hs1, _, hk', h⟩
        · -- impossible: the push wrote to a sink
          unfold step at hs
          split at hs
          · simp at hs
          · simp only [hsub, hst, if_true, hk] at hs
            simp only [Option.some.injEq] at hs; subst hs; simp at h
        · simp at hl; obtain ⟨rfl, rfl⟩ := hl
          rw [hsub] at hs1; simp at hs1; subst hs1
          rw [hk] at hk'; simp at hk'; subst hk'
          exact h
      have hsu : (gstep P (.push t0 i) s g).sunk = g.sunk ++ [sub.eid] := by simp only [gstep, hsub, hst, if_true, hk]
      have hnotin : sub.eid ∉ g.sunk := fun hin' => k4 sub.eid hin' t0 sub hsubm rfl hst
      refine ⟨?_, ?_, ?_, ?_, ?_⟩
      · rw [hsk, hsu, hmeta.1, hmeta.2, k1]; simp [hsb.2.1, hsb.2.2, hk, sinkOf]
      · intro e he; rw [hsu] at he; rw [sl.nextEid, hmeta.1]
        simp at he
        rcases he with he | rfl
        · exact k2 e he
        · exact ⟨hsb.1, k, by rw [hsb.2.1, hk]⟩
      · rw [hsu, List.nodup_append]
        refine ⟨k3, by simp, ?_⟩
        intro a ha' b hb; simp at hb; subst hb; intro hab; subst hab; exact hnotin ha'
      · intro e he t y hy hye hys
        rw [hsu] at he; simp at he
        obtain ⟨y1, y2⟩ := a1 t y hy hys
        rcases he with he | rfl
        · exact k4 e he t y y1 hye hys
        · exact y2 hye
      · intro e k' he hk'
        rw [sl.nextEid] at he; rw [hmeta.1] at hk'; rw [hsu]
        by_cases hee : e = sub.eid
        · right; simp [hee]
        · rcases k5 e k' he hk' with ⟨t, y, hy, hye, hys⟩ | hr
          · obtain ⟨y', h1, h2, h3⟩ := a2 t y hy (by rw [hye]; exact hee) hys
            exact Or.inl ⟨t, y', h1, by rw [h2, hye], h3⟩
          · right; simp [hr]
    · -- a send to a dropped mailbox: the run stops
      have hsk : s'.sinks = s.sinks := by
        rcases step_sinks_eq hs with h | ⟨t, i', sub', k', hl, hs1, _, hk', h⟩
        · exact h
        · simp at hl; obtain ⟨rfl, rfl⟩ := hl
          rw [hsub] at hs1; simp at hs1; subst hs1
          rw [hk] at hk'; simp at hk'
      have hsu : (gstep P (.push t0 i) s g).sunk = g.sunk := by simp only [gstep, hsub, hst, if_true, hk]
      exact kinv_quiet ⟨k1, k2, k3, k4, k5⟩ hsk hsu sl.nextEid (fun e _ => by rw [hmeta.1, hmeta.2]; exact ⟨rfl, rfl⟩)
        (fun t y hy _ => by rw [htask] at hy; exact hy)
        (fun e k' _ _ t y hy hye hys => ⟨t, y, by rw [htask]; exact hy, hye, hys⟩)
    · obtain ⟨a1, a2⟩ := after s'.task htask
      have hsk : s'.sinks = s.sinks := by
        rcases step_sinks_eq hs with h | ⟨t, i', sub', k', hl, hs1, _, hk', h⟩
        · exact h
        · simp at hl; obtain ⟨rfl, rfl⟩ := hl
          rw [hsub] at hs1; simp at hs1; subst hs1
          rw [hd] at hk'; simp at hk'
      have hsu : (gstep P (.push t0 i) s g).sunk = g.sunk := by simp only [gstep, hsub, hst, if_true, hd]
      refine kinv_quiet ⟨k1, k2, k3, k4, k5⟩ hsk hsu hn (fun e _ => by rw [hmeta.1, hmeta.2]; exact ⟨rfl, rfl⟩)
        (fun t y hy hys => (a1 t y hy hys).1) ?_
      intro e k' he hk' t y hy hye hys
      have hne : y.eid ≠ sub.eid := by
        intro heq
        rw [hye] at heq; rw [heq, hsb.2.1, hd] at hk'; simp at hk'
      obtain ⟨y', h1, h2, h3⟩ := a2 t y hy hne hys
      exact ⟨t, y', h1, by rw [h2, hye], h3⟩

end NexoVerif.Net

namespace NexoVerif.Net
set_option linter.unusedSimpArgs false
set_option linter.unusedVariables false

theorem xreach_kinv (P : Prog) {x : St × G} (h : XReach P x) : KInv x.1 x.2 := by
  induction h with
  | init => exact kinv_init
  | @step x0 x1 l hx hs ih =>
    have hr := xreach_reach P hx
    unfold xstep at hs
    split at hs
    · rename_i s' hst
      simp only [Option.some.injEq] at hs; subst hs
      exact kinv_step P l _ _ _ (reach_finv P hr) (xreach_invs P hx).1 ih hst
    · simp at hs

/-- the sink writes of a run, with their paths: (path, sink, payload) in write order -/
def sunkEvs (x : St × G) : List (List Nat × Nat × Nat) := x.2.sunk.map (fun e => (x.2.path e, sinkOf (x.2.dst e), x.2.pl e))

theorem sunkEvs_sound (P : Prog) {x : St × G} (h : XReach P x) :
    ∀ π k p, (π, k, p) ∈ sunkEvs x → Due P x.2.roots π (.sink k) p := by
  obtain ⟨hB, hU, _⟩ := xreach_invs P h
  have hK := xreach_kinv P h
  intro π k p hmem
  obtain ⟨e, hin, heq⟩ := List.mem_map.mp hmem
  simp at heq
  obtain ⟨rfl, rfl, rfl⟩ := heq
  obtain ⟨he, k', hk'⟩ := hK.isSink e hin
  have := hU.sound e he
  rw [hk'] at this ⊢
  exact this

theorem sunkEvs_nodup (P : Prog) {x : St × G} (h : XReach P x) : (sunkEvs x).Nodup := by
  obtain ⟨hB, hU, _⟩ := xreach_invs P h
  have hK := xreach_kinv P h
  unfold sunkEvs
  apply nodup_map_of_inj_on _ _ hK.nodup
  intro a ha b hb hab
  simp at hab
  exact hU.inj a b (hK.isSink a ha).1 (hK.isSink b hb).1 hab.1

theorem sunkEvs_complete (P : Prog) {x : St × G} (h : XReach P x) (hc : Completed P x.1) (hcap : ∀ d, 1 ≤ P.cap d) :
    ∀ π k p, Due P x.2.roots π (.sink k) p → (π, k, p) ∈ sunkEvs x := by
  obtain ⟨hB, hU, hD⟩ := xreach_invs P h
  have hK := xreach_kinv P h
  have hr := xreach_reach P h
  have hW := reach_winv P hr
  have hN := reach_iinv P hr
  obtain ⟨hf, hq, hcnt⟩ := hc
  have hnobusy := quiescent_ok_no_busy P hr hf hq hcnt hcap
  have hchildren : ∀ π ops, (π, ops) ∈ x.2.inv → ∀ k' op j k p q, ops[k']? = some op → op[j]? = some (.sink k, p, q) →
      (π ++ [k', j], k, p) ∈ sunkEvs x := by
    intro π ops hin k' op j k p q hk hj
    obtain ⟨e, he, h1, h2, h3⟩ := hD.created π ops hin k' op j (.sink k) p q hk hj
      (fun t ht _ => absurd ht (hnobusy t))
    rcases hK.pendingS e k he h2 with ⟨t, sub, hsub, _, _⟩ | hs
    · have := hW.idleEmpty t (hnobusy t)
      rw [this] at hsub; simp at hsub
    · exact List.mem_map.mpr ⟨e, hs, by simp [h1, h2, h3, sinkOf]⟩
  intro π k p hd
  match hd with
  | .spawn i k' j ops op _ _ q h1 h2 h3 => exact hchildren [1, i] ops (hD.invSpawn i ops h1) k' op j k p q h2 h3
  | .init m k' j op _ _ q h1 h2 h3 h4 =>
    have hm : m ∈ x.1.inits := by
      apply (hN.started m h1).mpr
      intro hph
      have := hq (.init m)
      simp [step, hf, hph, h1, h2] at this
    exact hchildren [0, m] (P.initOps m) (hD.invInit m hm) k' op j k p q h3 h4
  | .child π0 m p0 k' j op _ _ q h1 h2 h3 =>
    have := evs_complete P h ⟨hf, hq, hcnt⟩ hcap π0 m p0 h1
    obtain ⟨⟨m', e0⟩, hin, heq⟩ := List.mem_map.mp this
    simp at heq
    obtain ⟨rfl, rfl, rfl⟩ := heq
    exact hchildren _ _ (hD.invHandled m' e0 hin) k' op j k p q h2 h3

/-- **two completed runs of the same program from the same driver requests have written the same events to the sinks** -/
theorem completed_runs_agree_on_sinks (P : Prog) {x1 x2 : St × G} (h1 : XReach P x1) (h2 : XReach P x2)
    (c1 : Completed P x1.1) (c2 : Completed P x2.1) (hcap : ∀ d, 1 ≤ P.cap d) (hroots : x1.2.roots = x2.2.roots) :
    x1.1.sinks.Perm x2.1.sinks := by
  have hp : (sunkEvs x1).Perm (sunkEvs x2) := by
    rw [List.perm_ext_iff_of_nodup (sunkEvs_nodup P h1) (sunkEvs_nodup P h2)]
    intro a
    obtain ⟨π, k, p⟩ := a
    constructor
    · intro ha; exact sunkEvs_complete P h2 c2 hcap π k p (hroots ▸ sunkEvs_sound P h1 π k p ha)
    · intro ha; exact sunkEvs_complete P h1 c1 hcap π k p (hroots ▸ sunkEvs_sound P h2 π k p ha)
  have e1 : x1.1.sinks = (sunkEvs x1).map (fun a => (a.2.1, a.2.2)) := by
    rw [(xreach_kinv P h1).log]; unfold sunkEvs; rw [List.map_map]; rfl
  have e2 : x2.1.sinks = (sunkEvs x2).map (fun a => (a.2.1, a.2.2)) := by
    rw [(xreach_kinv P h2).log]; unfold sunkEvs; rw [List.map_map]; rfl
  rw [e1, e2]
  exact hp.map _

end NexoVerif.Net
