import NexoVerif.Model.Abort
/-! M-ABORT: the invariant, progress once the unparks are done, and the two counter-models. -/
namespace NexoVerif.Abort

def covered (s : St) (j : Nat) : Prop :=
  match s.agent with
  | .idle => False
  | .unparking k => j < k
  | .done => True

def waiting (p : WPc) : Prop := p = .head ∨ p = .parking ∨ p = .parked ∨ p = .run

structure Inv (s : St) : Prop where
  flags : s.abortFirst = true ∧ s.unparkAll = true
  set : s.agent ≠ .idle → s.abort = true
  tok : ∀ j, j < s.n → covered s j → waiting (s.pc j) → s.tok j = true

theorem inv_init (n pc tok) : Inv (St.init n pc tok true true) :=
  ⟨⟨rfl, rfl⟩, fun h => absurd rfl h, fun j _ c => by simp [covered, St.init] at c⟩

theorem inv_step {s s' : St} (l : Label) (i : Inv s) (h : step l s = some s') : Inv s' := by
  obtain ⟨⟨f1, f2⟩, hset, htok⟩ := i
  cases l with
  | wDecidePark w =>
    simp only [step] at h; split at h <;> simp at h
    subst h
    refine ⟨⟨f1, f2⟩, hset, fun j hj c wt => ?_⟩
    by_cases e : j = w
    · subst e; exact htok j hj c (by rename_i hh; simp [waiting, hh.2])
    · simp only [upd_other _ _ _ _ e] at wt; exact htok j hj c wt
  | wSkipPark w =>
    simp only [step] at h; split at h <;> simp at h
    subst h
    refine ⟨⟨f1, f2⟩, hset, fun j hj c wt => ?_⟩
    by_cases e : j = w
    · subst e; simp [waiting] at wt
    · simp only [upd_other _ _ _ _ e] at wt; exact htok j hj c wt
  | wPark w =>
    simp only [step] at h; split at h <;> (try split at h) <;> simp at h
    · subst h
      refine ⟨⟨f1, f2⟩, hset, fun j hj c wt => ?_⟩
      by_cases e : j = w
      · subst e; simp [waiting] at wt
      · simp only [upd_other _ _ _ _ e] at wt ⊢; exact htok j hj c wt
    · subst h
      rename_i hh ht
      refine ⟨⟨f1, f2⟩, hset, fun j hj c wt => ?_⟩
      by_cases e : j = w
      · subst e; exact htok j hj c (by simp [waiting, hh.2])
      · simp only [upd_other _ _ _ _ e] at wt; exact htok j hj c wt
  | wWake w =>
    simp only [step] at h; split at h <;> simp at h
    subst h
    refine ⟨⟨f1, f2⟩, hset, fun j hj c wt => ?_⟩
    by_cases e : j = w
    · subst e; simp [waiting] at wt
    · simp only [upd_other _ _ _ _ e] at wt ⊢; exact htok j hj c wt
  | wCheck w =>
    simp only [step] at h; split at h <;> simp at h
    subst h
    refine ⟨⟨f1, f2⟩, hset, fun j hj c wt => ?_⟩
    by_cases e : j = w
    · subst e
      have ha : s.abort = true := hset (by intro q; simp [covered, q] at c)
      simp [waiting, ha] at wt
    · simp only [upd_other _ _ _ _ e] at wt; exact htok j hj c wt
  | wTask w =>
    simp only [step] at h; split at h <;> simp at h
    subst h
    refine ⟨⟨f1, f2⟩, hset, fun j hj c wt => ?_⟩
    by_cases e : j = w
    · subst e
      have ha : s.abort = true := hset (by intro q; simp [covered, q] at c)
      simp [waiting, ha] at wt
    · simp only [upd_other _ _ _ _ e] at wt; exact htok j hj c wt
  | wRunDone w =>
    simp only [step] at h; split at h <;> simp at h
    subst h
    rename_i hh
    refine ⟨⟨f1, f2⟩, hset, fun j hj c wt => ?_⟩
    by_cases e : j = w
    · subst e; exact htok j hj c (by simp [waiting, hh.2])
    · simp only [upd_other _ _ _ _ e] at wt; exact htok j hj c wt
  | extraUnpark w =>
    simp only [step] at h; split at h <;> simp at h
    subst h
    refine ⟨⟨f1, f2⟩, hset, fun j hj c wt => ?_⟩
    by_cases e : j = w
    · subst e; simp
    · simp only [upd_other _ _ _ _ e]; exact htok j hj c wt
  | aStart =>
    simp only [step] at h; split at h <;> simp at h
    subst h
    exact ⟨⟨f1, f2⟩, fun _ => by simp [f1], fun j hj c => by simp [covered] at c⟩
  | aUnpark =>
    simp only [step] at h
    split at h
    · rename_i k hk
      split at h
      · rename_i hkn
        simp only [f2, Bool.true_or, if_true] at h
        simp at h; subst h
        refine ⟨⟨f1, rfl⟩, fun _ => hset (by simp [hk]), fun j hj c wt => ?_⟩
        simp only [covered] at c
        by_cases e : j = k
        · subst e; simp
        · simp only [upd_other _ _ _ _ e]
          exact htok j hj (by simp only [covered, hk]; omega) wt
      · simp at h; subst h
        exact ⟨⟨f1, f2⟩, fun _ => hset (by simp [hk]), fun j hj c wt => htok j hj (by simp only [covered, hk]; simp only at hj; omega) wt⟩
    · simp at h
  | aSetLate =>
    simp only [step] at h; split at h <;> simp at h
    subst h
    rename_i hh
    exact ⟨⟨f1, f2⟩, fun _ => rfl, fun j hj c wt => htok j hj (by simp [covered, hh.1]) wt⟩

theorem inv_reach {n : Nat} {s : St} (r : Reach n true true s) : Inv s := by
  induction r with
  | init pc tok _ => exact inv_init n pc tok
  | step l _ h ih => exact inv_step l ih h


/-! ### once the unparks are done, nobody is stuck and everybody gets closer to leaving -/

/-- the steps of worker `j` -/
def isWorkerStep (l : Label) (j : Nat) : Prop :=
  l = .wDecidePark j ∨ l = .wSkipPark j ∨ l = .wPark j ∨ l = .wWake j ∨ l = .wCheck j ∨ l = .wTask j ∨ l = .wRunDone j

def dist (s : St) : Nat := total s.n (fun k => rank (s.pc k))

theorem worker_can_move {s : St} (i : Inv s) (hd : s.agent = .done) (j : Nat) (hj : j < s.n) (hne : s.pc j ≠ .exited) :
    ∃ l, isWorkerStep l j ∧ (step l s).isSome = true := by
  cases hp : s.pc j with
  | head => exact ⟨.wSkipPark j, by simp [isWorkerStep], by simp [step, hj, hp]⟩
  | parking =>
    refine ⟨.wPark j, by simp [isWorkerStep], ?_⟩
    simp only [step, hj, hp, and_self, if_true]
    split <;> rfl
  | parked =>
    have ht := i.tok j hj (by simp [covered, hd]) (by simp [waiting, hp])
    exact ⟨.wWake j, by simp [isWorkerStep], by simp [step, hj, hp, ht]⟩
  | check => exact ⟨.wCheck j, by simp [isWorkerStep], by simp [step, hj, hp]⟩
  | run => exact ⟨.wTask j, by simp [isWorkerStep], by simp [step, hj, hp]⟩
  | exited => exact absurd hp hne

theorem total_upd_lt (n : Nat) (f : Nat → Nat) (j v : Nat) (hj : j < n) (hv : v < f j) :
    total n (upd f j v) < total n f := by
  induction n with
  | zero => omega
  | succ n ih =>
    simp only [total]
    by_cases e : j = n
    · subst e
      have : total j (upd f j v) = total j f := by
        clear ih hj
        suffices h : ∀ m, m ≤ j → total m (upd f j v) = total m f from h j (Nat.le_refl _)
        intro m hm
        induction m with
        | zero => rfl
        | succ m ihm => simp only [total]; rw [ihm (by omega), upd_other _ _ _ _ (by omega)]
      rw [this, upd_same]; omega
    · have := ih (by omega)
      rw [upd_other _ _ _ _ (Ne.symm e)]; omega

theorem rank_upd (pc : Nat → WPc) (j : Nat) (v : WPc) :
    (fun k => rank (upd pc j v k)) = upd (fun k => rank (pc k)) j (rank v) := by
  funext k
  by_cases e : k = j
  · subst e; simp
  · simp [upd_other _ _ _ _ e]

theorem worker_step_gets_closer {s s' : St} (i : Inv s) (hd : s.agent = .done) (l : Label) (j : Nat)
    (hl : isWorkerStep l j) (h : step l s = some s') : dist s' < dist s ∧ s'.agent = .done := by
  have ha : s.abort = true := i.set (by simp [hd])
  unfold dist
  rcases hl with e | e | e | e | e | e | e <;> subst e <;> simp only [step] at h
  · split at h <;> simp at h
    subst h; rename_i hh
    exact ⟨by simp only [rank_upd]; exact total_upd_lt _ _ _ _ hh.1 (by simp [hh.2, rank]), hd⟩
  · split at h <;> simp at h
    subst h; rename_i hh
    exact ⟨by simp only [rank_upd]; exact total_upd_lt _ _ _ _ hh.1 (by simp [hh.2, rank]), hd⟩
  · split at h <;> (try split at h) <;> simp at h
    · subst h; rename_i hh _
      exact ⟨by simp only [rank_upd]; exact total_upd_lt _ _ _ _ hh.1 (by simp [hh.2, rank]), hd⟩
    · subst h; rename_i hh ht
      have := i.tok j hh.1 (by simp [covered, hd]) (by simp [waiting, hh.2])
      exact absurd this ht
  · split at h <;> simp at h
    subst h; rename_i hh
    exact ⟨by simp only [rank_upd]; exact total_upd_lt _ _ _ _ hh.1 (by simp [hh.2.1, rank]), hd⟩
  · split at h <;> simp at h
    subst h; rename_i hh
    exact ⟨by simp only [rank_upd]; exact total_upd_lt _ _ _ _ hh.1 (by simp [hh.2, rank]), hd⟩
  · split at h <;> simp at h
    subst h; rename_i hh
    exact ⟨by simp only [rank_upd]; exact total_upd_lt _ _ _ _ hh.1 (by simp [hh.2, rank]), hd⟩
  · split at h <;> simp at h
    subst h; rename_i hh
    exact ⟨by simp only [rank_upd]; exact total_upd_lt _ _ _ _ hh.1 (by simp [hh.2, rank]), hd⟩

/-- what else can happen once the unparks are done: somebody unparks somebody — no worker moves -/
theorem other_steps_move_no_worker {s s' : St} (i : Inv s) (hd : s.agent = .done) (l : Label)
    (hl : ∀ j, ¬ isWorkerStep l j) (h : step l s = some s') : s'.pc = s.pc ∧ s'.n = s.n ∧ s'.agent = .done := by
  have ha : s.abort = true := i.set (by simp [hd])
  cases l with
  | extraUnpark w => simp only [step] at h; split at h <;> simp at h; subst h; exact ⟨rfl, rfl, hd⟩
  | aStart => simp [step, hd] at h
  | aUnpark => simp [step, hd] at h
  | aSetLate => simp [step, hd, ha] at h
  | wDecidePark w => exact absurd (by simp [isWorkerStep]) (hl w)
  | wSkipPark w => exact absurd (by simp [isWorkerStep]) (hl w)
  | wPark w => exact absurd (by simp [isWorkerStep]) (hl w)
  | wWake w => exact absurd (by simp [isWorkerStep]) (hl w)
  | wCheck w => exact absurd (by simp [isWorkerStep]) (hl w)
  | wTask w => exact absurd (by simp [isWorkerStep]) (hl w)
  | wRunDone w => exact absurd (by simp [isWorkerStep]) (hl w)

theorem dist_zero {s : St} (h : dist s = 0) : ∀ j, j < s.n → s.pc j = .exited := by
  unfold dist at h
  suffices g : ∀ m, total m (fun k => rank (s.pc k)) = 0 → ∀ j, j < m → s.pc j = .exited from g s.n h
  intro m
  induction m with
  | zero => intro _ j hj; omega
  | succ m ih =>
    intro hm j hj
    simp only [total] at hm
    by_cases e : j = m
    · subst e
      have : rank (s.pc j) = 0 := by omega
      cases hp : s.pc j <;> simp [hp, rank] at this
      rfl
    · exact ih (by omega) j (by omega)


/-- every step that is possible once the unparks are done -/
theorem step_after_done {s s' : St} (i : Inv s) (hd : s.agent = .done) (l : Label) (h : step l s = some s') :
    (∃ j, isWorkerStep l j ∧ dist s' < dist s ∧ s'.agent = .done) ∨ (s'.pc = s.pc ∧ s'.n = s.n ∧ s'.agent = .done) := by
  cases l with
  | wDecidePark w => exact Or.inl ⟨w, by simp [isWorkerStep], worker_step_gets_closer i hd _ w (by simp [isWorkerStep]) h⟩
  | wSkipPark w => exact Or.inl ⟨w, by simp [isWorkerStep], worker_step_gets_closer i hd _ w (by simp [isWorkerStep]) h⟩
  | wPark w => exact Or.inl ⟨w, by simp [isWorkerStep], worker_step_gets_closer i hd _ w (by simp [isWorkerStep]) h⟩
  | wWake w => exact Or.inl ⟨w, by simp [isWorkerStep], worker_step_gets_closer i hd _ w (by simp [isWorkerStep]) h⟩
  | wCheck w => exact Or.inl ⟨w, by simp [isWorkerStep], worker_step_gets_closer i hd _ w (by simp [isWorkerStep]) h⟩
  | wTask w => exact Or.inl ⟨w, by simp [isWorkerStep], worker_step_gets_closer i hd _ w (by simp [isWorkerStep]) h⟩
  | wRunDone w => exact Or.inl ⟨w, by simp [isWorkerStep], worker_step_gets_closer i hd _ w (by simp [isWorkerStep]) h⟩
  | extraUnpark w => exact Or.inr (other_steps_move_no_worker i hd _ (by simp [isWorkerStep]) h)
  | aStart => exact Or.inr (other_steps_move_no_worker i hd _ (by simp [isWorkerStep]) h)
  | aUnpark => exact Or.inr (other_steps_move_no_worker i hd _ (by simp [isWorkerStep]) h)
  | aSetLate => exact Or.inr (other_steps_move_no_worker i hd _ (by simp [isWorkerStep]) h)

theorem reach_runLabels {n : Nat} {a u : Bool} (ls : List Label) : ∀ {s s' : St}, Reach n a u s →
    runLabels ls s = some s' → Reach n a u s' := by
  induction ls with
  | nil => intro s s' r h; simp [runLabels] at h; subst h; exact r
  | cons l ls ih =>
    intro s s' r h
    simp only [runLabels, List.foldlM_cons] at h
    cases hs : step l s with
    | none => simp [hs] at h
    | some s1 =>
      simp only [hs, Option.bind_eq_bind, Option.bind_some] at h
      exact ih (Reach.step l r hs) h

/-! ### the two counter-models -/

/-- no step of worker `j` is enabled -/
def stuckB (s : St) (j : Nat) : Bool :=
  (step (.wDecidePark j) s).isNone && (step (.wSkipPark j) s).isNone && (step (.wPark j) s).isNone &&
  (step (.wWake j) s).isNone && (step (.wCheck j) s).isNone && (step (.wTask j) s).isNone && (step (.wRunDone j) s).isNone

/-- `activate_all_workers` unparking only the workers that are parked: a worker that was running a task when the abort
was raised finds nothing more to do, parks, and is never woken — `join()` does not return. -/
theorem unparking_only_parked_workers_strands_one :
    (runLabels [.aStart, .aUnpark, .aUnpark, .wRunDone 0, .wDecidePark 0, .wPark 0]
      (St.init 1 (fun _ => .run) (fun _ => false) true false)).map
      (fun s => (s.agent == .done, s.abort, s.pc 0 == .parked, s.tok 0, stuckB s 0)) = some (true, true, true, false, true) := by
  decide

/-- the signal set after the unparks: a parked worker is woken, sees no signal, goes on, and parks again for good -/
theorem unparking_before_the_signal_strands_one :
    (runLabels [.aStart, .aUnpark, .wWake 0, .wCheck 0, .aUnpark, .aSetLate, .wRunDone 0, .wDecidePark 0, .wPark 0]
      (St.init 1 (fun _ => .parked) (fun _ => false) false true)).map
      (fun s => (s.agent == .done, s.abort, s.pc 0 == .parked, s.tok 0, stuckB s 0)) = some (true, true, true, false, true) := by
  decide

-- non-vacuity: with the code's order and every worker unparked, three workers (parked, running, about to park) all leave
example :
    (runLabels [.aStart, .aUnpark, .aUnpark, .aUnpark, .aUnpark, .wWake 0, .wCheck 0, .wTask 1, .wPark 2, .wCheck 2]
      (St.init 3 (fun j => if j = 0 then .parked else if j = 1 then .run else .parking) (fun _ => false) true true)).map
      (fun s => (s.agent == .done, s.pc 0 == .exited, s.pc 1 == .exited, s.pc 2 == .exited, dist s)) =
      some (true, true, true, true, 0) := by
  decide

end NexoVerif.Abort
