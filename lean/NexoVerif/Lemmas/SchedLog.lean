import NexoVerif.Lemmas.SchedRun
/-! What each phase of a step appends to the observation log (M-SCHED). -/
namespace NexoVerif.Sched
set_option linter.unusedSimpArgs false
set_option linter.unusedVariables false

theorem sched_log (s : St) (r : SchedReq) : (sched s r).1.log = s.log := by
  unfold sched; split
  · rfl
  · split <;> rfl

theorem execH_log (s : St) (cs : List HCmd) : (execH s cs).log = s.log := by
  induction cs generalizing s with
  | nil => rfl
  | cons c cs ih =>
    cases c with
    | sched r => rw [execH, ih, sched_log]
    | cancel k => rw [execH, ih]; rfl

/-- observations that are not handler executions -/
def Obs.isFire : Obs → Bool
  | .fire .. => true
  | _ => false

theorem execExt_log_mem (s : St) (rs : List SchedReq) (o : Obs) (h : o ∈ (execExt s rs).log) :
    o ∈ s.log ∨ ∃ a b, o = .ext a b := by
  induction rs generalizing s with
  | nil => exact Or.inl h
  | cons r rs ih =>
    simp only [execExt] at h
    rcases ih _ h with h1 | h1
    · simp at h1
      rcases h1 with rfl | h1
      · exact Or.inr ⟨_, _, rfl⟩
      · rw [sched_log] at h1; exact Or.inl h1
    · exact Or.inr h1

theorem doSync_log_mem (prog : Prog) (t : Nat) (s : St) (o : Obs) (h : o ∈ (doSync prog t s).1.log) :
    o ∈ s.log ∨ o = .sync t ∨ ∃ a b, o = .ext a b := by
  unfold doSync at h
  rcases execExt_log_mem _ _ o h with h1 | h1
  · simp at h1
    rcases h1 with rfl | h1
    · exact Or.inr (Or.inl rfl)
    · exact Or.inl h1
  · exact Or.inr (Or.inr h1)

theorem discard_go_log_mem (bound : Option Nat) (q : List Entry) (s : St) (o : Obs)
    (h : o ∈ (discardCancelled.go bound q s).log) : o ∈ s.log ∨ ∃ a, o = .discard a := by
  induction q generalizing s with
  | nil => exact Or.inl h
  | cons e es ih =>
    unfold discardCancelled.go at h
    split at h
    · rcases ih _ h with h1 | h1
      · simp at h1
        rcases h1 with rfl | h1
        · exact Or.inr ⟨_, rfl⟩
        · exact Or.inl h1
      · exact Or.inr h1
    · exact Or.inl h

theorem discard_log_mem (bound : Option Nat) (s : St) (o : Obs) (h : o ∈ (discardCancelled bound s).log) :
    o ∈ s.log ∨ ∃ a, o = .discard a := discard_go_log_mem bound s.queue s o h

theorem pullAll_log_mem (bound : Option Nat) (t fuel : Nat) (s : St) (gs : List (List Entry)) (o : Obs)
    (h : o ∈ (pullAll bound t fuel s gs).1.log) : o ∈ s.log ∨ ∃ a, o = .discard a := by
  induction fuel generalizing s gs with
  | zero => exact Or.inl h
  | succ n ih =>
    unfold pullAll at h
    simp only at h
    split at h
    · exact discard_log_mem bound s o h
    · split at h
      · split at h
        · exact discard_log_mem bound s o h
        · rename_i e' s' hp
          obtain ⟨_, _, _, _, _, _, _, hlog, _⟩ := pullHead_spec hp
          rcases ih s' _ h with h1 | h1
          · rw [hlog] at h1; exact discard_log_mem bound s o h1
          · exact Or.inr h1
      · exact discard_log_mem bound s o h

theorem runFire_log_mem (prog : Prog) (s : St) (e : Entry) (m : Nat) (o : Obs)
    (h : o ∈ (runFire prog s e m).log) :
    o ∈ s.log ∨ o = .fire e.aid m e.time s.now ∨ o = .skip e.aid m := by
  unfold runFire at h
  split at h
  · simp at h; rcases h with rfl | h
    · exact Or.inr (Or.inr rfl)
    · exact Or.inl h
  · rw [execH_log] at h
    simp at h; rcases h with rfl | h
    · exact Or.inr (Or.inl rfl)
    · exact Or.inl h

theorem runSeq_log_mem (prog : Prog) (fs : List (Entry × Nat)) (s : St) (h0 : Inv s) (o : Obs)
    (h : o ∈ (runSeq prog fs s).log) :
    o ∈ s.log ∨ ∃ e m, (e, m) ∈ fs ∧ (o = .fire e.aid m e.time s.now ∨ o = .skip e.aid m) := by
  induction fs generalizing s with
  | nil => exact Or.inl h
  | cons f r ih =>
    obtain ⟨e, m⟩ := f
    rw [runSeq] at h
    have hf := runFire_inv prog s e m h0
    rcases ih _ hf.1 h with h1 | ⟨e', m', hm, h1⟩
    · rcases runFire_log_mem prog s e m o h1 with h2 | h2
      · exact Or.inl h2
      · exact Or.inr ⟨e, m, by simp, h2⟩
    · rw [hf.2] at h1
      exact Or.inr ⟨e', m', by simp [hm], h1⟩

/-! ### what the pull loop collects -/

theorem mem_addToGroups (e x : Entry) (gs : List (List Entry)) :
    x ∈ (addToGroups e gs).flatten ↔ x = e ∨ x ∈ gs.flatten := by
  unfold addToGroups
  split
  · simp
  · split
    · simp
    · rename_i x g' gs'
      split
      · simp
      · simp

theorem discard_go_head_live (bound : Option Nat) (q : List Entry) (s : St) (x : Entry) (xs : List Entry)
    (h : (discardCancelled.go bound q s).queue = x :: xs) :
    (discardCancelled.go bound q s).isCancelled x = false ∨ within x.time bound = false := by
  induction q generalizing s with
  | nil => simp [discardCancelled.go] at h
  | cons e es ih =>
    unfold discardCancelled.go at h ⊢
    split
    · rename_i hc
      simp only [hc, ite_true] at h
      exact ih _ h
    · rename_i hc
      simp only [hc] at h
      simp at h
      obtain ⟨rfl, _⟩ := h
      simp at hc
      unfold St.isCancelled at hc ⊢
      simp only
      by_cases hw : within e.time bound = true
      · left
        have := hc hw
        cases hk : e.key with
        | none => rfl
        | some k => simp [hk] at this ⊢; exact this
      · right; simpa using hw

theorem discard_head_live (bound : Option Nat) (s : St) (x : Entry) (xs : List Entry)
    (h : (discardCancelled bound s).queue = x :: xs) :
    (discardCancelled bound s).isCancelled x = false ∨ within x.time bound = false :=
  discard_go_head_live bound s.queue s x xs h

/-- every collected entry was live at pull time, due at `t`, and within the bound -/
theorem pullAll_groups (bound : Option Nat) (t fuel : Nat) (s : St) (gs : List (List Entry))
    (P : Entry → Prop)
    (hP : ∀ (s' : St) (e : Entry), s'.cancelled = s.cancelled → e.time = t → s'.isCancelled e = false ∨ within e.time bound = false → P e)
    (hgs : ∀ e ∈ gs.flatten, P e) :
    ∀ e ∈ (pullAll bound t fuel s gs).2.flatten, P e := by
  induction fuel generalizing s gs with
  | zero => exact hgs
  | succ n ih =>
    unfold pullAll
    have hd := discard_spec bound s
    simp only
    split
    · exact hgs
    · rename_i x xs hq
      split
      · rename_i hxt
        split
        · exact hgs
        · rename_i e' s' hp
          obtain ⟨es, hq2, _, hc, _, _, _, _, _⟩ := pullHead_spec hp
          have hee : e' = x := by rw [hq] at hq2; simp at hq2; exact hq2.1.symm
          apply ih s'
          · intro s'' e hc' het hh
            exact hP s'' e (by rw [hc', hc, hd.2.2.2.1]) het hh
          · intro e he
            rcases (mem_addToGroups e' e gs).mp he with rfl | he
            · -- the head after `discardCancelled` is live or beyond the bound
              have hhead := discard_head_live bound s x xs hq
              subst hee
              exact hP (discardCancelled bound s) e hd.2.2.2.1 hxt hhead
            · exact hgs e he
      · exact hgs


/-- the oracle only reorders what was spawned (weakest validity: no invented delivery) -/
def OrdSub (ord : Oracle) : Prop := ∀ gs d, d ∈ ord gs → d ∈ spawnOrder gs

theorem mem_spawnOrder {gs : List (List Entry)} {d : Entry × Nat} (h : d ∈ spawnOrder gs) :
    d.1 ∈ gs.flatten ∧ d.2 ∈ d.1.targets := by
  unfold spawnOrder groupFires at h
  simp only [List.mem_flatMap, List.mem_map] at h
  obtain ⟨g, hg, e, he, m, hm, rfl⟩ := h
  exact ⟨List.mem_flatten.mpr ⟨g, hg, he⟩, hm⟩

/-- groups returned by the locked phase: every member is due exactly at the step's time and was live
(not cancelled) when pulled -/
theorem lockedPhase_groups (bound : Option Nat) (jump : Bool) (s : St) (t : Nat) (gs : List (List Entry)) (s1 : St)
    (h : lockedPhase bound jump s = (s1, some (t, gs))) :
    ∀ e ∈ gs.flatten, e.time = t ∧ (s.isCancelled e = false) := by
  unfold lockedPhase at h
  simp only at h
  split at h
  · split at h <;> simp at h
  · rename_i x xs hq
    split at h
    · split at h <;> simp at h
    · rename_i hw
      simp at h
      obtain ⟨_, rfl, rfl⟩ := h
      intro e he
      have hcanc : (discardCancelled bound s).cancelled = s.cancelled := (discard_spec bound s).2.2.2.1
      have := pullAll_groups bound x.time (writeTime x.time (discardCancelled bound s)).queue.length
        (writeTime x.time (discardCancelled bound s)) [] (fun e => e.time = x.time ∧ s.isCancelled e = false)
        (by
          intro s' e hc het hh
          refine ⟨het, ?_⟩
          rcases hh with hh | hh
          · unfold St.isCancelled at hh ⊢
            rw [hc] at hh
            simp only [writeTime] at hh
            rw [hcanc] at hh
            exact hh
          · exfalso
            rw [het] at hh
            simp at hw
            rw [hw] at hh; simp at hh)
        (by simp)
      apply this
      simp only [List.mem_flatten, List.mem_reverse, List.mem_map] at he ⊢
      obtain ⟨l, ⟨g, hg, rfl⟩, hel⟩ := he
      exact ⟨g, hg, by simpa using hel⟩

theorem lockedPhase_log_mem (bound : Option Nat) (jump : Bool) (s : St) (o : Obs)
    (h : o ∈ (lockedPhase bound jump s).1.log) : o ∈ s.log ∨ o.isFire = false := by
  unfold lockedPhase at h
  simp only at h
  have hd := fun o h => discard_log_mem bound s o h
  split at h
  · cases jump <;> cases bound <;> simp [writeTime] at h
    all_goals first
      | (rcases h with rfl | h
         · exact Or.inr rfl
         · rcases hd o h with h1 | ⟨a, rfl⟩
           · exact Or.inl h1
           · exact Or.inr rfl)
      | (rcases hd o h with h1 | ⟨a, rfl⟩
         · exact Or.inl h1
         · exact Or.inr rfl)
  · split at h
    · cases jump <;> cases bound <;> simp [writeTime] at h
      all_goals first
        | (rcases h with rfl | h
           · exact Or.inr rfl
           · rcases hd o h with h1 | ⟨a, rfl⟩
             · exact Or.inl h1
             · exact Or.inr rfl)
        | (rcases hd o h with h1 | ⟨a, rfl⟩
           · exact Or.inl h1
           · exact Or.inr rfl)
    · rcases pullAll_log_mem _ _ _ _ _ o h with h1 | ⟨a, rfl⟩
      · simp [writeTime] at h1
        rcases h1 with rfl | h1
        · exact Or.inr rfl
        · rcases hd o h1 with h2 | ⟨a, rfl⟩
          · exact Or.inl h2
          · exact Or.inr rfl
      · exact Or.inr rfl

/-- Every handler execution logged by a step belongs to a delivery chosen by the oracle among the groups
pulled in this step, and it sees the step's time. -/
theorem stepNext_fire (prog : Prog) (ord : Oracle) (bound : Option Nat) (jump : Bool) (s : St) (h : Inv s)
    (hb : ∀ b, bound = some b → s.now ≤ b) (o : Obs)
    (ho : o ∈ (stepNext prog ord bound jump s).1.log) (hf : o.isFire = true) :
    o ∈ s.log ∨ ∃ s1 t gs e m, lockedPhase bound jump s = (s1, some (t, gs)) ∧ (e, m) ∈ ord gs ∧
      o = .fire e.aid m e.time t ∧ (stepNext prog ord bound jump s).1.now = t := by
  unfold stepNext at ho ⊢
  split at ho
  · exact Or.inl ho
  · rename_i hterm
    simp only [hterm]
    have hl := lockedPhase_inv bound jump s h hb
    have hlog := fun o h => lockedPhase_log_mem bound jump s o h
    generalize hr : lockedPhase bound jump s = r at hl hlog ho
    obtain ⟨s1, og⟩ := r
    cases og with
    | none =>
      simp only at ho
      rcases hlog o ho with h1 | h1
      · exact Or.inl h1
      · rw [hf] at h1; simp at h1
    | some tg =>
      obtain ⟨t, gs⟩ := tg
      simp only at ho hl ⊢
      have hnow := (afterLock_inv prog ord t gs s1 hl.1).2
      unfold afterLock at ho
      simp only at ho
      have hsync := doSync_inv prog t s1 hl.1
      have key : o ∈ (runSeq prog (ord gs) (doSync prog t s1).1).log ∨ o ∈ (doSync prog t s1).1.log := by
        split at ho
        · split at ho
          · exact Or.inr ho
          · exact Or.inl ho
        · exact Or.inl ho
      have fromSync : o ∈ (doSync prog t s1).1.log → o ∈ s.log := by
        intro h2
        rcases doSync_log_mem prog t s1 o h2 with h3 | rfl | ⟨a, b, rfl⟩
        · rcases hlog o h3 with h4 | h4
          · exact h4
          · rw [hf] at h4; simp at h4
        · simp [Obs.isFire] at hf
        · simp [Obs.isFire] at hf
      rcases key with k | k
      · rcases runSeq_log_mem prog (ord gs) _ hsync.1 o k with h2 | ⟨e, m, hm, h2⟩
        · exact Or.inl (fromSync h2)
        · rcases h2 with rfl | rfl
          · right
            refine ⟨s1, t, gs, e, m, rfl, hm, ?_, ?_⟩
            · rw [hsync.2.1, hl.2.2.1]
            · simp only [Bool.false_eq_true, ite_false]; rw [hnow, hl.2.2.1]
          · simp [Obs.isFire] at hf
      · exact Or.inl (fromSync k)

end NexoVerif.Sched
