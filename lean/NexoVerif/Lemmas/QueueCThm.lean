import NexoVerif.Lemmas.QueueCStep
namespace NexoVerif.CQ
set_option linter.unusedSimpArgs false
set_option linter.unusedVariables false
set_option maxHeartbeats 1000000

/-- values of the pushes of producer i that completed with `Ok`, in completion (= program) order -/
def acceptedOf (s : St) (i : Nat) : List Nat :=
  s.results.filterMap fun r => if r.1 = i ∧ r.2.2 = .ok then some r.2.1 else none

/-- the value producer i has claimed a position for but not yet published -/
def inflight (s : St) (i : Nat) : List Nat :=
  match s.prod i with
  | .claimed v _ => [v]
  | .wrote v _ => [v]
  | _ => []

/-- values of the positions claimed by producer i, in position order -/
def claimedOf (s : St) (i : Nat) : List Nat :=
  s.claims.filterMap fun c => if c.1 = i then some c.2 else none

def PInv (s : St) : Prop := ∀ i, acceptedOf s i ++ inflight s i = claimedOf s i

theorem pinv_init (cap : Nat) : PInv { cap := cap } := by
  intro i; simp [acceptedOf, inflight, claimedOf]

theorem inflight_upd_other (s : St) (f : Nat → PPc) (i j : Nat) (x : PPc) (h : j ≠ i) (hf : f = upd s.prod i x) :
    (match f j with | .claimed v _ => [v] | .wrote v _ => [v] | _ => []) = inflight s j := by
  subst hf; simp only [upd_other _ _ h]; rfl

theorem pinv_loadPos (s : St) (i v : Nat) (h : PInv s) (hi : inflight s i = []) : PInv (loadPos s i v) := by
  intro j
  unfold loadPos
  split
  · simp only [acceptedOf, inflight, claimedOf, List.filterMap_append]
    by_cases hji : j = i
    · subst hji
      have := h j
      simp only [acceptedOf, claimedOf, hi, List.append_nil] at this
      simp [this]
    · have := h j
      simp only [acceptedOf, inflight, claimedOf] at this
      simp [upd_other _ _ hji, this, Ne.symm hji]
  · simp only [acceptedOf, inflight, claimedOf]
    by_cases hji : j = i
    · subst hji
      have := h j
      simp only [acceptedOf, claimedOf, hi, List.append_nil] at this
      simp [this]
    · have := h j
      simp only [acceptedOf, inflight, claimedOf] at this
      simp [upd_other _ _ hji, this]

theorem pinv_step (l : Label) (s s' : St) (h : PInv s) (hs : step l s = some s') : PInv s' := by
  cases l with
  | pBegin i v =>
    simp only [step] at hs
    split at hs
    · rename_i hidle
      simp only [Option.some.injEq] at hs; subst hs
      exact pinv_loadPos s i v h (by simp [inflight, hidle])
    · simp at hs
  | close => simp only [step, Option.some.injEq] at hs; subst hs; exact h
  | pLoadStamp i =>
    simp only [step] at hs
    split at hs
    · rename_i v p hpc
      simp only [Option.some.injEq] at hs; subst hs
      intro j
      have := h j
      simp only [acceptedOf, inflight, claimedOf] at this ⊢
      by_cases hji : j = i
      · subst hji; simp [hpc] at this ⊢; exact this
      · simp [upd_other _ _ hji, this]
    · simp at hs
  | pDecide i =>
    simp only [step] at hs
    split at hs
    · rename_i v p st hpc
      have hinf : inflight s i = [] := by simp [inflight, hpc]
      split at hs
      · split at hs
        · simp only [Option.some.injEq] at hs; subst hs
          intro j
          have := h j
          simp only [acceptedOf, inflight, claimedOf, List.filterMap_append] at this ⊢
          by_cases hji : j = i
          · subst hji; simp [hpc] at this ⊢; exact this
          · simp [upd_other _ _ hji, this, Ne.symm hji]
        · simp only [Option.some.injEq] at hs; subst hs
          exact pinv_loadPos s i v h hinf
      · split at hs
        · simp only [Option.some.injEq] at hs; subst hs
          intro j
          have := h j
          simp only [acceptedOf, inflight, claimedOf, List.filterMap_append] at this ⊢
          by_cases hji : j = i
          · subst hji; simp [hpc] at this ⊢; exact this
          · simp [upd_other _ _ hji, this, Ne.symm hji]
        · simp only [Option.some.injEq] at hs; subst hs
          exact pinv_loadPos s i v h hinf
    · simp at hs
  | pWrite i =>
    simp only [step] at hs
    split at hs
    · rename_i v p hpc
      simp only [Option.some.injEq] at hs; subst hs
      intro j
      have := h j
      simp only [acceptedOf, inflight, claimedOf] at this ⊢
      by_cases hji : j = i
      · subst hji; simp [hpc] at this ⊢; exact this
      · simp [upd_other _ _ hji, this]
    · simp at hs
  | pPublish i =>
    simp only [step] at hs
    split at hs
    · rename_i v p hpc
      simp only [Option.some.injEq] at hs; subst hs
      intro j
      have := h j
      simp only [acceptedOf, inflight, claimedOf, List.filterMap_append] at this ⊢
      by_cases hji : j = i
      · subst hji; simp [hpc] at this ⊢; exact this
      · simp [upd_other _ _ hji, this, Ne.symm hji]
    · simp at hs
  | cPop =>
    simp only [step] at hs
    split at hs
    · split at hs
      · simp only [Option.some.injEq] at hs; subst hs; exact h
      · split at hs <;> (simp only [Option.some.injEq] at hs; subst hs; exact h)
    · simp at hs
  | cRelease =>
    simp only [step] at hs
    split at hs
    · simp only [Option.some.injEq] at hs; subst hs; exact h
    · simp at hs

theorem reach_pinv {cap : Nat} {s : St} (h : Reach cap s) : PInv s := by
  induction h with
  | init => exact pinv_init cap
  | step l _ hs ih => exact pinv_step l _ _ ih hs

end NexoVerif.CQ
