import NexoVerif.Lemmas.BcastThm
/-! `poll` preserves well-formedness; what it returns when `Ready` (M-BCAST). -/
namespace NexoVerif.Bcast
set_option linter.unusedSimpArgs false
set_option linter.unusedVariables false

theorem modSlot_requests_core (s : St) (c : Nat) (r : Nat) (hc : Core s) :
    Core (modSlot s c (fun sl => { sl with requests := sl.requests ++ [r] })) ∧
    (modSlot s c (fun sl => { sl with requests := sl.requests ++ [r] })).senders = s.senders ∧
    (modSlot s c (fun sl => { sl with requests := sl.requests ++ [r] })).outputs = s.outputs ∧
    (modSlot s c (fun sl => { sl with requests := sl.requests ++ [r] })).got = s.got ∧
    (modSlot s c (fun sl => { sl with requests := sl.requests ++ [r] })).bcArg = s.bcArg ∧
    (modSlot s c (fun sl => { sl with requests := sl.requests ++ [r] })).taskCount = s.taskCount := by
  unfold modSlot
  cases hsl : s.slots[c]? with
  | none => exact ⟨hc, rfl, rfl, rfl, rfl, rfl⟩
  | some sl =>
    simp only
    have hlt : c < s.slots.length := by
      rcases Nat.lt_or_ge c s.slots.length with h | h
      · exact h
      · rw [List.getElem?_eq_none h] at hsl; simp at hsl
    refine ⟨⟨by simp; exact hc.1, hc.2.1, ?_, hc.2.2.2⟩, trivial, trivial, trivial, trivial, trivial⟩
    intro c' x v hx hv
    simp only at hx
    by_cases hcc : c' = c
    · subst hcc
      rw [List.getElem?_set_self hlt] at hx
      simp at hx; subst hx
      exact hc.2.2.1 c' sl v hsl hv
    · rw [List.getElem?_set_ne (Ne.symm hcc)] at hx
      exact hc.2.2.1 c' x v hx hv

theorem recordRequests_core (arg : Nat) : ∀ (l : List Nat) (s : St), Core s →
    Core (recordRequests s arg l) ∧ (recordRequests s arg l).senders = s.senders ∧
    (recordRequests s arg l).outputs = s.outputs ∧ (recordRequests s arg l).got = s.got ∧
    (recordRequests s arg l).bcArg = s.bcArg ∧ (recordRequests s arg l).taskCount = s.taskCount := by
  intro l
  induction l with
  | nil => intro s hc; exact ⟨hc, rfl, rfl, rfl, rfl, rfl⟩
  | cons c r ih =>
    intro s hc
    simp only [recordRequests]
    cases hsd : s.senders[c]? with
    | none => simp only; exact ih s hc
    | some sd =>
      simp only
      obtain ⟨a, b, c', d, e, f⟩ := modSlot_requests_core s c (arg + sd.add) hc
      obtain ⟨a2, b2, c2, d2, e2, f2⟩ := ih _ a
      exact ⟨a2, b2.trans b, c2.trans c', d2.trans d, e2.trans e, f2.trans f⟩

theorem unfilled_all_none (o : List (Option Nat)) (k : Nat) (hk : k ≤ o.length)
    (h : ∀ j, j < k → (o[j]?).join = none) : unfilled o k = k := by
  unfold unfilled
  have : ∀ x ∈ o.take k, Option.isNone x = true := by
    intro x hx
    obtain ⟨j, hj, hxj⟩ := List.getElem_of_mem hx
    have hj' : j < min k o.length := by simpa using hj
    have h1 := h j (by omega)
    rw [List.getElem_take] at hxj
    rw [List.getElem?_eq_getElem (by omega)] at h1
    simp at h1
    rw [← hxj, h1]; rfl
  rw [List.countP_eq_length.mpr this]
  simp; omega

theorem pollDirect_spec (s : St) (c consume : Nat) (hc : Core s) (hacc : accepted s.senders s.bcArg = [c]) :
    WF (pollDirect s c consume).1 ∧ (pollDirect s c consume).1.senders = s.senders ∧
    (pollDirect s c consume).1.bcArg = s.bcArg ∧
    (∀ vals, (pollDirect s c consume).2 = .ready vals →
      ReadyOK [c] consume (pollDirect s c consume).1 vals ∧ (pollDirect s c consume).1.fut = none) := by
  have hclt : c < s.senders.length := accepted_lt s.senders s.bcArg c (by rw [hacc]; simp)
  unfold pollDirect
  have hsp := subPoll_spec s c .outer
  have hext := subPoll_got_ext s c .outer
  have hsh := subPoll_SH s c .outer hc.2.2
  cases hres : subPoll s c .outer with
  | mk s1 res =>
    rw [hres] at hsp hext hsh
    simp only at hsp hext hsh
    have hc1 : Core s1 := ⟨by rw [hsp.1.slotsLen, hsp.1.senders]; exact hc.1, by rw [hsp.1.outputs, hsp.1.senders]; exact hc.2.1, hsh⟩
    cases res with
    | ready v =>
      simp only
      have hg := (hsp.2.1 v rfl).1
      have hlen : 1 ≤ s1.outputs.length := by rw [hc1.2.1, hsp.1.senders]; omega
      have hF : Filled [c] { s1 with outputs := s1.outputs.set 0 (some v) } 0 := by
        refine ⟨by simpa using hlen, ?_, ?_⟩
        · unfold unfilled
          simp only [List.length_cons, List.length_nil, Nat.zero_add]
          rw [List.take_set]
          cases ho : s1.outputs with
          | nil => rw [ho] at hlen; simp at hlen
          | cons a r => simp
        · intro i w hi hw
          simp at hi; subst hi
          simp only at hw
          rw [List.getElem?_set_self (by omega)] at hw
          simp at hw; subst hw
          exact ⟨c, by simp, by simp [hg]⟩
      have hc2 : Core { s1 with outputs := s1.outputs.set 0 (some v) } := ⟨hc1.1, by simp; exact hc1.2.1, hc1.2.2⟩
      obtain ⟨a, b, c', d, e, vals, hv, hok⟩ := finish_spec [c] _ consume hF hc2
      have hl : [c].length = 1 := rfl
      rw [hl] at a b c' d e hv hok
      refine ⟨⟨a, by rw [b]; trivial⟩, c'.trans hsp.1.senders, d.trans hsp.1.bcArg, ?_⟩
      intro vals' hv'
      rw [hv] at hv'; simp at hv'; subst hv'
      exact ⟨hok, b⟩
    | err =>
      simp only
      exact ⟨⟨hc1, trivial⟩, hsp.1.senders, hsp.1.bcArg, by intro vals h; simp at h⟩
    | pending =>
      simp only
      refine ⟨⟨hc1, ?_⟩, hsp.1.senders, hsp.1.bcArg, by intro vals h; simp at h⟩
      show accepted s1.senders s1.bcArg = [c]
      rw [hsp.1.senders, hsp.1.bcArg]; exact hacc

theorem pollMulti_uninit_spec (s : St) (subs : List Nat) (consume : Nat) (hc : Core s)
    (htc : s.taskCount = subs.length) (hlen : subs.length ≤ s.outputs.length)
    (hnone : ∀ j, j < subs.length → (s.outputs[j]?).join = none) (hgot : s.got = [])
    (hacc : subs = accepted s.senders s.bcArg) :
    WF (pollMulti s subs subs.length true consume).1 ∧
    (pollMulti s subs subs.length true consume).1.senders = s.senders ∧
    (pollMulti s subs subs.length true consume).1.bcArg = s.bcArg ∧
    (∀ vals, (pollMulti s subs subs.length true consume).2 = .ready vals →
      ReadyOK subs consume (pollMulti s subs subs.length true consume).1 vals ∧
      (pollMulti s subs subs.length true consume).1.fut = none) := by
  unfold pollMulti
  simp only [if_true]
  have key : ∀ s0 : St, Core s0 → s0.taskCount = subs.length → s0.outputs = s.outputs → s0.got = [] →
      s0.senders = s.senders → s0.bcArg = s.bcArg →
      WF (afterPass subs consume (firstPass 0 subs s0 subs.length)).1 ∧
      (afterPass subs consume (firstPass 0 subs s0 subs.length)).1.senders = s.senders ∧
      (afterPass subs consume (firstPass 0 subs s0 subs.length)).1.bcArg = s.bcArg ∧
      (∀ vals, (afterPass subs consume (firstPass 0 subs s0 subs.length)).2 = .ready vals →
        ReadyOK subs consume (afterPass subs consume (firstPass 0 subs s0 subs.length)).1 vals ∧
        (afterPass subs consume (firstPass 0 subs s0 subs.length)).1.fut = none) := by
    intro s0 hc0 htc0 ho0 hg0 hs0 hb0
    have hF0 : Filled subs s0 subs.length := by
      refine ⟨by rw [ho0]; exact hlen, ?_, ?_⟩
      · rw [ho0]; exact (unfilled_all_none s.outputs subs.length hlen hnone).symm
      · intro i v hi hv
        rw [ho0] at hv
        have := hnone i hi
        rw [hv] at this; simp at this
    have hfp := firstPass_spec subs subs 0 s0 subs.length (by intro j hj; simp) (by simp)
      (by intro j _ hj; rw [ho0]; exact hnone j hj) hF0 hc0.2.2
    cases hres : firstPass 0 subs s0 subs.length with
    | mk s1 r =>
      rw [hres] at hfp
      simp only at hfp
      obtain ⟨pf, hsh, hfl⟩ := hfp
      have hc1 : Core s1 := ⟨by rw [pf.slotsLen, pf.senders]; exact hc0.1, by rw [pf.outLen, pf.senders]; exact hc0.2.1, hsh⟩
      cases r with
      | none =>
        simp only [afterPass]
        exact ⟨⟨hc1, trivial⟩, pf.senders.trans hs0, pf.bcArg.trans hb0, by intro vals h; simp at h⟩
      | some p' =>
        simp only [afterPass]
        have hF1 := hfl p' rfl
        by_cases hp0 : p' = 0
        · simp only [hp0, if_true]
          subst hp0
          obtain ⟨a, b, c, d, e, vals, hv, hok⟩ := finish_spec subs s1 consume hF1 hc1
          refine ⟨⟨a, by rw [b]; trivial⟩, c.trans (pf.senders.trans hs0), d.trans (pf.bcArg.trans hb0), ?_⟩
          intro vals' hv'
          rw [hv] at hv'; simp at hv'; subst hv'
          exact ⟨hok, b⟩
        · simp only [hp0, if_false]
          obtain ⟨w, x, y, z⟩ := loopPoll_spec subs consume 2 s1 p' hc1 (by rw [pf.taskCount]; exact htc0) hF1
            (by rw [pf.senders, pf.bcArg, hs0, hb0]; exact hacc) hp0
          exact ⟨w, x.trans (pf.senders.trans hs0), y.trans (pf.bcArg.trans hb0), z⟩
  unfold discard
  split
  · exact key _ ⟨hc.1, hc.2.1, hc.2.2⟩ htc rfl hgot rfl rfl
  · exact key s hc htc rfl hgot rfl rfl

end NexoVerif.Bcast
