import NexoVerif.Model.Sink
/-! Helper lemmas for C17 (M-SINK). -/
namespace NexoVerif.Sink
set_option linter.unusedSimpArgs false
theorem write_len_le (b : Buf) (x : Nat) (hc : 1 ≤ b.cap) (h : b.items.length ≤ b.cap) :
    (b.write x).items.length ≤ b.cap := by
  unfold Buf.write
  cases ho : b.isOpen
  · simpa using h
  · by_cases hf : b.items.length = b.cap
    · simp [hf, List.length_tail]; omega
    · simp [hf]; omega

theorem write_cap (b : Buf) (x : Nat) : (b.write x).cap = b.cap := by
  unfold Buf.write; split <;> (try split) <;> rfl

theorem write_isOpen (b : Buf) (x : Nat) : (b.write x).isOpen = b.isOpen := by
  unfold Buf.write; split <;> (try split) <;> rfl

theorem step_cap (b : Buf) (op : Op) : (b.step op).1.cap = b.cap := by
  cases op with
  | write x => exact write_cap b x
  | next => simp only [Buf.step, Buf.next]; split <;> rfl
  | opn => rfl
  | cls => rfl

theorem step_len_le (b : Buf) (op : Op) (hc : 1 ≤ b.cap) (h : b.items.length ≤ b.cap) :
    (b.step op).1.items.length ≤ (b.step op).1.cap := by
  rw [step_cap]
  cases op with
  | write x => exact write_len_le b x hc h
  | next =>
    simp only [Buf.step, Buf.next]
    split
    · exact h
    · rename_i x r hx; simp [hx] at h; simp; omega
  | opn => exact h
  | cls => exact h

theorem run_cons (b : Buf) (op : Op) (ops : List Op) :
    b.run (op :: ops) = (b.step op).1.run ops := rfl


theorem step_isOpen_accepted (b : Buf) (op : Op) (ops : List Op) (m : List Nat)
    (h : b.items <:+ m) :
    ∃ m', (b.step op).1.items <:+ m' ∧ m' ++ accepted (b.step op).1.isOpen ops = m ++ accepted b.isOpen (op :: ops) := by
  cases op with
  | write x =>
    cases ho : b.isOpen
    · refine ⟨m, ?_, ?_⟩ <;> simp [Buf.step, Buf.write, ho, accepted, h]
    · refine ⟨m ++ [x], ?_, ?_⟩
      · simp only [Buf.step, Buf.write, ho]
        obtain ⟨t, ht⟩ := h
        by_cases hf : b.items.length = b.cap
        · simp [hf]
          cases hb : b.items with
          | nil => exact ⟨t, by simp [← ht, hb]⟩
          | cons a r => exact ⟨t ++ [a], by simp [← ht, hb]⟩
        · simp [hf]; exact ⟨t, by simp [← ht]⟩
      · have : (b.write x).isOpen = true := by unfold Buf.write; simp [ho]; split <;> simp [ho]
        simp [Buf.step, this, ho, accepted]
  | next =>
    refine ⟨m, ?_, ?_⟩
    · simp only [Buf.step, Buf.next]
      split
      · exact h
      · rename_i x r hb
        obtain ⟨t, ht⟩ := h
        exact ⟨t ++ [x], by simp [← ht, hb]⟩
    · simp only [Buf.step, Buf.next]; split <;> simp [accepted]
  | opn => exact ⟨m, by simpa [Buf.step] using h, by simp [Buf.step, accepted]⟩
  | cls => exact ⟨m, by simpa [Buf.step] using h, by simp [Buf.step, accepted]⟩

theorem buf_suffix_gen (b : Buf) (ops : List Op) (m : List Nat) (h : b.items <:+ m) :
    (b.run ops).items <:+ m ++ accepted b.isOpen ops := by
  induction ops generalizing b m with
  | nil => simpa [Buf.run, accepted] using h
  | cons op ops ih =>
    rw [run_cons]
    obtain ⟨m', h1, h2⟩ := step_isOpen_accepted b op ops m h
    rw [← h2]
    exact ih _ _ h1

def quiet : Bool → List Op → Bool
  | _, []              => true
  | o, .write _ :: ops => !o && quiet o ops
  | _, .next :: _      => false
  | _, .opn :: ops     => quiet true ops
  | _, .cls :: ops     => quiet false ops

theorem slot_run_cons (s : Slot) (op : Op) (ops : List Op) :
    s.run (op :: ops) = (s.step op).1.run ops := rfl

theorem slot_quiet_keeps (s : Slot) (ops : List Op) (h : quiet s.isOpen ops = true) :
    (s.run ops).v = s.v := by
  induction ops generalizing s with
  | nil => rfl
  | cons op ops ih =>
    rw [slot_run_cons]
    cases op with
    | write x =>
      simp [quiet] at h
      have : s.write x = s := by unfold Slot.write; simp [h.1]
      simp only [Slot.step, this]; exact ih s h.2
    | next => simp [quiet] at h
    | opn => simp [quiet] at h; simpa [Slot.step] using ih { s with isOpen := true } h
    | cls => simp [quiet] at h; simpa [Slot.step] using ih { s with isOpen := false } h

theorem slot_run_append (s : Slot) (a b : List Op) : s.run (a ++ b) = (s.run a).run b := by
  simp [Slot.run, List.foldl_append]


end NexoVerif.Sink
