import NexoVerif.Lemmas.DropLemmas
/-! The three phases of dropping an executor (M-DROP). -/
namespace NexoVerif.DropM
set_option linter.unusedSimpArgs false
set_option linter.unusedVariables false

/-- futures dropped so far plus futures still to be dropped: conserved by every step -/
def credit (t : Task) : Nat := t.futDrops + (if t.fut then 1 else 0)

/-- what every step of the drop sequence guarantees about every task -/
def TDec (a b : Task) : Prop :=
  b.exec = a.exec ∧ b.key = a.key ∧ b.wakesOnDrop = a.wakesOnDrop ∧ credit b = credit a ∧
  (b.token = true → a.token = true) ∧ (b.fut = true → a.fut = true) ∧ (a.closed = true → b.closed = true)

def Dec (s s' : St) : Prop := s'.n = s.n ∧ s'.panicked = s.panicked ∧ ∀ v, TDec (s.task v) (s'.task v)

theorem Dec.refl (s : St) : Dec s s := ⟨rfl, rfl, fun v => ⟨rfl, rfl, rfl, rfl, id, id, id⟩⟩

theorem Dec.trans {a b c : St} (h1 : Dec a b) (h2 : Dec b c) : Dec a c := by
  refine ⟨h2.1.trans h1.1, h2.2.1.trans h1.2.1, ?_⟩
  intro v
  obtain ⟨a1, a2, a3, a4, a5, a6, a7⟩ := h1.2.2 v
  obtain ⟨b1, b2, b3, b4, b5, b6, b7⟩ := h2.2.2 v
  exact ⟨b1.trans a1, b2.trans a2, b3.trans a3, b4.trans a4, fun h => a5 (b5 h), fun h => a6 (b6 h), fun h => b7 (a7 h)⟩

theorem Mono.dec {s s' : St} (h : Mono s s') : Dec s s' := by
  refine ⟨h.1, h.2.1, ?_⟩
  intro v
  obtain ⟨a1, a2, a3, a4, a5, a6, a7, _⟩ := h.2.2 v
  exact ⟨a6, a7, a5, by simp [credit, a1, a2], fun h => a3 ▸ h, fun h => a1 ▸ h, fun h => a4 ▸ h⟩

/-- invariant of the cancellation phase for executor `e` -/
structure Q (e : Nat) (s : St) : Prop where
  alive : ∀ v, v < s.n → (s.task v).exec = e → (s.task v).fut = true →
    (s.task v).token = true ∨ ((s.task v).closed = true ∧ (s.task v).loc ≠ .none)
  closedOk : ∀ v, v < s.n → (s.task v).exec = e → (s.task v).closed = true →
    (s.task v).fut = false ∨ (s.task v).loc ≠ .none
  targets : ∀ v u, v < s.n → (s.task v).exec = e → u ∈ (s.task v).wakesOnDrop → u < s.n ∧ (s.task u).exec = e

theorem Q_mono {e : Nat} {s s' : St} (h : Mono s s') (hq : Q e s) : Q e s' := by
  obtain ⟨hn, _, ht⟩ := h
  constructor
  · intro v hv he hf
    obtain ⟨a1, a2, a3, a4, a5, a6, a7, a8⟩ := ht v
    rw [hn] at hv; rw [a6] at he; rw [a1] at hf
    rcases hq.alive v hv he hf with h | ⟨h1, h2⟩
    · exact Or.inl (a3 ▸ h)
    · right; refine ⟨a4 ▸ h1, ?_⟩
      rcases a8 with h | ⟨h, _, _, _⟩
      · rw [h]; exact h2
      · exact absurd h h2
  · intro v hv he hc
    obtain ⟨a1, a2, a3, a4, a5, a6, a7, a8⟩ := ht v
    rw [hn] at hv; rw [a6] at he; rw [a4] at hc
    rcases hq.closedOk v hv he hc with h | h
    · exact Or.inl (a1 ▸ h)
    · right
      rcases a8 with h' | ⟨h', _, _, _⟩
      · rw [h']; exact h
      · exact absurd h' h
  · intro v u hv he hu
    obtain ⟨a1, a2, a3, a4, a5, a6, a7, a8⟩ := ht v
    rw [hn] at hv; rw [a6] at he; rw [a5] at hu
    obtain ⟨h1, h2⟩ := hq.targets v u hv he hu
    exact ⟨hn ▸ h1, by rw [(ht u).2.2.2.2.2.1]; exact h2⟩

theorem cancel_spec (e : Nat) (s : St) (t : Nat) (hq : Q e s) (ht : t < s.n) (he : (s.task t).exec = e) :
    Q e (cancel none s t) ∧ Dec s (cancel none s t) ∧ ((cancel none s t).task t).token = false := by
  unfold cancel
  simp only
  by_cases htok : (s.task t).token = true
  · rw [if_pos htok]
    -- the state with the token consumed and the task closed
    have hD1 : Dec s { s with task := upd s.task t { s.task t with token := false, closed := true } } := by
      refine ⟨rfl, rfl, ?_⟩
      intro v
      by_cases hv : v = t
      · subst hv; simp only [upd_same]
        exact ⟨rfl, rfl, rfl, rfl, by simp, id, fun _ => rfl⟩
      · simp only [upd_other _ _ hv]; exact ⟨rfl, rfl, rfl, rfl, id, id, id⟩
    by_cases hcond : (s.task t).closed = false ∧ (s.task t).loc = .none
    · rw [if_pos hcond]
      by_cases hf : (s.task t).fut = true
      · obtain ⟨s1, hn1, hp1, ht1, hm⟩ := dropFuture_spec
          { s with task := upd s.task t { s.task t with token := false, closed := true } } t (by simp [hf])
        simp only [upd_same] at ht1
        have hq1 : Q e s1 := by
          constructor
          · intro v hv hev hfv
            rw [ht1] at hev hfv ⊢
            by_cases hvt : v = t
            · subst hvt; simp at hfv
            · simp only [upd_other _ _ hvt] at hev hfv ⊢
              exact hq.alive v (by rw [hn1] at hv; exact hv) hev hfv
          · intro v hv hev hcv
            rw [ht1] at hev hcv ⊢
            by_cases hvt : v = t
            · subst hvt; simp
            · simp only [upd_other _ _ hvt] at hev hcv ⊢
              exact hq.closedOk v (by rw [hn1] at hv; exact hv) hev hcv
          · intro v u hv hev hu
            rw [ht1] at hev hu
            have hvn : v < s.n := by rw [hn1] at hv; exact hv
            have : u < s.n ∧ (s.task u).exec = e := by
              by_cases hvt : v = t
              · subst hvt; simp only [upd_same] at hev hu; exact hq.targets v u hvn he hu
              · simp only [upd_other _ _ hvt] at hev hu; exact hq.targets v u hvn hev hu
            refine ⟨by rw [hn1]; exact this.1, ?_⟩
            rw [ht1]
            by_cases hut : u = t
            · subst hut; simp only [upd_same]; exact he
            · simp only [upd_other _ _ hut]; exact this.2
        have hD2 : Dec s s1 := by
          refine ⟨hn1, hp1, ?_⟩
          intro v
          rw [ht1]
          by_cases hv : v = t
          · subst hv; simp only [upd_same]
            exact ⟨rfl, rfl, rfl, by simp [credit, hf], by simp, by simp, fun _ => rfl⟩
          · simp only [upd_other _ _ hv]; exact ⟨rfl, rfl, rfl, rfl, id, id, id⟩
        refine ⟨Q_mono hm hq1, hD2.trans hm.dec, ?_⟩
        have := (hm.2.2 t).2.2.1
        rw [this, ht1]; simp
      · have hf' : (s.task t).fut = false := by simpa using hf
        rw [dropFuture_dead _ _ _ _ (by simp [hf'])]
        refine ⟨?_, hD1, by simp⟩
        constructor
        · intro v hv hev hfv
          by_cases hvt : v = t
          · subst hvt; simp [hf'] at hfv
          · simp only [upd_other _ _ hvt] at hev hfv ⊢; exact hq.alive v hv hev hfv
        · intro v hv hev hcv
          by_cases hvt : v = t
          · subst hvt; simp [hf']
          · simp only [upd_other _ _ hvt] at hev hcv ⊢; exact hq.closedOk v hv hev hcv
        · intro v u hv hev hu
          have : u < s.n ∧ (s.task u).exec = e := by
            by_cases hvt : v = t
            · subst hvt; simp only [upd_same] at hev hu; exact hq.targets v u hv he hu
            · simp only [upd_other _ _ hvt] at hev hu; exact hq.targets v u hv hev hu
          refine ⟨this.1, ?_⟩
          by_cases hut : u = t
          · subst hut; simp only [upd_same]; exact he
          · simp only [upd_other _ _ hut]; exact this.2
    · rw [if_neg hcond]
      refine ⟨?_, hD1, by simp⟩
      -- closed already, or a Runnable exists: the future is left to whoever drops the Runnable
      have hloc : (s.task t).fut = true → (s.task t).loc ≠ .none := by
        intro hf hl
        have hc : (s.task t).closed = true := by
          cases hcl : (s.task t).closed with
          | true => rfl
          | false => exact absurd ⟨hcl, hl⟩ hcond
        rcases hq.closedOk t ht he hc with h | h
        · rw [hf] at h; simp at h
        · exact h hl
      constructor
      · intro v hv hev hfv
        by_cases hvt : v = t
        · subst hvt; simp only [upd_same] at hfv ⊢
          exact Or.inr ⟨trivial, hloc hfv⟩
        · simp only [upd_other _ _ hvt] at hev hfv ⊢; exact hq.alive v hv hev hfv
      · intro v hv hev hcv
        by_cases hvt : v = t
        · subst hvt; simp only [upd_same]
          by_cases hf : (s.task v).fut = true
          · exact Or.inr (hloc hf)
          · exact Or.inl (by simpa using hf)
        · simp only [upd_other _ _ hvt] at hev hcv ⊢; exact hq.closedOk v hv hev hcv
      · intro v u hv hev hu
        have : u < s.n ∧ (s.task u).exec = e := by
          by_cases hvt : v = t
          · subst hvt; simp only [upd_same] at hev hu; exact hq.targets v u hv he hu
          · simp only [upd_other _ _ hvt] at hev hu; exact hq.targets v u hv hev hu
        refine ⟨this.1, ?_⟩
        by_cases hut : u = t
        · subst hut; simp only [upd_same]; exact he
        · simp only [upd_other _ _ hut]; exact this.2
  · rw [if_neg htok]
    exact ⟨hq, Dec.refl s, by simpa using htok⟩

end NexoVerif.DropM
