import NexoVerif.Lemmas.SchedShape
/-! The groups collected by the pull loop: pulled in queue order, one group per (time, origin) key. -/
namespace NexoVerif.Sched
set_option linter.unusedSimpArgs false
set_option linter.unusedVariables false

/-- chronological flattening of the group accumulator (groups and members are stored newest first) -/
def flat (gs : List (List Entry)) : List Entry := ((gs.map List.reverse).reverse).flatten

theorem flat_addToGroups (e : Entry) (gs : List (List Entry)) : flat (addToGroups e gs) = flat gs ++ [e] := by
  unfold addToGroups flat
  split
  · simp
  · split
    · simp
    · split <;> simp

/-- the accumulator is well grouped: members of a group share their key, a new group is opened only when
the key changes -/
def Grouped : List (List Entry) → Prop
  | [] => True
  | g :: gs => g ≠ [] ∧ (∀ a ∈ g, ∀ b ∈ g, a.sameKey b = true) ∧
      (match gs with
       | [] => True
       | g' :: _ => ∀ a ∈ g.getLast?, ∀ b ∈ g'.head?, b.sameKey a = false) ∧ Grouped gs

theorem sameKey_symm (a b : Entry) : a.sameKey b = b.sameKey a := by
  unfold Entry.sameKey
  rw [Bool.eq_iff_iff]; simp; constructor <;> (intro h; exact ⟨h.1.symm, h.2.symm⟩)

theorem sameKey_trans (a b c : Entry) (h1 : a.sameKey b = true) (h2 : b.sameKey c = true) : a.sameKey c = true := by
  unfold Entry.sameKey at *; simp at *; exact ⟨h1.1.trans h2.1, h1.2.trans h2.2⟩

theorem grouped_addToGroups (e : Entry) (gs : List (List Entry)) (h : Grouped gs) : Grouped (addToGroups e gs) := by
  unfold addToGroups
  split
  · simp [Grouped, Entry.sameKey]
  · rename_i g gs'
    split
    · exact absurd rfl h.1
    · rename_i x xs
      split
      · rename_i hk
        refine ⟨by simp, ?_, ?_, h.2.2.2⟩
        · intro a ha b hb
          have hx : ∀ y ∈ x :: xs, x.sameKey y = true := fun y hy => h.2.1 x (by simp) y hy
          simp at ha hb
          have ha' : x.sameKey a = true := by
            rcases ha with rfl | ha
            · exact hk
            · exact hx a (by simpa using ha)
          have hb' : x.sameKey b = true := by
            rcases hb with rfl | hb
            · exact hk
            · exact hx b (by simpa using hb)
          exact sameKey_trans a x b (by rw [sameKey_symm]; exact ha') hb'
        · have := h.2.2.1
          cases gs' with
          | nil => trivial
          | cons g' r =>
            simp only at this ⊢
            intro a ha b hb
            apply this a _ b hb
            simp at ha ⊢
            exact ha
      · rename_i hk
        refine ⟨by simp, ?_, ?_, h⟩
        · intro a ha b hb; simp at ha hb; subst ha; subst hb; simp [Entry.sameKey]
        · simp only
          intro a ha b hb
          simp at ha hb
          subst ha; subst hb
          simpa using hk

theorem pullAll_grouped (bound : Option Nat) (t fuel : Nat) (s : St) (gs : List (List Entry)) (h : Grouped gs) :
    Grouped (pullAll bound t fuel s gs).2 := by
  induction fuel generalizing s gs with
  | zero => exact h
  | succ n ih =>
    unfold pullAll
    simp only
    split
    · exact h
    · split
      · split
        · exact h
        · rename_i e' s' hp
          exact ih s' _ (grouped_addToGroups e' gs h)
      · exact h

/-- pulled entries come out in strictly increasing (time, origin, epoch) order, and everything still queued is
greater than everything pulled -/
theorem pullAll_sorted (bound : Option Nat) (t fuel : Nat) (s : St) (gs : List (List Entry)) (hi : InvW t s)
    (hs : Sorted (flat gs)) (hlt : ∀ a ∈ flat gs, ∀ b ∈ s.queue, a.lt b = true) :
    Sorted (flat (pullAll bound t fuel s gs).2) := by
  induction fuel generalizing s gs with
  | zero => exact hs
  | succ n ih =>
    unfold pullAll
    have hd := discard_invW bound t s hi
    have hsub := (discard_spec bound s).1
    simp only
    split
    · exact hs
    · rename_i x xs hq
      split
      · split
        · exact hs
        · rename_i e' s' hp
          obtain ⟨es, hq2, _, _, _, _, _, _, hcase⟩ := pullHead_spec hp
          have hee : e' = x ∧ es = xs := by rw [hq] at hq2; simp at hq2; exact ⟨hq2.1.symm, hq2.2.symm⟩
          obtain ⟨rfl, rfl⟩ := hee
          have hxq : e' ∈ s.queue := hsub.subset (by rw [hq]; simp)
          have hsorted_q := hd.sorted
          rw [hq] at hsorted_q
          have hx_lt : ∀ b ∈ es, e'.lt b = true := (List.pairwise_cons.mp hsorted_q).1
          apply ih s' _ (pullHead_invW hp hd)
          · rw [flat_addToGroups]
            unfold Sorted
            rw [List.pairwise_append]
            exact ⟨hs, by simp, fun a ha b hb => by simp at hb; subst hb; exact hlt a ha _ hxq⟩
          · intro a ha b hb
            rw [flat_addToGroups] at ha
            simp at ha
            have hb' : b ∈ es ∨ (∃ p, e'.period = some p ∧ b = { e' with time := e'.time + p, epoch := (discardCancelled bound s).nextEpoch }) := by
              rcases hcase with ⟨_, hq', _⟩ | ⟨p, hpp, hq', _⟩
              · left; rw [hq'] at hb; exact hb
              · rw [hq'] at hb
                rcases mem_insert.mp hb with rfl | hb
                · right; exact ⟨p, hpp, rfl⟩
                · left; exact hb
            rcases ha with ha | rfl
            · rcases hb' with hb' | ⟨p, hpp, rfl⟩
              · exact hlt a ha b (hsub.subset (by rw [hq]; simp [hb']))
              · have h1 := hlt a ha _ hxq
                have hper := hd.period e' (by rw [hq]; simp)
                rw [Entry.lt_iff] at h1 ⊢
                simp only
                have : p ≠ 0 := by intro h0; rw [hpp, h0] at hper; exact hper rfl
                omega
            · rcases hb' with hb' | ⟨p, hpp, rfl⟩
              · exact hx_lt b hb'
              · have hper := hd.period a (by rw [hq]; simp)
                rw [Entry.lt_iff]
                simp only
                have : p ≠ 0 := by intro h0; rw [hpp, h0] at hper; exact hper rfl
                omega
      · exact hs

end NexoVerif.Sched
