import NexoVerif.Model.Names
/-! M-NAMES: identifiers are positions in the table of names; order of the two tables; the two counter-models. -/
namespace NexoVerif.Names

/-- the identifiers handed out so far are the positions in the table of names, and the table holds, at each of them, the
name of the model that got it -/
structure Inv (r : Reg) : Prop where
  fst : r.spawned.map Prod.fst = r.names
  snd : r.spawned.map Prod.snd = List.range r.names.length

theorem Inv.empty : Inv {} := ⟨rfl, rfl⟩

mutual
theorem addModel_inv (r : Reg) (qual : String) : (p : Proto) → Inv r → Inv (addModel false r qual p)
  | .node n subs, i => by
    have i1 : Inv { r with observers := r.observers ++ [qual] } := ⟨i.fst, i.snd⟩
    have i2 := addSubs_inv { r with observers := r.observers ++ [qual] } qual subs i1
    simp only [addModel]
    constructor
    · simp [i2.fst]
    · simp [i2.snd, List.range_succ]
theorem addSubs_inv (r : Reg) (parent : String) : (ps : List Proto) → Inv r → Inv (addSubs false r parent ps)
  | [], i => by simpa [addSubs] using i
  | .node n subs :: rest, i => by
    simp only [addSubs]
    exact addSubs_inv _ parent rest (addModel_inv r _ (.node n subs) i)
end

theorem addTop_inv (r : Reg) : (ps : List Proto) → Inv r → Inv (addTop false r ps)
  | [], i => by simpa [addTop] using i
  | .node n subs :: rest, i => by
    simp only [addTop]
    exact addTop_inv _ rest (addModel_inv r _ (.node n subs) i)

/-- what an error report does with a model identifier: `model_names[id]` is the model's own qualified name -/
theorem Inv.lookup {r : Reg} (i : Inv r) {q : String} {id : Nat} (h : (q, id) ∈ r.spawned) :
    r.names[id]? = some q := by
  obtain ⟨k, hk, e⟩ := List.getElem_of_mem h
  have h1 : (r.spawned.map Prod.fst)[k]? = some q := by simp [hk, e]
  have h2 : (r.spawned.map Prod.snd)[k]? = some id := by simp [hk, e]
  rw [i.fst] at h1
  rw [i.snd] at h2
  have hk' : k < r.names.length := by
    rcases Nat.lt_or_ge k r.names.length with l | l
    · exact l
    · rw [List.getElem?_eq_none l] at h1; cases h1
  simp [hk'] at h2
  subst h2
  exact h1

/-- no two models get the same identifier -/
theorem Inv.ids_distinct {r : Reg} (i : Inv r) : (r.spawned.map Prod.snd).Nodup := by
  rw [i.snd]; exact List.nodup_range

/-! ### the order of the two tables -/

mutual
def pre (qual : String) : Proto → List String
  | .node _ subs => qual :: preSubs qual subs
def preSubs (parent : String) : List Proto → List String
  | [] => []
  | .node n subs :: rest => pre (parent ++ "." ++ orUnknown n) (.node n subs) ++ preSubs parent rest
end

mutual
def post (qual : String) : Proto → List String
  | .node _ subs => postSubs qual subs ++ [qual]
def postSubs (parent : String) : List Proto → List String
  | [] => []
  | .node n subs :: rest => post (parent ++ "." ++ orUnknown n) (.node n subs) ++ postSubs parent rest
end

mutual
theorem addModel_order (b : Bool) (r : Reg) (qual : String) : (p : Proto) →
    (addModel b r qual p).observers = r.observers ++ pre qual p ∧ (addModel b r qual p).names = r.names ++ post qual p
  | .node n subs => by
    have h := addSubs_order b { r with observers := r.observers ++ [qual] } qual subs
    simp only [addModel, pre, post]
    exact ⟨by rw [h.1]; simp, by rw [h.2]; simp⟩
theorem addSubs_order (b : Bool) (r : Reg) (parent : String) : (ps : List Proto) →
    (addSubs b r parent ps).observers = r.observers ++ preSubs parent ps ∧
    (addSubs b r parent ps).names = r.names ++ postSubs parent ps
  | [] => by simp [addSubs, preSubs, postSubs]
  | .node n subs :: rest => by
    have h1 := addModel_order b r (parent ++ "." ++ orUnknown n) (.node n subs)
    have h2 := addSubs_order b (addModel b r (parent ++ "." ++ orUnknown n) (.node n subs)) parent rest
    simp only [addSubs, preSubs, postSubs]
    exact ⟨by rw [h2.1, h1.1]; simp, by rw [h2.2, h1.2]; simp⟩
end

/-! ### the two ways to get it wrong -/

/-- a model with one sub-model: `top` is registered, `build` adds `top.sub` -/
def exBench : List Proto := [.node "top" [.node "sub" []], .node "other" []]

/-- the identifier taken before `build`: the parent gets its sub-model's slot -/
theorem id_taken_before_build_misnames_the_parent :
    (addTop true {} exBench).spawned = [("top.sub", 0), ("top", 0), ("other", 2)] ∧
    (addTop true {} exBench).names = ["top.sub", "top", "other"] ∧
    (addTop true {} exBench).names[0]? = some "top.sub" := by decide

/-- observers (parents first) and names (sub-models first) do not line up: pairing them position by position names the
wrong model -/
theorem observers_and_names_are_in_different_orders :
    (addTop false {} exBench).observers = ["top", "top.sub", "other"] ∧
    (addTop false {} exBench).names = ["top.sub", "top", "other"] := by decide

end NexoVerif.Names
