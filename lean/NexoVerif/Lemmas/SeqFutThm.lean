import NexoVerif.Model.SeqFut
namespace NexoVerif.SeqFut
set_option linter.unusedSimpArgs false
set_option linter.unusedVariables false

theorem wf_append (c : Nat) (l1 l2 : List Ev) : wf c (l1 ++ l2) = (wf c l1).bind (fun c' => wf c' l2) := by
  induction l1 generalizing c with
  | nil => simp [wf]
  | cons e l ih =>
    cases e with
    | polled k => simp only [List.cons_append, wf]; split <;> simp [ih]
    | completed k => simp only [List.cons_append, wf]; split <;> simp [ih]

structure Inv (s : St) : Prop where
  le : s.idx ≤ s.len
  log : wf 0 s.log = some s.idx
  done : s.done = true → s.idx = s.len
  notDone : s.done = false → s.idx < s.len

theorem pollLoop_inv (ready : Nat → Nat → Bool) (fuel : Nat) (s : St) (h : Inv s) (hlt : s.idx < s.len)
    (hd : s.done = false) : Inv (pollLoop ready fuel s) := by
  induction fuel generalizing s with
  | zero => exact h
  | succ f ih =>
    simp only [pollLoop]
    have h1 : wf 0 (s.log ++ [Ev.polled s.idx]) = some s.idx := by
      rw [wf_append, h.log]; simp [wf]
    split
    · have h2 : wf 0 (s.log ++ [Ev.polled s.idx] ++ [Ev.completed s.idx]) = some (s.idx + 1) := by
        rw [wf_append, h1]; simp [wf]
      split
      · rename_i heq
        exact ⟨by show s.idx + 1 ≤ s.len; omega, h2, fun _ => heq, fun hx => (by simp at hx)⟩
      · rename_i hne
        have hne' : s.idx + 1 ≠ s.len := hne
        exact ih _ ⟨by show s.idx + 1 ≤ s.len; omega, h2, fun hx => (by rw [hd] at hx; cases hx), fun _ => (by show s.idx + 1 < s.len; omega)⟩
          (by show s.idx + 1 < s.len; omega) hd
    · exact ⟨h.le, h1, fun hx => (by rw [hd] at hx; cases hx), fun _ => hlt⟩

theorem poll_inv (ready : Nat → Nat → Bool) (s : St) (h : Inv s) : Inv (poll ready s) := by
  unfold poll
  split
  · exact h
  · rename_i hd
    have hd' : s.done = false := by cases hx : s.done <;> simp_all
    exact pollLoop_inv ready s.len s h (h.notDone hd') hd'

theorem reach_inv {n : Nat} (hn : 0 < n) {s : St} (h : Reach n s) : Inv s := by
  induction h with
  | init => exact ⟨Nat.zero_le _, rfl, fun hx => (by cases hx), fun _ => hn⟩
  | poll ready _ ih => exact poll_inv ready _ ih

theorem comps_of_wf (c : Nat) (l : List Ev) (d : Nat) (h : wf c l = some d) :
    comps l = (List.range' c (d - c)) ∧ c ≤ d := by
  induction l generalizing c with
  | nil => simp [wf] at h; subst h; simp [comps]
  | cons e l ih =>
    cases e with
    | polled k =>
      simp only [wf] at h
      split at h
      · exact ih c h
      · cases h
    | completed k =>
      simp only [wf] at h
      split at h
      · rename_i hk
        have := ih (c + 1) h
        subst hk
        refine ⟨?_, by omega⟩
        simp only [comps, this.1]
        have : d - k = (d - (k + 1)) + 1 := by omega
        rw [this, List.range'_succ]
      · cases h

/-- **the sub-futures complete in list order, each once**: the completions logged so far are 0, 1, …, idx−1. -/
theorem completions_in_list_order {n : Nat} (hn : 0 < n) {s : St} (h : Reach n s) : comps s.log = List.range s.idx := by
  have := comps_of_wf 0 s.log s.idx (reach_inv hn h).log
  rw [this.1, List.range_eq_range']; simp

/-- **a sub-future is polled only after all earlier ones have completed, and never after it has completed itself**:
wherever `polled k` occurs in the log, exactly the sub-futures 0 … k−1 have completed before it. -/
theorem polled_only_after_predecessors {n : Nat} (hn : 0 < n) {s : St} (h : Reach n s) (a b : List Ev) (k : Nat)
    (hl : s.log = a ++ Ev.polled k :: b) : comps a = List.range k := by
  have hw := (reach_inv hn h).log
  rw [hl, wf_append] at hw
  cases ha : wf 0 a with
  | none => rw [ha] at hw; cases hw
  | some c =>
    rw [ha] at hw
    simp only [Option.bind_some, wf] at hw
    split at hw
    · rename_i hk
      have := comps_of_wf 0 a c ha
      rw [this.1, hk, List.range_eq_range']; simp
    · cases hw

/-- **Ready means everything completed**: once `poll` has returned `Ready`, every sub-future has completed. -/
theorem ready_means_all_completed {n : Nat} (hn : 0 < n) {s : St} (h : Reach n s) (hd : s.done = true) :
    comps s.log = List.range n := by
  have hi := reach_inv hn h
  have hlen : s.len = n := by
    clear hd hi
    induction h with
    | init => rfl
    | poll ready _ ih =>
      rename_i s0 _
      unfold poll
      split
      · exact ih
      · have : ∀ fuel (t : St), (pollLoop ready fuel t).len = t.len := by
          intro fuel
          induction fuel with
          | zero => intro t; rfl
          | succ f ihf =>
            intro t
            simp only [pollLoop]
            split
            · split
              · rfl
              · rw [ihf]
            · rfl
        rw [this]; exact ih
  rw [completions_in_list_order hn h, hi.done hd, hlen]

end NexoVerif.SeqFut
