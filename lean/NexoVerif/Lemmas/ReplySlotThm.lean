import NexoVerif.Model.ReplySlot
/-! M-SLOT: the invariant of the one-shot slot (ownership of the allocation and of the value). -/
namespace NexoVerif.Slot

macro "fin" : tactic => `(tactic| first | (simp_all; done) | grind | (simp_all <;> grind))

structure Inv (s : St) : Prop where
  nobad : s.bad = false
  closedIff : s.closed = true ↔ (s.wpc = .done ∨ s.rpc = .done)
  freedEq : s.freed = if s.wpc = .done ∧ s.rpc = .done then 1 else 0
  wMust : (s.wpc = .mustFree ∨ s.wpc = .mustClean) → s.rpc = .done
  rMust : ∀ p, s.rpc = .mustFree p → s.wpc = .done ∧ s.pop = p
  rRead : (s.rpc = .readStore ∨ s.rpc = .readValue) → s.wpc = .done
  wEmpty : (s.wpc = .idle ∨ s.wpc = .dropLoaded ∨ s.wpc = .mustFree) → s.cell = .empty ∧ s.pop = false
  wFull : (s.wpc = .wrote ∨ s.wpc = .mustClean) → s.cell = .full
  popW : s.pop = true → s.wpc = .mustClean ∨ s.wpc = .done
  popFull : s.pop = true → s.rpc ≠ .done → s.cell = .full
  rStore : s.rpc = .readStore → s.pop = true
  rValue : s.rpc = .readValue → s.cell = .full ∧ s.pop = false
  fullOwned : s.cell = .full → (s.wpc = .wrote ∨ s.wpc = .mustClean) ∨
    (s.wpc = .done ∧ s.rpc ≠ .done ∧ (s.pop = true ∨ s.rpc = .readValue))
  readsLe : s.reads ≤ 1 ∧ (s.reads = 1 → s.cell = .taken)
  okFull : s.wroteOk = true → s.wpc = .done ∧ (s.cell = .full ∨ s.cell = .taken ∨ s.cell = .dropped)
  okPop : s.wroteOk = true → s.pop = true ∨ s.rpc = .readValue ∨ s.reads = 1 ∨ s.rpc = .done
  takenOk : s.cell = .taken → s.wroteOk = true ∧ s.reads = 1
  popOk : s.pop = true → s.rpc ≠ .done → s.wroteOk = true
  popReads : s.pop = true → s.reads = 0
  readsW : s.reads = 1 → s.wpc = .done
  rReadOk : (s.rpc = .readStore ∨ s.rpc = .readValue) → s.wroteOk = true ∧ s.reads = 0

theorem inv_init : Inv {} := by
  constructor <;> simp

theorem touch_eq {s : St} (h : s.freed = 0) : s.touch = s := by simp [St.touch, h]

theorem free_eq {s : St} (h : s.freed = 0) : s.free = { s with freed := 1 } := by simp [St.free, h]

theorem Inv.wIn_freed {s : St} (i : Inv s) (h : s.wpc ≠ .done) : s.freed = 0 := by
  rw [i.freedEq]; simp [h]

theorem Inv.rIn_freed {s : St} (i : Inv s) (h : s.rpc ≠ .done) : s.freed = 0 := by
  rw [i.freedEq]; simp [h]

set_option maxHeartbeats 1000000 in
theorem inv_step {s s' : St} (l : Label) (i : Inv s) (h : step l s = some s') : Inv s' := by
  obtain ⟨nobad, closedIff, freedEq, wMust, rMust, rRead, wEmpty, wFull, popW, popFull, rStore, rValue, fullOwned, readsLe, okFull, okPop, takenOk, popOk, popReads, readsW, rReadOk⟩ := i
  have i : Inv s := ⟨nobad, closedIff, freedEq, wMust, rMust, rRead, wEmpty, wFull, popW, popFull, rStore, rValue, fullOwned, readsLe, okFull, okPop, takenOk, popOk, popReads, readsW, rReadOk⟩
  cases l <;> simp only [step] at h
  case wWriteValue =>
    by_cases hw : s.wpc = .idle
    · simp only [hw, if_true] at h
      have f0 := i.wIn_freed (by simp [hw])
      rw [touch_eq f0] at h
      simp at h; subst h
      constructor <;> fin
    · simp [hw] at h
  case wPublish =>
    by_cases hw : s.wpc = .wrote
    · simp only [hw, if_true] at h
      have f0 := i.wIn_freed (by simp [hw])
      rw [touch_eq f0] at h
      by_cases hc : s.closed = true
      · simp only [hc, if_true] at h
        simp at h; subst h
        constructor <;> fin
      · simp only [hc] at h
        simp at h; subst h
        constructor <;> fin
    · simp [hw] at h
  case wClean =>
    by_cases hw : s.wpc = .mustClean
    · simp only [hw, if_true] at h
      have f0 := i.wIn_freed (by simp [hw])
      rw [touch_eq f0] at h
      rw [free_eq (by simpa using f0)] at h
      simp at h; subst h
      constructor <;> fin
    · simp [hw] at h
  case wDropLoad =>
    by_cases hw : s.wpc = .idle
    · simp only [hw, if_true] at h
      have f0 := i.wIn_freed (by simp [hw])
      rw [touch_eq f0] at h
      simp at h; subst h
      constructor <;> fin
    · simp [hw] at h
  case wDropOr =>
    by_cases hw : s.wpc = .dropLoaded
    · simp only [hw, if_true] at h
      have f0 := i.wIn_freed (by simp [hw])
      rw [touch_eq f0] at h
      simp at h; subst h
      constructor <;> fin
    · simp [hw] at h
  case wFree =>
    by_cases hw : s.wpc = .mustFree
    · simp only [hw, if_true] at h
      have f0 := i.wIn_freed (by simp [hw])
      rw [free_eq (by simpa using f0)] at h
      simp at h; subst h
      constructor <;> fin
    · simp [hw] at h
  case rTryLoad =>
    by_cases hr : s.rpc = .idle
    · simp only [hr, if_true] at h
      have f0 := i.rIn_freed (by simp [hr])
      rw [touch_eq f0] at h
      simp at h; subst h
      constructor <;> fin
    · simp [hr] at h
  case rTryStore =>
    by_cases hr : s.rpc = .readStore
    · simp only [hr, if_true] at h
      have f0 := i.rIn_freed (by simp [hr])
      rw [touch_eq f0] at h
      simp at h; subst h
      constructor <;> fin
    · simp [hr] at h
  case rTryTake =>
    by_cases hr : s.rpc = .readValue
    · simp only [hr, if_true] at h
      have f0 := i.rIn_freed (by simp [hr])
      rw [touch_eq f0] at h
      simp at h; subst h
      constructor <;> fin
    · simp [hr] at h
  case rDropLoad =>
    by_cases hr : s.rpc = .idle
    · simp only [hr, if_true] at h
      have f0 := i.rIn_freed (by simp [hr])
      rw [touch_eq f0] at h
      simp at h; subst h
      constructor <;> fin
    · simp [hr] at h
  case rDropOr =>
    by_cases hr : s.rpc = .dropLoaded
    · simp only [hr, if_true] at h
      have f0 := i.rIn_freed (by simp [hr])
      rw [touch_eq f0] at h
      simp at h; subst h
      constructor <;> fin
    · simp [hr] at h
  case rFree =>
    split at h
    · rename_i p hr
      have f0 := i.rIn_freed (by simp [hr])
      have hm := rMust p hr
      cases p
      · simp only [Bool.false_eq_true, if_false] at h
        rw [free_eq (by simpa using f0)] at h
        simp at h; subst h
        constructor <;> fin
      · simp only [if_true] at h
        rw [touch_eq f0] at h
        rw [free_eq (by simpa using f0)] at h
        simp at h; subst h
        constructor <;> fin
    · simp at h

theorem inv_reach {s : St} (r : Reach s) : Inv s := by
  induction r with
  | init => exact inv_init
  | step l _ h ih => exact inv_step l ih h

end NexoVerif.Slot
