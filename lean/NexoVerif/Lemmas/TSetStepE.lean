import NexoVerif.Lemmas.TSetStepD
namespace NexoVerif.TSet
set_option linter.unusedSimpArgs false
set_option linter.unusedVariables false
set_option maxHeartbeats 4000000

theorem pusher_same (s s' : St) (hm : s'.m = s.m) (hwt : s'.wt = s.wt) (hpc : s'.wpc = s.wpc) (w i : Nat) :
    Pusher s' w i ↔ Pusher s w i := by
  unfold Pusher; rw [hm, hwt, hpc]

theorem inv_take (c : Nat) (s s' : St) (h : Inv s) (hs : step (.take c) s = some s') : Inv s' := by
  simp only [step] at hs
  split at hs
  · rename_i hcur
    obtain ⟨i1, i2, i3, i4, i5, i6, i7, i8, i9, i10, i11, i12⟩ := h
    have hiter : s.iter = [] := by
      rw [hcur] at i2
      cases hi : s.iter with
      | nil => rfl
      | cons a l => rw [hi] at i2; simp at i2
    split at hs
    · -- nothing scheduled: the countdown is armed
      rename_i hix
      simp only [Option.some.injEq] at hs
      have hstack : s.stack = [] := by
        rw [hix] at i1
        cases hi : s.stack with
        | nil => rfl
        | cons a l => rw [hi] at i1; simp at i1
      have en : s'.n = s.n := by rw [← hs]
      have em : s'.m = s.m := by rw [← hs]
      have enext : s'.next = s.next := by rw [← hs]
      have ehead : s'.head = { cd := c, ix := none } := by rw [← hs]
      have ewpc : s'.wpc = s.wpc := by rw [← hs]
      have ewt : s'.wt = s.wt := by rw [← hs]
      have ecur : s'.cur = s.cur := by rw [← hs]
      have eerr : s'.err = s.err := by rw [← hs]
      have estack : s'.stack = s.stack := by rw [← hs]
      have eiter : s'.iter = s.iter := by rw [← hs]
      have eneed : s'.need = s.need := by rw [← hs]
      clear hs
      have pf := pusher_same s s' em ewt ewpc
      refine ⟨by rw [ehead, estack, hstack]; rfl, by rw [ecur, eiter]; exact i2, by rw [enext, estack]; exact i3,
        by rw [enext, eiter]; exact i4, by rw [estack, eiter]; exact i5, by rw [estack, eiter, en]; exact i6,
        by rw [em, ewpc, ewt, en]; exact i7, ?_, ?_, ?_, by rw [eneed, enext]; exact i11, by rw [eerr]; exact i12⟩
      · intro i hin hx
        rw [en] at hin; rw [enext] at hx; rw [estack, eiter]
        rcases i8 i hin hx with a | a | ⟨w', a⟩
        · exact Or.inl a
        · exact Or.inr (Or.inl a)
        · exact Or.inr (Or.inr ⟨w', (pf w' i).mpr a⟩)
      · intro w' i hp
        rw [estack, eiter, enext, ewpc]; exact i9 w' i ((pf w' i).mp hp)
      · intro w' w'' i a b
        exact i10 w' w'' i ((pf w' i).mp a) ((pf w'' i).mp b)
    · -- the whole chain is taken over by the iterator
      rename_i k hix
      simp only [Option.some.injEq] at hs
      have en : s'.n = s.n := by rw [← hs]
      have em : s'.m = s.m := by rw [← hs]
      have enext : s'.next = s.next := by rw [← hs]
      have ehead : s'.head = { cd := 0, ix := none } := by rw [← hs]
      have ewpc : s'.wpc = s.wpc := by rw [← hs]
      have ewt : s'.wt = s.wt := by rw [← hs]
      have ecur : s'.cur = some k := by rw [← hs]
      have eerr : s'.err = s.err := by rw [← hs]
      have estack : s'.stack = [] := by rw [← hs]
      have eiter : s'.iter = s.stack := by rw [← hs]
      have eneed : s'.need = s.need := by rw [← hs]
      clear hs
      have pf := pusher_same s s' em ewt ewpc
      refine ⟨by rw [ehead, estack]; rfl, by rw [ecur, eiter, ← i1, hix], by rw [estack]; trivial,
        by rw [enext, eiter]; exact i3, ?_, ?_,
        by rw [em, ewpc, ewt, en]; exact i7, ?_, ?_, ?_, by rw [eneed, enext]; exact i11, by rw [eerr]; exact i12⟩
      · rw [estack, eiter]; rw [hiter] at i5; simpa using i5
      · rw [estack, eiter, en]; rw [hiter] at i6; simpa using i6
      · intro i hin hx
        rw [en] at hin; rw [enext] at hx; rw [estack, eiter]
        rcases i8 i hin hx with a | a | ⟨w', a⟩
        · exact Or.inr (Or.inl a)
        · rw [hiter] at a; cases a
        · exact Or.inr (Or.inr ⟨w', (pf w' i).mpr a⟩)
      · intro w' i hp
        have := i9 w' i ((pf w' i).mp hp)
        rw [estack, eiter, enext, ewpc]
        exact ⟨by simp, this.1, this.2.2.1, this.2.2.2⟩
      · intro w' w'' i a b
        exact i10 w' w'' i ((pf w' i).mp a) ((pf w'' i).mp b)
  · simp at hs

theorem inv_iterNext (s s' : St) (h : Inv s) (hs : step .iterNext s = some s') : Inv s' := by
  simp only [step] at hs
  split at hs
  · rename_i j hcur
    obtain ⟨i1, i2, i3, i4, i5, i6, i7, i8, i9, i10, i11, i12⟩ := h
    -- the iterator's chain starts with `j`
    obtain ⟨rest, hiter⟩ : ∃ rest, s.iter = j :: rest := by
      rw [hcur] at i2
      cases hi : s.iter with
      | nil => rw [hi] at i2; simp at i2
      | cons a l => rw [hi] at i2; simp at i2; subst i2; exact ⟨l, rfl⟩
    have hlink : s.next j = ofIx rest.head? ∧ Linked s.next rest := by rw [hiter] at i4; exact i4
    have hnd : j ∉ s.stack ∧ j ∉ rest ∧ (s.stack ++ rest).Nodup := by
      rw [hiter] at i5
      have := List.nodup_append.mp i5
      have h2 := List.nodup_cons.mp this.2.1
      refine ⟨fun hm => this.2.2 j hm j List.mem_cons_self rfl, h2.1, ?_⟩
      exact List.nodup_append.mpr ⟨this.1, h2.2, fun a ha b hb => this.2.2 a ha b (List.mem_cons_of_mem _ hb)⟩
    -- what the swap reads is the link to the rest of the chain
    have key : ∀ (cur' : Option Nat), cur' = rest.head? →
        ∀ s1 : St, s1.n = s.n → s1.m = s.m → s1.next = upd s.next j .sleeping → s1.head = s.head → s1.wpc = s.wpc →
          s1.wt = s.wt → s1.cur = cur' → s1.err = s.err → s1.stack = s.stack → s1.iter = s.iter.tail →
          s1.need = upd s.need j false → Inv s1 := by
      intro cur' hc s1 en em enext ehead ewpc ewt ecur eerr estack eiter eneed
      have eiter' : s1.iter = rest := by rw [eiter, hiter]; rfl
      have pf := pusher_same s s1 em ewt ewpc
      refine ⟨by rw [ehead, estack]; exact i1, by rw [ecur, eiter', hc],
        by rw [enext, estack]; exact linked_upd _ _ _ _ hnd.1 i3,
        by rw [enext, eiter']; exact linked_upd _ _ _ _ hnd.2.1 hlink.2,
        by rw [estack, eiter']; exact hnd.2.2, ?_, by rw [em, ewpc, ewt, en]; exact i7, ?_, ?_, ?_, ?_, by rw [eerr]; exact i12⟩
      · rw [estack, eiter', en]
        intro i hin
        apply i6 i
        rw [hiter]
        simp only [List.mem_append, List.mem_cons] at hin ⊢
        rcases hin with a | a
        · exact Or.inl a
        · exact Or.inr (Or.inr a)
      · intro i hin hx
        rw [en] at hin; rw [estack, eiter']
        by_cases hij : i = j
        · subst hij; rw [enext] at hx; simp at hx
        · rw [enext] at hx; simp only [upd_other _ _ hij] at hx
          rcases i8 i hin hx with a | a | ⟨w', a⟩
          · exact Or.inl a
          · rw [hiter] at a
            simp only [List.mem_cons] at a
            rcases a with a | a
            · exact absurd a hij
            · exact Or.inr (Or.inl a)
          · exact Or.inr (Or.inr ⟨w', (pf w' i).mpr a⟩)
      · intro w' i hp
        have := i9 w' i ((pf w' i).mp hp)
        have hij : i ≠ j := by intro e; subst e; exact this.2.1 (by rw [hiter]; exact List.mem_cons_self)
        rw [estack, eiter', enext, ewpc]
        refine ⟨this.1, fun hm => this.2.1 (by rw [hiter]; exact List.mem_cons_of_mem _ hm),
          by simp only [upd_other _ _ hij]; exact this.2.2.1, ?_⟩
        intro hh hpc'
        simp only [upd_other _ _ hij]; exact this.2.2.2 hh hpc'
      · intro w' w'' i a b
        exact i10 w' w'' i ((pf w' i).mp a) ((pf w'' i).mp b)
      · intro i hx
        rw [eneed] at hx; rw [enext]
        by_cases hij : i = j
        · subst hij; simp at hx
        · simp only [upd_other _ _ hij] at hx ⊢; exact i11 i hx
    split at hs
    · rename_i hsl
      exact absurd hsl (by rw [hlink.1]; exact ofIx_ne_sleeping _)
    · rename_i hem
      simp only [Option.some.injEq] at hs
      have hr : rest.head? = none := by
        rw [hlink.1] at hem
        cases hh : rest.head? with
        | none => rfl
        | some k => rw [hh] at hem; simp [ofIx] at hem
      exact key none hr.symm s' (by rw [← hs]) (by rw [← hs]) (by rw [← hs]) (by rw [← hs]) (by rw [← hs]) (by rw [← hs])
        (by rw [← hs]) (by rw [← hs]) (by rw [← hs]) (by rw [← hs]) (by rw [← hs])
    · rename_i k hk
      simp only [Option.some.injEq] at hs
      have hr : rest.head? = some k := by
        rw [hlink.1] at hk
        cases hh : rest.head? with
        | none => rw [hh] at hk; simp [ofIx] at hk
        | some k' => rw [hh] at hk; simp [ofIx] at hk; rw [hk]
      exact key (some k) hr.symm s' (by rw [← hs]) (by rw [← hs]) (by rw [← hs]) (by rw [← hs]) (by rw [← hs]) (by rw [← hs])
        (by rw [← hs]) (by rw [← hs]) (by rw [← hs]) (by rw [← hs]) (by rw [← hs])
  · simp at hs

theorem inv_dropNext (s s' : St) (h : Inv s) (hs : step .dropNext s = some s') : Inv s' := by
  simp only [step] at hs
  split at hs
  · rename_i j hcur
    obtain ⟨i1, i2, i3, i4, i5, i6, i7, i8, i9, i10, i11, i12⟩ := h
    -- the iterator's chain starts with `j`
    obtain ⟨rest, hiter⟩ : ∃ rest, s.iter = j :: rest := by
      rw [hcur] at i2
      cases hi : s.iter with
      | nil => rw [hi] at i2; simp at i2
      | cons a l => rw [hi] at i2; simp at i2; subst i2; exact ⟨l, rfl⟩
    have hlink : s.next j = ofIx rest.head? ∧ Linked s.next rest := by rw [hiter] at i4; exact i4
    have hnd : j ∉ s.stack ∧ j ∉ rest ∧ (s.stack ++ rest).Nodup := by
      rw [hiter] at i5
      have := List.nodup_append.mp i5
      have h2 := List.nodup_cons.mp this.2.1
      refine ⟨fun hm => this.2.2 j hm j List.mem_cons_self rfl, h2.1, ?_⟩
      exact List.nodup_append.mpr ⟨this.1, h2.2, fun a ha b hb => this.2.2 a ha b (List.mem_cons_of_mem _ hb)⟩
    -- what the swap reads is the link to the rest of the chain
    have key : ∀ (cur' : Option Nat), cur' = rest.head? →
        ∀ s1 : St, s1.n = s.n → s1.m = s.m → s1.next = upd s.next j .sleeping → s1.head = s.head → s1.wpc = s.wpc →
          s1.wt = s.wt → s1.cur = cur' → s1.err = s.err → s1.stack = s.stack → s1.iter = s.iter.tail →
          s1.need = upd s.need j false → Inv s1 := by
      intro cur' hc s1 en em enext ehead ewpc ewt ecur eerr estack eiter eneed
      have eiter' : s1.iter = rest := by rw [eiter, hiter]; rfl
      have pf := pusher_same s s1 em ewt ewpc
      refine ⟨by rw [ehead, estack]; exact i1, by rw [ecur, eiter', hc],
        by rw [enext, estack]; exact linked_upd _ _ _ _ hnd.1 i3,
        by rw [enext, eiter']; exact linked_upd _ _ _ _ hnd.2.1 hlink.2,
        by rw [estack, eiter']; exact hnd.2.2, ?_, by rw [em, ewpc, ewt, en]; exact i7, ?_, ?_, ?_, ?_, by rw [eerr]; exact i12⟩
      · rw [estack, eiter', en]
        intro i hin
        apply i6 i
        rw [hiter]
        simp only [List.mem_append, List.mem_cons] at hin ⊢
        rcases hin with a | a
        · exact Or.inl a
        · exact Or.inr (Or.inr a)
      · intro i hin hx
        rw [en] at hin; rw [estack, eiter']
        by_cases hij : i = j
        · subst hij; rw [enext] at hx; simp at hx
        · rw [enext] at hx; simp only [upd_other _ _ hij] at hx
          rcases i8 i hin hx with a | a | ⟨w', a⟩
          · exact Or.inl a
          · rw [hiter] at a
            simp only [List.mem_cons] at a
            rcases a with a | a
            · exact absurd a hij
            · exact Or.inr (Or.inl a)
          · exact Or.inr (Or.inr ⟨w', (pf w' i).mpr a⟩)
      · intro w' i hp
        have := i9 w' i ((pf w' i).mp hp)
        have hij : i ≠ j := by intro e; subst e; exact this.2.1 (by rw [hiter]; exact List.mem_cons_self)
        rw [estack, eiter', enext, ewpc]
        refine ⟨this.1, fun hm => this.2.1 (by rw [hiter]; exact List.mem_cons_of_mem _ hm),
          by simp only [upd_other _ _ hij]; exact this.2.2.1, ?_⟩
        intro hh hpc'
        simp only [upd_other _ _ hij]; exact this.2.2.2 hh hpc'
      · intro w' w'' i a b
        exact i10 w' w'' i ((pf w' i).mp a) ((pf w'' i).mp b)
      · intro i hx
        rw [eneed] at hx; rw [enext]
        by_cases hij : i = j
        · subst hij; simp at hx
        · simp only [upd_other _ _ hij] at hx ⊢; exact i11 i hx
    split at hs
    · rename_i hsl
      exact absurd hsl (by rw [hlink.1]; exact ofIx_ne_sleeping _)
    · rename_i hem
      simp only [Option.some.injEq] at hs
      have hr : rest.head? = none := by
        rw [hlink.1] at hem
        cases hh : rest.head? with
        | none => rfl
        | some k => rw [hh] at hem; simp [ofIx] at hem
      exact key none hr.symm s' (by rw [← hs]) (by rw [← hs]) (by rw [← hs]) (by rw [← hs]) (by rw [← hs]) (by rw [← hs])
        (by rw [← hs]) (by rw [← hs]) (by rw [← hs]) (by rw [← hs]) (by rw [← hs])
    · rename_i k hk
      simp only [Option.some.injEq] at hs
      have hr : rest.head? = some k := by
        rw [hlink.1] at hk
        cases hh : rest.head? with
        | none => rw [hh] at hk; simp [ofIx] at hk
        | some k' => rw [hh] at hk; simp [ofIx] at hk; rw [hk]
      exact key (some k) hr.symm s' (by rw [← hs]) (by rw [← hs]) (by rw [← hs]) (by rw [← hs]) (by rw [← hs]) (by rw [← hs])
        (by rw [← hs]) (by rw [← hs]) (by rw [← hs]) (by rw [← hs]) (by rw [← hs])
  · simp at hs

theorem inv_step (l : Label) (s s' : St) (h : Inv s) (hs : step l s = some s') : Inv s' := by
  cases l with
  | wBegin w i => exact inv_step_local _ s s' h hs trivial
  | wLoadNext w => exact inv_step_local _ s s' h hs trivial
  | wLook w => exact inv_step_local _ s s' h hs trivial
  | wNotify w => exact inv_step_local _ s s' h hs trivial
  | wClaim w => exact inv_claim w s s' h hs
  | wPush w => exact inv_push w s s' h hs
  | wFixNext w => exact inv_fixNext w s s' h hs
  | take c => exact inv_take c s s' h hs
  | iterNext => exact inv_iterNext s s' h hs
  | dropNext => exact inv_dropNext s s' h hs

theorem reach_inv {n m : Nat} {s : St} (h : Reach n m s) : Inv s := by
  induction h with
  | init => exact inv_init n m
  | step l _ hs ih => exact inv_step l _ _ ih hs

end NexoVerif.TSet
