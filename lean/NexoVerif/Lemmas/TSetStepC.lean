import NexoVerif.Lemmas.TSetStepB
namespace NexoVerif.TSet
set_option linter.unusedSimpArgs false
set_option linter.unusedVariables false
set_option maxHeartbeats 4000000

theorem pusher_claimed (s s' : St) (w : Nat) (hd : Hd) (hm : s'.m = s.m) (hwt : s'.wt = s.wt)
    (hpc' : s'.wpc = upd s.wpc w (.push hd)) (hw : w < s.m) (hwnp : ∀ i, ¬ Pusher s w i) (w' i : Nat) :
    Pusher s' w' i ↔ (Pusher s w' i ∨ (w' = w ∧ i = s.wt w)) := by
  unfold Pusher
  rw [hm, hwt, hpc']
  by_cases hne : w' = w
  · subst hne
    constructor
    · rintro ⟨_, ht, _⟩; exact Or.inr ⟨rfl, ht.symm⟩
    · rintro (hp | ⟨_, hi⟩)
      · exact absurd hp (hwnp i)
      · exact ⟨hw, hi.symm, Or.inl ⟨hd, by simp⟩⟩
  · simp only [upd_other _ _ hne]
    constructor
    · intro hp; exact Or.inl hp
    · rintro (hp | ⟨e, _⟩)
      · exact hp
      · exact absurd e hne

theorem inv_claim (w : Nat) (s s' : St) (h : Inv s) (hs : step (.wClaim w) s = some s') : Inv s' := by
  simp only [step] at hs
  split at hs
  · rename_i hw
    split at hs
    · rename_i hd hpc
      split at hs
      · -- the CAS succeeds: `w` becomes the pusher of its task
        rename_i hsl
        simp only [Option.some.injEq] at hs
        have en : s'.n = s.n := by rw [← hs]
        have em : s'.m = s.m := by rw [← hs]
        have enext : s'.next = upd s.next (s.wt w) (ofIx hd.ix) := by rw [← hs]
        have ehead : s'.head = s.head := by rw [← hs]
        have ewpc : s'.wpc = upd s.wpc w (.push hd) := by rw [← hs]
        have ewt : s'.wt = s.wt := by rw [← hs]
        have ecur : s'.cur = s.cur := by rw [← hs]
        have eerr : s'.err = s.err := by rw [← hs]
        have estack : s'.stack = s.stack := by rw [← hs]
        have eiter : s'.iter = s.iter := by rw [← hs]
        have eneed : s'.need = upd s.need (s.wt w) true := by rw [← hs]
        clear hs
        obtain ⟨i1, i2, i3, i4, i5, i6, i7, i8, i9, i10, i11, i12⟩ := h
        have hi : s.wt w < s.n := i7 w hw (by simp [hpc])
        have hnS : s.wt w ∉ s.stack := fun hm => linked_mem_ne_sleeping _ _ i3 _ hm hsl
        have hnI : s.wt w ∉ s.iter := fun hm => linked_mem_ne_sleeping _ _ i4 _ hm hsl
        have hnP : ∀ w', ¬ Pusher s w' (s.wt w) := fun w' hp => (i9 w' _ hp).2.2.1 hsl
        have hwnp : ∀ i, ¬ Pusher s w i := not_pusher_of_pc (by simp [hpc]) (by simp [hpc])
        have pf := pusher_claimed s s' w hd em ewt ewpc hw hwnp
        refine ⟨by rw [ehead, estack]; exact i1, by rw [ecur, eiter]; exact i2,
          by rw [enext, estack]; exact linked_upd _ _ _ _ hnS i3, by rw [enext, eiter]; exact linked_upd _ _ _ _ hnI i4,
          by rw [estack, eiter]; exact i5, by rw [estack, eiter, en]; exact i6, ?_, ?_, ?_, ?_, ?_, by rw [eerr]; exact i12⟩
        · intro w' hw' hp
          rw [em] at hw'; rw [ewpc] at hp; rw [ewt, en]
          by_cases hne : w' = w
          · subst hne; exact hi
          · simp only [upd_other _ _ hne] at hp; exact i7 w' hw' hp
        · intro i hin hx
          rw [en] at hin; rw [enext] at hx; rw [estack, eiter]
          by_cases hiw : i = s.wt w
          · subst hiw; exact Or.inr (Or.inr ⟨w, (pf w _).mpr (Or.inr ⟨rfl, rfl⟩)⟩)
          · simp only [upd_other _ _ hiw] at hx
            rcases i8 i hin hx with a | a | ⟨w', a⟩
            · exact Or.inl a
            · exact Or.inr (Or.inl a)
            · exact Or.inr (Or.inr ⟨w', (pf w' i).mpr (Or.inl a)⟩)
        · intro w' i hp
          rw [estack, eiter, enext, ewpc]
          rcases (pf w' i).mp hp with hp0 | ⟨e1, e2⟩
          · have hne : i ≠ s.wt w := by intro e; subst e; exact hnP w' hp0
            have hwne : w' ≠ w := by intro e; subst e; exact hwnp i hp0
            have := i9 w' i hp0
            refine ⟨this.1, this.2.1, by simp only [upd_other _ _ hne]; exact this.2.2.1, ?_⟩
            intro hh hpc'
            simp only [upd_other _ _ hwne] at hpc'
            simp only [upd_other _ _ hne]; exact this.2.2.2 hh hpc'
          · subst e1; subst e2
            refine ⟨hnS, hnI, by simp only [upd_same]; exact ofIx_ne_sleeping _, ?_⟩
            intro hh hpc'
            simp only [upd_same] at hpc'
            injection hpc' with e; subst e; simp
        · intro w' w'' i a b
          rcases (pf w' i).mp a with a0 | ⟨a1, a2⟩ <;> rcases (pf w'' i).mp b with b0 | ⟨b1, b2⟩
          · exact i10 w' w'' i a0 b0
          · subst b2; exact absurd a0 (hnP w')
          · subst a2; exact absurd b0 (hnP w'')
          · rw [a1, b1]
        · intro i hx
          rw [eneed] at hx; rw [enext]
          by_cases hiw : i = s.wt w
          · subst hiw; simp only [upd_same]; exact ofIx_ne_sleeping _
          · simp only [upd_other _ _ hiw] at hx ⊢; exact i11 i hx
      · -- the CAS fails
        simp only [Option.some.injEq] at hs; subst hs
        exact inv_waker_local s _ w h rfl rfl rfl rfl rfl rfl rfl rfl
          (fun w' hne => ⟨by simp [upd_other _ _ hne], rfl⟩)
          (not_pusher_of_pc (by simp [hpc]) (by simp [hpc])) (not_pusher_of_pc (by simp) (by simp))
          (fun hw _ => h.wtBound w hw (by simp [hpc])) (fun i hx => Or.inl hx)
    · simp at hs
  · simp at hs

end NexoVerif.TSet
