import NexoVerif.Lemmas.PoolStep
namespace NexoVerif.Pool
set_option linter.unusedSimpArgs false
set_option linter.unusedVariables false
set_option maxHeartbeats 4000000

/-! ### what `run()` may conclude when it sees the pool idle -/

/-- the state in which `run()` (or `new()`) sees `pool_is_idle()` -/
structure Idle (s : St) : Prop where
  inj : s.inj = 0
  workers : ∀ w, w < s.n → s.loc w = 0 ∧ s.tl w = 0 ∧ (s.wpc w = .parked ∨ s.wpc w = .lastUnpark)

theorem idle_when_seen_idle {n : Nat} {s s' : St} (hr : Reach n true s) (hs : step .mCheck s = some s') : Idle s := by
  have h := reach_inv hr
  simp only [step] at hs
  split at hs
  · rename_i hc
    obtain ⟨hm, hnone⟩ := hc
    refine ⟨?_, fun w hw => h.inactive w hw (hnone w hw)⟩
    cases hi : s.inj with
    | zero => rfl
    | succ k =>
      rcases h.injCovered (by omega) with ⟨w, hw, ha⟩ | ho
      · rw [hnone w hw] at ha; cases ha
      · rw [hm] at ho; cases ho
  · simp at hs

/-! ### conservation of the message count -/

def sumTl (n : Nat) (tl : Nat → Int) : Int := ((List.range n).map tl).sum

theorem sumTl_succ (n : Nat) (tl : Nat → Int) : sumTl (n + 1) tl = sumTl n tl + tl n := by
  simp [sumTl, List.range_succ]

theorem sumTl_upd_ge (n : Nat) (tl : Nat → Int) (w : Nat) (v : Int) (h : n ≤ w) : sumTl n (upd tl w v) = sumTl n tl := by
  induction n with
  | zero => rfl
  | succ k ih =>
    rw [sumTl_succ, sumTl_succ, ih (by omega), upd_other _ _ (by omega)]

theorem sumTl_upd (n : Nat) (tl : Nat → Int) (w : Nat) (v : Int) (h : w < n) :
    sumTl n (upd tl w v) = sumTl n tl - tl w + v := by
  induction n with
  | zero => omega
  | succ k ih =>
    rw [sumTl_succ, sumTl_succ]
    by_cases hk : w = k
    · subst hk; rw [sumTl_upd_ge _ _ _ _ (Nat.le_refl _), upd_same]; omega
    · rw [ih (by omega), upd_other _ _ (Ne.symm hk)]; omega

theorem sumTl_zero (n : Nat) (tl : Nat → Int) (h : ∀ w, w < n → tl w = 0) : sumTl n tl = 0 := by
  induction n with
  | zero => rfl
  | succ k ih => rw [sumTl_succ, ih (fun w hw => h w (by omega)), h k (by omega)]; rfl

/-- published count + counts still local to the worker threads = everything the tasks did -/
def Cons (s : St) : Prop := s.g + sumTl s.n s.tl = s.total

theorem cons_init (n : Nat) (ff : Bool) : Cons (St.init n ff) := by
  show (0 : Int) + sumTl n (fun _ => 0) = 0
  rw [sumTl_zero _ _ (fun _ _ => rfl)]; rfl

theorem n_step (l : Label) (s s' : St) (hs : step l s = some s') : s'.n = s.n := by
  cases l <;> simp only [step] at hs <;> (repeat' split at hs) <;>
    first | (simp only [Option.some.injEq] at hs; subst hs; rfl) | (simp at hs)

theorem cons_step (l : Label) (s s' : St) (h : Cons s) (hs : step l s = some s') : Cons s' := by
  unfold Cons at *
  cases l with
  | flush w =>
    simp only [step] at hs
    split at hs
    · rename_i hc
      split at hs <;> simp only [Option.some.injEq] at hs <;> subst hs
      · show s.g + s.tl w + sumTl s.n (upd s.tl w 0) = s.total
        rw [sumTl_upd _ _ _ _ hc.1]; omega
      · exact h
    · simp at hs
  | lateFlush w =>
    simp only [step] at hs
    split at hs
    · rename_i hc
      simp only [Option.some.injEq] at hs; subst hs
      show s.g + s.tl w + sumTl s.n (upd s.tl w 0) = s.total
      rw [sumTl_upd _ _ _ _ hc.1]; omega
    · simp at hs
  | lastFlush w =>
    simp only [step] at hs
    split at hs
    · rename_i hc
      simp only [Option.some.injEq] at hs; subst hs
      show s.g + s.tl w + sumTl s.n (upd s.tl w 0) = s.total
      rw [sumTl_upd _ _ _ _ hc.1]; omega
    · simp at hs
  | finishTask w spawn delta =>
    simp only [step] at hs
    split at hs
    · rename_i hc
      simp only [Option.some.injEq] at hs; subst hs
      show s.g + sumTl s.n (upd s.tl w (s.tl w + delta)) = s.total + delta
      rw [sumTl_upd _ _ _ _ hc.1]; omega
    · simp at hs
  | deact w | lastCheck w | lastClear w | lastUnpark w | wake w | takeInj w k | steal w v k | giveUp w | pop w
  | idleLoop w | push w k | overflow w k | activate w v | mSpawn k | mRun v | mCheck | mCheckFail | mPark =>
    simp only [step] at hs
    (repeat' split at hs) <;>
      first | (simp only [Option.some.injEq] at hs; subst hs; exact h) | (simp at hs)

theorem reach_cons {n : Nat} {ff : Bool} {s : St} (h : Reach n ff s) : Cons s := by
  induction h with
  | init => exact cons_init n ff
  | step l _ hs ih => exact cons_step l _ _ ih hs

/-- **the count `run()` reads is exact**: when `run()` sees the pool idle, the global count it then reads is the sum of
every change any task has made so far, none of it still local to a worker thread. -/
theorem count_read_is_exact {n : Nat} {s s' : St} (hr : Reach n true s) (hs : step .mCheck s = some s') :
    s'.result = some s.total := by
  have hi := idle_when_seen_idle hr hs
  have hc := reach_cons hr
  unfold Cons at hc
  rw [sumTl_zero _ _ (fun w hw => (hi.workers w hw).2.1)] at hc
  simp only [step] at hs
  split at hs
  · simp only [Option.some.injEq] at hs; subst hs
    show some s.g = some s.total
    rw [← hc]; simp
  · simp at hs

/-! ### the protocol cannot get stuck -/

/-- the executor thread is never left parked without a token once the pool is idle -/
def LInv (s : St) : Prop :=
  s.mpc = .park → noneActive s → s.mainTok = true ∨ ∃ w, w < s.n ∧ s.wpc w = .lastUnpark

theorem linv_init (n : Nat) (hn : 0 < n) (ff : Bool) : LInv (St.init n ff) := by
  intro _ hna
  have := hna 0 hn
  simp [St.init, hn] at this

theorem linv_step (l : Label) (s s' : St) (hi : Inv s) (h : LInv s) (hs : step l s = some s') : LInv s' := by
  have hff := hi.ff
  unfold LInv at *
  cases l with
  | deact w =>
    simp only [step] at hs
    split at hs
    · rename_i hc
      split at hs
      · simp only [Option.some.injEq] at hs; subst hs
        intro hm hna
        have hact := hi.activePc w hc.1 (by rw [hc.2]; rfl)
        have := hna w hc.1
        simp at this; rw [hact] at this; cases this
      · rename_i hnot
        simp only [Option.some.injEq] at hs; subst hs
        intro hm hna
        exfalso; apply hnot
        intro v hv hvw
        have := hna v hv
        simpa [upd_other _ _ hvw] using this
    · simp at hs
  | lastClear w =>
    simp only [step] at hs
    split at hs
    · rename_i hc
      simp only [hff, if_true, Option.some.injEq] at hs; subst hs
      intro _ _
      exact Or.inr ⟨w, hc.1, by simp⟩
    · simp at hs
  | lastUnpark w =>
    simp only [step] at hs
    split at hs
    · simp only [Option.some.injEq] at hs; subst hs
      intro _ _; exact Or.inl rfl
    · simp at hs
  | lateFlush w =>
    simp only [step] at hs
    split at hs
    · rename_i hc; exact absurd hc.2 (hi.noLate w hc.1).1
    · simp at hs
  | lastFlush w =>
    simp only [step] at hs
    split at hs
    · rename_i hc; exact absurd hc.2 (hi.noLate w hc.1).2
    · simp at hs
  | lastCheck w =>
    simp only [step] at hs
    split at hs
    · rename_i hc
      have hact : s.active w = true := hi.activePc w hc.1 (by rw [hc.2]; rfl)
      split at hs <;>
        (simp only [Option.some.injEq] at hs; subst hs
         intro hm hna
         have := hna w hc.1
         simp at this; rw [hact] at this; cases this)
    · simp at hs
  | wake w =>
    simp only [step] at hs
    split at hs
    · rename_i hc
      have hact : s.active w = true := (hi.tokActive w hc.1 hc.2.2).1
      simp only [Option.some.injEq] at hs; subst hs
      intro hm hna
      have := hna w hc.1
      simp at this; rw [hact] at this; cases this
    · simp at hs
  | steal w v k =>
    simp only [step] at hs
    split at hs
    · rename_i hc
      have hact : s.active w = true := hi.activePc w hc.1 (by rw [hc.2.2.2.1]; rfl)
      simp only [Option.some.injEq] at hs; subst hs
      intro hm hna
      have := hna w hc.1
      simp at this; rw [hact] at this; cases this
    · simp at hs
  | flush w | takeInj w k | giveUp w | pop w
  | idleLoop w | push w k | finishTask w sp d | overflow w k =>
    simp only [step] at hs
    (repeat' split at hs) <;>
      first
        | (simp at hs; done)
        | (rename_i hc
           simp only [Option.some.injEq] at hs; subst hs
           intro hm hna
           have hact : s.active w = true := hi.activePc w hc.1 (by rw [hc.2.1]; rfl)
           have := hna w hc.1
           simp at this; rw [hact] at this; cases this)
        | (rename_i hc
           simp only [Option.some.injEq] at hs; subst hs
           intro hm hna
           have hact : s.active w = true := hi.activePc w hc.1 (by rw [hc.2]; rfl)
           have := hna w hc.1
           simp at this; rw [hact] at this; cases this)
  | activate w v =>
    simp only [step] at hs
    split at hs
    · rename_i hc
      simp only [Option.some.injEq] at hs; subst hs
      intro hm hna
      have := hna v hc.2.1
      simp at this
    · simp at hs
  | mSpawn k =>
    simp only [step] at hs
    split at hs
    · rename_i hc
      simp only [Option.some.injEq] at hs; subst hs
      intro hm; rw [hc] at hm; cases hm
    · simp at hs
  | mRun v =>
    simp only [step] at hs
    split at hs
    · simp only [Option.some.injEq] at hs; subst hs
      intro hm; cases hm
    · simp at hs
  | mCheck =>
    simp only [step] at hs
    split at hs
    · simp only [Option.some.injEq] at hs; subst hs
      intro hm; cases hm
    · simp at hs
  | mCheckFail =>
    simp only [step] at hs
    split at hs
    · rename_i hc
      simp only [Option.some.injEq] at hs; subst hs
      intro _ hna; exact absurd hna hc.2
    · simp at hs
  | mPark =>
    simp only [step] at hs
    split at hs
    · simp only [Option.some.injEq] at hs; subst hs
      intro hm; cases hm
    · simp at hs

end NexoVerif.Pool
