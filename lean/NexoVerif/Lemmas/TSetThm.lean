import NexoVerif.Lemmas.TSetStepE
namespace NexoVerif.TSet
set_option linter.unusedSimpArgs false
set_option linter.unusedVariables false
set_option maxHeartbeats 4000000

/-- nothing is in progress: no waker thread is inside `wake_by_ref`, the owner is not iterating -/
def Quiescent (s : St) : Prop := (∀ w, w < s.m → s.wpc w = .idle) ∧ s.cur = none

/-- **a woken task is on its way**: in every reachable state, a task for which a wake-up has taken effect and which has
not been yielded since is in the chain hanging off the head, or in the chain the iterator is still walking, or in the
hands of exactly one waker thread that has claimed it and is about to push it (and has a step to take). -/
theorem woken_task_is_on_its_way {n m : Nat} {s : St} (hr : Reach n m s) (i : Nat) (hi : i < s.n)
    (hn : s.need i = true) :
    i ∈ s.stack ∨ i ∈ s.iter ∨ ∃ w, Pusher s w i ∧ (∃ l, (step l s).isSome = true) ∧ ∀ w', Pusher s w' i → w' = w := by
  have h := reach_inv hr
  rcases h.owned i hi (h.need i hn) with a | a | ⟨w, a⟩
  · exact Or.inl a
  · exact Or.inr (Or.inl a)
  · refine Or.inr (Or.inr ⟨w, a, ?_, fun w' b => h.unique w' w i b a⟩)
    obtain ⟨hw, _, ⟨hd, hp⟩ | ⟨hd, hp⟩⟩ := a
    · exact ⟨.wPush w, by by_cases hh : s.head = hd <;> simp [step, hw, hp, hh]⟩
    · exact ⟨.wFixNext w, by simp [step, hw, hp]⟩

/-- **no wake-up is lost**: when nothing is in progress, every task for which a wake-up has taken effect since it was
last yielded is in the chain hanging off the head — the next `take_scheduled` hands it to the iterator. -/
theorem no_wake_is_lost {n m : Nat} {s : St} (hr : Reach n m s) (hq : Quiescent s) (i : Nat) (hi : i < s.n)
    (hn : s.need i = true) : i ∈ s.stack := by
  have h := reach_inv hr
  rcases h.owned i hi (h.need i hn) with a | a | ⟨w, hw, _, ⟨hd, hp⟩ | ⟨hd, hp⟩⟩
  · exact a
  · have : s.iter = [] := by
      have := h.curIx
      rw [hq.2] at this
      cases hit : s.iter with
      | nil => rfl
      | cons x l => rw [hit] at this; simp at this
    rw [this] at a; cases a
  · rw [hq.1 w hw] at hp; cases hp
  · rw [hq.1 w hw] at hp; cases hp

/-- **the chains are what the code walks**: the head word designates the top of the ghost stack, the iterator's cursor
the first element of the ghost chain, consecutive elements are linked through their `next` words, no task occurs twice,
and the iterator never reads SLEEPING (it would index out of bounds). -/
theorem chains_are_well_formed {n m : Nat} {s : St} (hr : Reach n m s) :
    s.head.ix = s.stack.head? ∧ s.cur = s.iter.head? ∧ Linked s.next s.stack ∧ Linked s.next s.iter ∧
    (s.stack ++ s.iter).Nodup ∧ s.err = false := by
  have h := reach_inv hr
  exact ⟨h.headIx, h.curIx, h.linkS, h.linkI, h.nodup, h.noErr⟩

/-! ### the countdown -/

structure CInv (s : St) : Prop where
  cd : s.head.cd = s.armed - s.pushes
  fired : 0 < s.armed → s.armed ≤ s.pushes → s.fired = true

theorem cinv_step (l : Label) (s s' : St) (h : CInv s) (hs : step l s = some s') : CInv s' := by
  obtain ⟨c1, c2⟩ := h
  cases l with
  | wPush w =>
    simp only [step] at hs
    split at hs
    · split at hs
      · rename_i hd hpc
        split at hs
        · rename_i hh
          simp only [Option.some.injEq] at hs; subst hs
          have : hd.cd = s.armed - s.pushes := by rw [← hh]; exact c1
          refine ⟨by show hd.cd - 1 = s.armed - (s.pushes + 1); omega, ?_⟩
          intro ha hle
          show (s.fired || (hd.cd == 1)) = true
          by_cases hlt : s.armed ≤ s.pushes
          · rw [c2 ha hlt]; rfl
          · have : hd.cd = 1 := by
              have : s.armed ≤ s.pushes + 1 := hle
              omega
            simp [this]
        · simp only [Option.some.injEq] at hs; subst hs; exact ⟨c1, c2⟩
      · simp at hs
    · simp at hs
  | take c =>
    simp only [step] at hs
    split at hs
    · split at hs <;> (simp only [Option.some.injEq] at hs; subst hs)
      · exact ⟨by simp, fun ha hle => by simp at ha hle; omega⟩
      · exact ⟨by simp, fun ha => by simp at ha⟩
    · simp at hs
  | wBegin w i | wLoadNext w | wLook w | wClaim w | wFixNext w | wNotify w | iterNext | dropNext =>
    simp only [step] at hs
    (repeat' split at hs) <;>
      first | (simp only [Option.some.injEq] at hs; subst hs; exact ⟨c1, c2⟩) | (simp at hs)

theorem reach_cinv {n m : Nat} {s : St} (h : Reach n m s) : CInv s := by
  induction h with
  | init => exact ⟨rfl, fun ha => by simp [St.init] at ha⟩
  | step l _ hs ih => exact cinv_step l _ _ ih hs

/-- **the parent is notified after the requested number of pushes**: after a `take_scheduled(c)` that found nothing
(`c > 0`), the head's countdown is `c` minus the pushes since; and once `c` pushes have happened, one of them has taken
the countdown from 1 to 0 — that waker thread's next step is `notifier.notify()`. -/
theorem parent_is_notified_after_countdown {n m : Nat} {s : St} (hr : Reach n m s) :
    s.head.cd = s.armed - s.pushes ∧ (0 < s.armed → s.armed ≤ s.pushes → s.fired = true) :=
  ⟨(reach_cinv hr).cd, (reach_cinv hr).fired⟩

/-! ### a run -/

def runLabels : List Label → St → Option St
  | [], s => some s
  | l :: ls, s => match step l s with
    | some s' => runLabels ls s'
    | none => none

/-- three tasks, two waker threads: the owner arms a countdown of 2; tasks 1 and 2 are woken concurrently (the second
push fails its first CAS on the head and repairs its `next`); the second push notifies; the owner takes the chain and
walks it -/
def exSchedule : List Label :=
  [ .take 2, .wBegin 0 1, .wBegin 1 2, .wLoadNext 0, .wLoadNext 1, .wLook 0, .wLook 1, .wClaim 0, .wClaim 1,
    .wPush 0, .wPush 1, .wFixNext 1, .wPush 1, .wNotify 1, .take 0, .iterNext, .iterNext ]

theorem example_run :
    (runLabels exSchedule (St.init 3 2)).map (fun s => (s.yielded, s.notified, s.stack, s.cur, s.err)) =
      some ([2, 1], 1, [], none, false) := by decide

end NexoVerif.TSet
