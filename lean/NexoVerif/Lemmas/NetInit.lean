import NexoVerif.Lemmas.NetCount
/-! Initialisation discipline of M-NET: init runs once per model and before any delivery. -/
namespace NexoVerif.Net
set_option linter.unusedSimpArgs false
set_option linter.unusedVariables false

structure IInv (P : Prog) (s : St) : Prop where
  started : ∀ m, P.isModel m = true → (m ∈ s.inits ↔ (s.task m).phase ≠ .notInit)
  once : s.inits.Nodup
  idleModel : ∀ t, (s.task t).phase = .idle → P.isModel t = true
  handledInit : ∀ m e, (m, e) ∈ s.handled → m ∈ s.inits
  initsOk : ∀ m, m ∈ s.inits → P.isModel m = true ∧ P.inSim m = true

theorem iinv_init (P : Prog) : IInv P St.init := by
  constructor <;> simp [St.init]

/-- a step that keeps every phase and the two logs -/
theorem iinv_frame {P : Prog} {s s' : St} (h : IInv P s) (hp : ∀ t, (s'.task t).phase = (s.task t).phase)
    (hi : s'.inits = s.inits) (hh : s'.handled = s.handled) : IInv P s' := by
  obtain ⟨a, b, c, d, e⟩ := h
  refine ⟨?_, hi ▸ b, ?_, ?_, ?_⟩
  · intro m hm; rw [hi, hp]; exact a m hm
  · intro t ht; rw [hp] at ht; exact c t ht
  · intro m x hx; rw [hi]; rw [hh] at hx; exact d m x hx
  · intro m hm; rw [hi] at hm; exact e m hm

theorem iinv_step (P : Prog) (l : Label) (s s' : St) (h : IInv P s) (hs : step P l s = some s') : IInv P s' := by
  unfold step at hs
  split at hs
  · simp at hs
  · cases l with
    | init m =>
      simp only at hs
      split at hs
      · rename_i hc
        simp only [Option.some.injEq] at hs; subst hs
        obtain ⟨a, b, c, d, e⟩ := h
        have hm : m ∉ s.inits := by
          intro hin; exact ((a m hc.2.1).mp hin) hc.1
        refine ⟨?_, ?_, ?_, ?_, ?_⟩
        · intro t ht
          by_cases htm : t = m
          · subst htm; simp
          · simp [upd_other _ _ htm, htm]; exact a t ht
        · simp only; rw [List.nodup_append]; refine ⟨b, by simp, ?_⟩
          intro x hx y hy; simp at hy; subst hy; intro hxy; subst hxy; exact hm hx
        · intro t ht
          by_cases htm : t = m
          · subst htm; simp at ht
          · simp [upd_other _ _ htm] at ht; exact c t ht
        · intro t x hx; simp only [List.mem_append]; left; exact d t x hx
        · intro t ht; simp at ht
          rcases ht with ht | rfl
          · exact e t ht
          · exact ⟨hc.2.1, hc.2.2⟩
      · simp at hs
    | spawn t0 ops =>
      simp only at hs
      split at hs
      · rename_i hc
        simp only [Option.some.injEq] at hs; subst hs
        obtain ⟨a, b, c, d, e⟩ := h
        refine ⟨?_, b, ?_, d, e⟩
        · intro t ht
          have : t ≠ t0 := by intro h; subst h; rw [hc.1] at ht; simp at ht
          simp [upd_other _ _ this]; exact a t ht
        · intro t ht
          by_cases htm : t = t0
          · subst htm; simp at ht
          · simp [upd_other _ _ htm] at ht; exact c t ht
      · simp at hs
    | start t0 =>
      simp only at hs
      split at hs
      · simp only [Option.some.injEq] at hs; subst hs
        apply iinv_frame h
        · intro t; by_cases ht : t = t0
          · subst ht; simp
          · simp [upd_other _ _ ht]
        · rfl
        · rfl
      · simp at hs
    | push t0 i =>
      simp only at hs
      split at hs
      · split at hs
        · split at hs
          · simp only [Option.some.injEq] at hs; subst hs
            apply iinv_frame h
            · intro t; by_cases ht : t = t0
              · subst ht; simp
              · simp [upd_other _ _ ht]
            · rfl
            · rfl
          · simp only [Option.some.injEq] at hs; subst hs
            exact iinv_frame h (fun _ => rfl) rfl rfl
          · split at hs
            · simp only [Option.some.injEq] at hs; subst hs
              apply iinv_frame h
              · intro t; by_cases ht : t = t0
                · subst ht; simp
                · simp [upd_other _ _ ht]
              · rfl
              · rfl
            · simp at hs
        · simp at hs
      · simp at hs
    | deliver m =>
      simp only at hs
      split at hs
      · rename_i p ps hph hmb
        simp only [Option.some.injEq] at hs; subst hs
        obtain ⟨a, b, c, d, e⟩ := h
        have hmod := c m hph
        have hin : m ∈ s.inits := (a m hmod).mpr (by rw [hph]; simp)
        refine ⟨?_, b, ?_, ?_, e⟩
        · intro t ht
          by_cases htm : t = m
          · subst htm; simp; exact hin
          · simp [upd_other _ _ htm]; exact a t ht
        · intro t ht
          by_cases htm : t = m
          · subst htm; simp at ht
          · simp [upd_other _ _ htm] at ht; exact c t ht
        · intro t x hx
          simp only [List.mem_append, List.mem_singleton, Prod.mk.injEq] at hx
          rcases hx with hx | ⟨rfl, _⟩
          · exact d t x hx
          · exact hin
      · simp at hs
    | opDone t0 =>
      simp only at hs
      split at hs
      · simp only [Option.some.injEq] at hs; subst hs
        apply iinv_frame h
        · intro t; by_cases ht : t = t0
          · subst ht; simp
          · simp [upd_other _ _ ht]
        · rfl
        · rfl
      · simp at hs
    | finish t0 =>
      simp only at hs
      split at hs
      · rename_i hc
        obtain ⟨a, b, c, d, e⟩ := h
        have key : ∀ s1 : St, s1.inits = s.inits → s1.handled = s.handled →
            (∀ t, t ≠ t0 → (s1.task t).phase = (s.task t).phase) →
            (s1.task t0).phase = (if P.isModel t0 then Phase.idle else Phase.finished) → IInv P s1 := by
          intro s1 hi hh hp hp0
          refine ⟨?_, hi ▸ b, ?_, ?_, ?_⟩
          · intro t ht
            rw [hi]
            by_cases htm : t = t0
            · subst htm; rw [hp0, ht]; simp
              exact (a t ht).mpr (by rw [hc.1]; simp)
            · rw [hp t htm]; exact a t ht
          · intro t ht
            by_cases htm : t = t0
            · subst htm; rw [hp0] at ht
              by_cases hm : P.isModel t = true
              · exact hm
              · simp [hm] at ht
            · rw [hp t htm] at ht; exact c t ht
          · intro t x hx; rw [hi]; rw [hh] at hx; exact d t x hx
          · intro t ht; rw [hi] at ht; exact e t ht
        split at hs
        · simp only [Option.some.injEq] at hs; subst hs
          apply key
          · rfl
          · rfl
          · intro t ht; simp [upd_other _ _ ht]
          · simp
        · rename_i r e' hserv
          simp only [Option.some.injEq] at hs; subst hs
          apply key
          · rfl
          · rfl
          · intro t ht
            by_cases hr : t = r
            · subst hr; simp [upd_other _ _ ht]
            · simp [upd_other _ _ ht, upd_other _ _ hr]
          · simp
      · simp at hs

theorem reach_iinv (P : Prog) {s : St} (h : Reach P s) : IInv P s := by
  induction h with
  | init => exact iinv_init P
  | step l _ hs ih => exact iinv_step P l _ _ ih hs

/-- running a list of labels from a reachable state (used by the non-vacuity examples) -/
def runLabels (P : Prog) (ls : List Label) (s : St) : Option St := ls.foldlM (fun s l => step P l s) s

theorem reach_runLabels (P : Prog) (ls : List Label) {s0 s1 : St} (h0 : Reach P s0) (h : runLabels P ls s0 = some s1) :
    Reach P s1 := by
  induction ls generalizing s0 with
  | nil => simp [runLabels] at h; subst h; exact h0
  | cons l r ih =>
    simp only [runLabels, List.foldlM_cons, Option.bind_eq_bind] at h
    cases hs : step P l s0 with
    | none => simp [hs] at h
    | some s' => simp [hs] at h; exact ih (Reach.step l h0 hs) h

/-- example program: model 0's init sends payload 7 to model 1 (capacity 1) -/
def exProg : Prog :=
  { react := fun _ _ => [], reply := fun _ _ => 0,
    initOps := fun m => if m = 0 then [[(Dst.box 1, 7, false)]] else [],
    cap := fun _ => 1, isModel := fun m => decide (m < 2), inSim := fun _ => true }

def exLabels : List Label :=
  [.init 0, .init 1, .finish 1, .start 0, .push 0 0, .opDone 0, .finish 0, .deliver 1, .finish 1]

/-- example program for causality: A = 0 sends 11 to B = 1, then 12 to C = 2; C, processing 12, sends 13 to B -/
def exProg3 : Prog :=
  { react := fun m p => if m = 2 ∧ p = 12 then [[(Dst.box 1, 13, false)]] else [], reply := fun _ _ => 0,
    initOps := fun m => if m = 0 then [[(Dst.box 1, 11, false)], [(Dst.box 2, 12, false)]] else [],
    cap := fun _ => 2, isModel := fun m => decide (m < 3), inSim := fun _ => true }

def exLabels3 : List Label :=
  [.init 0, .init 1, .finish 1, .init 2, .finish 2, .start 0, .push 0 0, .opDone 0, .start 0, .push 0 0, .opDone 0,
   .finish 0, .deliver 2, .start 2, .push 2 0]

end NexoVerif.Net
