import NexoVerif.Lemmas.PoolThm
namespace NexoVerif.Pool
set_option linter.unusedSimpArgs false
set_option linter.unusedVariables false
set_option maxHeartbeats 4000000

theorem reach_n {n : Nat} {ff : Bool} {s : St} (h : Reach n ff s) : s.n = n := by
  induction h with
  | init => rfl
  | step l _ hs ih => rw [n_step l _ _ hs]; exact ih

theorem reach_linv {n : Nat} (hn : 0 < n) {s : St} (h : Reach n true s) : LInv s := by
  induction h with
  | init => exact linv_init n hn true
  | step l hr hs ih => exact linv_step l _ _ (reach_inv hr) ih hs

/-- the worker a label belongs to (`none`: a step of the executor thread) -/
def Label.worker : Label → Option Nat
  | .flush w | .deact w | .lateFlush w | .lastCheck w | .lastClear w | .lastFlush w | .lastUnpark w | .wake w
  | .takeInj w _ | .steal w _ _ | .giveUp w | .pop w | .idleLoop w | .push w _ | .finishTask w _ _ | .overflow w _
  | .activate w _ => some w
  | .mSpawn _ | .mRun _ | .mCheck | .mCheckFail | .mPark => none

/-- a worker that is marked active, or is about to unpark the executor thread, always has a step to take -/
theorem worker_can_move {s : St} (hi : Inv s) (w : Nat) (hw : w < s.n)
    (ha : s.active w = true ∨ s.wpc w = .lastUnpark) : ∃ l, l.worker = some w ∧ (step l s).isSome = true := by
  have hff := hi.ff
  cases hpc : s.wpc w with
  | flush => exact ⟨.flush w, rfl, by simp [step, hw, hpc, hff]⟩
  | deact => exact ⟨.deact w, rfl, by by_cases ho : onlyActive s w <;> simp [step, hw, hpc, ho]⟩
  | lateFlush => exact absurd hpc (hi.noLate w hw).1
  | lastFlush => exact absurd hpc (hi.noLate w hw).2
  | parked =>
    rcases ha with ha | ha
    · exact ⟨.wake w, rfl, by simp [step, hw, hpc, hi.parkedTok w hw ha (Or.inl hpc)]⟩
    · rw [hpc] at ha; cases ha
  | lastCheck => exact ⟨.lastCheck w, rfl, by by_cases ho : s.inj = 0 <;> simp [step, hw, hpc, ho]⟩
  | lastClear => exact ⟨.lastClear w, rfl, by simp [step, hw, hpc]⟩
  | lastUnpark => exact ⟨.lastUnpark w, rfl, by simp [step, hw, hpc]⟩
  | search => exact ⟨.giveUp w, rfl, by simp [step, hw, hpc]⟩
  | runLoop =>
    by_cases hl : s.loc w = 0
    · exact ⟨.idleLoop w, rfl, by simp [step, hw, hpc, hl]⟩
    · exact ⟨.pop w, rfl, by simp [step, hw, hpc, Nat.pos_of_ne_zero hl]⟩
  | running => exact ⟨.finishTask w 0 0, rfl, by simp [step, hw, hpc]⟩

/-- **the executor thread is never left waiting for nobody**: whenever it is about to park inside `run()` (or `new()`)
and no unpark token is pending, some worker has a step to take — a worker marked active (a parked one has its own
token), or the one that is about to unpark the executor thread. -/
theorem main_never_waits_for_nobody {n : Nat} (hn : 0 < n) {s : St} (hr : Reach n true s)
    (hm : s.mpc = .park) (ht : s.mainTok = false) : ∃ l w, l.worker = some w ∧ (step l s).isSome = true := by
  have hi := reach_inv hr
  have hl := reach_linv hn hr
  by_cases hna : noneActive s
  · rcases hl hm hna with h | ⟨w, hw, hpc⟩
    · rw [ht] at h; cases h
    · obtain ⟨l, hlw, hs⟩ := worker_can_move hi w hw (Or.inr hpc)
      exact ⟨l, w, hlw, hs⟩
  · have : ∃ w, w < s.n ∧ s.active w = true := by
      apply Classical.byContradiction
      intro hno
      apply hna
      intro v hv
      cases hav : s.active v with
      | false => rfl
      | true => exact absurd ⟨v, hv, hav⟩ hno
    obtain ⟨w, hw, ha⟩ := this
    obtain ⟨l, hlw, hs⟩ := worker_can_move hi w hw (Or.inl ha)
    exact ⟨l, w, hlw, hs⟩

/-- **the protocol has no deadlock**: every reachable state has a step. -/
theorem never_stuck {n : Nat} (hn : 0 < n) {s : St} (hr : Reach n true s) : ∃ l, (step l s).isSome = true := by
  cases hm : s.mpc with
  | outside => exact ⟨.mSpawn 0, by simp [step, hm]⟩
  | check => exact ⟨if noneActive s then .mCheck else .mCheckFail, by by_cases h : noneActive s <;> simp [step, hm, h]⟩
  | park =>
    cases ht : s.mainTok with
    | true => exact ⟨.mPark, by simp [step, hm, ht]⟩
    | false =>
      obtain ⟨l, _, _, hs⟩ := main_never_waits_for_nobody hn hr hm ht
      exact ⟨l, hs⟩

/-! ### the code as found: count published after deactivation -/

def runLabels : List Label → St → Option St
  | [], s => some s
  | l :: ls, s => match step l s with
    | some s' => runLabels ls s'
    | none => none

theorem runLabels_reach {n : Nat} {ff : Bool} (ls : List Label) (s s' : St) (h : Reach n ff s)
    (hr : runLabels ls s = some s') : Reach n ff s' := by
  induction ls generalizing s with
  | nil => simp [runLabels] at hr; subst hr; exact h
  | cons l ls ih =>
    simp only [runLabels] at hr
    cases hs : step l s with
    | none => rw [hs] at hr; cases hr
    | some t => rw [hs] at hr; exact ih t (Reach.step l h hs) hr

/-- two workers; worker 1 runs a task that sends one message, finds nothing else and deactivates itself, then worker 0
goes all the way to `set_all_workers_inactive` and unparks the executor thread before worker 1 has published -/
def lateSchedule : List Label :=
  [ .flush 0, .flush 1, .deact 0, .lateFlush 0, .deact 1, .lastCheck 1, .lastClear 1, .lastFlush 1, .lastUnpark 1,
    .mPark, .mCheck,                                   -- `Executor::new` returns
    .mSpawn 2, .mRun 0, .wake 0, .takeInj 0 2, .pop 0, .activate 0 1, .wake 1, .steal 1 0 1, .pop 1,
    .finishTask 1 0 1,                                 -- the task on worker 1 sent a message
    .idleLoop 1, .giveUp 1, .flush 1, .deact 1,        -- worker 1 is now inactive, its count still local
    .mCheckFail,
    .finishTask 0 0 0, .idleLoop 0, .giveUp 0, .flush 0, .deact 0, .lastCheck 0, .lastClear 0, .lastFlush 0,
    .lastUnpark 0, .mPark, .mCheck ]

/-- **the window that was open before the repair**: with the count published after deactivation there is a run in which
`run()` sees the pool idle and reads 0 although one message is in flight (the count it should have read is 1). -/
theorem late_publication_loses_a_count :
    (runLabels lateSchedule (St.init 2 false)).map (fun s => (s.result, s.total, s.tl 1)) = some (some 0, 1, 1) := by
  decide

end NexoVerif.Pool
