import NexoVerif.Lemmas.NetInit
/-! At quiescence with an in-flight count of zero no task is half-way (M-NET). -/
namespace NexoVerif.Net
set_option linter.unusedSimpArgs false
set_option linter.unusedVariables false

/-- `sub` of task `t` waits for the reply of the model that owns mailbox `d` -/
def Awaited (s : St) (t : Nat) (sub : Sub) : Prop :=
  ∃ d, sub.dst = .box d ∧ ((∃ p ∈ s.mbox d, p.eid = sub.eid ∧ p.src = t ∧ p.query = true) ∨
      ((s.task d).phase = .busy ∧ (s.task d).serving = some (t, sub.eid)))

structure WInv (s : St) : Prop where
  idleEmpty : ∀ t, (s.task t).phase ≠ .busy → (s.task t).cur = []
  servLt : ∀ t r e, (s.task t).serving = some (r, e) → e < s.nextEid ∧ ∀ sub ∈ (s.task t).cur, e < sub.eid
  boxBound : ∀ m p, p ∈ s.mbox m → p.eid < s.nextEid
  sinkNoQuery : ∀ t sub, sub ∈ (s.task t).cur → ∀ k, sub.dst = .sink k → sub.query = false
  await : ∀ t sub, sub ∈ (s.task t).cur → sub.query = true → sub.st = .pushed → Awaited s t sub

theorem winv_init : WInv St.init := by
  constructor <;> simp [St.init]

theorem mkSubs_sink (e : Nat) (op : Op) : ∀ sub ∈ mkSubs e op, ∀ k, sub.dst = .sink k → sub.query = false := by
  induction op generalizing e with
  | nil => simp [mkSubs]
  | cons x r ih =>
    obtain ⟨d, p, q⟩ := x
    intro sub hs k hk
    simp [mkSubs] at hs
    rcases hs with rfl | hs
    · simp at hk; simp [hk]
    · exact ih _ sub hs k hk

theorem mkSubs_ge (e : Nat) (op : Op) : ∀ sub ∈ mkSubs e op, e ≤ sub.eid := by
  induction op generalizing e with
  | nil => simp [mkSubs]
  | cons x r ih =>
    obtain ⟨d, p, q⟩ := x
    intro sub hs
    simp [mkSubs] at hs
    rcases hs with rfl | hs
    · simp
    · have := ih _ sub hs; omega

theorem mem_setSt' {l : List Sub} {i : Nat} {st : SubSt} {x : Sub} (h : x ∈ setSt l i st) :
    x ∈ l ∨ ∃ y, l[i]? = some y ∧ x = { y with st := st } := by
  rcases mem_setSt h with h | ⟨y, _, hy, rfl⟩
  · exact Or.inl h
  · exact Or.inr ⟨y, hy, rfl⟩

theorem mem_markReplied {l : List Sub} {e v : Nat} {x : Sub} (h : x ∈ markReplied l e v) :
    (x ∈ l ∧ ¬(x.eid = e ∧ x.st = .pushed)) ∨ (x.st = .replied ∧ ∃ z ∈ l, z.eid = x.eid ∧ z.dst = x.dst ∧ z.query = x.query) := by
  unfold markReplied at h
  simp only [List.mem_map] at h
  obtain ⟨z, hz, rfl⟩ := h
  by_cases hc : z.eid = e ∧ z.st = .pushed
  · right; rw [if_pos hc]; exact ⟨rfl, z, hz, rfl, rfl, rfl⟩
  · left; rw [if_neg hc]; exact ⟨hz, hc⟩

/-- frame: a step that only touches ghost logs / pasts -/
theorem awaited_mono {s s' : St} {t : Nat} {sub : Sub}
    (hm : ∀ d p, p ∈ s.mbox d → p ∈ s'.mbox d)
    (hp : ∀ d, (s.task d).phase = .busy → (s'.task d).phase = .busy ∧ (s'.task d).serving = (s.task d).serving)
    (h : Awaited s t sub) : Awaited s' t sub := by
  obtain ⟨d, hd, h⟩ := h
  refine ⟨d, hd, ?_⟩
  rcases h with ⟨p, hp1, hp2⟩ | ⟨h1, h2⟩
  · exact Or.inl ⟨p, hm d p hp1, hp2⟩
  · exact Or.inr ⟨(hp d h1).1, (hp d h1).2 ▸ h2⟩

theorem winv_step (P : Prog) (l : Label) (s s' : St) (hF : FInv s) (hI : Inv s) (h : WInv s)
    (hs : step P l s = some s') : WInv s' := by
  obtain ⟨w1, w2, w3, w4, w5⟩ := h
  unfold step at hs
  split at hs
  · simp at hs
  · cases l with
    | init m =>
      simp only at hs
      split at hs
      · rename_i hc
        simp only [Option.some.injEq] at hs; subst hs
        refine ⟨?_, ?_, w3, ?_, ?_⟩
        · intro t ht; by_cases htm : t = m
          · subst htm; simp at ht
          · simp [upd_other _ _ htm] at ht ⊢; exact w1 t ht
        · intro t r e hse; by_cases htm : t = m
          · subst htm; simp at hse ⊢; exact w2 t r e hse
          · simp [upd_other _ _ htm] at hse ⊢; exact w2 t r e hse
        · intro t sub hsub; by_cases htm : t = m
          · subst htm; simp at hsub; exact w4 t sub hsub
          · simp [upd_other _ _ htm] at hsub; exact w4 t sub hsub
        · intro t sub hsub hq hst
          have hsub' : sub ∈ (s.task t).cur := by
            by_cases htm : t = m
            · subst htm; simpa using hsub
            · simpa [upd_other _ _ htm] using hsub
          refine awaited_mono (s := s) (fun d p hp => by exact hp) ?_ (w5 t sub hsub' hq hst)
          intro d hd
          by_cases hdm : d = m
          · subst hdm; rw [hc.1] at hd; simp at hd
          · simp [upd_other _ _ hdm]; exact hd
      · simp at hs
    | spawn t0 ops =>
      simp only at hs
      split at hs
      · rename_i hc
        simp only [Option.some.injEq] at hs; subst hs
        refine ⟨?_, ?_, w3, ?_, ?_⟩
        · intro t ht; by_cases htm : t = t0
          · subst htm; simp at ht
          · simp [upd_other _ _ htm] at ht ⊢; exact w1 t ht
        · intro t r e hse; by_cases htm : t = t0
          · subst htm; simp at hse
          · simp [upd_other _ _ htm] at hse ⊢; exact w2 t r e hse
        · intro t sub hsub; by_cases htm : t = t0
          · subst htm; simp at hsub; exact w4 t sub hsub
          · simp [upd_other _ _ htm] at hsub; exact w4 t sub hsub
        · intro t sub hsub hq hst
          have hsub' : sub ∈ (s.task t).cur := by
            by_cases htm : t = t0
            · subst htm; simpa using hsub
            · simpa [upd_other _ _ htm] using hsub
          refine awaited_mono (s := s) (fun d p hp => by exact hp) ?_ (w5 t sub hsub' hq hst)
          intro d hd
          by_cases hdm : d = t0
          · subst hdm
            rcases hc.2.1 with h1 | h1 <;> (rw [h1] at hd; simp at hd)
          · simp [upd_other _ _ hdm]; exact hd
      · simp at hs
    | start t0 =>
      simp only at hs
      split at hs
      · rename_i op ops hph hcur hrest
        simp only [Option.some.injEq] at hs; subst hs
        refine ⟨?_, ?_, ?_, ?_, ?_⟩
        · intro t ht; by_cases htm : t = t0
          · subst htm; simp at ht; exact absurd hph ht
          · simp [upd_other _ _ htm] at ht ⊢; exact w1 t ht
        · intro t r e hse; by_cases htm : t = t0
          · subst htm; simp at hse ⊢
            have := w2 t r e hse
            refine ⟨by omega, ?_⟩
            intro sub hsub
            have := mkSubs_ge _ _ sub hsub; omega
          · simp [upd_other _ _ htm] at hse ⊢
            have := w2 t r e hse
            exact ⟨by omega, this.2⟩
        · intro m p hp; have := w3 m p hp; simp; omega
        · intro t sub hsub; by_cases htm : t = t0
          · subst htm; simp at hsub; exact mkSubs_sink _ _ sub hsub
          · simp [upd_other _ _ htm] at hsub; exact w4 t sub hsub
        · intro t sub hsub hq hst
          by_cases htm : t = t0
          · subst htm; simp at hsub
            rw [mkSubs_toPush _ _ sub hsub] at hst; simp at hst
          · simp [upd_other _ _ htm] at hsub
            refine awaited_mono (s := s) (fun d p hp => by exact hp) ?_ (w5 t sub hsub hq hst)
            intro d hd
            by_cases hdm : d = t0
            · subst hdm; simp; exact hd
            · simp [upd_other _ _ hdm]; exact hd
      · simp at hs
    | push t0 i =>
      simp only at hs
      split at hs
      · rename_i sub0 hsub0
        have hsubmem : sub0 ∈ (s.task t0).cur := List.mem_of_getElem? hsub0
        split at hs
        · rename_i hst0
          split at hs
          · rename_i k hk
            simp only [Option.some.injEq] at hs; subst hs
            refine ⟨?_, ?_, w3, ?_, ?_⟩
            · intro t ht; by_cases htm : t = t0
              · subst htm; simp at ht
                have := w1 t ht; rw [this] at hsubmem; simp at hsubmem
              · simp [upd_other _ _ htm] at ht ⊢; exact w1 t ht
            · intro t r e hse; by_cases htm : t = t0
              · subst htm; simp at hse ⊢
                have := w2 t r e hse
                refine ⟨this.1, ?_⟩
                intro x hx
                rcases mem_setSt' hx with hx | ⟨y, hy, rfl⟩
                · exact this.2 x hx
                · exact this.2 y (List.mem_of_getElem? hy)
              · simp [upd_other _ _ htm] at hse ⊢; exact w2 t r e hse
            · intro t x hx; by_cases htm : t = t0
              · subst htm; simp at hx
                rcases mem_setSt' hx with hx | ⟨y, hy, rfl⟩
                · exact w4 t x hx
                · exact w4 t y (List.mem_of_getElem? hy)
              · simp [upd_other _ _ htm] at hx; exact w4 t x hx
            · intro t x hx hq hst
              have hfr : ∀ d, (s.task d).phase = .busy →
                  ((upd s.task t0 { s.task t0 with cur := setSt (s.task t0).cur i .pushed }) d).phase = .busy ∧
                  ((upd s.task t0 { s.task t0 with cur := setSt (s.task t0).cur i .pushed }) d).serving = (s.task d).serving := by
                intro d hd
                by_cases hdm : d = t0
                · subst hdm; simp; exact hd
                · simp [upd_other _ _ hdm]; exact hd
              by_cases htm : t = t0
              · subst htm; simp at hx
                rcases mem_setSt' hx with hx | ⟨y, hy, rfl⟩
                · exact awaited_mono (s := s) (fun d p hp => hp) hfr (w5 t x hx hq hst)
                · rw [hsub0] at hy; simp at hy; subst hy
                  have := w4 t sub0 hsubmem k hk
                  simp at hq; rw [this] at hq; simp at hq
              · simp [upd_other _ _ htm] at hx
                exact awaited_mono (s := s) (fun d p hp => hp) hfr (w5 t x hx hq hst)
          · simp only [Option.some.injEq] at hs; subst hs
            exact ⟨w1, w2, w3, w4, fun t x hx hq hst => awaited_mono (s := s) (fun d p hp => hp) (fun d hd => ⟨hd, rfl⟩) (w5 t x hx hq hst)⟩
          · rename_i d0 hd0
            split at hs
            · simp only [Option.some.injEq] at hs; subst hs
              have hfr : ∀ d, (s.task d).phase = .busy →
                  ((upd s.task t0 { s.task t0 with cur := setSt (s.task t0).cur i .pushed }) d).phase = .busy ∧
                  ((upd s.task t0 { s.task t0 with cur := setSt (s.task t0).cur i .pushed }) d).serving = (s.task d).serving := by
                intro d hd
                by_cases hdm : d = t0
                · subst hdm; simp; exact hd
                · simp [upd_other _ _ hdm]; exact hd
              have hmb : ∀ d p, p ∈ s.mbox d → p ∈ (upd s.mbox d0 (s.mbox d0 ++ [⟨sub0.eid, t0, sub0.payload, sub0.query, sub0.eid :: (s.task t0).past⟩])) d := by
                intro d p hp
                by_cases hdd : d = d0
                · subst hdd; simp; exact Or.inl hp
                · simp [upd_other _ _ hdd]; exact hp
              refine ⟨?_, ?_, ?_, ?_, ?_⟩
              · intro t ht; by_cases htm : t = t0
                · subst htm; simp at ht
                  have := w1 t ht; rw [this] at hsubmem; simp at hsubmem
                · simp [upd_other _ _ htm] at ht ⊢; exact w1 t ht
              · intro t r e hse; by_cases htm : t = t0
                · subst htm; simp at hse ⊢
                  have := w2 t r e hse
                  refine ⟨this.1, ?_⟩
                  intro x hx
                  rcases mem_setSt' hx with hx | ⟨y, hy, rfl⟩
                  · exact this.2 x hx
                  · exact this.2 y (List.mem_of_getElem? hy)
                · simp [upd_other _ _ htm] at hse ⊢; exact w2 t r e hse
              · intro m p hp
                by_cases hmd : m = d0
                · subst hmd; simp at hp
                  rcases hp with hp | rfl
                  · exact w3 m p hp
                  · exact hF.bound t0 _ (List.mem_map_of_mem hsubmem)
                · simp [upd_other _ _ hmd] at hp; exact w3 m p hp
              · intro t x hx; by_cases htm : t = t0
                · subst htm; simp at hx
                  rcases mem_setSt' hx with hx | ⟨y, hy, rfl⟩
                  · exact w4 t x hx
                  · exact w4 t y (List.mem_of_getElem? hy)
                · simp [upd_other _ _ htm] at hx; exact w4 t x hx
              · intro t x hx hq hst
                by_cases htm : t = t0
                · subst htm; simp at hx
                  rcases mem_setSt' hx with hx | ⟨y, hy, rfl⟩
                  · exact awaited_mono (s := s) hmb hfr (w5 t x hx hq hst)
                  · rw [hsub0] at hy; simp at hy; subst hy
                    simp at hq
                    refine ⟨d0, hd0, Or.inl ⟨⟨sub0.eid, t, sub0.payload, sub0.query, sub0.eid :: (s.task t).past⟩, ?_, rfl, rfl, hq⟩⟩
                    simp
                · simp [upd_other _ _ htm] at hx
                  exact awaited_mono (s := s) hmb hfr (w5 t x hx hq hst)
            · simp at hs
        · simp at hs
      · simp at hs
    | deliver m =>
      simp only at hs
      split at hs
      · rename_i p ps hph hmb
        simp only [Option.some.injEq] at hs; subst hs
        have hcur : (s.task m).cur = [] := w1 m (by rw [hph]; simp)
        refine ⟨?_, ?_, ?_, ?_, ?_⟩
        · intro t ht; by_cases htm : t = m
          · subst htm; simp at ht
          · simp [upd_other _ _ htm] at ht ⊢; exact w1 t ht
        · intro t r e hse; by_cases htm : t = m
          · subst htm; simp at hse ⊢
            rw [hcur]
            refine ⟨?_, by simp⟩
            rw [← hse.2.2]; exact w3 t p (by rw [hmb]; simp)
          · simp [upd_other _ _ htm] at hse ⊢; exact w2 t r e hse
        · intro m' q hq
          by_cases hmm : m' = m
          · subst hmm; simp at hq; exact w3 m' q (by rw [hmb]; simp [hq])
          · simp [upd_other _ _ hmm] at hq; exact w3 m' q hq
        · intro t sub hsub; by_cases htm : t = m
          · subst htm; simp at hsub; exact w4 t sub hsub
          · simp [upd_other _ _ htm] at hsub; exact w4 t sub hsub
        · intro t sub hsub hq hst
          have hsub' : sub ∈ (s.task t).cur := by
            by_cases htm : t = m
            · subst htm; simpa using hsub
            · simpa [upd_other _ _ htm] using hsub
          obtain ⟨d, hd, hdis⟩ := w5 t sub hsub' hq hst
          refine ⟨d, hd, ?_⟩
          by_cases hdm : d = m
          · subst hdm
            rcases hdis with ⟨q, hq1, hq2, hq3, hq4⟩ | ⟨h1, _⟩
            · rw [hmb] at hq1
              simp at hq1
              rcases hq1 with rfl | hq1
              · right; simp [hq4, hq3, hq2]
              · left; exact ⟨q, by simp [hq1], hq2, hq3, hq4⟩
            · rw [hph] at h1; simp at h1
          · rcases hdis with ⟨q, hq1, hq2⟩ | ⟨h1, h2⟩
            · left; exact ⟨q, by simp [upd_other _ _ hdm]; exact hq1, hq2⟩
            · right; simp [upd_other _ _ hdm]; exact ⟨h1, h2⟩
      · simp at hs
    | opDone t0 =>
      simp only at hs
      split at hs
      · rename_i hc
        simp only [Option.some.injEq] at hs; subst hs
        refine ⟨?_, ?_, w3, ?_, ?_⟩
        · intro t ht; by_cases htm : t = t0
          · subst htm; simp
          · simp [upd_other _ _ htm] at ht ⊢; exact w1 t ht
        · intro t r e hse; by_cases htm : t = t0
          · subst htm; simp at hse ⊢; exact (w2 t r e hse).1
          · simp [upd_other _ _ htm] at hse ⊢; exact w2 t r e hse
        · intro t sub hsub; by_cases htm : t = t0
          · subst htm; simp at hsub
          · simp [upd_other _ _ htm] at hsub; exact w4 t sub hsub
        · intro t sub hsub hq hst
          by_cases htm : t = t0
          · subst htm; simp at hsub
          · simp [upd_other _ _ htm] at hsub
            refine awaited_mono (s := s) (fun d p hp => by exact hp) ?_ (w5 t sub hsub hq hst)
            intro d hd
            by_cases hdm : d = t0
            · subst hdm; simp; exact hd
            · simp [upd_other _ _ hdm]; exact hd
      · simp at hs
    | finish t0 =>
      simp only at hs
      split at hs
      · rename_i hc
        split at hs
        · rename_i hserv
          simp only [Option.some.injEq] at hs; subst hs
          refine ⟨?_, ?_, w3, ?_, ?_⟩
          · intro t ht; by_cases htm : t = t0
            · subst htm; simp; exact hc.2.1
            · simp [upd_other _ _ htm] at ht ⊢; exact w1 t ht
          · intro t r e hse; by_cases htm : t = t0
            · subst htm; simp at hse
            · simp [upd_other _ _ htm] at hse ⊢; exact w2 t r e hse
          · intro t sub hsub; by_cases htm : t = t0
            · subst htm; simp at hsub; exact w4 t sub hsub
            · simp [upd_other _ _ htm] at hsub; exact w4 t sub hsub
          · intro t sub hsub hq hst
            have hsub' : sub ∈ (s.task t).cur := by
              by_cases htm : t = t0
              · subst htm; simpa using hsub
              · simpa [upd_other _ _ htm] using hsub
            obtain ⟨d, hd, hdis⟩ := w5 t sub hsub' hq hst
            refine ⟨d, hd, ?_⟩
            rcases hdis with hl | ⟨h1, h2⟩
            · exact Or.inl hl
            · right
              by_cases hdm : d = t0
              · subst hdm; rw [hserv] at h2; simp at h2
              · simp [upd_other _ _ hdm]; exact ⟨h1, h2⟩
        · rename_i r e hserv
          simp only [Option.some.injEq] at hs; subst hs
          -- the new task table
          have htask : ∀ t, ((upd (upd s.task r { s.task r with cur := markReplied (s.task r).cur e (P.reply t0 (s.task t0).handling), past := pjoin (s.task t0).past (s.task r).past }) t0
                { (upd s.task r { s.task r with cur := markReplied (s.task r).cur e (P.reply t0 (s.task t0).handling), past := pjoin (s.task t0).past (s.task r).past } t0) with
                  phase := (if P.isModel t0 = true then Phase.idle else Phase.finished), serving := none }) t).cur
              = if t = r then markReplied (s.task r).cur e (P.reply t0 (s.task t0).handling) else (s.task t).cur := by
            intro t
            by_cases htm : t = t0
            · subst htm
              by_cases hr : t = r
              · subst hr; simp
              · simp [upd_other _ _ hr, hr]
            · by_cases hr : t = r
              · subst hr; simp [upd_other _ _ htm]
              · simp [upd_other _ _ htm, upd_other _ _ hr, hr]
          have hphase : ∀ t, t ≠ t0 → ((upd (upd s.task r { s.task r with cur := markReplied (s.task r).cur e (P.reply t0 (s.task t0).handling), past := pjoin (s.task t0).past (s.task r).past }) t0
                { (upd s.task r { s.task r with cur := markReplied (s.task r).cur e (P.reply t0 (s.task t0).handling), past := pjoin (s.task t0).past (s.task r).past } t0) with
                  phase := (if P.isModel t0 = true then Phase.idle else Phase.finished), serving := none }) t).phase = (s.task t).phase ∧
              ((upd (upd s.task r { s.task r with cur := markReplied (s.task r).cur e (P.reply t0 (s.task t0).handling), past := pjoin (s.task t0).past (s.task r).past }) t0
                { (upd s.task r { s.task r with cur := markReplied (s.task r).cur e (P.reply t0 (s.task t0).handling), past := pjoin (s.task t0).past (s.task r).past } t0) with
                  phase := (if P.isModel t0 = true then Phase.idle else Phase.finished), serving := none }) t).serving = (s.task t).serving := by
            intro t htm
            by_cases hr : t = r
            · subst hr; simp [upd_other _ _ htm]
            · simp [upd_other _ _ htm, upd_other _ _ hr]
          refine ⟨?_, ?_, w3, ?_, ?_⟩
          · intro t ht
            rw [htask]
            by_cases htm : t = t0
            · subst htm
              split
              · rename_i hr; subst hr; rw [hc.2.1]; simp [markReplied]
              · exact hc.2.1
            · rw [(hphase t htm).1] at ht
              have := w1 t ht
              split
              · rename_i hr; subst hr; rw [this]; simp [markReplied]
              · exact this
          · intro t r' e' hse
            by_cases htm : t = t0
            · subst htm; simp at hse
            · rw [(hphase t htm).2] at hse
              have := w2 t r' e' hse
              refine ⟨this.1, ?_⟩
              rw [htask]
              split
              · rename_i hr; subst hr
                intro x hx
                rcases mem_markReplied hx with ⟨hx, _⟩ | ⟨_, z, hz, hze, _⟩
                · exact this.2 x hx
                · rw [← hze]; exact this.2 z hz
              · exact this.2
          · intro t x hx k hk
            rw [htask] at hx
            split at hx
            · rename_i hr; subst hr
              rcases mem_markReplied hx with ⟨hx, _⟩ | ⟨_, z, hz, _, hzd, hzq⟩
              · exact w4 t x hx k hk
              · rw [← hzq]; exact w4 t z hz k (hzd ▸ hk)
            · exact w4 t x hx k hk
          · intro t x hx hq hst
            rw [htask] at hx
            have hold : x ∈ (s.task t).cur ∧ (t = r → ¬(x.eid = e ∧ x.st = .pushed)) := by
              split at hx
              · rename_i hr; subst hr
                rcases mem_markReplied hx with ⟨hx, hne⟩ | ⟨hrep, _⟩
                · exact ⟨hx, fun _ => hne⟩
                · rw [hrep] at hst; simp at hst
              · rename_i hr; exact ⟨hx, fun h => absurd h hr⟩
            obtain ⟨d, hd, hdis⟩ := w5 t x hold.1 hq hst
            refine ⟨d, hd, ?_⟩
            rcases hdis with hl | ⟨h1, h2⟩
            · exact Or.inl hl
            · right
              by_cases hdm : d = t0
              · subst hdm
                rw [hserv] at h2
                simp at h2
                exact absurd ⟨h2.2.symm, hst⟩ (hold.2 h2.1.symm)
              · rw [(hphase d hdm).1, (hphase d hdm).2]; exact ⟨h1, h2⟩
      · simp at hs

theorem reach_winv (P : Prog) {s : St} (h : Reach P s) : WInv s := by
  induction h with
  | init => exact winv_init
  | step l hr hs ih => exact winv_step P l _ _ (reach_finv P hr) (reach_inv P hr) ih hs

end NexoVerif.Net

namespace NexoVerif.Net
set_option linter.unusedSimpArgs false
set_option linter.unusedVariables false

theorem mem_getElem?_idx {α} {l : List α} {x : α} (h : x ∈ l) : ∃ i : Nat, l[i]? = some x := by
  obtain ⟨i, hi, hx⟩ := List.getElem_of_mem h
  exact ⟨i, by rw [List.getElem?_eq_getElem hi, hx]⟩

theorem not_all_exists {α} (l : List α) (f : α → Bool) (h : ¬ l.all f = true) : ∃ x ∈ l, f x = false := by
  induction l with
  | nil => simp at h
  | cons a r ih =>
    by_cases ha : f a = true
    · have : ¬ r.all f = true := by
        intro hr; apply h; simp only [List.all_cons, ha, hr, Bool.and_self]
      obtain ⟨x, hx, hfx⟩ := ih this
      exact ⟨x, by simp [hx], hfx⟩
    · exact ⟨a, by simp, by simpa using ha⟩

/-- a busy task that cannot move, in a state without queued messages, waits for a reply -/
theorem busy_has_awaiting (P : Prog) {s : St} (hf : s.fault = none) (hq : ∀ l, step P l s = none)
    (hempty : ∀ m, s.mbox m = []) (hcap : ∀ d, 1 ≤ P.cap d) (t : Nat) (hb : (s.task t).phase = .busy) :
    ∃ sub ∈ (s.task t).cur, sub.query = true ∧ sub.st = .pushed := by
  cases hcur : (s.task t).cur with
  | nil =>
    cases hrest : (s.task t).rest with
    | nil =>
      have := hq (.finish t)
      simp only [step, hf, Option.isSome_none, Bool.false_eq_true, if_false, hb, hcur, hrest, and_self, if_true] at this
      split at this <;> simp at this
    | cons op ops =>
      have := hq (.start t)
      simp [step, hf, hb, hcur, hrest] at this
  | cons c cs =>
    by_cases hall : (s.task t).cur.all Sub.done = true
    · have := hq (.opDone t)
      simp [step, hf, hb, hcur] at this
      rw [hcur] at hall
      simp at hall
      obtain ⟨x, hx, hnd⟩ := this hall.1
      exact absurd (hall.2 x hx) (by simp [hnd])
    · rw [← hcur]
      have hall' : ∃ sub ∈ (s.task t).cur, sub.done = false := not_all_exists _ _ hall
      obtain ⟨sub, hsub, hnd⟩ := hall'
      have hpush : sub.st ≠ .toPush := by
        intro hst
        obtain ⟨i, hi⟩ := mem_getElem?_idx hsub
        have := hq (.push t i)
        simp only [step, hf, Option.isSome_none, Bool.false_eq_true, if_false, hi, hst, if_true] at this
        split at this
        · simp at this
        · simp at this
        · rename_i d hd
          have hl : (s.mbox d).length < P.cap d := by rw [hempty d]; simp; exact hcap d
          simp [hl] at this
      refine ⟨sub, hsub, ?_⟩
      unfold Sub.done at hnd
      by_cases hqr : sub.query = true
      · simp [hqr] at hnd
        refine ⟨hqr, ?_⟩
        cases hst : sub.st with
        | toPush => exact absurd hst hpush
        | pushed => rfl
        | replied => exact absurd hst hnd
      · simp [hqr] at hnd
        exact absurd hnd hpush

/-- no chain of tasks waiting for each other's replies can exist: event ids grow along it -/
theorem no_awaiting (P : Prog) {s : St} (h : Reach P s) (hf : s.fault = none) (hq : ∀ l, step P l s = none)
    (hempty : ∀ m, s.mbox m = []) (hcap : ∀ d, 1 ≤ P.cap d) :
    ∀ n t sub, sub ∈ (s.task t).cur → sub.query = true → sub.st = .pushed → s.nextEid - sub.eid ≤ n → False := by
  have hF := reach_finv P h
  have hW := reach_winv P h
  intro n
  induction n with
  | zero =>
    intro t sub hsub _ _ hn
    have := hF.bound t sub.eid (List.mem_map_of_mem hsub)
    omega
  | succ n ih =>
    intro t sub hsub hqr hst hn
    obtain ⟨d, hd, hdis⟩ := hW.await t sub hsub hqr hst
    rcases hdis with ⟨p, hp, _⟩ | ⟨hb, hserv⟩
    · rw [hempty d] at hp; simp at hp
    · obtain ⟨sub', hsub', hq', hst'⟩ := busy_has_awaiting P hf hq hempty hcap d hb
      have h1 := (hW.servLt d t sub.eid hserv).2 sub' hsub'
      exact ih d sub' hsub' hq' hst' (by omega)

/-- **at quiescence with nothing queued, no task is half-way** -/
theorem quiescent_ok_no_busy (P : Prog) {s : St} (h : Reach P s) (hf : s.fault = none) (hq : ∀ l, step P l s = none)
    (hc : s.count = 0) (hcap : ∀ d, 1 ≤ P.cap d) (t : Nat) : (s.task t).phase ≠ .busy := by
  intro hb
  have hempty := (count_zero_iff (reach_inv P h)).mp hc
  obtain ⟨sub, hsub, hq', hst'⟩ := busy_has_awaiting P hf hq hempty hcap t hb
  exact no_awaiting P h hf hq hempty hcap (s.nextEid - sub.eid) t sub hsub hq' hst' (Nat.le_refl _)

end NexoVerif.Net
